(** C13 — Exchange records and their lookups stay consistent, and listings are complete.
    Only theorem statements here; each is closed by [exact] of a lemma proved in
    Proofs/IndexProofs.v or Proofs/PagingProofs.v about the models Exchange/Index.v (byte-level
    store keys) and Exchange/Paging.v (the pagination routines).

    Histories: [run ops] folds [step] over ANY list of operations (create, cancel, set external id,
    settlement incl. partial fill, market closure, payment create/accept-reject/cancel/retarget),
    failed operations leaving the state unchanged.  The hypothesis [length ops < 2^64-1] is
    needed because [nextOrderID] is uint64 arithmetic: after 2^64-1 creations it wraps to 0 and
    would reuse ids ([C13_ids_wrap_example]).  Order ids, market ids are Go uint64 / uint32: the
    statements quantify over [id < 2^64], [m < 2^32] (the model's keys reduce larger numbers mod
    2^64 / 2^32, so a larger number would alias the order of its residue). *)
From Coq Require Import ZArith NArith List Bool Sorted.
Import ListNotations.
From PV Require Import Exchange.KV Exchange.Index Exchange.Paging Exchange.Commit Proofs.C13Glue Proofs.PagingSdkProofs
  Proofs.CommitProofs Proofs.PagingMaxProofs Proofs.MarketsPagingProofs Proofs.RespellProofs
  Exchange.KeyTable Exchange.KeyCoverage Gen.GenExchangeKeys Proofs.KeyCoverageProofs
  Exchange.GenesisImport Proofs.GenesisImportProofs Proofs.GenesisCommitProofs.
Open Scope N_scope.

(** Every open order is fetchable by id (that is [open]) and is listed exactly once (strictly
    ascending ids, so no duplicates) in its market's, its owner's and its asset's lookup and in the
    all-orders listing; nothing else is listed there.  For the by-asset lookup this is what the
    FIXED code guarantees: an index entry counts only if its key suffix after the requested denom
    is exactly 8 bytes, so the orders listed for denom [d] are exactly those with [o_asset o = d]
    even when another denom extends [d]. *)
Theorem C13_index_consistent : forall ops,
  N.of_nat (length ops) < u64max ->
  let s := run ops in
  (forall m, m < two32 ->
     StronglySorted N.lt (by_market s m) /\
     forall id, id < two64 ->
       (In id (by_market s m) <-> exists o, get_order s id = Some o /\ o_market o = m)) /\
  (forall a,
     StronglySorted N.lt (by_owner s a) /\
     forall id, id < two64 ->
       (In id (by_owner s a) <-> exists o, get_order s id = Some o /\ o_owner o = a)) /\
  (forall d,
     StronglySorted N.lt (by_asset s d) /\
     forall id, id < two64 ->
       (In id (by_asset s d) <-> exists o, get_order s id = Some o /\ o_asset o = d)) /\
  (StronglySorted N.lt (all_orders s) /\
   forall id, id < two64 -> (In id (all_orders s) <-> exists o, get_order s id = Some o)) /\
  (forall m e id o, m < two32 -> id < two64 ->
     (get_order_by_ext s m e = Some (id, o) <->
      (get_order s id = Some o /\ o_market o = m /\ o_ext o = e /\ e <> []))).
Proof. exact index_consistent. Qed.
Print Assumptions C13_index_consistent.

(** The type byte stored in every market/owner/asset index entry is the order's type, so the
    order-type filter of the listings selects exactly the asks or the bids. *)
Theorem C13_index_types : forall ops,
  N.of_nat (length ops) < u64max ->
  let s := run ops in
  forall p id t,
    (exists m, m < two32 /\ p = p_mkt m) \/ (exists a, p = p_addr a) \/ (exists d, p = p_asset d) ->
    In (id, t) (index_scan s p) ->
    exists o, get_order s id = Some o /\ ty_byte o = t.
Proof. exact index_types. Qed.
Print Assumptions C13_index_types.

(** Before commit c4d7ece23 the by-asset lookup was NOT exact: an order of asset "aaab" was
    listed under "aaa". *)
Theorem C13_by_asset_unfixed_refuted :
  exists ops d id o,
    In id (by_asset_unfixed (run ops) d) /\ get_order (run ops) id = Some o /\ o_asset o <> d.
Proof. exact by_asset_unfixed_refuted. Qed.
Print Assumptions C13_by_asset_unfixed_refuted.

(** Order ids strictly increase along a history (never reused), start at 1, and every open order
    carries an id that was handed out by a creation of this history. *)
Theorem C13_ids_fresh : forall ops,
  N.of_nat (length ops) < u64max ->
  StronglySorted N.lt (created_from init ops) /\
  (forall id, In id (created_from init ops) -> 1 <= id <= last_order_id (run ops)) /\
  (forall id o, id < two64 -> get_order (run ops) id = Some o -> In id (created_from init ops)).
Proof. exact ids_fresh. Qed.
Print Assumptions C13_ids_fresh.

(** Why the length bound is there: at the uint64 limit the counter wraps to 0. *)
Example C13_ids_wrap_example :
  snd (next_order_id [(k_last, VBytes (u64be u64max))]) = 0.
Proof. vm_compute. reflexivity. Qed.

(** External ids are unique within a market. *)
Theorem C13_external_id_unique : forall ops,
  N.of_nat (length ops) < u64max ->
  let s := run ops in
  forall id1 o1 id2 o2,
    id1 < two64 -> id2 < two64 ->
    get_order s id1 = Some o1 -> get_order s id2 = Some o2 ->
    o_market o1 = o_market o2 -> o_ext o1 = o_ext o2 -> o_ext o1 <> [] ->
    id1 = id2.
Proof. exact external_id_unique. Qed.
Print Assumptions C13_external_id_unique.

(** Payments: at most one per (source, external id); the all-payments and by-source listings
    show exactly the stored payments; the by-target listing shows a payment exactly under its
    CURRENT target (and payments without a target under no target).
    Accounts are BYTES here ([p_source], [p_target]); the stored record also carries which of the
    two bech32 SPELLINGS (lower / upper case) each address string has, and the histories contain
    creations, acceptances and target changes in either spelling, [OPayRetarget] onto the account
    a payment already names in the other spelling included (the code compares STRINGS to decide
    whether the target changed and builds index keys from BYTES): after any such history the
    target index lists a payment under exactly the bytes of its current target. *)
Theorem C13_payments : forall ops,
  let s := run ops in
  (NoDup (map (fun p => (p_source p, p_ext p)) (all_payments s)) /\
   forall p, In p (all_payments s) <-> get_payment s (p_source p) (p_ext p) = Some p) /\
  (forall src,
     NoDup (map p_ext (payments_of_source s src)) /\
     forall p, In p (payments_of_source s src) <->
               (get_payment s (p_source p) (p_ext p) = Some p /\ p_source p = src)) /\
  (forall t,
     NoDup (map (fun p => (p_source p, p_ext p)) (payments_of_target s t)) /\
     forall p, In p (payments_of_target s t) <->
               (get_payment s (p_source p) (p_ext p) = Some p /\ p_target p = t /\ t <> [])).
Proof. exact payments_consistent. Qed.
Print Assumptions C13_payments.

(** [matching hit l reverse after] (Exchange/Paging.v) is the complete listing: the hits among the
    entries at or after the after-order start key, in iteration order.
    filteredPaginateAfterOrder, any prefix-store contents [l] (strictly ascending keys), any hit
    test whose hits have non-empty keys (index hits have 8-byte keys), any limit >= 1, forward or
    reverse, any after-order bound: following next_key from the first page, and separately paging
    by offsets 0, limit, 2*limit, ..., returns every matching entry exactly once, in order; and
    count_total reports their number. *)
Theorem C13_paging_complete : forall V (hit : key -> V -> bool) (l : list (key * V))
    (limit : N) (reverse : bool) (after : N) (fuel : nat),
  sorted_keys l ->
  (forall k v, In (k, v) l -> hit k v = true -> k <> []) ->
  1 <= limit ->
  N.of_nat (length l) + limit + 1 < two64 ->
  (length l < fuel)%nat ->
  follow_keys (fun rq => filtered_paginate_after_order hit l rq after) fuel limit reverse []
    = Some (matching hit l reverse after) /\
  follow_offsets (fun rq => filtered_paginate_after_order hit l rq after) fuel limit reverse 0
    = Some (matching hit l reverse after) /\
  (exists items next,
     filtered_paginate_after_order hit l
       {| pr_key := []; pr_offset := 0; pr_limit := limit; pr_count_total := true;
          pr_reverse := reverse |} after
     = Some (items, {| ps_next := next; ps_total := N.of_nat (length (matching hit l reverse after)) |})).
Proof. exact paging_complete. Qed.
Print Assumptions C13_paging_complete.

(** ... and every index listing of every reachable state meets those hypotheses, for every
    order-type filter: market, owner and asset listings page completely. *)
Theorem C13_paging_complete_index : forall ops p otype limit reverse after fuel,
  let l := pstore (run ops) p in
  1 <= limit ->
  N.of_nat (length l) + limit + 1 < two64 ->
  (length l < fuel)%nat ->
  follow_keys (fun rq => filtered_paginate_after_order (index_hit otype) l rq after) fuel limit reverse []
    = Some (matching (index_hit otype) l reverse after) /\
  follow_offsets (fun rq => filtered_paginate_after_order (index_hit otype) l rq after) fuel limit reverse 0
    = Some (matching (index_hit otype) l reverse after).
Proof. exact paging_complete_index. Qed.
Print Assumptions C13_paging_complete_index.

(** The after-order bound is exclusive: for 0 < after < 2^64-1 exactly the ids greater than
    [after] pass; at after = 2^64-1 (not incremented since commit cd8a0fb50) only the id 2^64-1
    itself passes, which [C13_ids_fresh] shows is never handed out. *)
Theorem C13_after_bound : forall after id,
  id < two64 -> 0 < after -> after < two64 ->
  ge_start (after_start after) (u64be id) =
  if after =? u64max then (id =? u64max) else (after <? id).
Proof. exact after_bound. Qed.
Print Assumptions C13_after_bound.

(** Before commit cd8a0fb50 ([afterOrderID + 1] unconditionally) the bound 2^64-1 wrapped to 0 and
    let every order through. *)
Theorem C13_after_bound_unfixed_refuted :
  exists id, id < u64max /\
    ge_start (Some (u64be (wrap64 (u64max + 1)))) (u64be id) = true.
Proof. exact after_bound_unfixed_refuted. Qed.
Print Assumptions C13_after_bound_unfixed_refuted.

(** query.Paginate (payments listings) pages completely by keys when no entry of the prefix
    store has an EMPTY key ... *)
Theorem C13_paging_payments_except_empty_key : forall V (l : list (key * V))
    (limit : N) (reverse : bool) (fuel : nat),
  sorted_keys l ->
  (forall k v, In (k, v) l -> k <> []) ->
  1 <= limit ->
  N.of_nat (length l) + limit + 1 < two64 ->
  (length l < fuel)%nat ->
  follow_keys (fun rq => sdk_paginate l rq) fuel limit reverse []
    = Some (if reverse then rev l else l) /\
  follow_offsets (fun rq => sdk_paginate l rq) fuel limit reverse 0
    = Some (if reverse then rev l else l).
Proof. exact sdk_paging_complete. Qed.
Print Assumptions C13_paging_payments_except_empty_key.

(** ... but the full statement is FALSE for the payments-of-a-source listing: a payment whose
    external id is empty has the empty prefix-store key; in reverse order it comes last, its
    next_key is empty, and a client following next_key never receives it (FINDING, see
    findings/C13.md). *)
Theorem C13_paging_payments_refuted :
  exists ops src limit,
    1 <= limit /\
    let l := pstore (run ops) (p_pay_src src) in
    exists got, follow_keys (fun rq => sdk_paginate l rq) 10 limit true [] = Some got /\
                (length got < length l)%nat.
Proof. exact sdk_paging_refuted. Qed.
Print Assumptions C13_paging_payments_refuted.

(** ---- query.FilteredPaginate (GetAllOrders, GetAllMarkets) and query.Paginate ---- *)

(** query.FilteredPaginate: in key mode NextKey is the next ENTRY after [limit] hits (not the next
    hit as in filteredPaginateAfterOrder), in offset mode it is the key of hit number
    offset+limit+1.  For every strictly sorted prefix store whose keys are non-empty, every hit
    test, every limit >= 1 and both directions: following next_key, and paging by offsets, return
    every matching entry exactly once in order, and count_total is their number. *)
Theorem C13_paging_complete_sdk_filtered : forall V (hit : key -> V -> bool) (l : list (key * V))
    (limit : N) (reverse : bool) (fuel : nat),
  sorted_keys l ->
  (forall k v, In (k, v) l -> k <> []) ->
  1 <= limit ->
  N.of_nat (length l) + limit + 1 < two64 ->
  (length l < fuel)%nat ->
  follow_keys (fun rq => sdk_filtered_paginate hit l rq) fuel limit reverse []
    = Some (matching hit l reverse 0) /\
  follow_offsets (fun rq => sdk_filtered_paginate hit l rq) fuel limit reverse 0
    = Some (matching hit l reverse 0) /\
  (exists items next,
     sdk_filtered_paginate hit l
       {| pr_key := []; pr_offset := 0; pr_limit := limit; pr_count_total := true;
          pr_reverse := reverse |}
     = Some (items, {| ps_next := next; ps_total := N.of_nat (length (matching hit l reverse 0)) |})).
Proof. exact sdk_filtered_paging_complete. Qed.
Print Assumptions C13_paging_complete_sdk_filtered.

(** ... and GetAllOrders of every reachable state meets those hypotheses: every entry under the
    order prefix has an 8-byte key and is a hit, so paging GetAllOrders returns every open order
    exactly once, in id order (or reversed), with the exact total. *)
Theorem C13_paging_complete_all_orders : forall ops limit reverse fuel,
  let l := pstore (run ops) p_all_orders in
  N.of_nat (length ops) < u64max ->
  1 <= limit ->
  N.of_nat (length l) + limit + 1 < two64 ->
  (length l < fuel)%nat ->
  follow_keys (fun rq => sdk_filtered_paginate all_orders_hit l rq) fuel limit reverse []
    = Some (if reverse then rev l else l) /\
  follow_offsets (fun rq => sdk_filtered_paginate all_orders_hit l rq) fuel limit reverse 0
    = Some (if reverse then rev l else l) /\
  (exists items next,
     sdk_filtered_paginate all_orders_hit l
       {| pr_key := []; pr_offset := 0; pr_limit := limit; pr_count_total := true; pr_reverse := reverse |}
     = Some (items, {| ps_next := next; ps_total := N.of_nat (length l) |})).
Proof. exact paging_complete_all_orders. Qed.
Print Assumptions C13_paging_complete_all_orders.

(** query.Paginate reports the exact number of entries as count_total ... *)
Theorem C13_paginate_count_total : forall V (l : list (key * V)) (limit : N) (reverse : bool),
  1 <= limit ->
  exists items next,
    sdk_paginate l {| pr_key := []; pr_offset := 0; pr_limit := limit; pr_count_total := true;
                      pr_reverse := reverse |}
    = Some (items, {| ps_next := next; ps_total := N.of_nat (length l) |}).
Proof. exact sdk_paginate_count_total. Qed.
Print Assumptions C13_paginate_count_total.

(** ... the all-payments and payments-with-target listings of every reachable state have no empty
    prefix-store key, so they page completely in both directions (the known finding is confined to
    payments-with-SOURCE) ... *)
Theorem C13_paging_complete_payments_all_target : forall ops p limit reverse fuel,
  let l := pstore (run ops) p in
  (p = p_all_pay \/ exists t, p = p_tgt t) ->
  1 <= limit ->
  N.of_nat (length l) + limit + 1 < two64 ->
  (length l < fuel)%nat ->
  follow_keys (fun rq => sdk_paginate l rq) fuel limit reverse [] = Some (if reverse then rev l else l) /\
  follow_offsets (fun rq => sdk_paginate l rq) fuel limit reverse 0 = Some (if reverse then rev l else l).
Proof. exact paging_complete_payments_all_target. Qed.
Print Assumptions C13_paging_complete_payments_all_target.

(** ... and in the FORWARD direction query.Paginate is complete for every sorted prefix store, an
    empty key included (only the first entry can have it and a forward next_key is never the first
    entry): the payments-with-source finding is confined to reverse paging. *)
Theorem C13_paging_payments_forward_complete : forall V (l : list (key * V)) (limit : N) (fuel : nat),
  sorted_keys l -> 1 <= limit -> N.of_nat (length l) + limit + 1 < two64 -> (length l < fuel)%nat ->
  follow_keys (fun rq => sdk_paginate l rq) fuel limit false [] = Some l /\
  follow_offsets (fun rq => sdk_paginate l rq) fuel limit false 0 = Some l.
Proof. exact sdk_paging_complete_forward. Qed.
Print Assumptions C13_paging_payments_forward_complete.

(** ---- the maximum page limit (2^64-1, the SDK's PaginationMaxLimit) ---- *)

(** With the clamp of commit 9f0ea4287, filteredPaginateAfterOrder with limit = 2^64-1 returns
    EVERYTHING that is left after the offset in one page, with no next key and the exact total:
    for every hit test (type filter), both directions, every after-order bound, every offset and
    either count_total flag.  ([max_limit_req offset ct reverse] is the request with key = nil and
    limit = 2^64-1.)  Key-mode requests do no arithmetic on the limit and are covered by
    [C13_paging_complete]. *)
Theorem C13_max_limit_one_page : forall V (hit : key -> V -> bool) (l : list (key * V))
    (offset : N) (ct reverse : bool) (after : N),
  N.of_nat (length l) < u64max -> offset < two64 ->
  filtered_paginate_after_order hit l (max_limit_req offset ct reverse) after
  = Some (skipn (N.to_nat offset) (matching hit l reverse after),
          {| ps_next := [];
             ps_total := if ct then N.of_nat (length (matching hit l reverse after)) else 0 |}).
Proof. exact fpao_max_limit_one_page. Qed.
Print Assumptions C13_max_limit_one_page.

(** Before that commit ([end := offset + limit] and [end + 1] in plain uint64 arithmetic) the same
    request returned NOTHING and a next key as soon as the first iterated entry was not a hit:
    market 1 holding bid 1 and ask 2, type filter "bid", reverse (the finding's minimal history),
    and the same with filter "ask" forward. *)
Theorem C13_max_limit_unclamped_refuted :
  exists ops p otype reverse,
    let l := pstore (run ops) p in
    matching (index_hit otype) l reverse 0 <> [] /\
    exists next, next <> [] /\
      filtered_paginate_after_order_unclamped (index_hit otype) l (max_limit_req 0 false reverse) 0
      = Some ([], {| ps_next := next; ps_total := 0 |}).
Proof. exact fpao_unclamped_refuted. Qed.
Print Assumptions C13_max_limit_unclamped_refuted.

(** ---- commitments and market ids (model Exchange/Commit.v) ---- *)

(** Joint histories: ANY sequence of order, payment, commitment and market operations ([xop];
    MsgGovCloseMarket acts on orders and commitments at once) decomposes into a history of
    Exchange/Index.v and a history of Exchange/Commit.v, so every theorem above holds of
    [fst (xrun xs)] and every theorem below of [snd (xrun xs)]. *)
Theorem C13_joint_histories : forall xs,
  fst (xrun xs) = run (flat_map proj_o xs) /\ snd (xrun xs) = crun (flat_map proj_c xs).
Proof. exact (fun xs => conj (xrun_fst xs) (xrun_snd xs)). Qed.
Print Assumptions C13_joint_histories.

(** A market id identifies at most one market: over ALL histories of market creations (automatic
    or explicit ids, also ids whose derived address already holds a foreign account), commitment
    operations and closures, the ids handed out by successful creations are pairwise different, the
    market listing (IterateKnownMarketIDs) is strictly ascending and lists exactly the created
    ids, and every market's address holds an account. *)
Theorem C13_market_ids : forall ops, let s := crun ops in
  NoDup (markets_created_from cinit ops) /\
  StronglySorted N.lt (known_markets (cs_kv s)) /\
  (forall m, m < two32 -> (In m (known_markets (cs_kv s)) <-> In m (markets_created_from cinit ops))) /\
  (forall m, In m (markets_created_from cinit ops) -> m < two32 /\ In m (cs_accts s)).
Proof. exact market_ids. Qed.
Print Assumptions C13_market_ids.

(** Each successful creation uses an id that identified no market before, the requested id when
    one was given, and never removes a market. *)
Theorem C13_market_creation_fresh : forall ops id acc s' mid,
  create_market (crun ops) id acc = Some (s', mid) ->
  mid < two32 /\
  ~ In mid (known_markets (cs_kv (crun ops))) /\
  In mid (known_markets (cs_kv s')) /\
  (id <> 0 -> mid = id) /\
  (forall m, In m (known_markets (cs_kv (crun ops))) -> In m (known_markets (cs_kv s'))).
Proof. exact create_market_fresh. Qed.
Print Assumptions C13_market_creation_fresh.

(** nextMarketID: the id it hands out is not in use, becomes the last automatic id, and (unless
    the uint32 counter could wrap) is the SMALLEST unused id above the previous automatic id; its
    loop terminates within (number of store entries + 1) iterations. *)
Theorem C13_next_market_id : forall kv kv' mid,
  next_market_id kv = Some (kv', mid) ->
  mid < two32 /\ has kv (k_known mid) = false /\ last_market_id kv' = mid /\
  (last_market_id kv + N.of_nat (length kv) + 1 < two32 ->
     last_market_id kv < mid /\ forall j, last_market_id kv < j -> j < mid -> has kv (k_known j) = true).
Proof. exact next_market_id_spec. Qed.
Print Assumptions C13_next_market_id.

Theorem C13_next_market_id_terminates : forall kv id,
  sorted_keys kv -> id < two32 -> N.of_nat (length kv) < two32 ->
  next_free (S (length kv)) kv id <> None.
Proof. exact next_free_total. Qed.
Print Assumptions C13_next_market_id_terminates.

(** Commitments: after ANY history of commit / release / settle-commitments / close-market (and
    market operations), GetMarketCommitments, GetAllCommitments and GetAccountCommitments list
    exactly the non-zero entries of the commitment store ([get_commitment] = GetCommitment), each
    (market, account) once, nothing else; every stored amount is a valid non-zero sdk.Coins and
    its market exists. *)
Theorem C13_commitments_consistent : forall ops, let kv := cs_kv (crun ops) in
  (forall m, m < two32 ->
     NoDup (map fst (market_commitments kv m)) /\
     forall a c, In (a, c) (market_commitments kv m) <-> (a <> [] /\ c <> [] /\ get_commitment kv m a = c)) /\
  (NoDup (map fst (all_commitments kv)) /\
   (forall m a c, In (m, a, c) (all_commitments kv) -> m < two32) /\
   forall m a c, m < two32 -> (In (m, a, c) (all_commitments kv) <-> (a <> [] /\ c <> [] /\ get_commitment kv m a = c))) /\
  (forall a, a <> [] ->
     NoDup (map fst (account_commitments kv a)) /\
     forall m c, m < two32 -> (In (m, c) (account_commitments kv a) <-> (c <> [] /\ get_commitment kv m a = c))) /\
  (forall m a, m < two32 -> a <> [] -> get_commitment kv m a <> [] ->
     cvalid (get_commitment kv m a) = true /\ In m (known_markets kv)).
Proof. exact commitments_consistent. Qed.
Print Assumptions C13_commitments_consistent.

(** Paging the commitment listings (query.Paginate over the all-commitments or a per-market prefix
    store of any reachable state): following next_key and paging by offsets both return every
    entry exactly once in order, in both directions, and every entry yields exactly one listed
    commitment (so the pages concatenate to the complete listing and a page holds [limit] items). *)
Theorem C13_paging_complete_commitments : forall ops p limit reverse fuel,
  let l := pstore (cs_kv (crun ops)) p in
  (p = p_commit_all \/ exists m, p = p_commit_mkt m) ->
  1 <= limit -> N.of_nat (length l) + limit + 1 < two64 -> (length l < fuel)%nat ->
  follow_keys (fun rq => sdk_paginate l rq) fuel limit reverse [] = Some (if reverse then rev l else l) /\
  follow_offsets (fun rq => sdk_paginate l rq) fuel limit reverse 0 = Some (if reverse then rev l else l).
Proof. exact paging_complete_commitments. Qed.
Print Assumptions C13_paging_complete_commitments.

Theorem C13_commitment_entries_listed : forall ops, let kv := cs_kv (crun ops) in
  (forall m e, m < two32 -> In e (pstore kv (p_commit_mkt m)) -> exists a c, commitment_of_entry e = [(a, c)]) /\
  (forall e, In e (pstore kv p_commit_all) -> exists m a c, commitment_of_entry_all e = [(m, a, c)]).
Proof. exact commitment_entries_listed. Qed.
Print Assumptions C13_commitment_entries_listed.

(** ---- address spellings ---- *)

(** The re-spelling step itself, after ANY history: a payment whose Target string is stored in
    upper case is "changed" to the same account (MsgChangePaymentTarget hands the keeper the
    canonical lower-case string, so this is not the "already has target" refusal; old and new index
    key are the same key): the change is accepted, the record carries the lower-case string
    ([relower p]), GetPayment still finds it and the target listing still shows it -- and everything
    it shows has that target. *)
Theorem C13_respelled_target_stays_listed : forall ops src e p,
  let s := run ops in
  get_payment s src e = Some p ->
  p_target p <> [] -> p_tgt_up p = true ->
  addr_ok src = true -> ext_ok e = true -> addr_ok (p_target p) = true ->
  exists s',
    retarget_payment s src e (p_target p) = Some s' /\
    s' = run (ops ++ [OPayRetarget src e (p_target p)]) /\
    get_payment s' src e = Some (relower p) /\
    In (relower p) (payments_of_target s' (p_target p)) /\
    (forall q, In q (payments_of_target s' (p_target p)) ->
               get_payment s' (p_source q) (p_ext q) = Some q /\ p_target q = p_target p).
Proof. exact respelled_target_stays_listed. Qed.
Print Assumptions C13_respelled_target_stays_listed.

(** Why setPaymentInStore deletes the old index entry BEFORE it writes the new one: with the two
    writes swapped ([set_payment_in_store_reordered], not the code of /repo) the re-spelled payment
    exists, names its target, and is listed nowhere. *)
Theorem C13_reordered_index_write_refuted :
  let s := run [OPayCreate respell_pay] in
  let s' := set_payment_in_store_reordered s (relower respell_pay) in
  get_payment s' respell_src [120] = Some (relower respell_pay) /\
  p_target (relower respell_pay) = respell_tgt /\
  payments_of_target s' respell_tgt = [] /\
  payments_of_target (set_payment_in_store s (relower respell_pay)) respell_tgt = [relower respell_pay].
Proof. exact reordered_index_write_refuted. Qed.
Print Assumptions C13_reordered_index_write_refuted.

(** ---- the market listing (GetAllMarkets: query.FilteredPaginate over the known market ids) ---- *)

(** After ANY history of market / commitment operations: following next_key and paging by offsets
    through GetAllMarkets with any limit >= 1 in either direction returns every entry of the
    known-market prefix store exactly once, in order; count_total is their number; every entry is a
    4-byte id of a known market (so every accumulated hit yields one listed market). *)
Theorem C13_paging_complete_markets : forall ops limit reverse fuel,
  let l := pstore (cs_kv (crun ops)) p_known in
  1 <= limit ->
  N.of_nat (length l) + limit + 1 < two64 ->
  (length l < fuel)%nat ->
  follow_keys (fun rq => sdk_filtered_paginate markets_hit l rq) fuel limit reverse []
    = Some (if reverse then rev l else l) /\
  follow_offsets (fun rq => sdk_filtered_paginate markets_hit l rq) fuel limit reverse 0
    = Some (if reverse then rev l else l) /\
  (exists items next,
     sdk_filtered_paginate markets_hit l
       {| pr_key := []; pr_offset := 0; pr_limit := limit; pr_count_total := true; pr_reverse := reverse |}
     = Some (items, {| ps_next := next; ps_total := N.of_nat (length l) |})) /\
  (forall e, In e l -> exists m, m < two32 /\ u32_from_bz (fst e) = Some m /\
                                 In m (known_markets (cs_kv (crun ops)))).
Proof. exact paging_complete_markets. Qed.
Print Assumptions C13_paging_complete_markets.

(** ---- the maximum limit (2^64-1) on the SDK paginators ---- *)

(** query.Paginate (payments and commitment listings), key = nil, offset 0, limit 2^64-1: the end
    bound is 2^64-1 and [end + 1] wraps to 0, which no count reaches: EVERY entry is returned in one
    page, no next key, exact total -- for every prefix store, both directions. *)
Theorem C13_max_limit_sdk_paginate_one_page : forall V (l : list (key * V)) (ct reverse : bool),
  N.of_nat (length l) < u64max ->
  sdk_paginate l (max_limit_req 0 ct reverse)
  = Some ((if reverse then rev l else l),
          {| ps_next := []; ps_total := if ct then N.of_nat (length l) else 0 |}).
Proof. exact sdk_paginate_max_limit_one_page. Qed.
Print Assumptions C13_max_limit_sdk_paginate_one_page.

(** query.FilteredPaginate (GetAllOrders, GetAllMarkets) with the same request, when every entry
    is a hit ... *)
Theorem C13_max_limit_sdk_filtered_one_page : forall V (hit : key -> V -> bool) (l : list (key * V))
    (ct reverse : bool),
  N.of_nat (length l) < u64max ->
  (forall k v, In (k, v) l -> hit k v = true) ->
  sdk_filtered_paginate hit l (max_limit_req 0 ct reverse)
  = Some ((if reverse then rev l else l),
          {| ps_next := []; ps_total := if ct then N.of_nat (length l) else 0 |}).
Proof. exact sdk_filtered_max_limit_one_page. Qed.
Print Assumptions C13_max_limit_sdk_filtered_one_page.

(** ... which is the case for both listings in every reachable state ... *)
Theorem C13_max_limit_markets_one_page : forall ops ct reverse,
  let l := pstore (cs_kv (crun ops)) p_known in
  N.of_nat (length l) < u64max ->
  sdk_filtered_paginate markets_hit l (max_limit_req 0 ct reverse)
  = Some ((if reverse then rev l else l),
          {| ps_next := []; ps_total := if ct then N.of_nat (length l) else 0 |}).
Proof. exact max_limit_markets_one_page. Qed.
Print Assumptions C13_max_limit_markets_one_page.

Theorem C13_max_limit_all_orders_one_page : forall ops ct reverse,
  let l := pstore (run ops) p_all_orders in
  N.of_nat (length ops) < u64max ->
  N.of_nat (length l) < u64max ->
  sdk_filtered_paginate all_orders_hit l (max_limit_req 0 ct reverse)
  = Some ((if reverse then rev l else l),
          {| ps_next := []; ps_total := if ct then N.of_nat (length l) else 0 |}).
Proof. exact max_limit_all_orders_one_page. Qed.
Print Assumptions C13_max_limit_all_orders_one_page.

(** ... and NOT in general: query.FilteredPaginate has no clamp (filteredPaginateAfterOrder got one
    in commit 9f0ea4287); with a leading entry that is not a hit numHits = 0 = end + 1 and the page
    comes back EMPTY with a next key.  No exchange endpoint reaches this (the two listings that use
    it have hits only). *)
Theorem C13_max_limit_sdk_filtered_refuted :
  exists (hit : key -> unit -> bool) (l : list (key * unit)),
    sorted_keys l /\ matching hit l false 0 <> [] /\
    exists next, next <> [] /\
      sdk_filtered_paginate hit l (max_limit_req 0 false false)
      = Some ([], {| ps_next := next; ps_total := 0 |}).
Proof. exact sdk_filtered_max_limit_refuted. Qed.
Print Assumptions C13_max_limit_sdk_filtered_refuted.

(** Remark (not reachable by a client that pages from the start: the first page has no next key):
    an OFFSET >= 1 together with limit 2^64-1 makes offset + limit wrap to offset - 1, and
    query.Paginate returns an empty page. *)
Theorem C13_max_limit_sdk_offset_remark : forall V (l : list (key * V)) (offset : N) (reverse : bool),
  1 <= offset -> offset < two64 -> N.of_nat (length l) < u64max ->
  exists next,
    sdk_paginate l (max_limit_req offset false reverse) = Some ([], {| ps_next := next; ps_total := 0 |}).
Proof. exact sdk_paginate_max_limit_offset_empty. Qed.
Print Assumptions C13_max_limit_sdk_offset_remark.

(** ---- genesis import (InitGenesis: the indexes are REBUILT, not copied) ---- *)

(** [init_genesis xinit g = Some s0]: GenesisState.Validate passed and Keeper.InitGenesis did not
    panic on the empty store (Exchange/GenesisImport.v).  The genesis may carry orders under ANY
    pairwise different non-zero ids (with gaps, in any order), any denoms, external ids, payments
    and owners in either address spelling.  For EVERY such genesis and EVERY later history [ops]:
    all order lookups are exact (the statement of [C13_index_consistent], about the state reached
    from the imported one) ... *)
Theorem C13_genesis_index_consistent : forall g s0 ops,
  init_genesis xinit g = Some s0 ->
  g_last_order g + N.of_nat (length ops) < u64max ->
  let s := run_from (fst s0) ops in
  (forall m, m < two32 ->
     StronglySorted N.lt (by_market s m) /\
     forall id, id < two64 ->
       (In id (by_market s m) <-> exists o, get_order s id = Some o /\ o_market o = m)) /\
  (forall a,
     StronglySorted N.lt (by_owner s a) /\
     forall id, id < two64 ->
       (In id (by_owner s a) <-> exists o, get_order s id = Some o /\ o_owner o = a)) /\
  (forall d,
     StronglySorted N.lt (by_asset s d) /\
     forall id, id < two64 ->
       (In id (by_asset s d) <-> exists o, get_order s id = Some o /\ o_asset o = d)) /\
  (StronglySorted N.lt (all_orders s) /\
   forall id, id < two64 -> (In id (all_orders s) <-> exists o, get_order s id = Some o)) /\
  (forall m e id o, m < two32 -> id < two64 ->
     (get_order_by_ext s m e = Some (id, o) <->
      (get_order s id = Some o /\ o_market o = m /\ o_ext o = e /\ e <> []))).
Proof. exact genesis_index_consistent. Qed.
Print Assumptions C13_genesis_index_consistent.

(** ... right after the import exactly the genesis orders are open; ids created later are above
    LastOrderId (strictly increasing), so they never collide with an imported order ... *)
Theorem C13_genesis_ids_fresh : forall g s0 ops,
  init_genesis xinit g = Some s0 ->
  g_last_order g + N.of_nat (length ops) < u64max ->
  StronglySorted N.lt (created_from (fst s0) ops) /\
  (forall id, In id (created_from (fst s0) ops) ->
     g_last_order g < id /\ id <= last_order_id (run_from (fst s0) ops)) /\
  (forall id o, id < two64 -> get_order (run_from (fst s0) ops) id = Some o ->
     In id (map fst (g_orders g)) \/ In id (created_from (fst s0) ops)) /\
  (forall id o, id < two64 -> (get_order (fst s0) id = Some o <-> In (id, o) (g_orders g))).
Proof. exact genesis_ids_fresh. Qed.
Print Assumptions C13_genesis_ids_fresh.

(** ... external ids stay unique per market ... *)
Theorem C13_genesis_external_id_unique : forall g s0 ops,
  init_genesis xinit g = Some s0 ->
  g_last_order g + N.of_nat (length ops) < u64max ->
  let s := run_from (fst s0) ops in
  forall id1 o1 id2 o2,
    id1 < two64 -> id2 < two64 ->
    get_order s id1 = Some o1 -> get_order s id2 = Some o2 ->
    o_market o1 = o_market o2 -> o_ext o1 = o_ext o2 -> o_ext o1 <> [] ->
    id1 = id2.
Proof. exact genesis_external_id_unique. Qed.
Print Assumptions C13_genesis_external_id_unique.

(** ... the payment listings are exact (the statement of [C13_payments]) and right after the import
    exactly the genesis payments are stored ... *)
Theorem C13_genesis_payments : forall g s0 ops,
  init_genesis xinit g = Some s0 ->
  let s := run_from (fst s0) ops in
  ((NoDup (map (fun p => (p_source p, p_ext p)) (all_payments s)) /\
    forall p, In p (all_payments s) <-> get_payment s (p_source p) (p_ext p) = Some p) /\
   (forall src,
      NoDup (map p_ext (payments_of_source s src)) /\
      forall p, In p (payments_of_source s src) <->
                (get_payment s (p_source p) (p_ext p) = Some p /\ p_source p = src)) /\
   (forall t,
      NoDup (map (fun p => (p_source p, p_ext p)) (payments_of_target s t)) /\
      forall p, In p (payments_of_target s t) <->
                (get_payment s (p_source p) (p_ext p) = Some p /\ p_target p = t /\ t <> []))) /\
  (forall p, In p (all_payments (fst s0)) <-> In p (g_pays g)).
Proof. exact genesis_payments_consistent. Qed.
Print Assumptions C13_genesis_payments.

(** ... a market id identifies at most one market across the import (ids created later differ from
    the imported ones) ... *)
Theorem C13_genesis_market_ids : forall g s0 ops, init_genesis xinit g = Some s0 ->
  let s := crun_from (snd s0) ops in
  NoDup (map fst (g_markets g) ++ markets_created_from (snd s0) ops) /\
  StronglySorted N.lt (known_markets (cs_kv s)) /\
  (forall m, m < two32 -> (In m (known_markets (cs_kv s)) <->
       In m (map fst (g_markets g)) \/ In m (markets_created_from (snd s0) ops))) /\
  (forall m, In m (map fst (g_markets g)) \/ In m (markets_created_from (snd s0) ops) ->
       m < two32 /\ In m (cs_accts s)).
Proof. exact genesis_market_ids. Qed.
Print Assumptions C13_genesis_market_ids.

(** ... the commitment listings are exact (the statement of [C13_commitments_consistent]), and the
    imported commitment of a (market, account) is the SUM of its genesis entries ... *)
Theorem C13_genesis_commitments : forall g s0 ops, init_genesis xinit g = Some s0 ->
  let kv := cs_kv (crun_from (snd s0) ops) in
  (forall m, m < two32 ->
     NoDup (map fst (market_commitments kv m)) /\
     forall a c, In (a, c) (market_commitments kv m) <-> (a <> [] /\ c <> [] /\ get_commitment kv m a = c)) /\
  (NoDup (map fst (all_commitments kv)) /\
   (forall m a c, In (m, a, c) (all_commitments kv) -> m < two32) /\
   forall m a c, m < two32 -> (In (m, a, c) (all_commitments kv) <-> (a <> [] /\ c <> [] /\ get_commitment kv m a = c))) /\
  (forall a, a <> [] ->
     NoDup (map fst (account_commitments kv a)) /\
     forall m c, m < two32 -> (In (m, c) (account_commitments kv a) <-> (c <> [] /\ get_commitment kv m a = c))) /\
  (forall m a, m < two32 -> a <> [] -> get_commitment kv m a <> [] ->
     cvalid (get_commitment kv m a) = true /\ In m (known_markets kv)).
Proof. exact genesis_commitments_consistent. Qed.
Print Assumptions C13_genesis_commitments.

Theorem C13_genesis_commitment_sums : forall g s0 m a, init_genesis xinit g = Some s0 -> m < two32 ->
  get_commitment (cs_kv (snd s0)) m a
  = fold_left (fun acc c => if (fst (fst c) =? m) && bytes_eqb (snd (fst c)) a
                            then cadd acc (snd c) else acc) (g_commits g) [].
Proof. exact genesis_commitment_sums. Qed.
Print Assumptions C13_genesis_commitment_sums.

(** ... and joint histories from an imported state decompose as from the empty one. *)
Theorem C13_genesis_joint : forall g s0 xs, init_genesis xinit g = Some s0 ->
  fst (xrun_from s0 xs) = run_from (fst s0) (flat_map proj_o xs) /\
  snd (xrun_from s0 xs) = crun_from (snd s0) (flat_map proj_c xs).
Proof. exact genesis_joint. Qed.
Print Assumptions C13_genesis_joint.

(** Non-vacuity: [example_genesis] (orders 7 and 3 given out of order on denoms "Aaa" / "aaa", a
    commitment in two entries, a payment with an upper-case target) is imported, and a genesis that
    carries one external id twice in one market passes Validate but is refused by InitGenesis. *)
Example C13_genesis_nonvacuous :
  (exists s0, init_genesis xinit example_genesis = Some s0 /\
     by_asset (fst s0) [65;97;97] = [7] /\ by_asset (fst s0) [97;97;97] = [3] /\
     all_orders (fst s0) = [3;7] /\ last_order_id (fst s0) = 9 /\
     length (payments_of_target (fst s0) [2;2;2]) = 1%nat) /\
  (exists s0, init_genesis xinit example_genesis = Some s0 /\
     known_markets (cs_kv (snd s0)) = [2; 5] /\
     market_commitments (cs_kv (snd s0)) 2 = [([1;1;1], [(aaa, 5%Z); (bbb, 1%Z)])] /\
     last_market_id (cs_kv (snd s0)) = 2) /\
  (valid_genesis clash_genesis = true /\ init_genesis xinit clash_genesis = None).
Proof. exact (conj example_genesis_imports (conj example_genesis_commit_ok duplicate_external_id_refused)). Qed.

(** ---- tie to the source: the key prefixes of x/exchange/keeper/keys.go ---- *)

(** [gen_exchange_key_consts] is regenerated from keys.go on every run (translate/exchkeys): every
    constant declared there -- 13 top-level type bytes, 14 per-market sub-bytes, the order type
    bytes, the separator, 3 params strings -- has a row in the reviewed table
    Exchange/KeyCoverage.v with the SAME value, either naming the model definition that lays out
    keys with it or giving the reason it is out of scope; no row is stale; no function of keys.go
    builds a key from a raw literal; and the modelled bytes are the bytes the models use.  A new
    prefix, a changed value or a raw literal in the source makes this false. *)
Theorem C13_key_prefixes_covered :
  all_covered gen_exchange_key_consts = true /\
  no_stale_rows gen_exchange_key_consts = true /\
  model_bytes_ok = true.
Proof. exact exchange_key_prefixes_covered. Qed.
Print Assumptions C13_key_prefixes_covered.

(** Non-vacuity for the commitment / market part: the example history creates markets 1, 2 (auto)
    and 5 (explicit), is refused the automatic id 3 (a foreign account sits on its address) and a
    second market 5, and ends with commitments in markets 1 and 5 after a release, a settlement
    and the closure of market 2. *)
Example C13_commitments_nonvacuous :
  let s := crun example_chistory in
  markets_created_from cinit example_chistory = [1; 2; 5] /\
  known_markets (cs_kv s) = [1; 2; 5] /\
  market_commitments (cs_kv s) 1 = [([1;1;1], [(aaa, 5%Z)]); ([2;2;2], [(bbb, 11%Z)])] /\
  account_commitments (cs_kv s) [1;1;1] = [(1, [(aaa, 5%Z)]); (5, [(aaa, 1%Z)])] /\
  market_commitments (cs_kv s) 2 = [].
Proof. exact example_chistory_ok. Qed.

(** Non-vacuity: a concrete history (two markets, denoms "aaa"/"aaab", a partial fill, an
    external-id change, a cancellation) reaches a state with open orders whose listings are
    non-empty, and paging its asset listing with limit 1 takes several pages. *)
Example C13_nonvacuous :
  let s := run example_history in
  by_asset s [97;97;97] = [1; 4] /\ by_asset s [97;97;97;98] = [2] /\
  by_market s 1 = [1; 2] /\ get_order_by_ext s 1 [120] <> None /\
  follow_keys (fun rq => filtered_paginate_after_order (index_hit None) (pstore s (p_asset [97;97;97])) rq 0)
     5 1 true [] = Some (matching (index_hit None) (pstore s (p_asset [97;97;97])) true 0) /\
  length (matching (index_hit None) (pstore s (p_asset [97;97;97])) true 0) = 2%nat.
Proof. exact example_history_ok. Qed.
