(** C06 — Sanctioned accounts cannot move funds, and sanction status follows governance.
    Only theorem statements here; each is closed by [exact] of a lemma proved in
    Proofs/SanctionProofs.v about the model Sanction/Sanction.v.  Histories start from [init]
    (no entries, no proposals, arbitrary non-negative immediate minimum deposits, arbitrary
    balances, any unsanctionable set and gov minimum deposit) and run any list of operations:
    proposal submission, deposits, votes, cancellation, block boundaries (the EndBlocker resolves
    proposals as expired / passed / failed / rejected), direct sanction messages with and
    without the governance authority, sends, multi-sends, many-to-one transfers, delegations,
    fee payments, funding.  Proposals may be expedited; votes are weighted ballots (Yes / Abstain /
    No / NoWithVeto in permille) of the one voter; the second half of the file holds the
    statements about the individual resolutions (quorum not reached, veto, rejected, passed but a
    message failed, expired, expedited conversion), message order inside a proposal, the funding of
    temporary entries, exact clean-up, and the byte-level store keys. *)
From Coq Require Import ZArith NArith List Bool.
Import ListNotations.
From PV Require Import Sanction.Sanction Sanction.Keys Proofs.SanctionProofs Proofs.SanctionDeep Proofs.SanctionKeysProofs.
Open Scope Z_scope.

(** An address is sanctioned exactly when the temporary entry of the highest-numbered proposal
    that has one for it says "sanction", or it has no temporary entry and is permanently
    sanctioned. *)
Theorem C06_status_characterisation : forall c sm um fid t0 b0 bb0 ops a,
  (0 <= fst sm /\ 0 <= snd sm) -> (0 <= fst um /\ 0 <= snd um) ->
  let s := run c (init sm um fid t0 b0 bb0) ops in
  is_sanctioned c s a = true <->
  (exists p, temp_entry s a p = Some true /\ forall q b, temp_entry s a q = Some b -> (q <= p)%N) \/
  ((forall q, temp_entry s a q = None) /\ In a (perm s)).
Proof.
  intros c sm um fid t0 b0 bb0 ops a Hs Hu. exact (status_characterisation c _ a (Inv_run c _ ops (Inv_init c sm um fid t0 b0 bb0 Hs Hu))).
Qed.
Print Assumptions C06_status_characterisation.

(** Protected addresses are never sanctioned: not reported as such, never in the permanent set,
    never the subject of a temporary sanction entry. *)
Theorem C06_unsanctionable_never : forall c sm um fid t0 b0 bb0 ops a,
  (0 <= fst sm /\ 0 <= snd sm) -> (0 <= fst um /\ 0 <= snd um) ->
  In a (c_unsanct c) ->
  let s := run c (init sm um fid t0 b0 bb0) ops in
  is_sanctioned c s a = false /\ ~ In a (perm s) /\ forall p, temp_entry s a p <> Some true.
Proof.
  intros c sm um fid t0 b0 bb0 ops a Hs Hu Ha. exact (unsanctionable_never c _ a (Inv_run c _ ops (Inv_init c sm um fid t0 b0 bb0 Hs Hu)) Ha).
Qed.
Print Assumptions C06_unsanctionable_never.

(** After any history, no operation whatsoever (accepted or not) decreases a balance (either
    denom) of an account that is sanctioned when the operation starts ... *)
Theorem C06_no_outflow_while_sanctioned : forall c sm um fid t0 b0 bb0 ops o a,
  (0 <= fst sm /\ 0 <= snd sm) -> (0 <= fst um /\ 0 <= snd um) ->
  let s := run c (init sm um fid t0 b0 bb0) ops in
  is_sanctioned c s a = true ->
  bal s a <= bal (fst (step c s o)) a /\ balb s a <= balb (fst (step c s o)) a.
Proof.
  intros c sm um fid t0 b0 bb0 ops o a Hs Hu. exact (no_outflow c _ o a (Inv_run c _ ops (Inv_init c sm um fid t0 b0 bb0 Hs Hu))).
Qed.
Print Assumptions C06_no_outflow_while_sanctioned.

(** ... while it can still receive: a funded, unsanctioned sender's transfer to it is accepted
    and credited in full, whatever the receiver's status. *)
Theorem C06_inflow_allowed : forall c s from to amt,
  0 < amt <= bal s from -> 0 <= balb s from -> is_sanctioned c s from = false -> from <> to ->
  exists s', step c s (OSend from to amt) = (s', true) /\ bal s' to = bal s to + amt.
Proof. exact inflow_allowed. Qed.
Print Assumptions C06_inflow_allowed.

(** Whenever a proposal stops being in its deposit or voting period by anything other than its
    cancellation (expired in deposit, passed, failed on execution, rejected: all through the
    EndBlocker), none of its temporary entries is left. *)
Theorem C06_temp_cleared_on_resolution : forall c sm um fid t0 b0 bb0 ops o p,
  (0 <= fst sm /\ 0 <= snd sm) -> (0 <= fst um /\ 0 <= snd um) ->
  let s := run c (init sm um fid t0 b0 bb0) ops in
  is_live s p = true -> is_live (fst (step c s o)) p = false -> (forall who, o <> OCancel who p) ->
  forall a, temp_entry (fst (step c s o)) a p = None.
Proof.
  intros c sm um fid t0 b0 bb0 ops o p Hs Hu. exact (cleared_on_resolution c _ o p (Inv_run c _ ops (Inv_init c sm um fid t0 b0 bb0 Hs Hu))).
Qed.
Print Assumptions C06_temp_cleared_on_resolution.

(** The strongest true global form: after any history, a temporary entry in the store belongs to
    a proposal that is still in deposit/voting period or to one whose cancellation was accepted
    earlier in the history.  (Entries of cancelled proposals are the only stale ones.) *)
Theorem C06_stale_entries_only_from_cancelled : forall c sm um fid t0 b0 bb0 ops a p b,
  (0 <= fst sm /\ 0 <= snd sm) -> (0 <= fst um /\ 0 <= snd um) ->
  let s0 := init sm um fid t0 b0 bb0 in
  temp_entry (run c s0 ops) a p = Some b ->
  is_live (run c s0 ops) p = true \/
  exists pre who post, ops = pre ++ OCancel who p :: post /\
                       snd (step c (run c s0 pre) (OCancel who p)) = true.
Proof.
  intros c sm um fid t0 b0 bb0 ops a p b Hs Hu s0 H.
  exact (temps_origin c s0 ops (Inv_init c sm um fid t0 b0 bb0 Hs Hu) eq_refl a p b (lookup_In _ _ _ _ H)).
Qed.
Print Assumptions C06_stale_entries_only_from_cancelled.

(** The clause "once a proposal has ... been cancelled none of its temporary entries remain in
    force" is FALSE of the code (known finding): the proposer submits a sanction proposal with a
    deposit at the immediate minimum, the target is sanctioned at once; the proposer cancels the
    proposal (MsgCancelProposal: the SDK calls no hook); the proposal is gone, the entry stays,
    the target remains sanctioned although it is not permanently sanctioned, also after later
    blocks. *)
Theorem C06_cancel_leaves_temp_refuted :
  exists c sm um fid t0 b0 bb0 ops who p a,
    let s0 := init sm um fid t0 b0 bb0 in
    let s := run c s0 ops in
    (0 <= fst sm /\ 0 <= snd sm) /\ (0 <= fst um /\ 0 <= snd um) /\
    snd (step c s (OCancel who p)) = true /\               (* the cancellation is accepted *)
    let s' := run c s0 (ops ++ [OCancel who p; ONewBlock (t0 + 1000) 100; ONewBlock (t0 + 2000) 100]) in
    is_live s' p = false /\ temp_entry s' a p = Some true /\
    is_sanctioned c s' a = true /\ ~ In a (perm s') /\
    snd (step c s' (OSend a who 1)) = false.               (* and it still cannot move funds *)
Proof.
  exists {| c_unsanct := [5%N; 6%N]; c_gov_min := (1000, 20); c_exp_min := (5000, 0); c_thr := 500; c_exp_thr := 667; c_veto := 334; c_burn_veto := true; c_burn_quorum := false; c_burn_prevote := false |}, (300, 0), (400, 0), 1%N, 0, (fun _ => 5000), (fun _ => 100),
         [OSubmit 0%N [MSanction [1%N]] (300, 0) 200 250 false], 0%N, 1%N, 1%N.
  vm_compute. repeat split; try discriminate; try reflexivity. intros [].
Qed.
Print Assumptions C06_cancel_leaves_temp_refuted.

(** Sanction-module messages are honoured only with the governance authority. *)
Theorem C06_only_governance : forall c s m, step c s (ODirect false m) = (s, false).
Proof. exact only_governance. Qed.
Print Assumptions C06_only_governance.

(** ** The highest-numbered proposal decides, whatever the order in which deposits arrived. *)
Theorem C06_status_follows_highest_proposal : forall c sm um fid t0 b0 bb0 ops a p b,
  let s := run c (init sm um fid t0 b0 bb0) ops in
  temp_entry s a p = Some b -> (forall q x, temp_entry s a q = Some x -> (q <= p)%N) ->
  is_sanctioned c s a = if unsanct c a then false else b.
Proof. intros c sm um fid t0 b0 bb0 ops a p b; exact (status_follows_highest c _ a p b). Qed.
Print Assumptions C06_status_follows_highest_proposal.

(** Proposals 1, 2, 3 are submitted unfunded; the deposits arrive for 3 (sanction), then 2
    (unsanction), then 1 (sanction): account 1's status is proposal 3's throughout. *)
Example C06_interleaved_witness :
  let c := {| c_unsanct := [5%N; 6%N]; c_gov_min := (1000, 20); c_exp_min := (5000, 0); c_thr := 500; c_exp_thr := 667; c_veto := 334; c_burn_veto := true; c_burn_quorum := false; c_burn_prevote := false |} in
  let s0 := init (300, 0) (400, 0) 1%N 0 (fun _ => 9000) (fun _ => 100) in
  let h := [OSubmit 0%N [MSanction [1%N; 2%N]] (0, 0) 300 400 false; OSubmit 3%N [MUnsanction [1%N]] (0, 0) 300 400 false;
            OSubmit 3%N [MSanction [1%N]] (0, 0) 300 400 false; ODeposit 4%N 3%N (300, 0) 400] in
  let s1 := run c s0 h in
  let s2 := run c s0 (h ++ [ODeposit 4%N 2%N (400, 0) 400]) in
  let s3 := run c s0 (h ++ [ODeposit 4%N 2%N (400, 0) 400; ODeposit 4%N 1%N (300, 0) 400]) in
  (is_sanctioned c s1 1%N, is_sanctioned c s2 1%N, temp_entry s2 1%N 2%N, is_sanctioned c s3 1%N, temp_entry s3 1%N 1%N, is_sanctioned c s3 2%N)
  = (true, true, Some false, true, Some true, true).
Proof. vm_compute. reflexivity. Qed.

(** ** The tally of the one voter's (weighted) ballot: which ballots reject, and how. *)
Theorem C06_tally_outcomes : forall c expedited y a n w,
  tally c expedited None = (false, c_burn_quorum c) /\                                  (* quorum not reached *)
  (y + n + w = 0 -> tally c expedited (Some (y, a, n, w)) = (false, false)) /\           (* everybody abstains *)
  (y + n + w <> 0 -> c_veto c * (y + a + n + w) < w * 1000 ->
     tally c expedited (Some (y, a, n, w)) = (false, c_burn_veto c)) /\                 (* veto *)
  (y + n + w <> 0 -> w * 1000 <= c_veto c * (y + a + n + w) ->
     tally c expedited (Some (y, a, n, w)) =
       ((if expedited then c_exp_thr c else c_thr c) * (y + n + w) <? y * 1000, false)). (* threshold *)
Proof. exact tally_outcomes. Qed.
Print Assumptions C06_tally_outcomes.

(** ** The resolutions, one by one (on ANY state, for the proposal [pid] being resolved). *)

(** Minimum deposit not reached at the end of the deposit period: exactly the proposal's own
    temporary entries are deleted; entries of other proposals (for the same addresses or not), the
    permanent set and the params are untouched. *)
Theorem C06_expired_cleans_only_its_own : forall c s pid pr, get_prop pid (props s) = Some pr ->
  let s' := expire_one c s pid in
  temps s' = del_prop_temps pid (temps s) /\ perm s' = perm s /\ is_live s' pid = false /\
  smin s' = smin s /\ umin s' = umin s /\ (forall q, q <> pid -> is_live s' q = is_live s q).
Proof. exact expire_one_exact. Qed.
Print Assumptions C06_expired_cleans_only_its_own.

(** Rejected at the end of the voting period — quorum not reached (nobody voted), everybody
    abstains, veto (deposits burned when BurnVoteVeto), threshold not reached: same exact clean-up. *)
Theorem C06_rejected_cleans_only_its_own : forall c vp s pid pr burn,
  get_prop pid (props s) = Some pr -> p_expedited pr = false ->
  tally c false (p_vote pr) = (false, burn) ->
  let s' := tally_one c vp s pid in
  temps s' = del_prop_temps pid (temps s) /\ perm s' = perm s /\ is_live s' pid = false /\
  smin s' = smin s /\ umin s' = umin s /\ (forall q, q <> pid -> is_live s' q = is_live s q).
Proof. exact tally_one_rejected. Qed.
Print Assumptions C06_rejected_cleans_only_its_own.

(** Passed, but one of its messages fails (a sanction naming a protected address, a params
    update with a negative amount): everything the earlier messages of the same proposal did — the
    permanent sanctions / unsanctions AND their deletion of temporary entries, also those of other
    proposals — is rolled back, and the proposal's own temporary entries are removed. *)
Theorem C06_failed_execution_rolls_back : forall c vp s pid pr burn,
  get_prop pid (props s) = Some pr ->
  tally c (p_expedited pr) (p_vote pr) = (true, burn) ->
  existsb (bad_msg c) (p_msgs pr) = true ->
  let s' := tally_one c vp s pid in
  temps s' = del_prop_temps pid (temps s) /\ perm s' = perm s /\ is_live s' pid = false /\
  smin s' = smin s /\ umin s' = umin s /\ (forall q, q <> pid -> is_live s' q = is_live s q).
Proof. exact tally_one_failed. Qed.
Print Assumptions C06_failed_execution_rolls_back.

(** Passed and executed: every temporary entry (of ANY proposal) of every address named by the
    proposal's messages is deleted and no other; the permanent status of an address is decided by
    the LAST message naming it (message order). *)
Theorem C06_passed_applies_messages_in_order : forall c vp s pid pr burn,
  get_prop pid (props s) = Some pr ->
  tally c (p_expedited pr) (p_vote pr) = (true, burn) ->
  existsb (bad_msg c) (p_msgs pr) = false ->
  let s' := tally_one c vp s pid in
  temps s' = del_addr_temps (msg_addrs (p_msgs pr)) (temps s) /\
  (forall a, memN a (perm s') = match last_dir a (p_msgs pr) with Some b => b | None => memN a (perm s) end) /\
  is_live s' pid = false /\ (forall q, q <> pid -> is_live s' q = is_live s q).
Proof. exact tally_one_passed. Qed.
Print Assumptions C06_passed_applies_messages_in_order.

(** An expedited proposal that does not pass is converted to a regular one: it stays live, no
    balance moves (deposits kept), no permanent change, and the sanction hook looks at it a second
    time with the deposit and the params of THAT moment: entries as for a deposit, the last
    active message naming an address deciding; when an active sanction message names a protected
    address the hook fails and nothing is written (the EndBlocker goes on: see
    [C06_end_blocker_never_fails]). *)
Theorem C06_expedited_conversion : forall c vp s pid pr burn,
  get_prop pid (props s) = Some pr -> p_expedited pr = true ->
  tally c true (p_vote pr) = (false, burn) ->
  let s' := tally_one c vp s pid in
  let s1 := set_props s (put_prop (converted pr vp) (props s)) in
  s' = match run_hook c s1 (converted pr vp) with Some s2 => s2 | None => s1 end /\
  perm s' = perm s /\ bal s' = bal s /\ balb s' = balb s /\ is_live s' pid = true /\
  (existsb (fun m => msg_active s pr m && bad_sanction c m) (p_msgs pr) = true -> temps s' = temps s) /\
  (existsb (fun m => msg_active s pr m && bad_sanction c m) (p_msgs pr) = false ->
   forall a q, temp_entry s' a q =
     match last_dir a (filter (msg_active s pr) (p_msgs pr)) with
     | Some b => if N.eqb q pid then Some b else temp_entry s a q
     | None => temp_entry s a q
     end).
Proof. exact tally_one_converted. Qed.
Print Assumptions C06_expedited_conversion.

(** ** Several messages of one proposal naming the same address: for the temporary entry the
    LAST message whose immediate minimum is covered decides; the hook fails exactly when a covered
    sanction message names a protected address. *)
Theorem C06_temp_entry_last_message_wins : forall c s pr s' a q, run_hook c s pr = Some s' ->
  temp_entry s' a q =
  match last_dir a (filter (msg_active s pr) (p_msgs pr)) with
  | Some b => if N.eqb q (p_id pr) then Some b else temp_entry s a q
  | None => temp_entry s a q
  end.
Proof. exact run_hook_lookup. Qed.
Print Assumptions C06_temp_entry_last_message_wins.

Theorem C06_hook_fails_only_on_protected_address : forall c s pr,
  run_hook c s pr = None <-> existsb (fun m => msg_active s pr m && bad_sanction c m) (p_msgs pr) = true.
Proof. exact run_hook_fails. Qed.
Print Assumptions C06_hook_fails_only_on_protected_address.

(** ** Temporary entries appear only when funded, and at that moment.  After any history, if a
    reader of the store sees after operation [o] an entry (a, p) with value [b] that it did not
    see with that value before, then [o] was an accepted submission / deposit for proposal [p] whose
    total deposit now covers EVERY denom of the non-empty immediate minimum of the entry's kind
    (so a deposit covering one denom only creates nothing, an empty minimum = feature off creates
    nothing, a params change alone creates nothing, an earlier under-funded deposit created
    nothing), or [o] was a block boundary that converted the expedited proposal [p]. *)
Theorem C06_new_entries_only_when_funded : forall c sm um fid t0 b0 bb0 ops o a p b,
  (0 <= fst sm /\ 0 <= snd sm) -> (0 <= fst um /\ 0 <= snd um) ->
  let s := run c (init sm um fid t0 b0 bb0) ops in
  let s' := fst (step c s o) in
  temp_entry s' a p = Some b -> temp_entry s a p <> Some b ->
  snd (step c s o) = true /\
  match o with
  | OSubmit _ _ _ _ _ _ | ODeposit _ _ _ _ =>
      exists pr, get_prop p (props s') = Some pr /\
        let thr := if b then smin s' else umin s' in
        zero2 thr = false /\ (fst thr <= fst (total_deposit pr) /\ snd thr <= snd (total_deposit pr))
  | ONewBlock _ _ => exped s p = true /\ exped s' p = false /\ is_live s' p = true
  | _ => False
  end.
Proof.
  intros c sm um fid t0 b0 bb0 ops o a p b Hs Hu.
  exact (new_entries_step c _ o a p b (Inv_run c _ ops (Inv_init c sm um fid t0 b0 bb0 Hs Hu))).
Qed.
Print Assumptions C06_new_entries_only_when_funded.

(** ... and an accepted deposit DOES create them: afterwards the entry of every address for this
    proposal is what the last covered message naming it says (deposits arriving in several steps:
    the step that crosses the minimum is the one that creates the entries). *)
Theorem C06_deposit_creates_entries_at_that_moment : forall c s pid who amt vp s',
  add_deposit c s pid who amt vp = Some s' ->
  exists pr', get_prop pid (props s') = Some pr' /\
    forall a q, temp_entry s' a q =
      match last_dir a (filter (msg_active s' pr') (p_msgs pr')) with
      | Some b => if N.eqb q pid then Some b else temp_entry s a q
      | None => temp_entry s a q
      end.
Proof. exact add_deposit_entries. Qed.
Print Assumptions C06_deposit_creates_entries_at_that_moment.

(** ** A resolution cleans exactly its own entries.  Across a whole block boundary (any number of
    proposals expiring, being rejected, failing, passing, being converted): an address keeps its
    entry for a proposal that is still live afterwards, unless a proposal naming that address was
    resolved in this block.  (Together with the three "cleans only its own" theorems above: only
    a PASSED proposal removes entries of other proposals, and only for the addresses it names —
    that is the module's design, see [C06_passed_deletes_other_proposals_entries].) *)
Theorem C06_resolution_cleans_exactly_its_own_entries : forall c s t vp a q b,
  let s' := fst (step c s (ONewBlock t vp)) in
  temp_entry s a q = Some b -> is_live s' q = true ->
  temp_entry s' a q <> None \/
  exists p ms, prop_msgs s p = Some ms /\ is_live s' p = false /\ In a (msg_addrs ms).
Proof. exact new_block_keeps. Qed.
Print Assumptions C06_resolution_cleans_exactly_its_own_entries.

(** The naive reading "entries of OTHER proposals for the same address always survive" is false
    of the code, by design (x/sanction spec: "If the proposal passes ... any temporary entries for
    each address are removed"): proposal 1 (live, funded) sanctions account 2 temporarily; proposal
    2 passes with an unsanction of account 2: proposal 1's entry for account 2 is gone although
    proposal 1 is still live and funded, account 2 can move its funds; the next deposit on
    proposal 1 brings the entry back. *)
Example C06_passed_deletes_other_proposals_entries :
  let c := {| c_unsanct := [5%N; 6%N]; c_gov_min := (1000, 20); c_exp_min := (5000, 0); c_thr := 500; c_exp_thr := 667; c_veto := 334; c_burn_veto := true; c_burn_quorum := false; c_burn_prevote := false |} in
  let s0 := init (300, 0) (400, 0) 1%N 0 (fun _ => 9000) (fun _ => 100) in
  let h := [OSubmit 0%N [MSanction [2%N]] (1000, 20) 300 400 false; OSubmit 3%N [MUnsanction [2%N]] (1000, 20) 300 100 false;
            OVote 2%N (1000, 0, 0, 0); ONewBlock 100 400] in
  let s1 := run c s0 h in
  let s2 := run c s0 (h ++ [ONewBlock 101 400]) in
  let s3 := run c s0 (h ++ [ONewBlock 101 400; ODeposit 4%N 1%N (1, 0) 400]) in
  (temp_entry s1 2%N 1%N, is_sanctioned c s1 2%N) = (Some true, false) /\
  (is_live s2 1%N, is_live s2 2%N, temp_entry s2 2%N 1%N, is_sanctioned c s2 2%N, snd (step c s2 (OSend 2%N 4%N 10))) = (true, false, None, false, true) /\
  (temp_entry s3 2%N 1%N, is_sanctioned c s3 2%N) = (Some true, true).
Proof. vm_compute. repeat split. Qed.

(** ** The governance EndBlocker never fails on the model.  (Before the fix "sanction gov hook
    returns an error instead of panicking" the conversion of an expedited proposal whose covered
    sanction message names a protected address panicked inside the EndBlocker: chain halt.) *)
Theorem C06_end_blocker_never_fails : forall c s t vp, snd (step c s (ONewBlock t vp)) = true.
Proof. exact new_block_accepted. Qed.
Print Assumptions C06_end_blocker_never_fails.

(** The history of that (repaired) defect: the immediate minimum is off; an expedited proposal
    names account 1 and the protected account 5; governance switches the minimum on; a deposit
    (the hook inside a transaction) is refused; at the end of the expedited voting period the
    proposal is converted, the hook fails, nothing is written and the block goes on; the
    converted proposal is rejected for lack of votes by a later block. *)
Example C06_conversion_with_protected_address_witness :
  let c := {| c_unsanct := [5%N; 6%N]; c_gov_min := (1000, 20); c_exp_min := (5000, 0); c_thr := 500; c_exp_thr := 667; c_veto := 334; c_burn_veto := true; c_burn_quorum := false; c_burn_prevote := false |} in
  let s0 := init (0, 0) (0, 0) 1%N 0 (fun _ => 9000) (fun _ => 100) in
  let h := [OSubmit 0%N [MSanction [1%N; 5%N]] (5000, 0) 200 200 true; ODirect true (MParams (300, 0) (400, 0))] in
  let s1 := run c s0 h in
  let s2 := run c s0 (h ++ [ONewBlock 100 200; ONewBlock 101 200]) in
  let s3 := run c s0 (h ++ [ONewBlock 100 200; ONewBlock 101 200; ONewBlock 200 200; ONewBlock 201 200]) in
  (exped s1 1%N, snd (step c s1 (ODeposit 4%N 1%N (1, 0) 200)), temps s1) = (true, false, []) /\
  (is_live s2 1%N, exped s2 1%N, temps s2, is_sanctioned c s2 1%N, bal s2 0%N) = (true, false, [], false, 4000) /\
  (is_live s3 1%N, temps s3, perm s3, bal s3 0%N) = (false, [], [], 9000).
Proof. vm_compute. repeat split. Qed.

(** ** Store keys (byte level, Sanction/Keys.v).  A temporary key lies under the temporary prefix
    of an address exactly when it is a key of that address — an address that extends another one
    (20 bytes being the beginning of a 32-byte address), or ends in 0xFF / 0x00, is never confused
    with it; within one address the key order is the order of the proposal ids (the reverse
    iterator finds the highest-numbered proposal); a proposal's index prefix holds exactly its own
    entries. *)
Theorem C06_temp_key_prefix_exact : forall a a' p, has_prefix (temp_prefix a') (temp_key a p) = true <-> a' = a.
Proof. exact temp_prefix_iff. Qed.
Print Assumptions C06_temp_key_prefix_exact.

Theorem C06_temp_key_order_is_proposal_order : forall a p q, (p < 2 ^ 64)%N -> (q < 2 ^ 64)%N ->
  bytes_cmp (temp_key a p) (temp_key a q) = N.compare p q.
Proof. exact temp_key_cmp. Qed.
Print Assumptions C06_temp_key_order_is_proposal_order.

Theorem C06_index_prefix_exact : forall p p' a, (p < 2 ^ 64)%N -> (p' < 2 ^ 64)%N ->
  has_prefix (index_prefix p') (index_key p a) = true <-> p' = p.
Proof. exact index_prefix_iff. Qed.
Print Assumptions C06_index_prefix_exact.

(** IsSanctionedAddr evaluated on ANY raw store that represents the model's sanction state
    (every 0x02-key is the temporary key of an entry and vice versa, every 0x01-key a permanent
    entry and vice versa), under ANY injective encoding of account ids as non-empty byte strings,
    gives the model's [is_sanctioned]. *)
Theorem C06_raw_store_refines_model : forall (enc : N -> bytes) c s st a,
  (forall x y, enc x = enc y -> x = y) -> enc a <> [] ->
  represents enc (perm s) (temps s) st ->
  is_sanctioned_bytes (map enc (c_unsanct c)) st (enc a) = is_sanctioned c s a.
Proof. exact bytes_refine. Qed.
Print Assumptions C06_raw_store_refines_model.

(** Non-vacuity: a concrete history with two overlapping proposals and a two-denom immediate
    sanction minimum (300 of A and 10 of B).  Proposal 1 is submitted with 300 of A only: the
    deposit does not cover the whole minimum, nobody is sanctioned; a later deposit of 10 of B
    completes it and accounts 1 and 2 are sanctioned at once.  Proposal 2 (deposit 1000 A + 20 B:
    voting period) unsanctions account 1 immediately, so the later proposal's entry wins for 1
    while 2 stays sanctioned and cannot send, delegate or deposit but can receive; proposal 2
    passes (vote Yes) and its entries disappear; proposal 1 expires in deposit and its entries
    disappear too. *)
Example C06_witness :
  let c := {| c_unsanct := [5%N; 6%N]; c_gov_min := (1000, 20); c_exp_min := (5000, 0); c_thr := 500; c_exp_thr := 667; c_veto := 334; c_burn_veto := true; c_burn_quorum := false; c_burn_prevote := false |} in
  let s0 := init (300, 10) (400, 0) 1%N 0 (fun _ => 5000) (fun _ => 100) in
  let h0 := [OSubmit 0%N [MSanction [1%N; 2%N]] (300, 0) 300 400 false] in
  let h1 := h0 ++ [ODeposit 4%N 1%N (0, 10) 400;
                   OSubmit 3%N [MUnsanction [1%N]] (1000, 20) 300 100 false] in
  let sa := run c s0 h0 in
  let s1 := run c s0 h1 in
  let s2 := run c s0 (h1 ++ [OVote 2%N (1000, 0, 0, 0); ONewBlock 100 100; ONewBlock 300 100; ONewBlock 301 100]) in
  (is_sanctioned c sa 1%N, temps sa) = (false, []) /\
  (is_sanctioned c s1 1%N, is_sanctioned c s1 2%N, temp_entry s1 1%N 1%N, temp_entry s1 1%N 2%N) =
    (false, true, Some true, Some false) /\
  snd (step c s1 (OSend 2%N 4%N 10)) = false /\ snd (step c s1 (OSend 4%N 2%N 10)) = true /\
  snd (step c s1 (ODelegate 2%N 10)) = false /\ snd (step c s1 (ODeposit 2%N 1%N (0, 5) 400)) = false /\
  snd (step c s1 (OSubmit 0%N [MSanction [5%N]] (300, 10) 300 400 false)) = false /\
  (is_live s2 1%N, is_live s2 2%N, temps s2, perm s2, is_sanctioned c s2 2%N) = (false, false, [], [], false).
Proof. vm_compute. repeat split. Qed.
