(** C06 — Sanctioned accounts cannot move funds, and sanction status follows governance.
    Only theorem statements here; each is closed by [exact] of a lemma proved in
    Proofs/SanctionProofs.v about the model Sanction/Sanction.v.  Histories start from [init]
    (no entries, no proposals, arbitrary non-negative immediate minimum deposits, arbitrary
    balances, any unsanctionable set and gov minimum deposit) and run any list of operations:
    proposal submission, deposits, votes, cancellation, block boundaries (the EndBlocker resolves
    proposals as expired / passed / failed / rejected), direct sanction messages with and
    without the governance authority, sends, multi-sends, many-to-one transfers, delegations,
    fee payments, funding. *)
From Coq Require Import ZArith NArith List Bool.
Import ListNotations.
From PV Require Import Sanction.Sanction Proofs.SanctionProofs.
Open Scope Z_scope.

(** An address is sanctioned exactly when the temporary entry of the highest-numbered proposal
    that has one for it says "sanction", or it has no temporary entry and is permanently
    sanctioned. *)
Theorem C06_status_characterisation : forall c sm um fid t0 b0 bb0 ops a,
  (0 <= fst sm /\ 0 <= snd sm) -> (0 <= fst um /\ 0 <= snd um) ->
  let s := run c (init sm um fid t0 b0 bb0) ops in
  is_sanctioned c s a = true <->
  (exists p, temp_entry s a p = Some true /\ forall q b, temp_entry s a q = Some b -> (q <= p)%N) \/
  ((forall q, temp_entry s a q = None) /\ In a (perm s)).
Proof.
  intros c sm um fid t0 b0 bb0 ops a Hs Hu. exact (status_characterisation c _ a (Inv_run c _ ops (Inv_init c sm um fid t0 b0 bb0 Hs Hu))).
Qed.
Print Assumptions C06_status_characterisation.

(** Protected addresses are never sanctioned: not reported as such, never in the permanent set,
    never the subject of a temporary sanction entry. *)
Theorem C06_unsanctionable_never : forall c sm um fid t0 b0 bb0 ops a,
  (0 <= fst sm /\ 0 <= snd sm) -> (0 <= fst um /\ 0 <= snd um) ->
  In a (c_unsanct c) ->
  let s := run c (init sm um fid t0 b0 bb0) ops in
  is_sanctioned c s a = false /\ ~ In a (perm s) /\ forall p, temp_entry s a p <> Some true.
Proof.
  intros c sm um fid t0 b0 bb0 ops a Hs Hu Ha. exact (unsanctionable_never c _ a (Inv_run c _ ops (Inv_init c sm um fid t0 b0 bb0 Hs Hu)) Ha).
Qed.
Print Assumptions C06_unsanctionable_never.

(** After any history, no operation whatsoever (accepted or not) decreases a balance (either
    denom) of an account that is sanctioned when the operation starts ... *)
Theorem C06_no_outflow_while_sanctioned : forall c sm um fid t0 b0 bb0 ops o a,
  (0 <= fst sm /\ 0 <= snd sm) -> (0 <= fst um /\ 0 <= snd um) ->
  let s := run c (init sm um fid t0 b0 bb0) ops in
  is_sanctioned c s a = true ->
  bal s a <= bal (fst (step c s o)) a /\ balb s a <= balb (fst (step c s o)) a.
Proof.
  intros c sm um fid t0 b0 bb0 ops o a Hs Hu. exact (no_outflow c _ o a (Inv_run c _ ops (Inv_init c sm um fid t0 b0 bb0 Hs Hu))).
Qed.
Print Assumptions C06_no_outflow_while_sanctioned.

(** ... while it can still receive: a funded, unsanctioned sender's transfer to it is accepted
    and credited in full, whatever the receiver's status. *)
Theorem C06_inflow_allowed : forall c s from to amt,
  0 < amt <= bal s from -> 0 <= balb s from -> is_sanctioned c s from = false -> from <> to ->
  exists s', step c s (OSend from to amt) = (s', true) /\ bal s' to = bal s to + amt.
Proof. exact inflow_allowed. Qed.
Print Assumptions C06_inflow_allowed.

(** Whenever a proposal stops being in its deposit or voting period by anything other than its
    cancellation (expired in deposit, passed, failed on execution, rejected: all through the
    EndBlocker), none of its temporary entries is left. *)
Theorem C06_temp_cleared_on_resolution : forall c sm um fid t0 b0 bb0 ops o p,
  (0 <= fst sm /\ 0 <= snd sm) -> (0 <= fst um /\ 0 <= snd um) ->
  let s := run c (init sm um fid t0 b0 bb0) ops in
  is_live s p = true -> is_live (fst (step c s o)) p = false -> (forall who, o <> OCancel who p) ->
  forall a, temp_entry (fst (step c s o)) a p = None.
Proof.
  intros c sm um fid t0 b0 bb0 ops o p Hs Hu. exact (cleared_on_resolution c _ o p (Inv_run c _ ops (Inv_init c sm um fid t0 b0 bb0 Hs Hu))).
Qed.
Print Assumptions C06_temp_cleared_on_resolution.

(** The strongest true global form: after any history, a temporary entry in the store belongs to
    a proposal that is still in deposit/voting period or to one whose cancellation was accepted
    earlier in the history.  (Entries of cancelled proposals are the only stale ones.) *)
Theorem C06_stale_entries_only_from_cancelled : forall c sm um fid t0 b0 bb0 ops a p b,
  (0 <= fst sm /\ 0 <= snd sm) -> (0 <= fst um /\ 0 <= snd um) ->
  let s0 := init sm um fid t0 b0 bb0 in
  temp_entry (run c s0 ops) a p = Some b ->
  is_live (run c s0 ops) p = true \/
  exists pre who post, ops = pre ++ OCancel who p :: post /\
                       snd (step c (run c s0 pre) (OCancel who p)) = true.
Proof.
  intros c sm um fid t0 b0 bb0 ops a p b Hs Hu s0 H.
  exact (temps_origin c s0 ops (Inv_init c sm um fid t0 b0 bb0 Hs Hu) eq_refl a p b (lookup_In _ _ _ _ H)).
Qed.
Print Assumptions C06_stale_entries_only_from_cancelled.

(** The clause "once a proposal has ... been cancelled none of its temporary entries remain in
    force" is FALSE of the code (known finding): the proposer submits a sanction proposal with a
    deposit at the immediate minimum, the target is sanctioned at once; the proposer cancels the
    proposal (MsgCancelProposal: the SDK calls no hook); the proposal is gone, the entry stays,
    the target remains sanctioned although it is not permanently sanctioned, also after later
    blocks. *)
Theorem C06_cancel_leaves_temp_refuted :
  exists c sm um fid t0 b0 bb0 ops who p a,
    let s0 := init sm um fid t0 b0 bb0 in
    let s := run c s0 ops in
    (0 <= fst sm /\ 0 <= snd sm) /\ (0 <= fst um /\ 0 <= snd um) /\
    snd (step c s (OCancel who p)) = true /\               (* the cancellation is accepted *)
    let s' := run c s0 (ops ++ [OCancel who p; ONewBlock (t0 + 1000) 100; ONewBlock (t0 + 2000) 100]) in
    is_live s' p = false /\ temp_entry s' a p = Some true /\
    is_sanctioned c s' a = true /\ ~ In a (perm s') /\
    snd (step c s' (OSend a who 1)) = false.               (* and it still cannot move funds *)
Proof.
  exists {| c_unsanct := [5%N; 6%N]; c_gov_min := (1000, 20); c_exp_min := (5000, 0); c_thr := 500; c_exp_thr := 667; c_veto := 334; c_burn_veto := true; c_burn_quorum := false; c_burn_prevote := false |}, (300, 0), (400, 0), 1%N, 0, (fun _ => 5000), (fun _ => 100),
         [OSubmit 0%N [MSanction [1%N]] (300, 0) 200 250 false], 0%N, 1%N, 1%N.
  vm_compute. repeat split; try discriminate; try reflexivity. intros [].
Qed.
Print Assumptions C06_cancel_leaves_temp_refuted.

(** Sanction-module messages are honoured only with the governance authority. *)
Theorem C06_only_governance : forall c s m, step c s (ODirect false m) = (s, false).
Proof. exact only_governance. Qed.
Print Assumptions C06_only_governance.

(** Non-vacuity: a concrete history with two overlapping proposals and a two-denom immediate
    sanction minimum (300 of A and 10 of B).  Proposal 1 is submitted with 300 of A only: the
    deposit does not cover the whole minimum, nobody is sanctioned; a later deposit of 10 of B
    completes it and accounts 1 and 2 are sanctioned at once.  Proposal 2 (deposit 1000 A + 20 B:
    voting period) unsanctions account 1 immediately, so the later proposal's entry wins for 1
    while 2 stays sanctioned and cannot send, delegate or deposit but can receive; proposal 2
    passes (vote Yes) and its entries disappear; proposal 1 expires in deposit and its entries
    disappear too. *)
Example C06_witness :
  let c := {| c_unsanct := [5%N; 6%N]; c_gov_min := (1000, 20); c_exp_min := (5000, 0); c_thr := 500; c_exp_thr := 667; c_veto := 334; c_burn_veto := true; c_burn_quorum := false; c_burn_prevote := false |} in
  let s0 := init (300, 10) (400, 0) 1%N 0 (fun _ => 5000) (fun _ => 100) in
  let h0 := [OSubmit 0%N [MSanction [1%N; 2%N]] (300, 0) 300 400 false] in
  let h1 := h0 ++ [ODeposit 4%N 1%N (0, 10) 400;
                   OSubmit 3%N [MUnsanction [1%N]] (1000, 20) 300 100 false] in
  let sa := run c s0 h0 in
  let s1 := run c s0 h1 in
  let s2 := run c s0 (h1 ++ [OVote 2%N (1000, 0, 0, 0); ONewBlock 100 100; ONewBlock 300 100; ONewBlock 301 100]) in
  (is_sanctioned c sa 1%N, temps sa) = (false, []) /\
  (is_sanctioned c s1 1%N, is_sanctioned c s1 2%N, temp_entry s1 1%N 1%N, temp_entry s1 1%N 2%N) =
    (false, true, Some true, Some false) /\
  snd (step c s1 (OSend 2%N 4%N 10)) = false /\ snd (step c s1 (OSend 4%N 2%N 10)) = true /\
  snd (step c s1 (ODelegate 2%N 10)) = false /\ snd (step c s1 (ODeposit 2%N 1%N (0, 5) 400)) = false /\
  snd (step c s1 (OSubmit 0%N [MSanction [5%N]] (300, 10) 300 400 false)) = false /\
  (is_live s2 1%N, is_live s2 2%N, temps s2, perm s2, is_sanctioned c s2 2%N) = (false, false, [], [], false).
Proof. vm_compute. repeat split. Qed.
