(** C03 — Funds on hold cannot leave the account by any route.
    Theorem statements only; proofs are in Proofs/LockedProofs.v about the model Hold/Locked.v. *)
From Coq Require Import ZArith NArith List.
From PV Require Import Hold.Locked Proofs.LockedProofs.
Import ListNotations.
Open Scope Z_scope.

(** Over every history of bank primitives (send, multi-send with one or many inputs, delegation,
    undelegation, burn, mint), hold placements/releases and vesting-lock changes, for every account
    and denom: 0 <= hold <= balance. *)
Theorem C03_balance_ge_hold : forall ops s, Inv s -> Inv (run s ops).
Proof. exact run_inv. Qed.
Print Assumptions C03_balance_ge_hold.

(** A single successful primitive never leaves less than the hold (the step form of the above). *)
Theorem C03_step_keeps_hold : forall s o s', Inv s -> step s o = Some s' -> Inv s'.
Proof. exact step_inv. Qed.
Print Assumptions C03_step_keeps_hold.

(** Only the hold keeper's own AddHold / ReleaseHold change a hold. *)
Theorem C03_only_hold_ops_change_holds : forall s o s',
  step s o = Some s' ->
  (forall a d amt, o <> OAddHold a d amt) -> (forall a d amt, o <> OReleaseHold a d amt) ->
  hold s' = hold s.
Proof. exact step_hold_frame. Qed.
Print Assumptions C03_only_hold_ops_change_holds.

(** The spendable balance is the balance minus the hold minus any unvested amount (floored at 0). *)
Theorem C03_spendable : forall s a d,
  0 <= hold s a d -> 0 <= unvested s a d ->
  spendable s a d = Z.max 0 (bal s a d - hold s a d - unvested s a d).
Proof. exact spendable_formula. Qed.
Print Assumptions C03_spendable.

(** Exactly the funds beyond hold (+ unvested) can be sent; delegation may use unvested funds but
    never funds on hold. *)
Theorem C03_send_iff : forall s from to d amt,
  Inv s -> 0 < amt ->
  (step s (OSend from to d amt) <> None <-> amt <= bal s from d - hold s from d - unvested s from d).
Proof. exact send_succeeds_iff. Qed.
Print Assumptions C03_send_iff.

Theorem C03_delegate_iff : forall s from pool d amt,
  Inv s -> 0 < amt ->
  (step s (ODelegate from pool d amt) <> None <-> amt <= bal s from d - hold s from d).
Proof. exact delegate_succeeds_iff. Qed.
Print Assumptions C03_delegate_iff.

(** Non-vacuity: a state with a hold, an attempt one unit over the boundary fails, at it succeeds. *)
Example C03_witness :
  let s0 := {| bal := upd (fun _ _ => 0) 1%N 7%N 100; hold := upd (fun _ _ => 0) 1%N 7%N 40;
               unvested := fun _ _ => 0 |} in
  step s0 (OSend 1%N 2%N 7%N 61) = None /\
  (exists s1, step s0 (OSend 1%N 2%N 7%N 60) = Some s1 /\ bal s1 1%N 7%N = 40 /\ hold s1 1%N 7%N = 40).
Proof. cbn. split; [reflexivity|]. eexists; split; [reflexivity|]. split; reflexivity. Qed.
