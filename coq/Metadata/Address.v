(** MetadataAddress byte layout, validators, constructors and conversions (model; no proofs).

    Transcribed from /repo/x/metadata/types/address.go and keys.go:
      VerifyMetadataAddressFormat, VerifyMetadataAddressHasType, MetadataAddressFromHex,
      ParseMetadataAddressFromBech32 / MetadataAddressFromBech32, MetadataAddressFromDenom,
      ScopeMetadataAddress, SessionMetadataAddress, RecordMetadataAddress,
      ScopeSpecMetadataAddress, ContractSpecMetadataAddress, RecordSpecMetadataAddress,
      String, Denom, Prefix, ScopeUUID, SessionUUID, ScopeSpecUUID, ContractSpecUUID, PrimaryUUID,
      SecondaryUUID, NameHash, AsScopeAddress, AsSessionAddress, AsRecordAddress,
      AsRecordSpecAddress, AsContractSpecAddress, ScopeSessionIteratorPrefix,
      ScopeRecordIteratorPrefix, ContractSpecRecordSpecIteratorPrefix, Is*Address;
      key prefixes 0x00 scope, 0x01 session, 0x02 record, 0x03 contract spec, 0x04 scope spec,
      0x05 record spec.

    Layout: type byte, then a 16 byte UUID, then (session) a second 16 byte UUID or
    (record, record spec) the first 16 bytes of SHA-256 of the lower-cased, trimmed name.

    Assumed / external:
    - SHA-256 is the section variable [name_hash : list byte -> list byte] (first 16 bytes of the
      digest of its argument); the ONLY thing assumed about it (in the proofs) is that it returns
      16 bytes.
    - uuid.FromBytes only checks that it is given 16 bytes, which the length check before it
      already guarantees, so it never fails in VerifyMetadataAddressFormat; uuid.UUID values
      handed to the constructors are [16]byte, modelled as lists the theorems assume to have
      length 16.
    - strings.TrimSpace / strings.ToLower are modelled for ASCII only ([normalize_name]); the
      harness uses ASCII names.  Non-ASCII names are NOT covered.
    - An error or a panic of the Go function is [None].
    - ParseMetadataAddressFromBech32 first rejects strings that are empty after TrimSpace; such a
      string is rejected by bech32 decoding anyway (too short, or a byte outside 33..126), so the
      test is not a separate branch here.
    - String() of a non-empty invalid address prints a Go-syntax dump; modelled as [None]. *)
From Coq Require Import String Ascii.
From Coq Require Import NArith List Bool.
From PV Require Export Metadata.Bech32.
Import ListNotations.
Open Scope N_scope.

Notation byte := N (only parsing).

Inductive atype := TScope | TSession | TRecord | TContractSpec | TScopeSpec | TRecordSpec.

Definition type_byte (t : atype) : byte :=
  match t with
  | TScope => 0 | TSession => 1 | TRecord => 2
  | TContractSpec => 3 | TScopeSpec => 4 | TRecordSpec => 5
  end.

Definition type_of_byte (b : byte) : option atype :=
  match b with
  | 0 => Some TScope | 1 => Some TSession | 2 => Some TRecord
  | 3 => Some TContractSpec | 4 => Some TScopeSpec | 5 => Some TRecordSpec
  | _ => None
  end.

Definition atype_eqb (x y : atype) : bool := type_byte x =? type_byte y.

Definition hrp_of (t : atype) : list byte :=
  match t with
  | TScope => codes "scope" | TSession => codes "session" | TRecord => codes "record"
  | TContractSpec => codes "contractspec" | TScopeSpec => codes "scopespec"
  | TRecordSpec => codes "recspec"
  end.

Definition required_len (t : atype) : nat :=
  match t with
  | TScope | TContractSpec | TScopeSpec => 17
  | TSession | TRecord | TRecordSpec => 33
  end.

(** VerifyMetadataAddressFormat: the type (hrp) or an error. *)
Definition verify_format (bz : list byte) : option atype :=
  match bz with
  | [] => None
  | b :: _ =>
      match type_of_byte b with
      | None => None
      | Some t => if Nat.eqb (length bz) (required_len t) then Some t else None
      end
  end.

Definition is_type (t : atype) (bz : list byte) : bool :=
  match verify_format bz with Some t' => atype_eqb t t' | None => false end.

(** VerifyMetadataAddressHasType *)
Definition has_type (bz : list byte) (t : atype) : bool := is_type t bz.

(** ma[1:17] and ma[17:33] *)
Definition bytes_1_17 (bz : list byte) : list byte := firstn 16 (skipn 1 bz).
Definition bytes_17_33 (bz : list byte) : list byte := firstn 16 (skipn 17 bz).

Definition is_type_one_of (bz : list byte) (ts : list atype) : bool :=
  match bz with
  | [] => false
  | b :: _ => existsb (fun t => b =? type_byte t) ts
  end.

Definition all_types := [TScope; TSession; TRecord; TScopeSpec; TContractSpec; TRecordSpec].

Definition primary_uuid (bz : list byte) : option (list byte) :=
  if Nat.ltb (length bz) 1 then None
  else if negb (is_type_one_of bz all_types) then None
  else if Nat.ltb (length bz) 17 then None
  else Some (bytes_1_17 bz).

Definition secondary_uuid (bz : list byte) : option (list byte) :=
  if Nat.ltb (length bz) 1 then None
  else if negb (is_type_one_of bz [TSession]) then None
  else if Nat.ltb (length bz) 33 then None
  else Some (bytes_17_33 bz).

Definition name_hash_of (bz : list byte) : option (list byte) :=
  if Nat.ltb (length bz) 1 then None
  else if negb (is_type_one_of bz [TRecord; TRecordSpec]) then None
  else if Nat.ltb (length bz) 33 then None
  else Some (bytes_17_33 bz).

Definition scope_uuid (bz : list byte) : option (list byte) :=
  if negb (is_type_one_of bz [TScope; TSession; TRecord]) then None else primary_uuid bz.

Definition first_is (bz : list byte) (t : atype) : bool :=
  match bz with b :: _ => b =? type_byte t | [] => false end.

(** "len(ma) > 0 && ma[0] != X" is an error; the empty address falls through to the callee. *)
Definition session_uuid (bz : list byte) : option (list byte) :=
  if Nat.ltb 0 (length bz) && negb (first_is bz TSession) then None else secondary_uuid bz.
Definition scope_spec_uuid (bz : list byte) : option (list byte) :=
  if Nat.ltb 0 (length bz) && negb (first_is bz TScopeSpec) then None else primary_uuid bz.
Definition contract_spec_uuid (bz : list byte) : option (list byte) :=
  if negb (is_type_one_of bz [TContractSpec; TRecordSpec]) then None else primary_uuid bz.

(** ASCII TrimSpace + ToLower *)
Definition is_space (c : byte) : bool := ((9 <=? c) && (c <=? 13)) || (c =? 32).
Fixpoint drop_space (s : list byte) : list byte :=
  match s with
  | c :: r => if is_space c then drop_space r else s
  | [] => []
  end.
Definition trim (s : list byte) : list byte := rev (drop_space (rev (drop_space s))).
Definition normalize_name (s : list byte) : list byte := lower (trim s).

Section WithHash.
  Variable name_hash : list byte -> list byte.

  (** *** Constructors (uuid arguments are [16]byte values) *)
  Definition scope_addr (u : list byte) : list byte := type_byte TScope :: u.
  Definition session_addr (su ss : list byte) : list byte := type_byte TSession :: su ++ ss.
  Definition scope_spec_addr (u : list byte) : list byte := type_byte TScopeSpec :: u.
  Definition contract_spec_addr (u : list byte) : list byte := type_byte TContractSpec :: u.
  (** panics ("missing name value") when the normalised name is empty *)
  Definition record_addr (su name : list byte) : option (list byte) :=
    match normalize_name name with
    | [] => None
    | n => Some (type_byte TRecord :: su ++ name_hash n)
    end.
  Definition record_spec_addr (cu name : list byte) : option (list byte) :=
    match normalize_name name with
    | [] => None
    | n => Some (type_byte TRecordSpec :: cu ++ name_hash n)
    end.

  (** *** As*Address conversions on arbitrary byte strings *)
  Definition as_scope_address (bz : list byte) : option (list byte) :=
    match scope_uuid bz with Some u => Some (scope_addr u) | None => None end.
  Definition as_session_address (bz ss : list byte) : option (list byte) :=
    match scope_uuid bz with Some u => Some (session_addr u ss) | None => None end.
  Definition as_record_address (bz name : list byte) : option (list byte) :=
    match scope_uuid bz with
    | None => None
    | Some u => match name with [] => None | _ => record_addr u name end
    end.
  Definition as_record_spec_address (bz name : list byte) : option (list byte) :=
    match contract_spec_uuid bz with Some u => record_spec_addr u name | None => None end.
  Definition as_contract_spec_address (bz : list byte) : option (list byte) :=
    match contract_spec_uuid bz with Some u => Some (contract_spec_addr u) | None => None end.
End WithHash.

(** *** Iterator prefixes
    For a non-empty address shorter than 17 bytes Go's ma[1:17] reslices past the length (a
    runtime panic, or bytes of the backing array when the capacity allows): [None] here, and the
    harness does not compare that case. *)
Definition scope_session_prefix (bz : list byte) : option (list byte) :=
  match bz with
  | [] => Some [type_byte TSession]
  | _ => if negb (is_type_one_of bz [TScope; TSession; TRecord]) || Nat.ltb (length bz) 17 then None
         else Some (type_byte TSession :: bytes_1_17 bz)
  end.
Definition scope_record_prefix (bz : list byte) : option (list byte) :=
  match bz with
  | [] => Some [type_byte TRecord]
  | _ => if negb (is_type_one_of bz [TScope; TSession; TRecord]) || Nat.ltb (length bz) 17 then None
         else Some (type_byte TRecord :: bytes_1_17 bz)
  end.
Definition cspec_recspec_prefix (bz : list byte) : option (list byte) :=
  match bz with
  | [] => Some [type_byte TRecordSpec]
  | _ => if negb (is_type_one_of bz [TContractSpec; TRecordSpec]) || Nat.ltb (length bz) 17 then None
         else Some (type_byte TRecordSpec :: bytes_1_17 bz)
  end.

(** *** Structured view: what an address is made of *)
Inductive maddr :=
| AScope (u : list byte)
| ASession (su ss : list byte)
| ARecord (su nh : list byte)
| AContractSpec (u : list byte)
| AScopeSpec (u : list byte)
| ARecordSpec (cu nh : list byte).

Definition maddr_type (a : maddr) : atype :=
  match a with
  | AScope _ => TScope | ASession _ _ => TSession | ARecord _ _ => TRecord
  | AContractSpec _ => TContractSpec | AScopeSpec _ => TScopeSpec | ARecordSpec _ _ => TRecordSpec
  end.

Definition maddr_bytes (a : maddr) : list byte :=
  match a with
  | AScope u | AContractSpec u | AScopeSpec u => type_byte (maddr_type a) :: u
  | ASession p q | ARecord p q | ARecordSpec p q => type_byte (maddr_type a) :: p ++ q
  end.

Definition maddr_wf (a : maddr) : Prop :=
  match a with
  | AScope u | AContractSpec u | AScopeSpec u => length u = 16%nat
  | ASession p q | ARecord p q | ARecordSpec p q => length p = 16%nat /\ length q = 16%nat
  end.

(** the parent: scope of a session/record, contract spec of a record spec *)
Definition maddr_parent (a : maddr) : option maddr :=
  match a with
  | ASession su _ | ARecord su _ => Some (AScope su)
  | ARecordSpec cu _ => Some (AContractSpec cu)
  | _ => None
  end.

(** Parsing raw bytes (the Unmarshal / FromBytes direction): format check, then the parts. *)
Definition parse (bz : list byte) : option maddr :=
  match verify_format bz with
  | None => None
  | Some TScope => Some (AScope (bytes_1_17 bz))
  | Some TSession => Some (ASession (bytes_1_17 bz) (bytes_17_33 bz))
  | Some TRecord => Some (ARecord (bytes_1_17 bz) (bytes_17_33 bz))
  | Some TContractSpec => Some (AContractSpec (bytes_1_17 bz))
  | Some TScopeSpec => Some (AScopeSpec (bytes_1_17 bz))
  | Some TRecordSpec => Some (ARecordSpec (bytes_1_17 bz) (bytes_17_33 bz))
  end.

(** *** Text forms *)
(** String(): "" for the empty address, the bech32 text for a valid one. *)
Definition to_string (bz : list byte) : option (list byte) :=
  match bz with
  | [] => Some []
  | _ => match verify_format bz with
         | None => None
         | Some t => convert_and_encode (hrp_of t) bz
         end
  end.

Definition list_N_eqb (x y : list N) : bool :=
  Nat.eqb (length x) (length y) && forallb (fun p => fst p =? snd p) (combine x y).

(** ParseMetadataAddressFromBech32 *)
Definition from_bech32 (text : list byte) : option (list byte) :=
  match decode_and_convert text with
  | None => None
  | Some (hrp, bz) =>
      match verify_format bz with
      | None => None
      | Some t => if list_N_eqb (hrp_of t) hrp then Some bz else None
      end
  end.

Definition denom_prefix : list byte := codes "nft/".
Definition denom (bz : list byte) : option (list byte) :=
  match to_string bz with Some s => Some (denom_prefix ++ s) | None => None end.

Fixpoint strip_prefix (p s : list byte) : option (list byte) :=
  match p, s with
  | [], _ => Some s
  | a :: p', b :: s' => if a =? b then strip_prefix p' s' else None
  | _ :: _, [] => None
  end.
(** MetadataAddressFromDenom: TrimPrefix leaving the string unchanged is an error *)
Definition from_denom (d : list byte) : option (list byte) :=
  match strip_prefix denom_prefix d with
  | None => None
  | Some id => from_bech32 id
  end.

(** MetadataAddressFromHex (encoding/hex.DecodeString; no format validation) *)
Definition hex_val (c : byte) : option N :=
  if (48 <=? c) && (c <=? 57) then Some (c - 48)
  else if (97 <=? c) && (c <=? 102) then Some (c - 87)
  else if (65 <=? c) && (c <=? 70) then Some (c - 55)
  else None.
Fixpoint hex_decode (s : list byte) : option (list byte) :=
  match s with
  | [] => Some []
  | [_] => None
  | a :: b :: r =>
      match hex_val a, hex_val b, hex_decode r with
      | Some x, Some y, Some t => Some (16 * x + y :: t)
      | _, _, _ => None
      end
  end.
Definition from_hex (s : list byte) : option (list byte) :=
  match s with [] => None | _ => hex_decode s end.
