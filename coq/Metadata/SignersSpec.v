(** The DOCUMENTED signing rules of the metadata module (x/metadata/spec/01_concepts.md,
    section "Signing Requirements"), written declaratively, independently of how signers.go
    computes them: coverage of required parties by a signer or by an authz grant to a signer, the
    existence of an injective assignment of required-role entries to distinct signing parties of
    that role, the PROVENANCE-role rule and the smart-contract signer positions.

    Two renderings: in [Prop] (what the theorems of Properties/C10.v state) and as brute-force
    boolean checkers (what Corr/C10.v evaluates on the implementation's answers; Proofs show the
    two agree).  No proofs in this file. *)
From Coq Require Import ZArith List Bool.
From PV Require Import Metadata.Signers.
Import ListNotations.
Open Scope Z_scope.

Definition pkey (p : party) : Z * Z := (p_addr p, p_role p).
Definition key_eqb (a b : Z * Z) : bool := Z.eqb (fst a) (fst b) && Z.eqb (snd a) (snd b).

(** ** Prop rendering *)

(** [a]'s signature is accounted for: [a] signed, or [a] granted the message type to a signer. *)
Definition covered (e : env) (signers : list Z) (a : Z) : Prop :=
  In a signers \/ exists g, In g signers /\ granted e a g = true.

(** Every required-role entry gets its own party: [ks] lists, entry by entry, pairwise distinct
    parties (address, role) taken from [avail], each of the entry's role and satisfying [ok]. *)
Definition role_assignment (ok : Z -> Prop) (avail : list party) (roles : list Z) : Prop :=
  exists ks : list (Z * Z),
    NoDup ks /\
    Forall2 (fun k r => In k (map pkey avail) /\ snd k = r /\ ok (fst k)) ks roles.

(** PROVENANCE-role rule: a party is a smart contract exactly when its role is PROVENANCE. *)
Definition provenance_rule (e : env) (ps : list party) : Prop :=
  forall p, In p ps -> (is_wasm e (p_addr p) = true <-> p_role p = role_provenance).

(** Smart-contract signer positions: a smart-contract signer has only smart contracts before it,
    and is either [used] (stands for a party) or is not last and holds a grant from every signer
    after it. *)
Definition contract_rule (e : env) (used : Z -> Prop) (signers : list Z) : Prop :=
  forall l1 s l2, signers = l1 ++ s :: l2 -> is_wasm e s = true ->
    (forall x, In x l1 -> is_wasm e x = true) /\
    (used s \/ (l2 <> [] /\ forall g, In g l2 -> granted e g s = true)).

(** The parties whose signature the party rules look at: the available ones and the
    non-optional required ones. *)
Definition considered (req avail : list party) : list party :=
  avail ++ filter (fun p => negb (p_opt p)) req.

(** A signer "is a party" (documented reading) / "stands for a party" (it signs for a party
    directly or through that party's grant). *)
Definition is_party_signer (req avail : list party) (s : Z) : Prop :=
  exists p, In p (considered req avail) /\ p_addr p = s.
Definition stands_for_party (e : env) (req avail : list party) (s : Z) : Prop :=
  exists p, In p (considered req avail) /\ (p_addr p = s \/ granted e (p_addr p) s = true).

(** ** Boolean rendering (brute force) *)
Definition covered_b (e : env) (signers : list Z) (a : Z) : bool :=
  mem a signers || existsb (granted e a) signers.

(** All ways of taking one element out of a list. *)
Fixpoint picks {A} (l : list A) : list (A * list A) :=
  match l with
  | [] => []
  | x :: t => (x, t) :: map (fun yr => (fst yr, x :: snd yr)) (picks t)
  end.

(** Backtracking search for an injective assignment of [roles] into [pool]. *)
Fixpoint assign_b {A} (ok : Z -> A -> bool) (roles : list Z) (pool : list A) : bool :=
  match roles with
  | [] => true
  | r :: rest => existsb (fun xr => ok r (fst xr) && assign_b ok rest (snd xr)) (picks pool)
  end.

(** Distinct parties (address, role) of a list, first occurrences. *)
Fixpoint dedup_keys (l : list (Z * Z)) : list (Z * Z) :=
  match l with
  | [] => []
  | k :: t => k :: filter (fun k' => negb (key_eqb k k')) (dedup_keys t)
  end.
Definition party_keys (ps : list party) : list (Z * Z) := dedup_keys (map pkey ps).

Definition roles_signed_b (e : env) (signers : list Z) (avail : list party) (roles : list Z) : bool :=
  assign_b (fun r k => Z.eqb (snd k) r && covered_b e signers (fst k)) roles (party_keys avail).
Definition roles_direct_b (signers : list Z) (avail : list party) (roles : list Z) : bool :=
  assign_b (fun r k => Z.eqb (snd k) r && mem (fst k) signers) roles (party_keys avail).
Definition roles_present_b (avail : list party) (roles : list Z) : bool :=
  assign_b (fun r k => Z.eqb (snd k) r) roles (party_keys avail).

Definition required_covered_b (e : env) (signers : list Z) (req : list party) : bool :=
  forallb (fun p => p_opt p || covered_b e signers (p_addr p)) req.
Definition required_direct_b (signers : list Z) (req : list party) : bool :=
  forallb (fun p => p_opt p || mem (p_addr p) signers) req.

Definition provenance_rule_b (e : env) (ps : list party) : bool :=
  forallb (fun p => Bool.eqb (is_wasm e (p_addr p)) (Z.eqb (p_role p) role_provenance)) ps.

Fixpoint contract_rule_b (e : env) (used : Z -> bool) (only_wasm_before : bool) (signers : list Z) : bool :=
  match signers with
  | [] => true
  | s :: rest =>
      if is_wasm e s then
        only_wasm_before &&
        (used s || (match rest with [] => false | _ :: _ => true end &&
                    forallb (fun g => granted e g s) rest)) &&
        contract_rule_b e used only_wasm_before rest
      else contract_rule_b e used false rest
  end.

Definition is_party_signer_b (req avail : list party) (s : Z) : bool :=
  existsb (fun p => Z.eqb (p_addr p) s) (considered req avail).
Definition stands_for_party_b (e : env) (req avail : list party) (s : Z) : bool :=
  existsb (fun p => Z.eqb (p_addr p) s || granted e (p_addr p) s) (considered req avail).

Definition no_wasm_signer (e : env) (signers : list Z) : bool :=
  forallb (fun s => negb (is_wasm e s)) signers.

(** *** ValidateSignersWithParties, documented:
    [sound]: what an accepted message must satisfy; [direct]: the hypotheses under which the
    message must be accepted (everything signed directly); [full]: the exact rule when "is used"
    is read as "stands for a party". *)
Definition with_parties_sound_b (e : env) (req avail : list party) (roles signers : list Z) : bool :=
  required_covered_b e signers req && roles_signed_b e signers avail roles &&
  provenance_rule_b e avail &&
  contract_rule_b e (stands_for_party_b e req avail) true signers.

Definition with_parties_direct_b (e : env) (req avail : list party) (roles signers : list Z) : bool :=
  required_direct_b signers req && roles_direct_b signers avail roles &&
  provenance_rule_b e avail &&
  contract_rule_b e (is_party_signer_b req avail) true signers.

(** the literal reading of "must either be a party/owner, or have authorizations from all signers
    after it": the contract itself is one of the parties *)
Definition with_parties_literal_b (e : env) (req avail : list party) (roles signers : list Z) : bool :=
  required_covered_b e signers req && roles_signed_b e signers avail roles &&
  provenance_rule_b e avail &&
  contract_rule_b e (is_party_signer_b req avail) true signers.

Definition addr_parties (l : list Z) : list party :=
  map (fun a => {| p_addr := a; p_role := role_unspecified; p_opt := false |}) l.

Definition without_parties_sound_b (e : env) (required signers : list Z) : bool :=
  forallb (covered_b e signers) required &&
  contract_rule_b e (stands_for_party_b e (addr_parties required) []) true signers.
Definition without_parties_direct_b (e : env) (required signers : list Z) : bool :=
  forallb (fun a => mem a signers) required &&
  contract_rule_b e (is_party_signer_b (addr_parties required) []) true signers.

(** *** The documented table of the write endpoints ("Writing or Deleting a Scope / Writing a
    Session / Writing a Record / Deleting a Record", with and without party rollup).
    [doc_sound]: what must hold of an accepted message; [doc_direct]: when it must be accepted. *)
Definition all_addrs (ps : list party) : list Z := map p_addr ps.
Definition nonopt_addrs (ps : list party) : list Z :=
  map p_addr (filter (fun p => negb (p_opt p)) ps).

(** *** Writing an existing scope, value owner included ("Scope Value Owner Address
    Requirements").  What "the ONLY change is to that value owner address" means is spelled out
    here on the fields of the scope, independently of Scope.Equals: the owner lists are the same
    when they have the same length and every stored owner appears in the message with the same
    address, role AND optional flag (for duplicate-free lists — a store invariant and a
    ValidateBasic check — that is equality as sets, see [owners_unchanged_sym]). *)
Definition party_eqb (p q : party) : bool :=
  Z.eqb (p_addr p) (p_addr q) && Z.eqb (p_role p) (p_role q) && Bool.eqb (p_opt p) (p_opt q).
Definition owners_unchanged (stored proposed : list party) : bool :=
  Nat.eqb (length stored) (length proposed) &&
  forallb (fun p => existsb (party_eqb p) proposed) stored.
Definition data_unchanged (s1 s2 : list Z) : bool :=
  forallb (fun a => mem a s2) s1 && forallb (fun a => mem a s1) s2.
(** some field other than the value owner differs *)
Definition other_change (ex pr : scope_view) : bool :=
  negb (Z.eqb (sv_spec ex) (sv_spec pr) && owners_unchanged (sv_owners ex) (sv_owners pr) &&
        data_unchanged (sv_data ex) (sv_data pr) && Bool.eqb (sv_rollup ex) (sv_rollup pr)).
(** a value owner is proposed and it is not the current one *)
Definition vo_changing (ex pr : scope_view) : bool :=
  match sv_vo pr with
  | None => false
  | Some p => negb (opt_z_eqb (sv_vo ex) (Some p))
  end.
(** the current value owner, when it is being replaced: it must sign *)
Definition vo_required (ex pr : scope_view) : list Z :=
  if vo_changing ex pr then match sv_vo ex with Some v => [v] | None => [] end else [].
(** "a scope with a value owner address is being updated, and the ONLY change is to that value
    owner address": only the value-owner requirements apply *)
Definition doc_only_vo (ex pr : scope_view) : bool :=
  vo_changing ex pr && match sv_vo ex with Some _ => true | None => false end &&
  negb (other_change ex pr).
Definition nothing_changes (ex pr : scope_view) : bool :=
  negb (vo_changing ex pr) && negb (other_change ex pr).

Definition doc_sound_gen (uf : env -> list party -> list party -> Z -> bool)
  (e : env) (op : outer) (signers : list Z) : bool :=
  match op with
  | OWriteScopeNew proposed rollup roles =>
      (* all roles required by the scope spec must have a party in the owners *)
      roles_present_b proposed roles && provenance_rule_b e proposed &&
      contract_rule_b e (fun _ => false) true signers
  | OWriteScope ex_rollup existing prop_rollup proposed other_changed roles =>
      roles_present_b proposed roles && provenance_rule_b e proposed &&
      (if ex_rollup then
         (* all optional=false existing owners sign; roles have a signer + party in the existing scope *)
         required_covered_b e signers existing && roles_signed_b e signers existing roles &&
         contract_rule_b e (uf e existing existing) true signers
       else
         (* if not new, all existing owners must sign (when anything changes) *)
         (if equal_parties existing proposed && Bool.eqb ex_rollup prop_rollup && negb other_changed
          then contract_rule_b e (fun _ => false) true signers
          else forallb (covered_b e signers) (all_addrs existing) &&
               contract_rule_b e (uf e (addr_parties (all_addrs existing)) []) true signers))
  | ODeleteScope rollup owners roles =>
      if rollup then
        required_covered_b e signers owners &&
        match roles with Some rs => roles_signed_b e signers owners rs | None => true end &&
        contract_rule_b e (uf e owners
                             (match roles with Some _ => owners | None => [] end)) true signers
      else forallb (covered_b e signers) (all_addrs owners) &&
           contract_rule_b e (uf e (addr_parties (all_addrs owners)) []) true signers
  | OUpdateOwners rollup existing proposed roles =>
      roles_present_b proposed roles && provenance_rule_b e proposed &&
      (if rollup then
         required_covered_b e signers existing && roles_signed_b e signers existing roles &&
         contract_rule_b e (uf e existing existing) true signers
       else forallb (covered_b e signers) (all_addrs existing) &&
            contract_rule_b e (uf e (addr_parties (all_addrs existing)) []) true signers)
  | OWriteSession rollup owners existing proposed roles =>
      if rollup then
        (* proposed parties are scope owners; optional=false owners sign; roles have a signer and
           party in the proposed (new) / existing (update) session; on update the roles also have
           parties in the proposed session and optional=false existing parties sign *)
        forallb (fun p => existsb (fun o => key_eqb (pkey p) (pkey o)) owners) proposed &&
        required_covered_b e signers owners &&
        match existing with
        | None => roles_signed_b e signers proposed roles && provenance_rule_b e proposed &&
                  contract_rule_b e (uf e owners proposed) true signers
        | Some ex => roles_signed_b e signers ex roles && roles_present_b proposed roles &&
                     required_covered_b e signers ex && provenance_rule_b e proposed &&
                     provenance_rule_b e ex &&
                     contract_rule_b e (uf e (ex ++ owners) ex) true signers
        end
      else
        roles_present_b proposed roles && provenance_rule_b e proposed &&
        forallb (covered_b e signers) (all_addrs owners) &&
        contract_rule_b e (uf e (addr_parties (all_addrs owners)) []) true signers
  | OWriteRecord rollup owners session old roles =>
      if rollup then
        roles_signed_b e signers session roles &&
        required_covered_b e signers owners && required_covered_b e signers session &&
        (* the record is changing sessions: the previous session's optional=false parties sign *)
        required_covered_b e signers (opt_parties old) &&
        provenance_rule_b e session &&
        contract_rule_b e (uf e (owners ++ session ++ opt_parties old) session) true signers
      else
        roles_present_b session roles &&
        forallb (covered_b e signers) (all_addrs session) &&
        forallb (covered_b e signers) (all_addrs (opt_parties old)) &&
        contract_rule_b e (uf e
                             (addr_parties (all_addrs session ++ all_addrs (opt_parties old))) []) true signers
  | ODeleteRecord rollup owners roles =>
      if rollup then
        required_covered_b e signers owners &&
        match roles with Some rs => roles_signed_b e signers owners rs && provenance_rule_b e owners
                    | None => true end &&
        contract_rule_b e (uf e owners
                             (match roles with Some _ => owners | None => [] end)) true signers
      else forallb (covered_b e signers) (all_addrs owners) &&
           contract_rule_b e (uf e (addr_parties (all_addrs owners)) []) true signers
  | ODataAccess rollup owners roles =>
      (* the scope rules again: the owners do not change *)
      if rollup then
        required_covered_b e signers owners &&
        match roles with Some rs => roles_signed_b e signers owners rs && provenance_rule_b e owners
                    | None => true end &&
        contract_rule_b e (uf e owners
                             (match roles with Some _ => owners | None => [] end)) true signers
      else forallb (covered_b e signers) (all_addrs owners) &&
           contract_rule_b e (uf e (addr_parties (all_addrs owners)) []) true signers
  | OUpdateValueOwners vos proposed =>
      (* "When a value owner address is a non-marker address, and is being changed, that existing
         address must be one of the signers" (or have granted to one) *)
      forallb (fun o => match o with Some a => covered_b e signers a | None => false end) vos
  | OWriteScopeFull ex pr roles =>
      (* the value owner being replaced signs; unless that is the only change, the party rules of
         "Writing or Deleting a Scope" apply on top: ANY difference in the owner list (address,
         role or optional flag), the specification, the data access or the rollup flag counts *)
      forallb (covered_b e signers) (vo_required ex pr) &&
      (if doc_only_vo ex pr then
         contract_rule_b e (uf e (addr_parties (vo_required ex pr)) []) true signers
       else
         roles_present_b (sv_owners pr) roles && provenance_rule_b e (sv_owners pr) &&
         (if sv_rollup ex then
            required_covered_b e signers (sv_owners ex) && roles_signed_b e signers (sv_owners ex) roles &&
            contract_rule_b e (uf e (addr_parties (vo_required ex pr) ++ sv_owners ex) (sv_owners ex))
                            true signers
          else if nothing_changes ex pr then
            contract_rule_b e (uf e (addr_parties (vo_required ex pr)) []) true signers
          else
            forallb (covered_b e signers) (all_addrs (sv_owners ex)) &&
            contract_rule_b e (uf e (addr_parties (vo_required ex pr ++ all_addrs (sv_owners ex))) [])
                            true signers))
  end.

(** "used" read as "stands for a party" (directly or through that party's grant) ... *)
Definition doc_sound := doc_sound_gen stands_for_party_b.
(** ... and read literally as "is itself a party". *)
Definition doc_literal := doc_sound_gen (fun _ => is_party_signer_b).

(** The message is well-formed in the ways the message's own basic validation demands (non-empty
    unique parties with real roles, optional parties only with rollup). *)
Definition doc_wellformed (op : outer) : bool :=
  match op with
  | OWriteScopeNew proposed rollup _ => parties_basic proposed && optional_parties_ok rollup proposed
  | OWriteScope _ _ prop_rollup proposed _ _ => parties_basic proposed && optional_parties_ok prop_rollup proposed
  | OUpdateOwners rollup _ proposed _ => parties_basic proposed && optional_parties_ok rollup proposed
  | OWriteSession rollup _ _ proposed _ => parties_basic proposed && optional_parties_ok rollup proposed
  | OWriteScopeFull _ pr _ => parties_basic (sv_owners pr) && optional_parties_ok (sv_rollup pr) (sv_owners pr)
  | _ => true
  end.

(** Everyone the rules name signs directly, the roles are there, no smart contract signs:
    the write must go through. *)
Definition doc_direct (e : env) (op : outer) (signers : list Z) : bool :=
  doc_wellformed op && no_wasm_signer e signers &&
  match op with
  | OWriteScopeNew proposed rollup roles =>
      roles_present_b proposed roles && provenance_rule_b e proposed
  | OWriteScope ex_rollup existing prop_rollup proposed other_changed roles =>
      roles_present_b proposed roles && provenance_rule_b e proposed &&
      (if ex_rollup then required_direct_b signers existing && roles_direct_b signers existing roles
       else forallb (fun a => mem a signers) (all_addrs existing))
  | ODeleteScope rollup owners roles =>
      if rollup then required_direct_b signers owners &&
                     match roles with Some rs => roles_direct_b signers owners rs | None => true end
      else forallb (fun a => mem a signers) (all_addrs owners)
  | OUpdateOwners rollup existing proposed roles =>
      roles_present_b proposed roles && provenance_rule_b e proposed &&
      (if rollup then required_direct_b signers existing && roles_direct_b signers existing roles
       else forallb (fun a => mem a signers) (all_addrs existing))
  | OWriteSession rollup owners existing proposed roles =>
      if rollup then
        forallb (fun p => existsb (fun o => key_eqb (pkey p) (pkey o)) owners) proposed &&
        required_direct_b signers owners &&
        match existing with
        | None => roles_direct_b signers proposed roles && provenance_rule_b e proposed
        | Some ex => roles_direct_b signers ex roles && roles_present_b proposed roles &&
                     required_direct_b signers ex && provenance_rule_b e proposed &&
                     provenance_rule_b e ex
        end
      else roles_present_b proposed roles && provenance_rule_b e proposed &&
           forallb (fun a => mem a signers) (all_addrs owners)
  | OWriteRecord rollup owners session old roles =>
      if rollup then
        roles_direct_b signers session roles && required_direct_b signers owners &&
        required_direct_b signers session && required_direct_b signers (opt_parties old) &&
        provenance_rule_b e session
      else roles_present_b session roles &&
           forallb (fun a => mem a signers) (all_addrs session) &&
           forallb (fun a => mem a signers) (all_addrs (opt_parties old))
  | ODeleteRecord rollup owners roles =>
      if rollup then
        required_direct_b signers owners &&
        match roles with Some rs => roles_direct_b signers owners rs && provenance_rule_b e owners
                    | None => true end
      else forallb (fun a => mem a signers) (all_addrs owners)
  | ODataAccess rollup owners roles =>
      if rollup then
        required_direct_b signers owners &&
        match roles with Some rs => roles_direct_b signers owners rs && provenance_rule_b e owners
                    | None => false end
      else forallb (fun a => mem a signers) (all_addrs owners)
  | OUpdateValueOwners vos proposed =>
      match vos with [] => false | _ :: _ => true end &&
      forallb (fun o => match o with Some a => negb (Z.eqb a proposed) && mem a signers
                                | None => false end) vos
  | OWriteScopeFull ex pr roles =>
      forallb (fun a => mem a signers) (vo_required ex pr) &&
      (if doc_only_vo ex pr then true
       else
         roles_present_b (sv_owners pr) roles && provenance_rule_b e (sv_owners pr) &&
         (if sv_rollup ex then required_direct_b signers (sv_owners ex) &&
                               roles_direct_b signers (sv_owners ex) roles
          else forallb (fun a => mem a signers) (all_addrs (sv_owners ex))))
  end.

(** *** The documented table again, as data for the [Prop] theorems: whose signature an accepted
    message must account for, and for which (available parties, required roles) pair an injective
    assignment to signing parties must exist. *)
Definition doc_required_addrs (op : outer) : list Z :=
  match op with
  | OWriteScopeNew _ _ _ => []
  | OWriteScope ex_rollup existing prop_rollup proposed other_changed _ =>
      if ex_rollup then nonopt_addrs existing
      else if equal_parties existing proposed && Bool.eqb ex_rollup prop_rollup && negb other_changed
           then [] else all_addrs existing
  | ODeleteScope rollup owners _ => if rollup then nonopt_addrs owners else all_addrs owners
  | OUpdateOwners rollup existing _ _ => if rollup then nonopt_addrs existing else all_addrs existing
  | OWriteSession rollup owners existing _ _ =>
      if rollup then nonopt_addrs owners ++ nonopt_addrs (opt_parties existing) else all_addrs owners
  | OWriteRecord rollup owners session old _ =>
      if rollup then nonopt_addrs owners ++ nonopt_addrs session ++ nonopt_addrs (opt_parties old)
      else all_addrs session ++ all_addrs (opt_parties old)
  | ODeleteRecord rollup owners _ => if rollup then nonopt_addrs owners else all_addrs owners
  | ODataAccess rollup owners _ => if rollup then nonopt_addrs owners else all_addrs owners
  | OUpdateValueOwners vos _ => some_addrs vos
  | OWriteScopeFull ex pr _ =>
      vo_required ex pr ++
      (if doc_only_vo ex pr then []
       else if sv_rollup ex then nonopt_addrs (sv_owners ex)
       else if nothing_changes ex pr then [] else all_addrs (sv_owners ex))
  end.

Definition doc_role_pool (op : outer) : option (list party * list Z) :=
  match op with
  | OWriteScope true existing _ _ _ roles => Some (existing, roles)
  | ODeleteScope true owners (Some roles) => Some (owners, roles)
  | OUpdateOwners true existing _ roles => Some (existing, roles)
  | OWriteSession true _ (Some ex) _ roles => Some (ex, roles)
  | OWriteSession true _ None proposed roles => Some (proposed, roles)
  | OWriteRecord true _ session _ roles => Some (session, roles)
  | ODeleteRecord true owners (Some roles) => Some (owners, roles)
  | ODataAccess true owners (Some roles) => Some (owners, roles)
  | OWriteScopeFull ex pr roles =>
      if doc_only_vo ex pr then None
      else if sv_rollup ex then Some (sv_owners ex, roles) else None
  | _ => None
  end.

(** Whose signature the smart-contract position rule counts as "a party's": per endpoint the
    (required, available) party lists in the sense of ValidateSignersWithParties; plain address
    lists (rollup off) are [addr_parties]; [None]: nobody (no signature is looked at). *)
Definition doc_parties (op : outer) : option (list party * list party) :=
  match op with
  | OWriteScopeNew _ _ _ => None
  | OWriteScope ex_rollup existing prop_rollup proposed other_changed _ =>
      if ex_rollup then Some (existing, existing)
      else if equal_parties existing proposed && Bool.eqb ex_rollup prop_rollup && negb other_changed
           then None else Some (addr_parties (all_addrs existing), [])
  | ODeleteScope rollup owners roles =>
      if rollup then Some (owners, match roles with Some _ => owners | None => [] end)
      else Some (addr_parties (all_addrs owners), [])
  | OUpdateOwners rollup existing _ _ =>
      if rollup then Some (existing, existing) else Some (addr_parties (all_addrs existing), [])
  | OWriteSession rollup owners existing proposed _ =>
      if rollup then match existing with
                     | Some ex => Some (ex ++ owners, ex)
                     | None => Some (owners, proposed)
                     end
      else Some (addr_parties (all_addrs owners), [])
  | OWriteRecord rollup owners session old _ =>
      if rollup then Some (owners ++ session ++ opt_parties old, session)
      else Some (addr_parties (all_addrs session ++ all_addrs (opt_parties old)), [])
  | ODeleteRecord rollup owners roles =>
      if rollup then Some (owners, match roles with Some _ => owners | None => [] end)
      else Some (addr_parties (all_addrs owners), [])
  | ODataAccess rollup owners roles =>
      if rollup then Some (owners, match roles with Some _ => owners | None => [] end)
      else Some (addr_parties (all_addrs owners), [])
  | OUpdateValueOwners vos _ => Some (addr_parties (some_addrs vos), [])
  | OWriteScopeFull ex pr _ =>
      if doc_only_vo ex pr then Some (addr_parties (vo_required ex pr), [])
      else if sv_rollup ex then Some (addr_parties (vo_required ex pr) ++ sv_owners ex, sv_owners ex)
      else if nothing_changes ex pr then Some (addr_parties (vo_required ex pr), [])
      else Some (addr_parties (vo_required ex pr ++ all_addrs (sv_owners ex)), [])
  end.

Definition doc_used (uf : list party -> list party -> Z -> Prop) (op : outer) (s : Z) : Prop :=
  match doc_parties op with
  | Some (req, avail) => uf req avail s
  | None => False
  end.

(** validateSmartContractSigners is called on every endpoint except MsgUpdateValueOwners (there
    the first signer, when it is a smart contract, silences all the others instead). *)
Definition enforces_contract_rule (op : outer) : bool :=
  match op with OUpdateValueOwners _ _ => false | _ => true end.

(** ValidateScopeValueOwnersSigners lets a smart contract in first position silence every other
    signer, so on the endpoints that go through it direct signatures are only guaranteed to be
    enough when no smart contract signs. *)
Definition direct_with_contracts (op : outer) : bool :=
  match op with OUpdateValueOwners _ _ | OWriteScopeFull _ _ _ => false | _ => true end.

(** *** [doc_direct] in [Prop]: every party the documented table names signs DIRECTLY and the
    required roles are present among the directly signing parties (role lists with repeats:
    injective assignment). *)
Definition all_sign (signers l : list Z) : Prop := forall a, In a l -> In a signers.
Definition nonopt_sign (signers : list Z) (ps : list party) : Prop :=
  forall p, In p ps -> p_opt p = false -> In (p_addr p) signers.
Definition roles_direct (signers : list Z) (avail : list party) (roles : list Z) : Prop :=
  role_assignment (fun a => In a signers) avail roles.
Definition roles_present (avail : list party) (roles : list Z) : Prop :=
  role_assignment (fun _ => True) avail roles.
Definition parties_among (ps owners : list party) : Prop :=
  forall p, In p ps -> In (pkey p) (map pkey owners).

Definition doc_direct_P (e : env) (op : outer) (signers : list Z) : Prop :=
  match op with
  | OWriteScopeNew proposed rollup roles =>
      roles_present proposed roles /\ provenance_rule e proposed
  | OWriteScope ex_rollup existing prop_rollup proposed other_changed roles =>
      roles_present proposed roles /\ provenance_rule e proposed /\
      (if ex_rollup then nonopt_sign signers existing /\ roles_direct signers existing roles
       else all_sign signers (all_addrs existing))
  | ODeleteScope rollup owners roles =>
      if rollup then nonopt_sign signers owners /\
                     match roles with Some rs => roles_direct signers owners rs | None => True end
      else all_sign signers (all_addrs owners)
  | OUpdateOwners rollup existing proposed roles =>
      roles_present proposed roles /\ provenance_rule e proposed /\
      (if rollup then nonopt_sign signers existing /\ roles_direct signers existing roles
       else all_sign signers (all_addrs existing))
  | OWriteSession rollup owners existing proposed roles =>
      if rollup then
        parties_among proposed owners /\ nonopt_sign signers owners /\
        match existing with
        | None => roles_direct signers proposed roles /\ provenance_rule e proposed
        | Some ex => roles_direct signers ex roles /\ roles_present proposed roles /\
                     nonopt_sign signers ex /\ provenance_rule e proposed /\ provenance_rule e ex
        end
      else roles_present proposed roles /\ provenance_rule e proposed /\
           all_sign signers (all_addrs owners)
  | OWriteRecord rollup owners session old roles =>
      if rollup then
        roles_direct signers session roles /\ nonopt_sign signers owners /\
        nonopt_sign signers session /\ nonopt_sign signers (opt_parties old) /\
        provenance_rule e session
      else roles_present session roles /\ all_sign signers (all_addrs session) /\
           all_sign signers (all_addrs (opt_parties old))
  | ODeleteRecord rollup owners roles =>
      if rollup then
        nonopt_sign signers owners /\
        match roles with Some rs => roles_direct signers owners rs /\ provenance_rule e owners
                    | None => True end
      else all_sign signers (all_addrs owners)
  | ODataAccess rollup owners roles =>
      if rollup then
        nonopt_sign signers owners /\
        match roles with Some rs => roles_direct signers owners rs /\ provenance_rule e owners
                    | None => False end
      else all_sign signers (all_addrs owners)
  | OUpdateValueOwners vos proposed =>
      vos <> [] /\
      forall o, In o vos -> exists a, o = Some a /\ a <> proposed /\ In a signers
  | OWriteScopeFull ex pr roles =>
      all_sign signers (vo_required ex pr) /\
      (if doc_only_vo ex pr then True
       else
         roles_present (sv_owners pr) roles /\ provenance_rule e (sv_owners pr) /\
         (if sv_rollup ex then nonopt_sign signers (sv_owners ex) /\
                               roles_direct signers (sv_owners ex) roles
          else all_sign signers (all_addrs (sv_owners ex))))
  end.
