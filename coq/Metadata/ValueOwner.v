(** Model of the scope value owner and its scope token (property C09).

    Go sources transcribed (branch for branch; scopes with and without require_party_rollup, parties
    with any role and the optional flag, scope specifications with their required roles):
      x/metadata/types/address.go    MetadataAddress.Denom / Coin (denom "nft/<scope bech32>", amount 1),
                                     AccMDLinks.ValidateForScopes / GetAccAddrs / GetMDAddrsForAccAddr
      x/metadata/types/msgs.go       ValidateBasic of the four messages (at least one signer, one scope id)
      x/metadata/types/scope.go      Scope.ValidateBasic (>= 1 owner, unique parties), Scope.Equals
      x/metadata/keeper/bank.go      DenomOwner (error when a denom has two holders), GetScopesForValueOwner
      x/metadata/keeper/scope.go     SetScope, RemoveScope, GetScopeValueOwner(s), SetScopeValueOwner,
                                     SetScopeValueOwners, ValidateWriteScope, ValidateDeleteScope,
                                     ValidateUpdateValueOwners
      x/metadata/keeper/signers.go   ValidateScopeValueOwnersSigners, validateAllRequiredSigned,
                                     validateAllRequiredPartiesSigned (associateSigners,
                                     associateAuthorizations, associateRequiredRoles,
                                     associateAuthorizationsForRoles), validateRolesPresent,
                                     findAuthzGrantee + getAuthzMessageTypeURLs, isWasmAccount (as a
                                     flag), validateProvenanceRole, validateSmartContractSigners
      x/metadata/types/signer_utils.go BuildPartyDetails (for unique parties), GetUsedSigners
      x/metadata/keeper/scope.go     ValidateAddScopeDataAccess; msg_server.go AddScopeDataAccess (a
                                     message that rewrites the stored scope through SetScope)
      x/metadata/keeper/msg_server.go WriteScope, DeleteScope, UpdateValueOwners, MigrateValueOwner
                                     (signers handed to the bank as transfer agents)
      x/marker/keeper/send_restrictions.go  SendRestrictionFn: the two account-level rules (withdraw
                                     access among the transfer agents when the sender is a marker;
                                     deposit access among the agents -- or of the sender when there are
                                     no agents -- when the receiver is a restricted marker)
      forked cosmos-sdk x/bank       MsgSend (positive amount, blocked receiver), SendCoins
                                     (subUnlockedCoins, restriction, addCoins), MintCoins, BurnCoins

    Assumed about the outside: scope denoms have no marker of their own, no holds/vesting on them,
    nobody is sanctioned or opted into quarantine (quarantine of a scope token is out of scope, see
    DESIGN.md C09 limits), authz grants are GenericAuthorizations without expiry (Accept never
    consumes them), marker status plays no role for foreign denoms.  SendCoins over several denoms is
    modelled as the restriction evaluated once followed by one move per denom: sdk.Coins has distinct
    denoms, balances of different denoms are independent and a failure rolls everything back, so the
    order "subtract all, restrict, add all" of the Go code is unobservable.

    Accounts, scope ids, spec ids are interned to [N].  The bank is generic: per scope denom a list
    of (holder, amount) entries with non-zero amount (the SDK deletes zero balances) and a supply in
    [Z]; "exactly one indivisible token" is therefore a theorem about histories, not built in.
    A failing operation leaves the state unchanged (tx rollback).  No proofs here. *)
From Coq Require Import ZArith NArith List Bool.
Import ListNotations.
Open Scope Z_scope.

Definition addr := N.
Definition sid := N.
(** The metadata module account (mints, burns). *)
Definition MODULE : addr := 0%N.

Inductive kind := KWrite | KUpdate | KMigrate | KDelete | KAddData.
Definition kind_eqb (a b : kind) : bool :=
  match a, b with
  | KWrite, KWrite | KUpdate, KUpdate | KMigrate, KMigrate | KDelete, KDelete | KAddData, KAddData => true
  | _, _ => false
  end.
(** getAuthzMessageTypeURLs: the grant types accepted for a message type, in lookup order. *)
Definition kind_urls (k : kind) : list kind :=
  match k with KAddData => [KAddData; KWrite] | _ => [k] end.

Record marker := { mk_restricted : bool; mk_withdraw : list addr; mk_deposit : list addr }.
(** A party: address, role (the PartyType enum value), optional flag. *)
Definition party := (addr * N * bool)%type.
Definition p_addr (p : party) : addr := fst (fst p).
Definition p_role (p : party) : N := snd (fst p).
Definition p_opt (p : party) : bool := snd p.
Definition ROLE_PROVENANCE : N := 8%N.
(** [sc_data]: the data-access list, as a set of interned addresses. *)
Record scope := { sc_parties : list party; sc_spec : N; sc_data : list N; sc_rollup : bool }.

(** Finite maps: association lists, newest binding first. *)
Fixpoint get {V} (m : list (N * V)) (k : N) : option V :=
  match m with
  | [] => None
  | (k', v) :: r => if N.eqb k k' then Some v else get r k
  end.
Definition put {V} (m : list (N * V)) (k : N) (v : V) : list (N * V) := (k, v) :: m.

Definition mem (a : N) (l : list N) : bool := existsb (N.eqb a) l.
Definition is_nil {A} (l : list A) : bool := match l with [] => true | _ => false end.

Record state := {
  scopes : list (sid * option scope);        (* None = deleted *)
  specs : list (N * list N);                 (* scope specifications: id |-> required roles *)
  toks : list (sid * list (addr * Z));       (* bank balances of scope denoms *)
  sups : list (sid * Z);                     (* bank supply of scope denoms *)
  markers : list (addr * marker);
  grants : list (addr * addr * kind);        (* granter, grantee, message type *)
  wasm : list addr;                          (* smart-contract accounts *)
  blocked : list addr }.                     (* addresses the bank does not let receive funds *)

Definition with_scopes (s : state) v :=
  {| scopes := v; specs := specs s; toks := toks s; sups := sups s; markers := markers s;
     grants := grants s; wasm := wasm s; blocked := blocked s |}.
Definition with_toks (s : state) v :=
  {| scopes := scopes s; specs := specs s; toks := v; sups := sups s; markers := markers s;
     grants := grants s; wasm := wasm s; blocked := blocked s |}.
Definition with_sups (s : state) v :=
  {| scopes := scopes s; specs := specs s; toks := toks s; sups := v; markers := markers s;
     grants := grants s; wasm := wasm s; blocked := blocked s |}.
Definition with_markers (s : state) v :=
  {| scopes := scopes s; specs := specs s; toks := toks s; sups := sups s; markers := v;
     grants := grants s; wasm := wasm s; blocked := blocked s |}.
Definition with_grants (s : state) v :=
  {| scopes := scopes s; specs := specs s; toks := toks s; sups := sups s; markers := markers s;
     grants := v; wasm := wasm s; blocked := blocked s |}.

Definition scope_of (s : state) (d : sid) : option scope :=
  match get (scopes s) d with Some (Some sc) => Some sc | _ => None end.
Definition tok (s : state) (d : sid) : list (addr * Z) :=
  match get (toks s) d with Some l => l | None => [] end.
Definition sup (s : state) (d : sid) : Z :=
  match get (sups s) d with Some z => z | None => 0 end.
Definition marker_of (s : state) (a : addr) : option marker := get (markers s) a.
Definition is_marker (s : state) (a : addr) : bool :=
  match marker_of s a with Some _ => true | None => false end.
Definition is_wasm (s : state) (a : addr) : bool := mem a (wasm s).
Definition has_grant (s : state) (granter grantee : addr) (k : kind) : bool :=
  existsb (fun g => let '(a, b, k') := g in N.eqb a granter && N.eqb b grantee && kind_eqb k k') (grants s).

(** ** The bank, for one denom's holder list *)
Definition bal_of (hl : list (addr * Z)) (a : addr) : Z :=
  match find (fun e => N.eqb (fst e) a) hl with Some e => snd e | None => 0 end.
Definition set_bal (hl : list (addr * Z)) (a : addr) (v : Z) : list (addr * Z) :=
  let rest := filter (fun e => negb (N.eqb (fst e) a)) hl in
  if v =? 0 then rest else rest ++ [(a, v)].
Definition balance (s : state) (a : addr) (d : sid) : Z := bal_of (tok s d) a.

(** DenomOwner: [None] = error (two holders), [Some None] = nobody holds the denom. *)
Definition denom_owner (hl : list (addr * Z)) : option (option addr) :=
  match hl with
  | [] => Some None
  | [(a, _)] => Some (Some a)
  | _ => None
  end.
(** GetScopeValueOwner as the Scope query reports it ("" on error or when there is none). *)
Definition value_owner (s : state) (d : sid) : option addr :=
  match denom_owner (tok s d) with Some (Some a) => Some a | _ => None end.

Definition bank_sub (s : state) (a : addr) (d : sid) (amt : Z) : option state :=
  if bal_of (tok s d) a <? amt then None
  else Some (with_toks s (put (toks s) d (set_bal (tok s d) a (bal_of (tok s d) a - amt)))).
Definition bank_add (s : state) (a : addr) (d : sid) (amt : Z) : state :=
  with_toks s (put (toks s) d (set_bal (tok s d) a (bal_of (tok s d) a + amt))).
Definition bank_mint (s : state) (d : sid) (amt : Z) : state :=
  let s1 := bank_add s MODULE d amt in with_sups s1 (put (sups s1) d (sup s1 d + amt)).
Definition bank_burn (s : state) (d : sid) (amt : Z) : option state :=
  match bank_sub s MODULE d amt with
  | Some s1 => Some (with_sups s1 (put (sups s1) d (sup s1 d - amt)))
  | None => None
  end.

(** The marker module's send restriction, account-level part, with the transfer agents of the
    context. *)
Definition any_in (agents l : list addr) : bool := existsb (fun a => mem a l) agents.
Definition restrict (mks : list (addr * marker)) (from to : addr) (agents : list addr) : bool :=
  (match get mks from with
   | Some m => negb (is_nil agents) && any_in agents (mk_withdraw m)
   | None => true
   end) &&
  (match get mks to with
   | Some m => if mk_restricted m
               then (if is_nil agents then mem from (mk_deposit m) else any_in agents (mk_deposit m))
               else true
   | None => true
   end).

(** One denom moving from one account to another (subUnlockedCoins, then addCoins). *)
Definition move (s : state) (from to : addr) (d : sid) (amt : Z) : option state :=
  match bank_sub s from d amt with
  | Some s1 => Some (bank_add s1 to d amt)
  | None => None
  end.
Fixpoint move_all (s : state) (from to : addr) (ds : list sid) : option state :=
  match ds with
  | [] => Some s
  | d :: r => match move s from to d 1 with Some s1 => move_all s1 from to r | None => None end
  end.
(** SendCoins of [amt] of one denom / of one unit of each of several denoms. *)
Definition send_one (s : state) (from to : addr) (d : sid) (amt : Z) (agents : list addr) : option state :=
  if restrict (markers s) from to agents then move s from to d amt else None.
Definition send_many (s : state) (from to : addr) (ds : list sid) (agents : list addr) : option state :=
  if restrict (markers s) from to agents then move_all s from to ds else None.

(** ** Signer rules *)
(** An authorization usable for message type [k] exists from [granter] to [grantee]. *)
Definition authz (s : state) (granter grantee : addr) (k : kind) : bool :=
  existsb (has_grant s granter grantee) (kind_urls k).
Definition find_grantee (s : state) (granter : addr) (grantees : list addr) (k : kind) : option addr :=
  find (fun g => authz s granter g k) grantees.

(** validateAllRequiredSigned: every required address signed or granted authz to a signer;
    returns the signers that were used. *)
Fixpoint all_required_signed (s : state) (req sg : list addr) (k : kind) : option (list addr) :=
  match req with
  | [] => Some []
  | o :: r =>
      match (if mem o sg then Some o else find_grantee s o sg k), all_required_signed s r sg k with
      | Some x, Some l => Some (x :: l)
      | _, _ => None
      end
  end.

Definition opt_list {A} (o : option A) : list A := match o with Some a => [a] | None => [] end.

Fixpoint dedup (l : list N) : list N :=
  match l with [] => [] | a :: r => a :: filter (fun b => negb (N.eqb a b)) (dedup r) end.

(** PartyDetails (every party of the scope is "available", hence usable by the spec). *)
Record pd := { pd_addr : addr; pd_role : N; pd_opt : bool; pd_signer : option addr; pd_used : bool }.
Definition pd_of (p : party) : pd :=
  {| pd_addr := p_addr p; pd_role := p_role p; pd_opt := p_opt p; pd_signer := None; pd_used := false |}.
Definition with_signer (d : pd) (g : addr) (used : bool) : pd :=
  {| pd_addr := pd_addr d; pd_role := pd_role d; pd_opt := pd_opt d; pd_signer := Some g; pd_used := used |}.
Definition mark_used (d : pd) : pd :=
  {| pd_addr := pd_addr d; pd_role := pd_role d; pd_opt := pd_opt d; pd_signer := pd_signer d; pd_used := true |}.
Definition has_signer (d : pd) : bool := match pd_signer d with Some _ => true | None => false end.
Definition usable_as (r : N) (d : pd) : bool := negb (pd_used d) && N.eqb (pd_role d) r.

(** Update the first element on which [f] answers. *)
Fixpoint upd_first {A} (f : A -> option A) (l : list A) : option (list A) :=
  match l with
  | [] => None
  | x :: r => match f x with
              | Some y => Some (y :: r)
              | None => option_map (cons x) (upd_first f r)
              end
  end.

(** associateRequiredRoles: every required role takes the first unused signed party of that role. *)
Definition assoc_roles (roles : list N) (pds : list pd) : list pd * list N :=
  fold_left (fun (st : list pd * list N) r =>
    let '(ps, miss) := st in
    match upd_first (fun d => if usable_as r d && has_signer d then Some (mark_used d) else None) ps with
    | Some ps' => (ps', miss)
    | None => (ps, miss ++ [r])
    end) roles (pds, []).

(** associateAuthorizationsForRoles: a missing role takes the first unused unsigned party of that
    role that granted authz to a signer. *)
Definition assoc_authz_roles (s : state) (sg : list addr) (k : kind) (missing : list N) (pds : list pd)
  : list pd * bool :=
  fold_left (fun (st : list pd * bool) r =>
    let '(ps, bad) := st in
    match upd_first (fun d => if usable_as r d && negb (has_signer d)
                              then match find_grantee s (pd_addr d) sg k with
                                   | Some g => Some (with_signer d g true)
                                   | None => None
                                   end
                              else None) ps with
    | Some ps' => (ps', bad)
    | None => (ps, true)
    end) missing (pds, false).

(** validateAllRequiredPartiesSigned with reqParties = availableParties = the scope's parties. *)
Definition parties_signed (s : state) (parties : list party) (roles : list N) (sg : list addr) (k : kind)
  : option (list pd) :=
  let p1 := map (fun p => let d := pd_of p in
                          if mem (pd_addr d) sg then with_signer d (pd_addr d) false else d) parties in
  let p2 := map (fun d => if negb (pd_opt d) && negb (has_signer d)
                          then match find_grantee s (pd_addr d) sg k with
                               | Some g => with_signer d g false
                               | None => d
                               end
                          else d) p1 in
  if existsb (fun d => negb (pd_opt d) && negb (has_signer d)) p2 then None else
  let '(p3, missing) := assoc_roles roles p2 in
  let '(p4, bad) := assoc_authz_roles s sg k missing p3 in
  if bad then None else Some p4.
Definition used_signers (pds : list pd) : list addr := flat_map (fun d => opt_list (pd_signer d)) pds.

(** validateRolesPresent: every required role has its own party (signed or not). *)
Fixpoint remove_first_role (r : N) (l : list party) : option (list party) :=
  match l with
  | [] => None
  | p :: rest => if N.eqb (p_role p) r then Some rest else option_map (cons p) (remove_first_role r rest)
  end.
Fixpoint roles_present (roles : list N) (l : list party) : bool :=
  match roles with
  | [] => true
  | r :: rest => match remove_first_role r l with
                 | Some l' => roles_present rest l'
                 | None => false
                 end
  end.

(** validateProvenanceRole: smart-contract parties, and only they, have the PROVENANCE role. *)
Definition prov_ok (s : state) (parties : list party) : bool :=
  forallb (fun p => Bool.eqb (is_wasm s (p_addr p)) (N.eqb (p_role p) ROLE_PROVENANCE)) parties.

Definition party_addrs (l : list party) : list addr := dedup (map p_addr l).
Definition required_addrs (l : list party) : list addr :=
  dedup (map p_addr (filter (fun p => negb (p_opt p)) l)).

(** If the first signer is a smart contract, all other signers are ignored. *)
Definition effective_signers (s : state) (sg : list addr) : list addr :=
  match sg with
  | a :: _ => if is_wasm s a then [a] else sg
  | [] => []
  end.

Definition opt_is (o : option addr) (a : addr) : bool :=
  match o with Some b => N.eqb a b | None => false end.

(** The loop of ValidateScopeValueOwnersSigners; returns the used signers. *)
Fixpoint vo_check (s : state) (existing : list addr) (proposed : option addr) (eff : list addr) (k : kind)
  : option (list addr) :=
  match existing with
  | [] => Some []
  | e :: r =>
      if opt_is proposed e then vo_check s r proposed eff k
      else if mem e eff then option_map (cons e) (vo_check s r proposed eff k)
      else if is_marker s e then vo_check s r proposed eff k
      else match find_grantee s e eff k with
           | Some g => option_map (cons g) (vo_check s r proposed eff k)
           | None => None
           end
  end.

(** ValidateScopeValueOwnersSigners: (transfer agents, used signers). *)
Definition vo_signers (s : state) (existing : list addr) (proposed : option addr) (sg : list addr) (k : kind)
  : option (list addr * list addr) :=
  if (match existing with [e] => opt_is proposed e | _ => false end) then Some ([], [])
  else let eff := effective_signers s sg in
       match vo_check s existing proposed eff k with
       | Some used => Some (eff, used)
       | None => None
       end.

(** validateSmartContractSigners. *)
Fixpoint sc_check (s : state) (used : list addr) (k : kind) (can_wasm : bool) (sg : list addr) : bool :=
  match sg with
  | [] => true
  | a :: rest =>
      if is_wasm s a then
        if negb can_wasm then false
        else if mem a used then sc_check s used k true rest
        else if is_nil rest then false
        else forallb (fun granter => authz s granter a k) rest && sc_check s used k true rest
      else sc_check s used k false rest
  end.

Definition opt_addr_eqb (x y : option addr) : bool :=
  match x, y with
  | Some a, Some b => N.eqb a b
  | None, None => true
  | _, _ => false
  end.

(** SetScopeValueOwner (mint when there is no holder, send, burn when there is no new owner). *)
Definition set_vo (s : state) (d : sid) (newvo : option addr) (agents : list addr) : option state :=
  if (match newvo with Some p => mem p (blocked s) | None => false end) then None else
  match denom_owner (tok s d) with
  | None => None
  | Some cur =>
      if opt_addr_eqb cur newvo then Some s else
      let s1 := match cur with Some _ => s | None => bank_mint s d 1 end in
      let from := match cur with Some c => c | None => MODULE end in
      let to := match newvo with Some p => p | None => MODULE end in
      match send_one s1 from to d 1 agents with
      | None => None
      | Some s2 => match newvo with Some _ => Some s2 | None => bank_burn s2 d 1 end
      end
  end.

Definition same_party (p q : party) : bool := N.eqb (p_addr p) (p_addr q) && N.eqb (p_role p) (p_role q).
Definition party_eqb (p q : party) : bool := same_party p q && Bool.eqb (p_opt p) (p_opt q).
Fixpoint has_dup_party (l : list party) : bool :=
  match l with [] => false | a :: r => existsb (same_party a) r || has_dup_party r end.
(** Scope.ValidateBasic: at least one party, unique (address, role), optional only with rollup. *)
Definition parties_basic (l : list party) (rollup : bool) : bool :=
  negb (is_nil l) && negb (has_dup_party l) && (rollup || forallb (fun p => negb (p_opt p)) l).
Definition parties_eqb (l1 l2 : list party) : bool :=
  Nat.eqb (length l1) (length l2) && forallb (fun a => existsb (party_eqb a) l2) l1.
Definition set_eqb (l1 l2 : list N) : bool :=
  forallb (fun a => mem a l2) l1 && forallb (fun a => mem a l1) l2.
Definition scope_eqb (a b : scope) : bool :=
  N.eqb (sc_spec a) (sc_spec b) && parties_eqb (sc_parties a) (sc_parties b) &&
  set_eqb (sc_data a) (sc_data b) && Bool.eqb (sc_rollup a) (sc_rollup b).
(** ** Messages *)
Inductive op :=
| OWrite (sg : list addr) (d : sid) (parties : list party) (spec : N) (data : list N) (rollup : bool)
         (vo : option addr)
| OAddData (sg : list addr) (d : sid) (da : list N)      (* MsgAddScopeDataAccess *)
| OUpdate (sg : list addr) (ds : list sid) (p : addr)
| OMigrate (sg : list addr) (e p : addr)
| ODelete (sg : list addr) (d : sid)
| OSend (from to : addr) (d : sid) (amt : Z)            (* bank MsgSend of a scope denom *)
| OGrant (granter grantee : addr) (k : kind)             (* authz, environment *)
| ORevoke (granter grantee : addr) (k : kind)
| OSetMarker (a : addr) (m : marker).                    (* marker access administration, environment *)

(** The party / owner signature check of an existing scope for message type [k]; returns the used
    signers. *)
Definition existing_signed (s : state) (e : scope) (roles : option (list N)) (sg : list addr) (k : kind)
  : option (list addr) :=
  if negb (sc_rollup e) then all_required_signed s (party_addrs (sc_parties e)) sg k
  else match roles with
       | None => all_required_signed s (required_addrs (sc_parties e)) sg k
       | Some rs => option_map used_signers (parties_signed s (sc_parties e) rs sg k)
       end.

(** MsgWriteScope: ValidateBasic, ValidateWriteScope, SetScope. *)
Definition step_write (s : state) sg d parties spec data rollup (vo : option addr) : option state :=
  if is_nil sg || negb (parties_basic parties rollup) then None else
  let existing := scope_of s d in
  let prop := {| sc_parties := parties; sc_spec := spec; sc_data := data; sc_rollup := rollup |} in
  match (match existing, vo with Some _, Some _ => denom_owner (tok s d) | _, _ => Some None end) with
  | None => None
  | Some cur =>
      let only_vo := match existing, cur, vo with
                     | Some e, Some c, Some p => negb (N.eqb c p) && scope_eqb e prop
                     | _, _, _ => false
                     end in
      let pres :=
        if only_vo then Some [] else
        match get (specs s) spec with
        | None => None
        | Some roles =>
            if negb (roles_present roles parties) then None else
            if negb (prov_ok s parties) then None else
            match existing with
            | Some e =>
                if negb (sc_rollup e) then
                  (if scope_eqb e prop && opt_addr_eqb cur vo then Some []
                   else all_required_signed s (party_addrs (sc_parties e)) sg KWrite)
                else option_map used_signers (parties_signed s (sc_parties e) roles sg KWrite)
            | None => Some []
            end
        end in
      match pres with
      | None => None
      | Some pused =>
          match vo_signers s (opt_list cur) vo sg KWrite with
          | None => None
          | Some (agents, used) =>
              if negb (sc_check s (used ++ pused) KWrite true sg) then None else
              match (match vo with Some p => set_vo s d (Some p) agents | None => Some s end) with
              | None => None
              | Some s1 => Some (with_scopes s1 (put (scopes s1) d (Some prop)))
              end
          end
      end
  end.

(** MsgDeleteScope: ValidateDeleteScope, RemoveScope. *)
Definition step_delete (s : state) sg d : option state :=
  if is_nil sg then None else
  match scope_of s d with
  | None => None
  | Some e =>
      match existing_signed s e (get (specs s) (sc_spec e)) sg KDelete with
      | None => None
      | Some pused =>
          match denom_owner (tok s d) with
          | None => None
          | Some cur =>
              match vo_signers s (opt_list cur) None sg KDelete with
              | None => None
              | Some (agents, used) =>
                  if negb (sc_check s (used ++ pused) KDelete true sg) then None else
                  match set_vo s d None agents with
                  | None => None
                  | Some s1 => Some (with_scopes s1 (put (scopes s1) d None))
                  end
              end
          end
      end
  end.

(** MsgAddScopeDataAccess: ValidateAddScopeDataAccess, then SetScope of the stored scope (whose
    value owner field is empty, so the token is not touched). *)
Definition step_adddata (s : state) sg d (da : list N) : option state :=
  if is_nil sg || is_nil da then None else
  match scope_of s d with
  | None => None
  | Some e =>
      if existsb (fun x => mem x (sc_data e)) da then None else
      let ok :=
        if negb (sc_rollup e) then
          match all_required_signed s (party_addrs (sc_parties e)) sg KAddData with
          | Some u => sc_check s u KAddData true sg
          | None => false
          end
        else match get (specs s) (sc_spec e) with
             | None => false
             | Some rs =>
                 match parties_signed s (sc_parties e) rs sg KAddData with
                 | Some pds => prov_ok s (sc_parties e) && sc_check s (used_signers pds) KAddData true sg
                 | None => false
                 end
             end in
      if ok then Some (with_scopes s (put (scopes s) d
                   (Some {| sc_parties := sc_parties e; sc_spec := sc_spec e;
                            sc_data := sc_data e ++ da; sc_rollup := sc_rollup e |})))
      else None
  end.

(** GetScopeValueOwners + AccMDLinks.ValidateForScopes: every id once, every id has a holder. *)
Fixpoint links_of (s : state) (seen : list sid) (ds : list sid) : option (list (addr * sid)) :=
  match ds with
  | [] => Some []
  | d :: r =>
      if mem d seen then None else
      match denom_owner (tok s d) with
      | Some (Some a) => option_map (cons (a, d)) (links_of s (d :: seen) r)
      | _ => None
      end
  end.

(** SetScopeValueOwners: one SendCoins per distinct current holder, in order of first appearance. *)
Fixpoint send_groups (s : state) (froms : list addr) (links : list (addr * sid)) (p : addr) (agents : list addr)
  : option state :=
  match froms with
  | [] => Some s
  | f :: r =>
      if N.eqb f p then send_groups s r links p agents else
      match send_many s f p (map snd (filter (fun l => N.eqb (fst l) f) links)) agents with
      | Some s1 => send_groups s1 r links p agents
      | None => None
      end
  end.

(** ValidateUpdateValueOwners + SetScopeValueOwners, shared by update and migrate. *)
Definition update_core (s : state) sg (links : list (addr * sid)) (p : addr) (k : kind) : option state :=
  if is_nil links then None else
  if existsb (fun l => N.eqb (fst l) p) links then None else
  let froms := dedup (map fst links) in
  match vo_signers s froms (Some p) sg k with
  | None => None
  | Some (agents, _) =>
      if mem p (blocked s) then None else send_groups s froms links p agents
  end.

Definition step_update (s : state) sg ds p : option state :=
  if is_nil sg || is_nil ds then None else
  match links_of s [] ds with
  | None => None
  | Some links => update_core s sg links p KUpdate
  end.

(** GetScopesForValueOwner: every scope denom of which the account has a balance. *)
Definition scopes_held (s : state) (e : addr) : list sid :=
  filter (fun d => 0 <? balance s e d) (dedup (map fst (toks s))).

Definition step_migrate (s : state) sg e p : option state :=
  if is_nil sg then None else
  update_core s sg (map (fun d => (e, d)) (scopes_held s e)) p KMigrate.

Definition step_send (s : state) from to d amt : option state :=
  if amt <=? 0 then None else
  if mem to (blocked s) then None else
  send_one s from to d amt [].

Definition grant_eqb (g : addr * addr * kind) a b k : bool :=
  let '(a', b', k') := g in N.eqb a' a && N.eqb b' b && kind_eqb k' k.

Definition step_opt (s : state) (o : op) : option state :=
  match o with
  | OWrite sg d parties spec data rollup vo => step_write s sg d parties spec data rollup vo
  | OAddData sg d da => step_adddata s sg d da
  | OUpdate sg ds p => step_update s sg ds p
  | OMigrate sg e p => step_migrate s sg e p
  | ODelete sg d => step_delete s sg d
  | OSend from to d amt => step_send s from to d amt
  | OGrant a b k => Some (with_grants s ((a, b, k) :: grants s))
  | ORevoke a b k => Some (with_grants s (filter (fun g => negb (grant_eqb g a b k)) (grants s)))
  | OSetMarker a m => Some (with_markers s (put (markers s) a m))
  end.

Definition step (s : state) (o : op) : state * bool :=
  match step_opt s o with Some s' => (s', true) | None => (s, false) end.
Definition run_op (s : state) (o : op) : state := fst (step s o).
Definition run (s : state) (ops : list op) : state := fold_left run_op ops s.

(** ** What the property talks about *)
Definition holder (s : state) (d : sid) : option addr := value_owner s d.

(** Who stands behind a message: its Signers, or the sender of a bank send. *)
Definition signers_of (o : op) : list addr :=
  match o with
  | OWrite sg _ _ _ _ _ _ | OUpdate sg _ _ | OMigrate sg _ _ | ODelete sg _ | OAddData sg _ _ => sg
  | OSend from _ _ _ => [from]
  | _ => []
  end.
Definition kind_of (o : op) : option kind :=
  match o with
  | OWrite _ _ _ _ _ _ _ => Some KWrite
  | OUpdate _ _ _ => Some KUpdate
  | OMigrate _ _ _ => Some KMigrate
  | ODelete _ _ => Some KDelete
  | _ => None
  end.

(** The consent of holder [h] carried by operation [o] in state [s]. *)
Definition consent (s : state) (o : op) (h : addr) : Prop :=
  In h (signers_of o) \/
  (exists k g, kind_of o = Some k /\ In g (signers_of o) /\ has_grant s h g k = true) \/
  (exists m g, marker_of s h = Some m /\ In g (signers_of o) /\ In g (mk_withdraw m)).

(** Deposit permission when the new holder [n] is a restricted marker. *)
Definition deposit_ok (s : state) (o : op) (n : addr) : Prop :=
  forall m, marker_of s n = Some m -> mk_restricted m = true ->
  exists g, In g (signers_of o) /\ In g (mk_deposit m).

(** Well-formed bank and store: per scope denom, either no supply and no balance, or supply one
    held as one unit by one account, and then the scope exists. *)
Definition BankInv (s : state) : Prop :=
  forall d, (sup s d = 0 /\ tok s d = []) \/ (sup s d = 1 /\ exists h, tok s d = [(h, 1)]).
Definition TokScope (s : state) : Prop :=
  forall d, tok s d <> [] -> scope_of s d <> None.
Definition Inv (s : state) : Prop := BankInv s /\ TokScope s.

(** A chain without scopes or scope tokens. *)
Definition init (sp : list (N * list N)) (mks : list (addr * marker)) (w bl : list addr) : state :=
  {| scopes := []; specs := sp; toks := []; sups := []; markers := mks; grants := []; wasm := w; blocked := bl |}.
