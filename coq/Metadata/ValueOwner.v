(** Model of the scope value owner and its scope token (property C09).

    Go sources transcribed (branch for branch; scopes with and without require_party_rollup, parties
    with any role and the optional flag, scope specifications with their required roles):
      x/metadata/types/address.go    MetadataAddress.Denom / Coin (denom "nft/<scope bech32>", amount 1),
                                     AccMDLinks.ValidateForScopes / GetAccAddrs / GetMDAddrsForAccAddr
      x/metadata/types/msgs.go       ValidateBasic of the four messages (at least one signer, one scope id)
      x/metadata/types/scope.go      Scope.ValidateBasic (>= 1 owner, unique parties), Scope.Equals
      x/metadata/keeper/bank.go      DenomOwner (error when a denom has two holders), GetScopesForValueOwner
      x/metadata/keeper/scope.go     SetScope, RemoveScope, GetScopeValueOwner(s), SetScopeValueOwner,
                                     SetScopeValueOwners, ValidateWriteScope, ValidateDeleteScope,
                                     ValidateUpdateValueOwners
      x/metadata/keeper/signers.go   ValidateScopeValueOwnersSigners, validateAllRequiredSigned,
                                     validateAllRequiredPartiesSigned (associateSigners,
                                     associateAuthorizations, associateRequiredRoles,
                                     associateAuthorizationsForRoles), validateRolesPresent,
                                     findAuthzGrantee + getAuthzMessageTypeURLs (AuthzCache hit,
                                     GetAuthorization, Accept, DeleteGrant / SaveGrant, SetAcceptable),
                                     isWasmAccount (as a flag), validateProvenanceRole,
                                     validateSmartContractSigners
      x/metadata/types/signer_utils.go BuildPartyDetails (for unique parties), GetUsedSigners, AuthzCache
                                     (one per message: UnwrapMetadataContext clears it)
      x/metadata/keeper/scope.go     ValidateAddScopeDataAccess; msg_server.go AddScopeDataAccess (a
                                     message that rewrites the stored scope through SetScope)
      x/metadata/keeper/msg_server.go WriteScope, DeleteScope, UpdateValueOwners, MigrateValueOwner
                                     (signers handed to the bank as transfer agents)
      x/marker/keeper/send_restrictions.go  SendRestrictionFn: the two account-level rules (withdraw
                                     access among the transfer agents when the sender is a marker --
                                     IN EVERY STATUS of that marker; deposit access among the agents --
                                     or of the sender when there are no agents -- when the receiver is
                                     a restricted marker).  The status of the sending marker guards only
                                     the marker's OWN denom and validateSendDenom looks at the marker of
                                     the coin's denom; a scope denom is never a marker denom, so neither
                                     rule reads the status ([mk_status], [mk_forced] are carried as data).
      x/marker/keeper/params.go      ValidateUnrestictedDenom (as the fact that it refuses every scope
                                     denom), msg_server.go AddMarker / AddFinalizeActivateMarker (refused),
                                     Mint / Transfer / Withdraw of a denom without marker (refused)
      x/sanction/keeper/send_restriction.go  a sanctioned sender cannot send (no bypass is ever set)
      x/quarantine/keeper/send_restriction.go, keeper.go (AddQuarantinedCoins, AcceptQuarantinedFunds,
                                     SetOptIn/SetOptOut, SetAutoResponse), msg_server.go (OptIn, OptOut,
                                     Accept, UpdateAutoResponses): a transfer to an opted-in receiver
                                     without auto-accept for the sender is redirected to the quarantine
                                     funds holder and recorded per (receiver, sender); Accept releases
                                     the recorded coins with the quarantine bypass
      app/app.go                     order of the composed restriction: marker, sanction, quarantine;
                                     unsanctionable = module accounts + quarantine funds holder; the
                                     quarantine funds holder is NOT a bank-blocked address
      forked cosmos-sdk x/bank       MsgSend (positive amount, blocked receiver), MsgMultiSend (one input,
                                     outputs with valid non-empty coins, blocked receivers,
                                     InputOutputCoins), SendCoins (subUnlockedCoins, restriction,
                                     addCoins to the address the restriction returned), MintCoins, BurnCoins
      forked cosmos-sdk x/authz      Keeper.SaveGrant (one grant per (grantee, granter, type); expiration
                                     must be after the block time), DeleteGrant (error when absent),
                                     GetAuthorization (absent when expiration is BEFORE the block time),
                                     GenericAuthorization.Accept, CountAuthorization.Accept (error when
                                     <= 0; Delete at 1; otherwise Updated with one use less),
                                     BeginBlocker / DequeueAndDeleteExpiredGrants (op OPrune)

    Assumed about the outside: the unrestricted-denom expression is the default one (no '/') and governance
    creates no marker on a scope denom; scope denoms carry no holds/vesting;
    quarantine records have one sender (SendCoins and the one-input MsgMultiSend never produce more);
    Decline and auto-decline only set a flag that no transfer reads (not modelled).  SendCoins over
    several denoms is modelled as the restriction evaluated once followed by one move per denom:
    sdk.Coins has distinct denoms, balances of different denoms are independent and a failure rolls
    everything back, so the order "subtract all, restrict, add all" of the Go code is unobservable; for
    the same reason MsgMultiSend is one restricted send per output.

    Accounts, scope ids, spec ids are interned to [N]; block time is a [Z].  The bank is generic: per
    scope denom a list of (holder, amount) entries with non-zero amount (the SDK deletes zero
    balances) and a supply in [Z]; "exactly one indivisible token" is therefore a theorem about
    histories, not built in.  A failing operation leaves the state unchanged (tx rollback); an authz
    error (SaveGrant of a decremented count authorization whose expiration equals the block time)
    fails the message like a missing signature does.  No proofs here. *)
From Coq Require Import ZArith NArith List Bool.
Import ListNotations.
Open Scope Z_scope.

Definition addr := N.
Definition sid := N.
(** The metadata module account (mints, burns). *)
Definition MODULE : addr := 0%N.
(** The quarantine module's funds holder. *)
Definition QHOLD : addr := 11%N.

Inductive kind := KWrite | KUpdate | KMigrate | KDelete | KAddData.
Definition kind_eqb (a b : kind) : bool :=
  match a, b with
  | KWrite, KWrite | KUpdate, KUpdate | KMigrate, KMigrate | KDelete, KDelete | KAddData, KAddData => true
  | _, _ => false
  end.
(** getAuthzMessageTypeURLs: the grant types accepted for a message type, in lookup order. *)
Definition kind_urls (k : kind) : list kind :=
  match k with KAddData => [KAddData; KWrite] | _ => [k] end.

(** [mk_status]: 1 proposed, 2 finalized, 3 active, 4 cancelled, 5 destroyed. *)
Record marker := { mk_restricted : bool; mk_status : N; mk_forced : bool;
                   mk_withdraw : list addr; mk_deposit : list addr }.
(** A party: address, role (the PartyType enum value), optional flag. *)
Definition party := (addr * N * bool)%type.
Definition p_addr (p : party) : addr := fst (fst p).
Definition p_role (p : party) : N := snd (fst p).
Definition p_opt (p : party) : bool := snd p.
Definition ROLE_PROVENANCE : N := 8%N.
(** [sc_data]: the data-access list, as a set of interned addresses. *)
Record scope := { sc_parties : list party; sc_spec : N; sc_data : list N; sc_rollup : bool }.

(** An authz grant: [g_exp] expiration (block time), [g_left = None] GenericAuthorization,
    [Some n] CountAuthorization with n uses left. *)
Record grant := { g_granter : addr; g_grantee : addr; g_kind : kind; g_exp : option Z; g_left : option Z }.
(** A quarantine record: coins sent by [q_from] to [q_to], held by the funds holder. *)
Record qrec := { q_to : addr; q_from : addr; q_coins : list (sid * Z) }.

(** Finite maps: association lists, newest binding first. *)
Fixpoint get {V} (m : list (N * V)) (k : N) : option V :=
  match m with
  | [] => None
  | (k', v) :: r => if N.eqb k k' then Some v else get r k
  end.
Definition put {V} (m : list (N * V)) (k : N) (v : V) : list (N * V) := (k, v) :: m.

Definition mem (a : N) (l : list N) : bool := existsb (N.eqb a) l.
Definition is_nil {A} (l : list A) : bool := match l with [] => true | _ => false end.

Record state := {
  scopes : list (sid * option scope);        (* None = deleted *)
  specs : list (N * list N);                 (* scope specifications: id |-> required roles *)
  toks : list (sid * list (addr * Z));       (* bank balances of scope denoms *)
  sups : list (sid * Z);                     (* bank supply of scope denoms *)
  markers : list (addr * marker);
  grants : list grant;                       (* the authz store *)
  wasm : list addr;                          (* smart-contract accounts *)
  blocked : list addr;                       (* addresses the bank does not let receive funds *)
  sanctioned : list addr;
  qopt : list addr;                          (* opted into quarantine *)
  qauto : list (addr * addr);                (* (receiver, sender) with auto-accept *)
  qrecs : list qrec;
  now : Z }.                                 (* block time *)

Definition with_scopes (s : state) v :=
  {| scopes := v; specs := specs s; toks := toks s; sups := sups s; markers := markers s;
     grants := grants s; wasm := wasm s; blocked := blocked s; sanctioned := sanctioned s;
     qopt := qopt s; qauto := qauto s; qrecs := qrecs s; now := now s |}.
Definition with_toks (s : state) v :=
  {| scopes := scopes s; specs := specs s; toks := v; sups := sups s; markers := markers s;
     grants := grants s; wasm := wasm s; blocked := blocked s; sanctioned := sanctioned s;
     qopt := qopt s; qauto := qauto s; qrecs := qrecs s; now := now s |}.
Definition with_sups (s : state) v :=
  {| scopes := scopes s; specs := specs s; toks := toks s; sups := v; markers := markers s;
     grants := grants s; wasm := wasm s; blocked := blocked s; sanctioned := sanctioned s;
     qopt := qopt s; qauto := qauto s; qrecs := qrecs s; now := now s |}.
Definition with_markers (s : state) v :=
  {| scopes := scopes s; specs := specs s; toks := toks s; sups := sups s; markers := v;
     grants := grants s; wasm := wasm s; blocked := blocked s; sanctioned := sanctioned s;
     qopt := qopt s; qauto := qauto s; qrecs := qrecs s; now := now s |}.
Definition with_grants (s : state) v :=
  {| scopes := scopes s; specs := specs s; toks := toks s; sups := sups s; markers := markers s;
     grants := v; wasm := wasm s; blocked := blocked s; sanctioned := sanctioned s;
     qopt := qopt s; qauto := qauto s; qrecs := qrecs s; now := now s |}.
Definition with_sanctioned (s : state) v :=
  {| scopes := scopes s; specs := specs s; toks := toks s; sups := sups s; markers := markers s;
     grants := grants s; wasm := wasm s; blocked := blocked s; sanctioned := v;
     qopt := qopt s; qauto := qauto s; qrecs := qrecs s; now := now s |}.
Definition with_qopt (s : state) v :=
  {| scopes := scopes s; specs := specs s; toks := toks s; sups := sups s; markers := markers s;
     grants := grants s; wasm := wasm s; blocked := blocked s; sanctioned := sanctioned s;
     qopt := v; qauto := qauto s; qrecs := qrecs s; now := now s |}.
Definition with_qauto (s : state) v :=
  {| scopes := scopes s; specs := specs s; toks := toks s; sups := sups s; markers := markers s;
     grants := grants s; wasm := wasm s; blocked := blocked s; sanctioned := sanctioned s;
     qopt := qopt s; qauto := v; qrecs := qrecs s; now := now s |}.
Definition with_qrecs (s : state) v :=
  {| scopes := scopes s; specs := specs s; toks := toks s; sups := sups s; markers := markers s;
     grants := grants s; wasm := wasm s; blocked := blocked s; sanctioned := sanctioned s;
     qopt := qopt s; qauto := qauto s; qrecs := v; now := now s |}.
Definition with_now (s : state) v :=
  {| scopes := scopes s; specs := specs s; toks := toks s; sups := sups s; markers := markers s;
     grants := grants s; wasm := wasm s; blocked := blocked s; sanctioned := sanctioned s;
     qopt := qopt s; qauto := qauto s; qrecs := qrecs s; now := v |}.

Definition scope_of (s : state) (d : sid) : option scope :=
  match get (scopes s) d with Some (Some sc) => Some sc | _ => None end.
Definition tok (s : state) (d : sid) : list (addr * Z) :=
  match get (toks s) d with Some l => l | None => [] end.
Definition sup (s : state) (d : sid) : Z :=
  match get (sups s) d with Some z => z | None => 0 end.
Definition marker_of (s : state) (a : addr) : option marker := get (markers s) a.
Definition is_marker (s : state) (a : addr) : bool :=
  match marker_of s a with Some _ => true | None => false end.
Definition is_wasm (s : state) (a : addr) : bool := mem a (wasm s).

(** ** The authz store *)
Definition g_is (x y : addr) (k : kind) (g : grant) : bool :=
  N.eqb (g_granter g) x && N.eqb (g_grantee g) y && kind_eqb (g_kind g) k.
Definition lookup (st : list grant) (x y : addr) (k : kind) : option grant := find (g_is x y k) st.
(** GetAuthorization answers nothing when the expiration is BEFORE the block time. *)
Definition expired (t : Z) (g : grant) : bool :=
  match g_exp g with Some e => e <? t | None => false end.
(** Accept answers: always for a generic authorization, with uses left for a count authorization. *)
Definition live (t : Z) (g : grant) : bool :=
  negb (expired t g) && match g_left g with None => true | Some n => 0 <? n end.
(** [usable t st x y k]: at block time [t] the store holds an authorization from granter [x] to
    grantee [y] for message type [k] that is not expired and that Accept accepts. *)
Definition usable (t : Z) (st : list grant) (x y : addr) (k : kind) : bool :=
  match lookup st x y k with Some g => live t g | None => false end.
Definition has_grant (s : state) (granter grantee : addr) (k : kind) : bool :=
  usable (now s) (grants s) granter grantee k.

(** The first authorization stored under the key, replaced / removed. *)
Fixpoint st_update (st : list grant) (x y : addr) (k : kind) (new : option grant) : list grant :=
  match st with
  | [] => []
  | g :: r => if g_is x y k g then match new with Some g' => g' :: r | None => r end
              else g :: st_update r x y k new
  end.

(** What one message carries through its signer checks: the authz store as updated so far, and the
    AuthzCache (granter, grantee, message type) of authorizations already accepted for this message. *)
Record actx := { a_grants : list grant; a_cache : list (addr * addr * kind) }.
Definition cache_has (c : list (addr * addr * kind)) (x y : addr) (k : kind) : bool :=
  existsb (fun e => N.eqb (fst (fst e)) x && N.eqb (snd (fst e)) y && kind_eqb (snd e) k) c.
Definition cached (a : actx) (st : list grant) (x y : addr) (k : kind) : actx :=
  {| a_grants := st; a_cache := (x, y, k) :: a_cache a |}.
Definition with_left (g : grant) (n : Z) : grant :=
  {| g_granter := g_granter g; g_grantee := g_grantee g; g_kind := g_kind g; g_exp := g_exp g; g_left := Some n |}.

(** One (grantee, message type) probe of findAuthzGrantee. *)
Inductive look := LErr | LNo | LYes (a : actx).
Definition lookup1 (t : Z) (a : actx) (x y : addr) (k : kind) : look :=
  if cache_has (a_cache a) x y k then LYes a else
  match lookup (a_grants a) x y k with
  | None => LNo
  | Some g =>
      if expired t g then LNo else
      match g_left g with
      | None => LYes (cached a (a_grants a) x y k)
      | Some n =>
          if n <=? 0 then LNo                                        (* Accept errors: ignored *)
          else if n =? 1 then LYes (cached a (st_update (a_grants a) x y k None) x y k)
          else if (match g_exp g with Some e => e <=? t | None => false end)
               then LErr                                             (* SaveGrant: expiration not after the block time *)
               else LYes (cached a (st_update (a_grants a) x y k (Some (with_left g (n - 1)))) x y k)
      end
  end.
Fixpoint try_kinds (t : Z) (a : actx) (x y : addr) (ks : list kind) : look :=
  match ks with
  | [] => LNo
  | k :: r => match lookup1 t a x y k with LNo => try_kinds t a x y r | other => other end
  end.
(** findAuthzGrantee: [None] = error; [Some (None, _)] = nobody; [Some (Some g, a')] = grantee [g]. *)
Fixpoint find_grantee (t : Z) (a : actx) (granter : addr) (grantees : list addr) (k : kind)
  : option (option addr * actx) :=
  match grantees with
  | [] => Some (None, a)
  | g :: r => match try_kinds t a granter g (kind_urls k) with
              | LErr => None
              | LYes a' => Some (Some g, a')
              | LNo => find_grantee t a granter r k
              end
  end.

(** ** The bank, for one denom's holder list *)
Definition bal_of (hl : list (addr * Z)) (a : addr) : Z :=
  match find (fun e => N.eqb (fst e) a) hl with Some e => snd e | None => 0 end.
Definition set_bal (hl : list (addr * Z)) (a : addr) (v : Z) : list (addr * Z) :=
  let rest := filter (fun e => negb (N.eqb (fst e) a)) hl in
  if v =? 0 then rest else rest ++ [(a, v)].
Definition balance (s : state) (a : addr) (d : sid) : Z := bal_of (tok s d) a.

(** DenomOwner: [None] = error (two holders), [Some None] = nobody holds the denom. *)
Definition denom_owner (hl : list (addr * Z)) : option (option addr) :=
  match hl with
  | [] => Some None
  | [(a, _)] => Some (Some a)
  | _ => None
  end.
(** GetScopeValueOwner as the Scope query reports it ("" on error or when there is none). *)
Definition value_owner (s : state) (d : sid) : option addr :=
  match denom_owner (tok s d) with Some (Some a) => Some a | _ => None end.

Definition bank_sub (s : state) (a : addr) (d : sid) (amt : Z) : option state :=
  if bal_of (tok s d) a <? amt then None
  else Some (with_toks s (put (toks s) d (set_bal (tok s d) a (bal_of (tok s d) a - amt)))).
Definition bank_add (s : state) (a : addr) (d : sid) (amt : Z) : state :=
  with_toks s (put (toks s) d (set_bal (tok s d) a (bal_of (tok s d) a + amt))).
Definition bank_mint (s : state) (d : sid) (amt : Z) : state :=
  let s1 := bank_add s MODULE d amt in with_sups s1 (put (sups s1) d (sup s1 d + amt)).
Definition bank_burn (s : state) (d : sid) (amt : Z) : option state :=
  match bank_sub s MODULE d amt with
  | Some s1 => Some (with_sups s1 (put (sups s1) d (sup s1 d - amt)))
  | None => None
  end.

(** The marker module's send restriction, account-level part, with the transfer agents of the
    context.  Nothing here reads [mk_status] or [mk_forced]. *)
Definition any_in (agents l : list addr) : bool := existsb (fun a => mem a l) agents.
Definition restrict (mks : list (addr * marker)) (from to : addr) (agents : list addr) : bool :=
  (match get mks from with
   | Some m => negb (is_nil agents) && any_in agents (mk_withdraw m)
   | None => true
   end) &&
  (match get mks to with
   | Some m => if mk_restricted m
               then (if is_nil agents then mem from (mk_deposit m) else any_in agents (mk_deposit m))
               else true
   | None => true
   end).

(** Quarantine. *)
Definition is_auto (s : state) (to from : addr) : bool :=
  existsb (fun e => N.eqb (fst e) to && N.eqb (snd e) from) (qauto s).
Definition q_is (to from : addr) (r : qrec) : bool := N.eqb (q_to r) to && N.eqb (q_from r) from.
(** sdk.Coins.Add, one coin at a time: amounts of the same denom are summed. *)
Fixpoint coin_add (c : list (sid * Z)) (d : sid) (amt : Z) : list (sid * Z) :=
  match c with
  | [] => [(d, amt)]
  | (d', v) :: r => if N.eqb d' d then (d', v + amt) :: r else (d', v) :: coin_add r d amt
  end.
Definition coins_add (c new : list (sid * Z)) : list (sid * Z) :=
  fold_left (fun acc e => coin_add acc (fst e) (snd e)) new c.
(** AddQuarantinedCoins: add to the record of (to, from) or create it. *)
Definition add_rec (rs : list qrec) (to from : addr) (coins : list (sid * Z)) : list qrec :=
  if existsb (q_is to from) rs
  then map (fun r => if q_is to from r
                     then {| q_to := to; q_from := from; q_coins := coins_add (q_coins r) coins |} else r) rs
  else rs ++ [{| q_to := to; q_from := from; q_coins := coins |}].
(** Where a transfer from [from] addressed to [to] ends up (no quarantine bypass). *)
Definition quarantines (s : state) (from to : addr) : bool :=
  negb (N.eqb from to) && negb (N.eqb from QHOLD) && mem to (qopt s) && negb (is_auto s to from).
Definition qdest (s : state) (from to : addr) : addr := if quarantines s from to then QHOLD else to.

(** The composed send restriction (marker, then sanction, then quarantine): the receiver the bank
    credits and the state with the quarantine record written.  [qbyp] = quarantine.WithBypass. *)
Definition apply_restrictions (s : state) (from to : addr) (coins : list (sid * Z)) (agents : list addr)
  (qbyp : bool) : option (state * addr) :=
  if negb (restrict (markers s) from to agents) then None else
  if mem from (sanctioned s) then None else
  if qbyp || negb (quarantines s from to) then Some (s, to)
  else Some (with_qrecs s (add_rec (qrecs s) to from coins), QHOLD).

(** sdk.Coins.IsValid: positive amounts, every denom once. *)
Fixpoint has_dup (l : list N) : bool :=
  match l with [] => false | a :: r => mem a r || has_dup r end.
Definition coins_valid (c : list (sid * Z)) : bool :=
  forallb (fun e => 0 <? snd e) c && negb (has_dup (map fst c)).
(** subUnlockedCoins / addCoins over a coin list. *)
Fixpoint sub_coins (s : state) (from : addr) (coins : list (sid * Z)) : option state :=
  match coins with
  | [] => Some s
  | (d, amt) :: r => match bank_sub s from d amt with Some s1 => sub_coins s1 from r | None => None end
  end.
Fixpoint add_coins (s : state) (to : addr) (coins : list (sid * Z)) : state :=
  match coins with
  | [] => s
  | (d, amt) :: r => add_coins (bank_add s to d amt) to r
  end.
(** SendCoins: subtract, restrict (which may redirect), add. *)
Definition send (s : state) (from to : addr) (coins : list (sid * Z)) (agents : list addr) (qbyp : bool)
  : option state :=
  if negb (coins_valid coins) then None else
  match sub_coins s from coins with
  | None => None
  | Some s0 =>
      match apply_restrictions s0 from to coins agents qbyp with
      | Some (s1, to') => Some (add_coins s1 to' coins)
      | None => None
      end
  end.
Definition ones (ds : list sid) : list (sid * Z) := map (fun d => (d, 1)) ds.

(** ** Signer rules.  Every check threads the message's [actx]; [None] = the message is rejected. *)
Definition opt_list {A} (o : option A) : list A := match o with Some a => [a] | None => [] end.

Fixpoint dedup (l : list N) : list N :=
  match l with [] => [] | a :: r => a :: filter (fun b => negb (N.eqb a b)) (dedup r) end.

(** validateAllRequiredSigned: every required address signed or granted authz to a signer;
    returns the signers that were used. *)
Fixpoint all_required_signed (t : Z) (req sg : list addr) (k : kind) (a : actx) : option (list addr * actx) :=
  match req with
  | [] => Some ([], a)
  | o :: r =>
      match (if mem o sg then Some (Some o, a) else find_grantee t a o sg k) with
      | Some (Some x, a1) =>
          match all_required_signed t r sg k a1 with
          | Some (l, a2) => Some (x :: l, a2)
          | None => None
          end
      | _ => None
      end
  end.

(** PartyDetails (every party of the scope is "available", hence usable by the spec). *)
Record pd := { pd_addr : addr; pd_role : N; pd_opt : bool; pd_signer : option addr; pd_used : bool }.
Definition pd_of (p : party) : pd :=
  {| pd_addr := p_addr p; pd_role := p_role p; pd_opt := p_opt p; pd_signer := None; pd_used := false |}.
Definition with_signer (d : pd) (g : addr) (used : bool) : pd :=
  {| pd_addr := pd_addr d; pd_role := pd_role d; pd_opt := pd_opt d; pd_signer := Some g; pd_used := used |}.
Definition mark_used (d : pd) : pd :=
  {| pd_addr := pd_addr d; pd_role := pd_role d; pd_opt := pd_opt d; pd_signer := pd_signer d; pd_used := true |}.
Definition has_signer (d : pd) : bool := match pd_signer d with Some _ => true | None => false end.
Definition usable_as (r : N) (d : pd) : bool := negb (pd_used d) && N.eqb (pd_role d) r.

(** Update the first element on which [f] answers. *)
Fixpoint upd_first {A} (f : A -> option A) (l : list A) : option (list A) :=
  match l with
  | [] => None
  | x :: r => match f x with
              | Some y => Some (y :: r)
              | None => option_map (cons x) (upd_first f r)
              end
  end.

(** associateAuthorizations over the unsigned required parties, in order. *)
Fixpoint assoc_authz (t : Z) (sg : list addr) (k : kind) (ps : list pd) (a : actx) : option (list pd * actx) :=
  match ps with
  | [] => Some ([], a)
  | d :: r =>
      match (if negb (pd_opt d) && negb (has_signer d)
             then match find_grantee t a (pd_addr d) sg k with
                  | Some (Some g, a1) => Some (with_signer d g false, a1)
                  | Some (None, a1) => Some (d, a1)
                  | None => None
                  end
             else Some (d, a)) with
      | Some (d', a1) =>
          match assoc_authz t sg k r a1 with
          | Some (l, a2) => Some (d' :: l, a2)
          | None => None
          end
      | None => None
      end
  end.

(** associateRequiredRoles: every required role takes the first unused signed party of that role. *)
Definition assoc_roles (roles : list N) (pds : list pd) : list pd * list N :=
  fold_left (fun (st : list pd * list N) r =>
    let '(ps, miss) := st in
    match upd_first (fun d => if usable_as r d && has_signer d then Some (mark_used d) else None) ps with
    | Some ps' => (ps', miss)
    | None => (ps, miss ++ [r])
    end) roles (pds, []).

(** One missing role: the first unused unsigned party of that role that granted authz to a signer. *)
Fixpoint role_authz (t : Z) (sg : list addr) (k : kind) (r : N) (ps : list pd) (a : actx)
  : option (option (list pd) * actx) :=
  match ps with
  | [] => Some (None, a)
  | d :: rest =>
      if usable_as r d && negb (has_signer d) then
        match find_grantee t a (pd_addr d) sg k with
        | None => None
        | Some (Some g, a1) => Some (Some (with_signer d g true :: rest), a1)
        | Some (None, a1) =>
            match role_authz t sg k r rest a1 with
            | Some (Some l, a2) => Some (Some (d :: l), a2)
            | Some (None, a2) => Some (None, a2)
            | None => None
            end
        end
      else match role_authz t sg k r rest a with
           | Some (Some l, a2) => Some (Some (d :: l), a2)
           | Some (None, a2) => Some (None, a2)
           | None => None
           end
  end.
(** associateAuthorizationsForRoles; the flag says a role stayed unfulfilled. *)
Fixpoint assoc_authz_roles (t : Z) (sg : list addr) (k : kind) (missing : list N) (ps : list pd) (bad : bool)
  (a : actx) : option (list pd * bool * actx) :=
  match missing with
  | [] => Some (ps, bad, a)
  | r :: rest =>
      match role_authz t sg k r ps a with
      | None => None
      | Some (Some ps', a1) => assoc_authz_roles t sg k rest ps' bad a1
      | Some (None, a1) => assoc_authz_roles t sg k rest ps true a1
      end
  end.

(** validateAllRequiredPartiesSigned with reqParties = availableParties = the scope's parties. *)
Definition parties_signed (t : Z) (parties : list party) (roles : list N) (sg : list addr) (k : kind) (a : actx)
  : option (list pd * actx) :=
  let p1 := map (fun p => let d := pd_of p in
                          if mem (pd_addr d) sg then with_signer d (pd_addr d) false else d) parties in
  match assoc_authz t sg k p1 a with
  | None => None
  | Some (p2, a1) =>
      if existsb (fun d => negb (pd_opt d) && negb (has_signer d)) p2 then None else
      let '(p3, missing) := assoc_roles roles p2 in
      match assoc_authz_roles t sg k missing p3 false a1 with
      | None => None
      | Some (p4, bad, a2) => if bad then None else Some (p4, a2)
      end
  end.
Definition used_signers (pds : list pd) : list addr := flat_map (fun d => opt_list (pd_signer d)) pds.

(** validateRolesPresent: every required role has its own party (signed or not). *)
Fixpoint remove_first_role (r : N) (l : list party) : option (list party) :=
  match l with
  | [] => None
  | p :: rest => if N.eqb (p_role p) r then Some rest else option_map (cons p) (remove_first_role r rest)
  end.
Fixpoint roles_present (roles : list N) (l : list party) : bool :=
  match roles with
  | [] => true
  | r :: rest => match remove_first_role r l with
                 | Some l' => roles_present rest l'
                 | None => false
                 end
  end.

(** validateProvenanceRole: smart-contract parties, and only they, have the PROVENANCE role. *)
Definition prov_ok (s : state) (parties : list party) : bool :=
  forallb (fun p => Bool.eqb (is_wasm s (p_addr p)) (N.eqb (p_role p) ROLE_PROVENANCE)) parties.

Definition party_addrs (l : list party) : list addr := dedup (map p_addr l).
Definition required_addrs (l : list party) : list addr :=
  dedup (map p_addr (filter (fun p => negb (p_opt p)) l)).

(** If the first signer is a smart contract, all other signers are ignored. *)
Definition effective_signers (s : state) (sg : list addr) : list addr :=
  match sg with
  | a :: _ => if is_wasm s a then [a] else sg
  | [] => []
  end.

Definition opt_is (o : option addr) (a : addr) : bool :=
  match o with Some b => N.eqb a b | None => false end.

(** The loop of ValidateScopeValueOwnersSigners; returns the used signers. *)
Fixpoint vo_check (s : state) (existing : list addr) (proposed : option addr) (eff : list addr) (k : kind)
  (a : actx) : option (list addr * actx) :=
  match existing with
  | [] => Some ([], a)
  | e :: r =>
      if opt_is proposed e then vo_check s r proposed eff k a
      else if mem e eff then
        match vo_check s r proposed eff k a with Some (l, a1) => Some (e :: l, a1) | None => None end
      else if is_marker s e then vo_check s r proposed eff k a
      else match find_grantee (now s) a e eff k with
           | Some (Some g, a1) =>
               match vo_check s r proposed eff k a1 with Some (l, a2) => Some (g :: l, a2) | None => None end
           | _ => None
           end
  end.

(** ValidateScopeValueOwnersSigners: (transfer agents, used signers). *)
Definition vo_signers (s : state) (existing : list addr) (proposed : option addr) (sg : list addr) (k : kind)
  (a : actx) : option (list addr * list addr * actx) :=
  if (match existing with [e] => opt_is proposed e | _ => false end) then Some ([], [], a)
  else let eff := effective_signers s sg in
       match vo_check s existing proposed eff k a with
       | Some (used, a1) => Some (eff, used, a1)
       | None => None
       end.

(** Every one of [granters] has an authorization for the contract [c]. *)
Fixpoint all_granted (t : Z) (granters : list addr) (c : addr) (k : kind) (a : actx) : option actx :=
  match granters with
  | [] => Some a
  | x :: r => match find_grantee t a x [c] k with
              | Some (Some _, a1) => all_granted t r c k a1
              | _ => None
              end
  end.
(** validateSmartContractSigners. *)
Fixpoint sc_check (s : state) (used : list addr) (k : kind) (can_wasm : bool) (sg : list addr) (a : actx)
  : option actx :=
  match sg with
  | [] => Some a
  | x :: rest =>
      if is_wasm s x then
        if negb can_wasm then None
        else if mem x used then sc_check s used k true rest a
        else if is_nil rest then None
        else match all_granted (now s) rest x k a with
             | Some a1 => sc_check s used k true rest a1
             | None => None
             end
      else sc_check s used k false rest a
  end.

Definition opt_addr_eqb (x y : option addr) : bool :=
  match x, y with
  | Some a, Some b => N.eqb a b
  | None, None => true
  | _, _ => false
  end.

(** SetScopeValueOwner (mint when there is no holder, send, burn when there is no new owner). *)
Definition set_vo (s : state) (d : sid) (newvo : option addr) (agents : list addr) : option state :=
  if (match newvo with Some p => mem p (blocked s) | None => false end) then None else
  match denom_owner (tok s d) with
  | None => None
  | Some cur =>
      if opt_addr_eqb cur newvo then Some s else
      let s1 := match cur with Some _ => s | None => bank_mint s d 1 end in
      let from := match cur with Some c => c | None => MODULE end in
      let to := match newvo with Some p => p | None => MODULE end in
      match send s1 from to [(d, 1)] agents false with
      | None => None
      | Some s2 => match newvo with Some _ => Some s2 | None => bank_burn s2 d 1 end
      end
  end.

Definition same_party (p q : party) : bool := N.eqb (p_addr p) (p_addr q) && N.eqb (p_role p) (p_role q).
Definition party_eqb (p q : party) : bool := same_party p q && Bool.eqb (p_opt p) (p_opt q).
Fixpoint has_dup_party (l : list party) : bool :=
  match l with [] => false | a :: r => existsb (same_party a) r || has_dup_party r end.
(** Scope.ValidateBasic: at least one party, unique (address, role), optional only with rollup. *)
Definition parties_basic (l : list party) (rollup : bool) : bool :=
  negb (is_nil l) && negb (has_dup_party l) && (rollup || forallb (fun p => negb (p_opt p)) l).
Definition parties_eqb (l1 l2 : list party) : bool :=
  Nat.eqb (length l1) (length l2) && forallb (fun a => existsb (party_eqb a) l2) l1.
Definition set_eqb (l1 l2 : list N) : bool :=
  forallb (fun a => mem a l2) l1 && forallb (fun a => mem a l1) l2.
Definition scope_eqb (a b : scope) : bool :=
  N.eqb (sc_spec a) (sc_spec b) && parties_eqb (sc_parties a) (sc_parties b) &&
  set_eqb (sc_data a) (sc_data b) && Bool.eqb (sc_rollup a) (sc_rollup b).

(** ** Messages *)
Inductive op :=
| OWrite (sg : list addr) (d : sid) (parties : list party) (spec : N) (data : list N) (rollup : bool)
         (vo : option addr)
| OAddData (sg : list addr) (d : sid) (da : list N)      (* MsgAddScopeDataAccess *)
| OUpdate (sg : list addr) (ds : list sid) (p : addr)
| OMigrate (sg : list addr) (e p : addr)
| ODelete (sg : list addr) (d : sid)
| OSend (from to : addr) (d : sid) (amt : Z)            (* bank MsgSend of a scope denom *)
| OMultiSend (from : addr) (outs : list (addr * list sid))  (* bank MsgMultiSend, one unit per listed denom *)
| OGrant (granter grantee : addr) (k : kind) (exp lft : option Z)    (* authz Keeper.SaveGrant *)
| ORevoke (granter grantee : addr) (k : kind)            (* authz Keeper.DeleteGrant *)
| OSetMarker (a : addr) (m : marker)                     (* marker administration, environment *)
| OSetTime (t : Z)                                       (* a later block *)
| OSanction (a : addr) | OUnsanction (a : addr)          (* sanction keeper *)
| OOptIn (a : addr) | OOptOut (a : addr)                 (* quarantine MsgOptIn / MsgOptOut *)
| OAutoAccept (to from : addr) (on : bool)               (* MsgUpdateAutoResponses: accept / unspecified *)
| OAccept (to : addr) (froms : list addr) (permanent : bool)   (* quarantine MsgAccept *)
| ODecline (to : addr) (froms : list addr)               (* quarantine MsgDecline: a flag only *)
(* the marker module pointed at a scope token's denom: MsgAddMarker / MsgAddFinalizeActivateMarker with
   denom = the scope's denom, then MsgMint / MsgTransfer (forced) / MsgWithdraw of that denom *)
| OMarkerAdd (a : addr) (d : sid) (supply : Z) (activate : bool)
| OMarkerMint (a : addr) (d : sid) (amt : Z)
| OMarkerTransfer (a from to : addr) (d : sid)
| OMarkerWithdraw (a to : addr) (d : sid)
| OPrune.                                                (* authz BeginBlocker of a block at the current time *)

Definition actx0 (s : state) : actx := {| a_grants := grants s; a_cache := [] |}.
(** The message is done: the authz store as the signer checks left it. *)
Definition commit (s : state) (a : actx) : state := with_grants s (a_grants a).

(** The party / owner signature check of an existing scope for message type [k]; returns the used
    signers. *)
Definition existing_signed (s : state) (e : scope) (roles : option (list N)) (sg : list addr) (k : kind)
  (a : actx) : option (list addr * actx) :=
  if negb (sc_rollup e) then all_required_signed (now s) (party_addrs (sc_parties e)) sg k a
  else match roles with
       | None => all_required_signed (now s) (required_addrs (sc_parties e)) sg k a
       | Some rs => match parties_signed (now s) (sc_parties e) rs sg k a with
                    | Some (pds, a1) => Some (used_signers pds, a1)
                    | None => None
                    end
       end.

(** The party part of ValidateWriteScope (skipped when only the value owner changes): the
    specification exists, its roles are present, PROVENANCE role rule, signatures of the existing
    scope's parties.  Returns the used signers. *)
Definition write_parties (s : state) (sg : list addr) (existing : option scope) (prop : scope)
  (cur vo : option addr) : option (list addr * actx) :=
  match get (specs s) (sc_spec prop) with
  | None => None
  | Some roles =>
      if negb (roles_present roles (sc_parties prop)) then None else
      if negb (prov_ok s (sc_parties prop)) then None else
      match existing with
      | Some e =>
          if negb (sc_rollup e) then
            (if scope_eqb e prop && opt_addr_eqb cur vo then Some ([], actx0 s)
             else all_required_signed (now s) (party_addrs (sc_parties e)) sg KWrite (actx0 s))
          else match parties_signed (now s) (sc_parties e) roles sg KWrite (actx0 s) with
               | Some (pds, a1) => Some (used_signers pds, a1)
               | None => None
               end
      | None => Some ([], actx0 s)
      end
  end.

(** MsgWriteScope: ValidateBasic, ValidateWriteScope, SetScope. *)
Definition step_write (s : state) sg d parties spec data rollup (vo : option addr) : option state :=
  if is_nil sg || negb (parties_basic parties rollup) then None else
  let existing := scope_of s d in
  let prop := {| sc_parties := parties; sc_spec := spec; sc_data := data; sc_rollup := rollup |} in
  match (match existing, vo with Some _, Some _ => denom_owner (tok s d) | _, _ => Some None end) with
  | None => None
  | Some cur =>
      let only_vo := match existing, cur, vo with
                     | Some e, Some c, Some p => negb (N.eqb c p) && scope_eqb e prop
                     | _, _, _ => false
                     end in
      match (if only_vo then Some ([], actx0 s) else write_parties s sg existing prop cur vo) with
      | None => None
      | Some (pused, a1) =>
          match vo_signers s (opt_list cur) vo sg KWrite a1 with
          | None => None
          | Some (agents, used, a2) =>
              match sc_check s (used ++ pused) KWrite true sg a2 with
              | None => None
              | Some a3 =>
                  match (match vo with Some p => set_vo s d (Some p) agents | None => Some s end) with
                  | None => None
                  | Some s1 => Some (commit (with_scopes s1 (put (scopes s1) d (Some prop))) a3)
                  end
              end
          end
      end
  end.

(** MsgDeleteScope: ValidateDeleteScope, RemoveScope. *)
Definition step_delete (s : state) sg d : option state :=
  if is_nil sg then None else
  match scope_of s d with
  | None => None
  | Some e =>
      match existing_signed s e (get (specs s) (sc_spec e)) sg KDelete (actx0 s) with
      | None => None
      | Some (pused, a1) =>
          match denom_owner (tok s d) with
          | None => None
          | Some cur =>
              match vo_signers s (opt_list cur) None sg KDelete a1 with
              | None => None
              | Some (agents, used, a2) =>
                  match sc_check s (used ++ pused) KDelete true sg a2 with
                  | None => None
                  | Some a3 =>
                      match set_vo s d None agents with
                      | None => None
                      | Some s1 => Some (commit (with_scopes s1 (put (scopes s1) d None)) a3)
                      end
                  end
              end
          end
      end
  end.

(** MsgAddScopeDataAccess: ValidateAddScopeDataAccess, then SetScope of the stored scope (whose
    value owner field is empty, so the token is not touched). *)
Definition step_adddata (s : state) sg d (da : list N) : option state :=
  if is_nil sg || is_nil da then None else
  match scope_of s d with
  | None => None
  | Some e =>
      if existsb (fun x => mem x (sc_data e)) da then None else
      let ok :=
        if negb (sc_rollup e) then
          match all_required_signed (now s) (party_addrs (sc_parties e)) sg KAddData (actx0 s) with
          | Some (u, a1) => sc_check s u KAddData true sg a1
          | None => None
          end
        else match get (specs s) (sc_spec e) with
             | None => None
             | Some rs =>
                 match parties_signed (now s) (sc_parties e) rs sg KAddData (actx0 s) with
                 | Some (pds, a1) =>
                     if prov_ok s (sc_parties e) then sc_check s (used_signers pds) KAddData true sg a1 else None
                 | None => None
                 end
             end in
      match ok with
      | Some a2 => Some (commit (with_scopes s (put (scopes s) d
                     (Some {| sc_parties := sc_parties e; sc_spec := sc_spec e;
                              sc_data := sc_data e ++ da; sc_rollup := sc_rollup e |}))) a2)
      | None => None
      end
  end.

(** GetScopeValueOwners + AccMDLinks.ValidateForScopes: every id once, every id has a holder. *)
Fixpoint links_of (s : state) (seen : list sid) (ds : list sid) : option (list (addr * sid)) :=
  match ds with
  | [] => Some []
  | d :: r =>
      if mem d seen then None else
      match denom_owner (tok s d) with
      | Some (Some a) => option_map (cons (a, d)) (links_of s (d :: seen) r)
      | _ => None
      end
  end.

(** SetScopeValueOwners: one SendCoins per distinct current holder, in order of first appearance. *)
Definition group (links : list (addr * sid)) (f : addr) : list sid :=
  map snd (filter (fun l => N.eqb (fst l) f) links).
Fixpoint send_groups (s : state) (froms : list addr) (links : list (addr * sid)) (p : addr) (agents : list addr)
  : option state :=
  match froms with
  | [] => Some s
  | f :: r =>
      if N.eqb f p then send_groups s r links p agents else
      match send s f p (ones (group links f)) agents false with
      | Some s1 => send_groups s1 r links p agents
      | None => None
      end
  end.

(** ValidateUpdateValueOwners + SetScopeValueOwners, shared by update and migrate. *)
Definition update_core (s : state) sg (links : list (addr * sid)) (p : addr) (k : kind) : option state :=
  if is_nil links then None else
  if existsb (fun l => N.eqb (fst l) p) links then None else
  let froms := dedup (map fst links) in
  match vo_signers s froms (Some p) sg k (actx0 s) with
  | None => None
  | Some (agents, _, a1) =>
      if mem p (blocked s) then None else
      match send_groups s froms links p agents with
      | Some s1 => Some (commit s1 a1)
      | None => None
      end
  end.

Definition step_update (s : state) sg ds p : option state :=
  if is_nil sg || is_nil ds then None else
  match links_of s [] ds with
  | None => None
  | Some links => update_core s sg links p KUpdate
  end.

(** GetScopesForValueOwner: every scope denom of which the account has a balance. *)
Definition scopes_held (s : state) (e : addr) : list sid :=
  filter (fun d => 0 <? balance s e d) (dedup (map fst (toks s))).

Definition step_migrate (s : state) sg e p : option state :=
  if is_nil sg then None else
  update_core s sg (map (fun d => (e, d)) (scopes_held s e)) p KMigrate.

Definition step_send (s : state) from to d amt : option state :=
  if amt <=? 0 then None else
  if mem to (blocked s) then None else
  send s from to [(d, amt)] [] false.

(** MsgMultiSend with one unit of every listed denom per output (InputOutputCoins: the input is
    debited first -- its coins are the sum of the outputs -- then every output is restricted and
    credited in order). *)
Fixpoint deliver (s : state) (from : addr) (outs : list (addr * list sid)) : option state :=
  match outs with
  | [] => Some s
  | (to, ds) :: r => match apply_restrictions s from to (ones ds) [] false with
                     | Some (s1, to') => deliver (add_coins s1 to' (ones ds)) from r
                     | None => None
                     end
  end.
Definition step_multisend (s : state) from (outs : list (addr * list sid)) : option state :=
  if is_nil outs then None else
  if existsb (fun o => is_nil (snd o) || has_dup (snd o)) outs then None else
  if existsb (fun o => mem (fst o) (blocked s)) outs then None else
  match sub_coins s from (flat_map (fun o => ones (snd o)) outs) with
  | Some s0 => deliver s0 from outs
  | None => None
  end.

(** Quarantine MsgAccept: every record to [to] from one of [froms] is released and removed. *)
Fixpoint release_all (s : state) (to : addr) (rs : list qrec) : option state :=
  match rs with
  | [] => Some s
  | r :: rest => match send s QHOLD to (q_coins r) [] true with
                 | Some s1 => release_all s1 to rest
                 | None => None
                 end
  end.
Definition accepted (to : addr) (froms : list addr) (r : qrec) : bool :=
  N.eqb (q_to r) to && mem (q_from r) froms.
Definition set_auto (l : list (addr * addr)) (to from : addr) (on : bool) : list (addr * addr) :=
  let rest := filter (fun e => negb (N.eqb (fst e) to && N.eqb (snd e) from)) l in
  if on then (to, from) :: rest else rest.
Definition step_accept (s : state) to froms (permanent : bool) : option state :=
  if is_nil froms then None else
  let hit := filter (accepted to froms) (qrecs s) in
  let rest := filter (fun r => negb (accepted to froms r)) (qrecs s) in
  match release_all (with_qrecs s rest) to hit with
  | None => None
  | Some s1 =>
      Some (if permanent
            then with_qauto s1 (fold_left (fun l f => set_auto l to f true) froms (qauto s1))
            else s1)
  end.

Definition step_opt (s : state) (o : op) : option state :=
  match o with
  | OWrite sg d parties spec data rollup vo => step_write s sg d parties spec data rollup vo
  | OAddData sg d da => step_adddata s sg d da
  | OUpdate sg ds p => step_update s sg ds p
  | OMigrate sg e p => step_migrate s sg e p
  | ODelete sg d => step_delete s sg d
  | OSend from to d amt => step_send s from to d amt
  | OMultiSend from outs => step_multisend s from outs
  | OGrant x y k exp lft =>
      if (match exp with Some e => e <=? now s | None => false end) then None
      else Some (with_grants s ({| g_granter := x; g_grantee := y; g_kind := k; g_exp := exp; g_left := lft |}
                                :: filter (fun g => negb (g_is x y k g)) (grants s)))
  | ORevoke x y k =>
      match lookup (grants s) x y k with
      | Some _ => Some (with_grants s (filter (fun g => negb (g_is x y k g)) (grants s)))
      | None => None
      end
  | OSetMarker a m => if N.eqb a QHOLD then None else Some (with_markers s (put (markers s) a m))
  | OSetTime t => Some (with_now s t)
  | OSanction a => if mem a (blocked s) || N.eqb a QHOLD then None
                   else Some (with_sanctioned s (a :: filter (fun b => negb (N.eqb a b)) (sanctioned s)))
  | OUnsanction a => Some (with_sanctioned s (filter (fun b => negb (N.eqb a b)) (sanctioned s)))
  | OOptIn a => Some (with_qopt s (a :: filter (fun b => negb (N.eqb a b)) (qopt s)))
  | OOptOut a => Some (with_qopt s (filter (fun b => negb (N.eqb a b)) (qopt s)))
  | OAutoAccept to from on => Some (with_qauto s (set_auto (qauto s) to from on))
  | OAccept to froms permanent => step_accept s to froms permanent
  | ODecline to froms => if is_nil froms then None else Some s
  (* Keeper.ValidateUnrestictedDenom: a scope denom ("nft/scope1...") contains a '/', which the
     unrestricted-denom expression does not allow, so no marker is ever created on it; the marker
     messages that name the denom then find no marker. *)
  | OMarkerAdd _ _ _ _ | OMarkerMint _ _ _ | OMarkerTransfer _ _ _ _ | OMarkerWithdraw _ _ _ => None
  (* x/authz BeginBlocker (DequeueAndDeleteExpiredGrants): on a chain every block first deletes the
     grants whose expiration is before the block time (the queue iterator ends at the block time's key
     prefix followed by a zero byte, which excludes the entries of the block time itself): exactly the
     grants GetAuthorization no longer returns. *)
  | OPrune => Some (with_grants s (filter (fun g => negb (expired (now s) g)) (grants s)))
  end.

Definition step (s : state) (o : op) : state * bool :=
  match step_opt s o with Some s' => (s', true) | None => (s, false) end.
Definition run_op (s : state) (o : op) : state := fst (step s o).
Definition run (s : state) (ops : list op) : state := fold_left run_op ops s.

(** ** What the property talks about *)
Definition holder (s : state) (d : sid) : option addr := value_owner s d.

(** Who stands behind a message: its Signers, the sender of a bank send, the acceptor of
    quarantined funds. *)
Definition signers_of (o : op) : list addr :=
  match o with
  | OWrite sg _ _ _ _ _ _ | OUpdate sg _ _ | OMigrate sg _ _ | ODelete sg _ | OAddData sg _ _ => sg
  | OSend from _ _ _ | OMultiSend from _ => [from]
  | OAccept to _ _ => [to]
  | OMarkerAdd a _ _ _ | OMarkerMint a _ _ | OMarkerTransfer a _ _ _ | OMarkerWithdraw a _ _ => [a]
  | _ => []
  end.
Definition kind_of (o : op) : option kind :=
  match o with
  | OWrite _ _ _ _ _ _ _ => Some KWrite
  | OUpdate _ _ _ => Some KUpdate
  | OMigrate _ _ _ => Some KMigrate
  | ODelete _ _ => Some KDelete
  | _ => None
  end.
Definition is_accept (o : op) : bool := match o with OAccept _ _ _ => true | _ => false end.

(** The consent of holder [h] carried by operation [o] in state [s]: signature (for a bank send:
    being the sender); an authz grant of [h] -- stored, not expired at the block time of [s], with a
    use left -- for this message type to a signer; withdraw access of a signer when [h] is a marker;
    or [h] is the quarantine funds holder and the operation is the acceptance by the receiver to whom
    the quarantined transfer was addressed. *)
Definition consent (s : state) (o : op) (h : addr) : Prop :=
  In h (signers_of o) \/
  (exists k g, kind_of o = Some k /\ In g (signers_of o) /\ has_grant s h g k = true) \/
  (exists m g, marker_of s h = Some m /\ In g (signers_of o) /\ In g (mk_withdraw m)) \/
  (h = QHOLD /\ is_accept o = true).

(** Deposit permission when the new holder [n] is a restricted marker (for the release of
    quarantined funds the sender is the quarantine funds holder). *)
Definition deposit_ok (s : state) (o : op) (n : addr) : Prop :=
  forall m, marker_of s n = Some m -> mk_restricted m = true ->
  (exists g, In g (signers_of o) /\ In g (mk_deposit m)) \/
  (is_accept o = true /\ In QHOLD (mk_deposit m)).

(** The authz store holds one authorization per (granter, grantee, message type) -- its store key. *)
Definition gkey (g : grant) : addr * addr * kind := (g_granter g, g_grantee g, g_kind g).
Definition KeyUniq (st : list grant) : Prop := NoDup (map gkey st).
(** An authorization after one accepted use: a generic one stays, a count authorization loses one
    use, its last use deletes it. *)
Definition after_use (g : grant) : option grant :=
  match g_left g with
  | None => Some g
  | Some n => if n =? 1 then None else Some (with_left g (n - 1))
  end.

(** Well-formed bank and store: per scope denom, either no supply and no balance, or supply one
    held as one unit by one account, and then the scope exists; no marker has the quarantine
    funds holder's address. *)
Definition BankInv (s : state) : Prop :=
  forall d, (sup s d = 0 /\ tok s d = []) \/ (sup s d = 1 /\ exists h, tok s d = [(h, 1)]).
Definition TokScope (s : state) : Prop :=
  forall d, tok s d <> [] -> scope_of s d <> None.
Definition Inv (s : state) : Prop := BankInv s /\ TokScope s /\ marker_of s QHOLD = None.

(** A chain without scopes or scope tokens, at block time 0, nobody sanctioned or quarantined. *)
Definition init (sp : list (N * list N)) (mks : list (addr * marker)) (w bl : list addr) : state :=
  {| scopes := []; specs := sp; toks := []; sups := []; markers := mks; grants := []; wasm := w; blocked := bl;
     sanctioned := []; qopt := []; qauto := []; qrecs := []; now := 0 |}.
