(** Record / record-specification names as Go sees them: UTF-8 strings normalised by
    strings.ToLower(strings.TrimSpace(name)) before hashing (model; no proofs here).

    Transcribed from /repo/x/metadata/types/address.go
      RecordMetadataAddress, RecordSpecMetadataAddress (both: [name] = strings.ToLower(
      strings.TrimSpace(name)); panic on an empty result; key = type byte, uuid, first 16 bytes
      of sha256(name)), AsRecordAddress, AsRecordSpecAddress
    and from the Go standard library they call (go1.2x):
      unicode/utf8  DecodeRuneInString   (first/accept-range tables: C2..DF two bytes, E0 A0..BF,
                    E1..EC, ED 80..9F, EE..EF three bytes, F0 90..BF, F1..F3, F4 80..8F four bytes;
                    anything else - stray continuation, C0, C1, F5..FF, truncated or broken
                    sequence, surrogate, overlong - is RuneError with width 1), EncodeRune
      strings       TrimSpace (= remove leading and trailing runes with unicode.IsSpace; its ASCII
                    fast path and the backwards decoding of TrimRightFunc have the same result),
                    ToLower  (all-ASCII fast path; otherwise Map(unicode.ToLower, s): every rune
                    is re-encoded, so every INVALID byte becomes U+FFFD = EF BF BD)
      unicode       IsSpace  (complete: 9..13, 32, 0x85, 0xA0, 0x1680, 0x2000..0x200A, 0x2028,
                    0x2029, 0x202F, 0x205F, 0x3000)
                    ToLower  (PARTIAL: the CaseRanges table has ~300 rows; [lower_rune] transcribes
                    ASCII, Latin-1, Latin Extended-A 0100..012F, Greek 0391..03C9, Cyrillic
                    0400..045F, the Kelvin / Ohm / Angstrom signs, and the case-less ranges listed
                    in [caseless]; on any other rune it answers [None] = "not modelled")

    [normalize_u] is therefore [option]: [None] means the name contains a rune outside the
    modelled part of unicode.ToLower (the correspondence then takes the normalised bytes as
    observed and only checks what is derived from them).  TrimSpace is modelled completely
    ([trim_u], total). *)
From Coq Require Import NArith List Bool.
From PV Require Import Metadata.Bech32 Metadata.Address.
Import ListNotations.
Open Scope N_scope.

(** one decoded rune together with the bytes it was read from; [ok = false]: an invalid byte
    (Go: RuneError, width 1) *)
Record urune := UR { u_cp : N; u_ok : bool; u_bytes : list N }.

Definition rune_error : N := 65533.   (* U+FFFD *)
Definition is_cont (b : N) : bool := (128 <=? b) && (b <=? 191).
Definition inr (lo hi b : N) : bool := (lo <=? b) && (b <=? hi).

Definition bad (b : N) : urune := UR rune_error false [b].

(** utf8.DecodeRuneInString on a non-empty string: the rune and the rest *)
Definition decode1 (b : N) (rest : list N) : urune * list N :=
  if b <? 128 then (UR b true [b], rest)
  else if inr 194 223 b then
    match rest with
    | c1 :: r => if is_cont c1 then (UR ((b - 192) * 64 + (c1 - 128)) true [b; c1], r) else (bad b, rest)
    | _ => (bad b, rest)
    end
  else if inr 224 239 b then
    let lo := if b =? 224 then 160 else 128 in
    let hi := if b =? 237 then 159 else 191 in
    match rest with
    | c1 :: c2 :: r =>
        if inr lo hi c1 && is_cont c2
        then (UR ((b - 224) * 4096 + (c1 - 128) * 64 + (c2 - 128)) true [b; c1; c2], r)
        else (bad b, rest)
    | _ => (bad b, rest)
    end
  else if inr 240 244 b then
    let lo := if b =? 240 then 144 else 128 in
    let hi := if b =? 244 then 143 else 191 in
    match rest with
    | c1 :: c2 :: c3 :: r =>
        if inr lo hi c1 && is_cont c2 && is_cont c3
        then (UR ((b - 240) * 262144 + (c1 - 128) * 4096 + (c2 - 128) * 64 + (c3 - 128)) true [b; c1; c2; c3], r)
        else (bad b, rest)
    | _ => (bad b, rest)
    end
  else (bad b, rest).

(** the whole string ("for _, c := range s"); fuel = length, every step consumes >= 1 byte *)
Fixpoint decode_fuel (fuel : nat) (s : list N) : list urune :=
  match fuel, s with
  | O, _ | _, [] => []
  | S f, b :: rest => let '(r, rest') := decode1 b rest in r :: decode_fuel f rest'
  end.
Definition decode (s : list N) : list urune := decode_fuel (length s) s.

(** utf8.EncodeRune (AppendRune): surrogates and values above 0x10FFFF encode U+FFFD *)
Definition encode (r : N) : list N :=
  if r <? 128 then [r]
  else if r <? 2048 then [192 + r / 64; 128 + r mod 64]
  else if (1114111 <? r) || inr 55296 57343 r then [239; 191; 189]
  else if r <? 65536 then [224 + r / 4096; 128 + (r / 64) mod 64; 128 + r mod 64]
  else [240 + r / 262144; 128 + (r / 4096) mod 64; 128 + (r / 64) mod 64; 128 + r mod 64].

(** unicode.IsSpace (complete) *)
Definition is_space_rune (r : N) : bool :=
  inr 9 13 r || (r =? 32) || (r =? 133) || (r =? 160) || (r =? 5760) || inr 8192 8202 r ||
  (r =? 8232) || (r =? 8233) || (r =? 8239) || (r =? 8287) || (r =? 12288).

Definition space_u (u : urune) : bool := u_ok u && is_space_rune (u_cp u).

Fixpoint drop_space_u (l : list urune) : list urune :=
  match l with
  | u :: r => if space_u u then drop_space_u r else l
  | [] => []
  end.

(** strings.TrimSpace *)
Definition trim_runes (l : list urune) : list urune := rev (drop_space_u (rev (drop_space_u l))).
Definition trim_u (s : list N) : list N := flat_map u_bytes (trim_runes (decode s)).

(** runes that have no case (unicode.ToLower leaves them alone): a reviewed list of ranges *)
Definition caseless (r : N) : bool :=
  inr 128 191 r            (* C1 controls, Latin-1 punctuation and symbols *)
  || (r =? 215) || (r =? 247)   (* multiplication and division signs *)
  || inr 768 879 r         (* combining diacritical marks *)
  || inr 1424 1791 r       (* Hebrew, Arabic *)
  || inr 2304 2431 r       (* Devanagari *)
  || inr 3584 3711 r       (* Thai *)
  || (r =? 5760) || inr 8192 8303 r   (* spaces, general punctuation *)
  || inr 8352 8399 r       (* currency symbols *)
  || inr 8592 8959 r       (* arrows, mathematical operators *)
  || inr 12288 12543 r     (* CJK symbols, Hiragana, Katakana *)
  || inr 19968 40959 r     (* CJK unified ideographs *)
  || inr 44032 55203 r     (* Hangul syllables *)
  || (r =? 65533)          (* the replacement character itself *)
  || inr 127744 128591 r.  (* pictographs and emoticons *)

(** unicode.ToLower on the modelled part of the table *)
Definition lower_rune (r : N) : option N :=
  if r <? 128 then Some (if inr 65 90 r then r + 32 else r)
  else if inr 192 222 r && negb (r =? 215) then Some (r + 32)       (* A-grave .. Thorn *)
  else if inr 223 255 r then Some r                                   (* sharp s .. y-diaeresis *)
  else if inr 256 303 r then Some (if N.even r then r + 1 else r)     (* Latin Extended-A pairs *)
  else if inr 913 929 r || inr 931 939 r then Some (r + 32)           (* Greek capitals *)
  else if inr 940 974 r then Some r                                   (* Greek small letters *)
  else if inr 1024 1039 r then Some (r + 80)                          (* Cyrillic 0400..040F *)
  else if inr 1040 1071 r then Some (r + 32)                          (* Cyrillic 0410..042F *)
  else if inr 1072 1119 r then Some r                                 (* Cyrillic small letters *)
  else if r =? 8490 then Some 107                                     (* Kelvin sign -> k *)
  else if r =? 8486 then Some 969                                     (* Ohm sign -> omega *)
  else if r =? 8491 then Some 229                                     (* Angstrom sign -> a-ring *)
  else if caseless r then Some r
  else None.

Fixpoint lower_runes (l : list urune) : option (list N) :=
  match l with
  | [] => Some []
  | u :: t =>
      match (if u_ok u then lower_rune (u_cp u) else Some rune_error), lower_runes t with
      | Some r, Some rest => Some (encode r ++ rest)
      | _, _ => None
      end
  end.

(** strings.ToLower *)
Definition lower_u (s : list N) : option (list N) :=
  if forallb (fun b => b <? 128) s then Some (lower s) else lower_runes (decode s).

(** strings.ToLower(strings.TrimSpace(name)) *)
Definition normalize_u (name : list N) : option (list N) := lower_u (trim_u name).

Section WithHash.
  Variable name_hash : list N -> list N.

  (** RecordMetadataAddress / RecordSpecMetadataAddress given the normalised name *)
  Definition named_addr (t : atype) (u norm : list N) : option (list N) :=
    match norm with
    | [] => None
    | _ => Some (type_byte t :: u ++ name_hash norm)
    end.

  (** on UTF-8 names; the outer [None] = name outside the modelled part of unicode.ToLower *)
  Definition record_addr_u (su name : list N) : option (option (list N)) :=
    option_map (named_addr TRecord su) (normalize_u name).
  Definition record_spec_addr_u (cu name : list N) : option (option (list N)) :=
    option_map (named_addr TRecordSpec cu) (normalize_u name).
End WithHash.
