(** What Metadata/Signers.v ASSUMES about x/authz, made explicit (property C10).

    Metadata/Signers.v treats authz as a fixed relation [e_grants] that lookups do not change.
    That is true of GenericAuthorization only.  This file transcribes the one place where the
    metadata keeper touches authz,

      x/metadata/keeper/signers.go   findAuthzGrantee (loop over grantees, then over
                                     getAuthzMessageTypeURLs; AuthzCache hit; GetAuthorization;
                                     Accept; DeleteGrant / SaveGrant; SetAcceptable)
      x/authz (forked SDK)           GenericAuthorization.Accept (always, no update),
                                     CountAuthorization.Accept (error when <= 0; Delete when 1;
                                     otherwise Updated with one use less)
      x/metadata/types/signer_utils.go  AuthzCache (one per message: AddAuthzCacheToContext clears it)

    over a store in which an authorization may be count-limited, so that the assumption can be
    STATED as a theorem (Proofs/AuthzCountProofs.v): on a store of generic authorizations the
    lookup returns exactly [find_grantee] of the erased relation and leaves the store unchanged;
    with one count-limited authorization neither holds.

    External: the authz store holds at most one authorization per (grantee, granter, message type)
    (its key); expiry is not modelled (unexpired).  No proofs in this file. *)
From Coq Require Import ZArith List Bool.
From PV Require Import Metadata.Signers.
Import ListNotations.
Open Scope Z_scope.

(** [cg_left = None]: GenericAuthorization; [Some n]: CountAuthorization, n uses left. *)
Record cgrant := { cg_granter : Z; cg_grantee : Z; cg_kind : Z; cg_left : option Z }.
Definition cstore := list cgrant.
(** AuthzCache.acceptable: (grantee, granter, kind) accepted earlier while handling this message *)
Definition ccache := list (Z * Z * Z).

Definition cg_is (granter grantee kind : Z) (g : cgrant) : bool :=
  Z.eqb (cg_granter g) granter && Z.eqb (cg_grantee g) grantee && Z.eqb (cg_kind g) kind.

Definition cache_has (c : ccache) (grantee granter kind : Z) : bool :=
  existsb (fun t => Z.eqb (fst (fst t)) grantee && Z.eqb (snd (fst t)) granter && Z.eqb (snd t) kind) c.

(** Authorization.Accept: [None] = error / not accepted; [Some None] = accepted, delete the grant;
    [Some (Some g')] = accepted, store [g'] (the same grant for a generic authorization: the keeper
    saves nothing then). *)
Definition accept (g : cgrant) : option (option cgrant) :=
  match cg_left g with
  | None => Some (Some g)
  | Some n =>
      if Z.leb n 0 then None
      else if Z.eqb n 1 then Some None
      else Some (Some {| cg_granter := cg_granter g; cg_grantee := cg_grantee g;
                         cg_kind := cg_kind g; cg_left := Some (n - 1) |})
  end.

(** the first authorization stored under the key, replaced / removed *)
Fixpoint st_update (st : cstore) (granter grantee kind : Z) (new : option cgrant) : cstore :=
  match st with
  | [] => []
  | g :: t =>
      if cg_is granter grantee kind g
      then match new with Some g' => g' :: t | None => t end
      else g :: st_update t granter grantee kind new
  end.

(** inner loop of findAuthzGrantee: the message type URLs for one grantee.
    [Some (st', c')]: this grantee is returned. *)
Fixpoint try_kinds (st : cstore) (c : ccache) (granter grantee : Z) (kinds : list Z)
  : option (cstore * ccache) :=
  match kinds with
  | [] => None
  | k :: rest =>
      if cache_has c grantee granter k then Some (st, c)
      else match find (cg_is granter grantee k) st with
           | Some g =>
               match accept g with
               | Some new => Some (st_update st granter grantee k new, (grantee, granter, k) :: c)
               | None => try_kinds st c granter grantee rest
               end
           | None => try_kinds st c granter grantee rest
           end
  end.

(** findAuthzGrantee *)
Fixpoint find_grantee_c (st : cstore) (c : ccache) (granter : Z) (grantees kinds : list Z)
  : option Z * cstore * ccache :=
  match grantees with
  | [] => (None, st, c)
  | g :: rest =>
      match try_kinds st c granter g kinds with
      | Some (st', c') => (Some g, st', c')
      | None => find_grantee_c st c granter rest kinds
      end
  end.

(** The relation Metadata/Signers.v works with: the store with the counts forgotten. *)
Definition raw_of (st : cstore) : list (Z * Z * Z) :=
  map (fun g => (cg_granter g, cg_grantee g, cg_kind g)) st.
Definition all_generic (st : cstore) : Prop := forall g, In g st -> cg_left g = None.

(** One message whose only requirement is the signature of [granter], who does not sign
    (validateAllRequiredSigned with one required address): accepted exactly when a grantee is found
    among the signers; every message starts with an empty cache. *)
Definition one_message (st : cstore) (granter : Z) (signers : list Z) (m : Z) : bool * cstore :=
  if mem granter signers then (true, st)
  else match find_grantee_c st [] granter signers (authz_urls m) with
       | (Some _, st', _) => (true, st')
       | (None, st', _) => (false, st')
       end.

Fixpoint messages (k : nat) (st : cstore) (granter : Z) (signers : list Z) (m : Z) : list bool :=
  match k with
  | O => []
  | S k' => let '(b, st') := one_message st granter signers m in
            b :: messages k' st' granter signers m
  end.
