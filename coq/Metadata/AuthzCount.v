(** What Metadata/Signers.v ASSUMES about x/authz, made explicit (property C10).

    Metadata/Signers.v treats authz as a fixed relation [e_grants] that lookups do not change.
    That is true of unexpired GenericAuthorizations only.  This file transcribes the one place
    where the metadata keeper touches authz,

      x/metadata/keeper/signers.go   findAuthzGrantee (loop over grantees, then over
                                     getAuthzMessageTypeURLs; AuthzCache hit; GetAuthorization;
                                     Accept; DeleteGrant / SaveGrant with the grant's expiration;
                                     SetAcceptable; an error of DeleteGrant / SaveGrant aborts)
      x/authz (forked SDK)           GenericAuthorization.Accept (always, no update),
                                     CountAuthorization.Accept (error when <= 0; Delete when 1;
                                     otherwise Updated with one use less),
                                     Keeper.GetAuthorization (nothing when the grant's expiration is
                                     BEFORE the block time: a grant is still live at the very second
                                     it expires), Keeper.SaveGrant / NewGrant (error unless the
                                     expiration is AFTER the block time)
      x/metadata/types/signer_utils.go  AuthzCache (one per message: AddAuthzCacheToContext clears it)

    over a store in which an authorization may be count-limited and may expire, so that the
    assumption can be STATED as a theorem (Proofs/AuthzCountProofs.v): on a store of generic
    authorizations the lookup returns exactly [find_grantee] of the relation of the grants that are
    live at the block time and leaves the store unchanged; with one count-limited authorization
    neither holds.

    External: the authz store holds at most one authorization per (grantee, granter, message type)
    (its key); times are seconds; the authz BeginBlocker that prunes expired grants is not
    modelled (GetAuthorization ignores them anyway).  No proofs in this file. *)
From Coq Require Import ZArith List Bool.
From PV Require Import Metadata.Signers.
Import ListNotations.
Open Scope Z_scope.

(** [cg_left = None]: GenericAuthorization; [Some n]: CountAuthorization, n uses left.
    [cg_exp = None]: no expiration. *)
Record cgrant := { cg_granter : Z; cg_grantee : Z; cg_kind : Z; cg_left : option Z; cg_exp : option Z }.
Definition cstore := list cgrant.
(** AuthzCache.acceptable: (grantee, granter, kind) accepted earlier while handling this message *)
Definition ccache := list (Z * Z * Z).

Definition cg_is (granter grantee kind : Z) (g : cgrant) : bool :=
  Z.eqb (cg_granter g) granter && Z.eqb (cg_grantee g) grantee && Z.eqb (cg_kind g) kind.

(** GetAuthorization returns the grant: not expired before [now] *)
Definition live (now : Z) (g : cgrant) : bool :=
  match cg_exp g with None => true | Some x => Z.leb now x end.
(** NewGrant accepts the expiration: none, or after [now] *)
Definition save_ok (now : Z) (exp : option Z) : bool :=
  match exp with None => true | Some x => Z.ltb now x end.

Definition cg_live_is (now granter grantee kind : Z) (g : cgrant) : bool :=
  cg_is granter grantee kind g && live now g.

Definition cache_has (c : ccache) (grantee granter kind : Z) : bool :=
  existsb (fun t => Z.eqb (fst (fst t)) grantee && Z.eqb (snd (fst t)) granter && Z.eqb (snd t) kind) c.

(** Authorization.Accept *)
Inductive accepted :=
| ANo                      (* error: ignored, the next message type is tried *)
| AKeep                    (* accepted, nothing to store (generic) *)
| ADelete                  (* accepted, the grant is used up *)
| AUpdate (g' : cgrant).   (* accepted, store g' under the same expiration *)

Definition accept (g : cgrant) : accepted :=
  match cg_left g with
  | None => AKeep
  | Some n =>
      if Z.leb n 0 then ANo
      else if Z.eqb n 1 then ADelete
      else AUpdate {| cg_granter := cg_granter g; cg_grantee := cg_grantee g;
                      cg_kind := cg_kind g; cg_left := Some (n - 1); cg_exp := cg_exp g |}
  end.

(** the first authorization satisfying [P], replaced / removed *)
Fixpoint st_update (P : cgrant -> bool) (st : cstore) (new : option cgrant) : cstore :=
  match st with
  | [] => []
  | g :: t =>
      if P g then match new with Some g' => g' :: t | None => t end
      else g :: st_update P t new
  end.

Inductive lookup :=
| LNone                               (* this grantee holds nothing usable *)
| LFound (st : cstore) (c : ccache)   (* this grantee is returned *)
| LErr.                               (* DeleteGrant / SaveGrant failed: findAuthzGrantee errors *)

(** inner loop of findAuthzGrantee: the message type URLs for one grantee. *)
Fixpoint try_kinds (now : Z) (st : cstore) (c : ccache) (granter grantee : Z) (kinds : list Z)
  : lookup :=
  match kinds with
  | [] => LNone
  | k :: rest =>
      if cache_has c grantee granter k then LFound st c
      else match find (cg_live_is now granter grantee k) st with
           | Some g =>
               match accept g with
               | ANo => try_kinds now st c granter grantee rest
               | AKeep => LFound st ((grantee, granter, k) :: c)
               | ADelete =>
                   LFound (st_update (cg_live_is now granter grantee k) st None) ((grantee, granter, k) :: c)
               | AUpdate g' =>
                   if save_ok now (cg_exp g)
                   then LFound (st_update (cg_live_is now granter grantee k) st (Some g'))
                               ((grantee, granter, k) :: c)
                   else LErr
               end
           | None => try_kinds now st c granter grantee rest
           end
  end.

Inductive result :=
| RNone (st : cstore) (c : ccache)
| RFound (g : Z) (st : cstore) (c : ccache)
| RErr.

(** findAuthzGrantee *)
Fixpoint find_grantee_c (now : Z) (st : cstore) (c : ccache) (granter : Z) (grantees kinds : list Z)
  : result :=
  match grantees with
  | [] => RNone st c
  | g :: rest =>
      match try_kinds now st c granter g kinds with
      | LFound st' c' => RFound g st' c'
      | LErr => RErr
      | LNone => find_grantee_c now st c granter rest kinds
      end
  end.

(** The relation Metadata/Signers.v works with: the grants live at [now], counts forgotten. *)
Definition raw_of (now : Z) (st : cstore) : list (Z * Z * Z) :=
  map (fun g => (cg_granter g, cg_grantee g, cg_kind g)) (filter (live now) st).
Definition all_generic (st : cstore) : Prop := forall g, In g st -> cg_left g = None.

(** One message at block time [now] whose only requirement is the signature of [granter], who does
    not sign (validateAllRequiredSigned with one required address): accepted exactly when a grantee
    is found among the signers; every message starts with an empty cache; an error rejects the
    message and leaves the store as it was. *)
Definition one_message (now : Z) (st : cstore) (granter : Z) (signers : list Z) (m : Z) : bool * cstore :=
  if mem granter signers then (true, st)
  else match find_grantee_c now st [] granter signers (authz_urls m) with
       | RFound _ st' _ => (true, st')
       | RNone st' _ => (false, st')
       | RErr => (false, st)
       end.

(** what GetAuthorization (asked at a time before every expiration) reports for the key of [g0]:
    -1 nothing stored, 0 stored without expiration, x stored with expiration x *)
Definition exp_view (st : cstore) (g0 : cgrant) : Z :=
  match find (cg_is (cg_granter g0) (cg_grantee g0) (cg_kind g0)) st with
  | None => -1
  | Some g => match cg_exp g with None => 0 | Some x => x end
  end.

(** a sequence of identical messages at the given block times: accepted?, and the expirations of
    the originally stored keys after each *)
Fixpoint messages_obs (orig : cstore) (times : list Z) (st : cstore) (granter : Z) (signers : list Z) (m : Z)
  : list (bool * list Z) :=
  match times with
  | [] => []
  | now :: rest =>
      let '(b, st') := one_message now st granter signers m in
      (b, map (exp_view st') orig) :: messages_obs orig rest st' granter signers m
  end.

Definition messages (times : list Z) (st : cstore) (granter : Z) (signers : list Z) (m : Z) : list bool :=
  map fst (messages_obs [] times st granter signers m).
