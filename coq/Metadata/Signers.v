(** Model of the metadata module's signer / party / role validation (property C10).

    Go sources transcribed here (function by function, branch for branch):
      x/metadata/types/signer_utils.go   PartyDetails, WrapRequiredParty, WrapAvailableParty,
                                         BuildPartyDetails, IsStillUsableAs, GetUsedSigners
      x/metadata/types/scope.go          GetPartyAddresses, GetRequiredPartyAddresses, EqualParties,
                                         ValidatePartiesBasic, ValidateOptionalParties, FindMissingParties
      x/metadata/keeper/signers.go       ValidateSignersWithParties, validateAllRequiredPartiesSigned,
                                         associateSigners, findUnsignedRequired, associateRequiredRoles,
                                         findAuthzGrantee, associateAuthorizations,
                                         associateAuthorizationsForRoles, validateProvenanceRole,
                                         isWasmAccount, validateSmartContractSigners,
                                         ValidateSignersWithoutParties, validateAllRequiredSigned,
                                         validateRolesPresent, validatePartiesArePresent
      x/metadata/types/scope.go          Scope.Equals (field by field: specification id, owners via
                                         EqualParties = address, role AND optional flag, data access via
                                         equivalentDataAssessors, value owner, rollup flag)
      x/metadata/keeper/scope.go         ValidateWriteScope (incl. the value-owner lookup and the
                                         "only the value owner changes" shortcut: [OWriteScopeFull]),
                                         ValidateDeleteScope, ValidateUpdateScopeOwners,
                                         ValidateAddScopeDataAccess, ValidateDeleteScopeDataAccess (signature
                                         part), ValidateUpdateValueOwners
      x/metadata/keeper/signers.go       ValidateScopeValueOwnersSigners (non-marker value owners)
      x/metadata/keeper/msg_server.go    UpdateValueOwners (GetScopeValueOwners, links.ValidateForScopes)
      x/metadata/keeper/session.go       ValidateWriteSession
      x/metadata/keeper/record.go        ValidateWriteRecord (signature part), ValidateDeleteRecord

    Assumptions about what is external:
      - account addresses are interned to [Z] (only equality matters); every address is a valid
        bech32 account address (the message ValidateBasic guarantees that for parties and signers);
      - roles are the numeric values of the PartyType enum (PROVENANCE = 8, UNSPECIFIED = 0);
      - x/authz is the relation [e_grants]: (granter, grantee) is in it when a *generic*
        authorization from granter to grantee exists, unexpired, under one of the message type URLs
        that getAuthzMessageTypeURLs lists for the message at hand.  Generic authorizations are
        never consumed, so looking one up has no effect on state.  Count-limited authorizations
        (which are decremented / deleted when used, so the order of lookups matters) are OUTSIDE
        this model and outside the generators;
      - [e_wasm] lists the addresses isWasmAccount answers true for (an existing BaseAccount with
        sequence 0 and no public key);
      - for the scope / session / record endpoints the scope has no value owner and none is
        proposed (ValidateScopeValueOwnersSigners then requires nothing and contributes no used
        signers): value-owner rules belong to C09;
      - [OWriteScopeFull] is MsgWriteScope on an existing scope WITH the value-owner fields: the
        current value owner (bank) is an ordinary (non-marker) account or absent, the proposed one
        is not a marker, the proposed specification exists, and the bank transfer / mint of the
        scope coin after an accepted signer check succeeds;
      - for MsgUpdateValueOwners ([OUpdateValueOwners]) only the signer part is modelled: the
        existing value owners are ordinary (non-marker) accounts, the scope ids in the message are
        distinct, and the bank transfer of the scope coins that follows an accepted signer check
        succeeds (C09 / C04 cover the transfer);
      - the data-access lists of MsgAdd/DeleteScopeDataAccess are well formed (non-empty, not yet
        present / present), only the signature part is modelled;
      - the non-signature parts of the write validators (ids, specification lookups, record inputs
        and outputs) are satisfied; they are not modelled.
    No proofs in this file. *)
From Coq Require Import ZArith List Bool.
Import ListNotations.
Open Scope Z_scope.

(** ** Data *)
Record party := { p_addr : Z; p_role : Z; p_opt : bool }.

Definition role_unspecified : Z := 0.
Definition role_provenance : Z := 8.
(** PartyType.IsValid: the values named in the enum. *)
Definition role_valid (r : Z) : bool :=
  existsb (Z.eqb r) [0; 1; 2; 3; 4; 5; 6; 7; 8; 10; 11].

Record env := { e_wasm : list Z; e_grants : list (Z * Z) }.   (* grants: (granter, grantee) *)

Definition mem (a : Z) (l : list Z) : bool := existsb (Z.eqb a) l.
Definition is_wasm (e : env) (a : Z) : bool := mem a (e_wasm e).
Definition granted (e : env) (granter grantee : Z) : bool :=
  existsb (fun g => Z.eqb (fst g) granter && Z.eqb (snd g) grantee) (e_grants e).

(** types.PartyDetails (the acc/signerAcc fields are caches of address/signer). *)
Record details := {
  d_addr : Z; d_role : Z; d_opt : bool;
  d_signer : option Z;
  d_can : bool;       (* canBeUsedBySpec *)
  d_used : bool       (* usedBySpec *)
}.

Definition has_signer (d : details) : bool :=
  match d_signer d with Some _ => true | None => false end.
Definition is_required (d : details) : bool := negb (d_opt d).
Definition set_signer (s : Z) (d : details) : details :=
  {| d_addr := d_addr d; d_role := d_role d; d_opt := d_opt d; d_signer := Some s;
     d_can := d_can d; d_used := d_used d |}.
Definition mark_used (d : details) : details :=
  {| d_addr := d_addr d; d_role := d_role d; d_opt := d_opt d; d_signer := d_signer d;
     d_can := d_can d; d_used := true |}.
Definition make_required (d : details) : details :=
  {| d_addr := d_addr d; d_role := d_role d; d_opt := false; d_signer := d_signer d;
     d_can := d_can d; d_used := d_used d |}.
(** IsStillUsableAs *)
Definition usable_as (r : Z) (d : details) : bool :=
  d_can d && negb (d_used d) && Z.eqb (d_role d) r.

Definition wrap_required (p : party) : details :=
  {| d_addr := p_addr p; d_role := p_role p; d_opt := p_opt p; d_signer := None;
     d_can := false; d_used := false |}.
Definition wrap_available (p : party) : details :=
  {| d_addr := p_addr p; d_role := p_role p; d_opt := true; d_signer := None;
     d_can := true; d_used := false |}.

(** SamePartiers: address and role only. *)
Definition same_as (a r : Z) (d : details) : bool := Z.eqb (d_addr d) a && Z.eqb (d_role d) r.
Definition same_party (p q : party) : bool :=
  Z.eqb (p_addr p) (p_addr q) && Z.eqb (p_role p) (p_role q).

(** [take_first P upd ds]: the first element satisfying [P] is replaced by [upd] of it;
    [None] when there is none.  (Every "find the first party that ... and mark it" loop.) *)
Fixpoint take_first (P : details -> bool) (upd : details -> details) (ds : list details)
  : option (list details) :=
  match ds with
  | [] => None
  | d :: t =>
      if P d then Some (upd d :: t)
      else match take_first P upd t with
           | Some t' => Some (d :: t')
           | None => None
           end
  end.

(** ** BuildPartyDetails *)
Fixpoint add_available (acc : list details) (avail : list party) : list details :=
  match avail with
  | [] => acc
  | p :: rest =>
      if existsb (same_as (p_addr p) (p_role p)) acc then add_available acc rest
      else add_available (acc ++ [wrap_available p]) rest
  end.

Fixpoint add_required (acc : list details) (req : list party) : list details :=
  match req with
  | [] => acc
  | p :: rest =>
      if p_opt p then add_required acc rest
      else match take_first (same_as (p_addr p) (p_role p)) make_required acc with
           | Some acc' => add_required acc' rest
           | None => add_required (acc ++ [wrap_required p]) rest
           end
  end.

Definition build_party_details (req avail : list party) : list details :=
  add_required (add_available [] avail) req.

(** ** associateSigners: a party whose own address is among the signers gets it as signer. *)
Definition associate_signers (signers : list Z) (ds : list details) : list details :=
  map (fun d => if mem (d_addr d) signers then set_signer (d_addr d) d else d) ds.

(** findAuthzGrantee for generic authorizations: the first grantee, in the order given, that
    holds a grant from [granter]. *)
Definition find_grantee (e : env) (granter : Z) (grantees : list Z) : option Z :=
  find (granted e granter) grantees.

(** associateAuthorizations over findUnsignedRequired(parties), no callback: every required
    party still without a signer gets the first signer it has granted to (if any). *)
Definition associate_authz_required (e : env) (signers : list Z) (ds : list details) : list details :=
  map (fun d =>
         if is_required d && negb (has_signer d) then
           match find_grantee e (d_addr d) signers with
           | Some g => set_signer g d
           | None => d
           end
         else d) ds.

Definition unsigned_required (ds : list details) : list details :=
  filter (fun d => is_required d && negb (has_signer d)) ds.

(** ** associateRequiredRoles: the greedy pass.  Each required role entry, in order, takes the
    first party that is still usable for that role and has a signer; entries that find none are
    returned as missing. *)
Fixpoint associate_required_roles (ds : list details) (roles : list Z) : list details * list Z :=
  match roles with
  | [] => (ds, [])
  | r :: rest =>
      match take_first (fun d => usable_as r d && has_signer d) mark_used ds with
      | Some ds' => associate_required_roles ds' rest
      | None => let '(ds', m) := associate_required_roles ds rest in (ds', r :: m)
      end
  end.

(** associateAuthorizationsForRoles: each still-missing role entry, in order, looks through the
    parties still usable for the role that have no signer, and takes the first one that has granted
    to a signer (which becomes its signer).  Returns (parties, rolesAreMissing). *)
Definition has_grantee (e : env) (signers : list Z) (d : details) : bool :=
  match find_grantee e (d_addr d) signers with Some _ => true | None => false end.
Definition take_grantee (e : env) (signers : list Z) (d : details) : details :=
  match find_grantee e (d_addr d) signers with
  | Some g => mark_used (set_signer g d)
  | None => d
  end.

Fixpoint associate_authz_for_roles (e : env) (signers : list Z) (ds : list details) (missing : list Z)
  : list details * bool :=
  match missing with
  | [] => (ds, false)
  | r :: rest =>
      match take_first (fun d => usable_as r d && negb (has_signer d) && has_grantee e signers d)
                       (take_grantee e signers) ds with
      | Some ds' => associate_authz_for_roles e signers ds' rest
      | None => let '(ds', _) := associate_authz_for_roles e signers ds rest in (ds', true)
      end
  end.

(** validateAllRequiredPartiesSigned: [None] = error. *)
Definition validate_all_required_parties_signed (e : env) (req avail : list party) (roles : list Z)
  (signers : list Z) : option (list details) :=
  let ds0 := build_party_details req avail in
  let ds1 := associate_signers signers ds0 in
  let ds2 := associate_authz_required e signers ds1 in
  match unsigned_required ds2 with
  | _ :: _ => None
  | [] =>
      let '(ds3, missing) := associate_required_roles ds2 roles in
      let '(ds4, roles_missing) := associate_authz_for_roles e signers ds3 missing in
      if roles_missing then None else Some ds4
  end.

(** validateProvenanceRole: only parties that can be used by the spec are looked at. *)
Definition validate_provenance_role (e : env) (ds : list details) : bool :=
  forallb (fun d =>
             if d_can d then Bool.eqb (is_wasm e (d_addr d)) (Z.eqb (d_role d) role_provenance)
             else true) ds.

(** GetUsedSigners *)
Definition used_signers (ds : list details) : list Z :=
  flat_map (fun d => match d_signer d with Some s => [s] | None => [] end) ds.

(** validateSmartContractSigners: the loop over the message signers.  [can_be_wasm] is true
    until a signer that is not a smart contract has been seen. *)
Fixpoint sc_loop (e : env) (used : list Z) (can_be_wasm : bool) (signers : list Z) : bool :=
  match signers with
  | [] => true
  | s :: rest =>
      let w := is_wasm e s in
      if w && negb can_be_wasm then false
      else if negb w then sc_loop e used false rest
      else if mem s used then sc_loop e used can_be_wasm rest
      else match rest with
           | [] => false
           | _ :: _ =>
               if forallb (fun granter => granted e granter s) rest
               then sc_loop e used can_be_wasm rest
               else false
           end
  end.
Definition validate_smart_contract_signers (e : env) (used signers : list Z) : bool :=
  sc_loop e used true signers.

(** ValidateSignersWithParties *)
Definition validate_signers_with_parties (e : env) (req avail : list party) (roles : list Z)
  (signers : list Z) : bool :=
  match validate_all_required_parties_signed e req avail roles signers with
  | None => false
  | Some ds => validate_provenance_role e ds && validate_smart_contract_signers e (used_signers ds) signers
  end.

(** validateAllRequiredSigned / ValidateSignersWithoutParties: every listed address is wrapped as a
    required party with the UNSPECIFIED role (no de-duplication). *)
Definition wrap_addr (a : Z) : details :=
  {| d_addr := a; d_role := role_unspecified; d_opt := false; d_signer := None;
     d_can := false; d_used := false |}.

Definition validate_all_required_signed (e : env) (required signers : list Z) : option (list details) :=
  let ds1 := associate_signers signers (map wrap_addr required) in
  let ds2 := match unsigned_required ds1 with
             | [] => ds1
             | _ :: _ => associate_authz_required e signers ds1
             end in
  match unsigned_required ds2 with
  | [] => Some ds2
  | _ :: _ => None
  end.

Definition validate_signers_without_parties (e : env) (required signers : list Z) : bool :=
  match validate_all_required_signed e required signers with
  | None => false
  | Some ds => validate_smart_contract_signers e (used_signers ds) signers
  end.

(** validateRolesPresent: the same greedy pass without the signer condition. *)
Fixpoint roles_present_loop (ds : list details) (roles : list Z) : bool :=
  match roles with
  | [] => true
  | r :: rest =>
      match take_first (usable_as r) mark_used ds with
      | Some ds' => roles_present_loop ds' rest
      | None => false
      end
  end.
Definition validate_roles_present (parties : list party) (roles : list Z) : bool :=
  roles_present_loop (build_party_details [] parties) roles.

(** validatePartiesArePresent *)
Definition validate_parties_are_present (required available : list party) : bool :=
  forallb (fun r => existsb (same_party r) available) required.

(** GetPartyAddresses / GetRequiredPartyAddresses: first occurrences, in order. *)
Fixpoint dedup_addrs (seen : list Z) (l : list Z) : list Z :=
  match l with
  | [] => []
  | a :: t => if mem a seen then dedup_addrs seen t else a :: dedup_addrs (a :: seen) t
  end.
Definition party_addrs (ps : list party) : list Z := dedup_addrs [] (map p_addr ps).
Definition required_party_addrs (ps : list party) : list Z :=
  party_addrs (filter (fun p => negb (p_opt p)) ps).

(** ValidatePartiesBasic + ValidateOptionalParties *)
Fixpoint parties_unique (ps : list party) : bool :=
  match ps with
  | [] => true
  | p :: t => negb (existsb (same_party p) t) && parties_unique t
  end.
Definition parties_basic (ps : list party) : bool :=
  match ps with [] => false | _ :: _ => true end &&
  forallb (fun p => role_valid (p_role p) && negb (Z.eqb (p_role p) role_unspecified)) ps &&
  parties_unique ps.
Definition optional_parties_ok (opt_allowed : bool) (ps : list party) : bool :=
  opt_allowed || forallb (fun p => negb (p_opt p)) ps.

(** EqualParties *)
Definition equal_party (p q : party) : bool := same_party p q && Bool.eqb (p_opt p) (p_opt q).
Definition equal_parties (p1 p2 : list party) : bool :=
  Nat.eqb (length p1) (length p2) && forallb (fun p => existsb (equal_party p) p2) p1.

(** The fields Scope.Equals looks at ([sv_vo] of a stored scope = the holder of its scope coin). *)
Record scope_view := {
  sv_spec : Z;                (* specification id, interned *)
  sv_owners : list party;
  sv_data : list Z;           (* data access addresses *)
  sv_vo : option Z;           (* value owner; None = empty *)
  sv_rollup : bool
}.
Definition with_vo (s : scope_view) (v : option Z) : scope_view :=
  {| sv_spec := sv_spec s; sv_owners := sv_owners s; sv_data := sv_data s; sv_vo := v;
     sv_rollup := sv_rollup s |}.
Definition opt_z_eqb (a b : option Z) : bool :=
  match a, b with
  | Some x, Some y => Z.eqb x y
  | None, None => true
  | _, _ => false
  end.
(** equivalentDataAssessors *)
Definition equiv_data (s1 s2 : list Z) : bool :=
  forallb (fun a => mem a s2) s1 && forallb (fun a => mem a s1) s2.

(** Scope.Equals (the scope id is the same by construction) *)
Definition scope_equals (s t : scope_view) : bool :=
  Z.eqb (sv_spec s) (sv_spec t) && equal_parties (sv_owners s) (sv_owners t) &&
  equiv_data (sv_data s) (sv_data t) && opt_z_eqb (sv_vo s) (sv_vo t) &&
  Bool.eqb (sv_rollup s) (sv_rollup t).

Definition prov_role_ok (e : env) (ps : list party) : bool :=
  validate_provenance_role e (build_party_details [] ps).

Definition used_of (o : option (list details)) : list Z :=
  match o with Some ds => used_signers ds | None => [] end.

(** ** ValidateScopeValueOwnersSigners (existing value owners are not markers).
    If the first signer is a smart contract every other signer is ignored. *)
Definition vo_signers (e : env) (signers : list Z) : list Z :=
  match signers with
  | [] => []
  | s0 :: _ => if is_wasm e s0 then [s0] else signers
  end.

(** the loop over the existing value owners; returns the used signers, [None] = error *)
Fixpoint vo_loop (e : env) (proposed : Z) (sg : list Z) (existing : list Z) : option (list Z) :=
  match existing with
  | [] => Some []
  | x :: rest =>
      if Z.eqb x proposed then vo_loop e proposed sg rest
      else if mem x sg then option_map (cons x) (vo_loop e proposed sg rest)
      else match find_grantee e x sg with
           | Some g => option_map (cons g) (vo_loop e proposed sg rest)
           | None => None
           end
  end.

Definition validate_value_owners_signers (e : env) (existing : list Z) (proposed : Z)
  (signers : list Z) : option (list Z) :=
  match existing with
  | [x] => if Z.eqb x proposed then Some []
           else vo_loop e proposed (vo_signers e signers) existing
  | _ => vo_loop e proposed (vo_signers e signers) existing
  end.

Definition some_addrs (l : list (option Z)) : list Z :=
  flat_map (fun o => match o with Some a => [a] | None => [] end) l.
Definition is_some_z (o : option Z) : bool := match o with Some _ => true | None => false end.

(** ** The callers: which parties are required / available, which roles, per endpoint.
    All without a value owner (see header) except [OUpdateValueOwners]. *)
Inductive outer :=
  (* MsgWriteScopeRequest, the scope does not exist yet *)
| OWriteScopeNew (proposed : list party) (rollup : bool) (spec_roles : list Z)
  (* MsgWriteScopeRequest on an existing scope; [other_changed]: a field other than owners /
     rollup flag differs (data access) *)
| OWriteScope (ex_rollup : bool) (existing : list party) (prop_rollup : bool) (proposed : list party)
              (other_changed : bool) (spec_roles : list Z)
  (* MsgDeleteScopeRequest; [None]: the scope specification no longer exists *)
| ODeleteScope (rollup : bool) (owners : list party) (spec_roles : option (list Z))
  (* MsgAddScopeOwnerRequest / MsgDeleteScopeOwnerRequest: [proposed] is the resulting owner list *)
| OUpdateOwners (rollup : bool) (existing proposed : list party) (spec_roles : list Z)
  (* MsgWriteSessionRequest; [existing] = parties of the stored session when it exists *)
| OWriteSession (rollup : bool) (scope_owners : list party) (existing : option (list party))
                (proposed : list party) (cspec_roles : list Z)
  (* MsgWriteRecordRequest into session [session]; [old_session] = parties of the session the
     existing record is in, when that is a different (still existing) session *)
| OWriteRecord (rollup : bool) (scope_owners session : list party) (old_session : option (list party))
               (rspec_roles : list Z)
  (* MsgDeleteRecordRequest; [None]: the record specification no longer exists *)
| ODeleteRecord (rollup : bool) (scope_owners : list party) (rspec_roles : option (list Z))
  (* MsgAddScopeDataAccessRequest / MsgDeleteScopeDataAccessRequest (they differ only in the
     message kind, i.e. in the authz grants that count); [None]: the scope specification no
     longer exists *)
| ODataAccess (rollup : bool) (owners : list party) (spec_roles : option (list Z))
  (* MsgUpdateValueOwnersRequest: [vos] = the current value owner of each listed scope ([None]:
     the scope has none / does not exist), [proposed] = the new value owner *)
| OUpdateValueOwners (vos : list (option Z)) (proposed : Z)
  (* MsgWriteScopeRequest on an existing scope, all fields: [existing] as stored, with [sv_vo] =
     the current holder of the scope coin; [proposed] = the scope in the message ([sv_vo] = None:
     the value owner field is empty = leave it alone); [spec_roles] = PartiesInvolved of the
     PROPOSED specification *)
| OWriteScopeFull (existing proposed : scope_view) (spec_roles : list Z).

Definition opt_parties (o : option (list party)) : list party :=
  match o with Some l => l | None => [] end.

Definition outer_accept (e : env) (op : outer) (signers : list Z) : bool :=
  match op with
  | OWriteScopeNew proposed rollup roles =>
      parties_basic proposed && optional_parties_ok rollup proposed &&
      validate_roles_present proposed roles && prov_role_ok e proposed &&
      validate_smart_contract_signers e [] signers
  | OWriteScope ex_rollup existing prop_rollup proposed other_changed roles =>
      parties_basic proposed && optional_parties_ok prop_rollup proposed &&
      validate_roles_present proposed roles && prov_role_ok e proposed &&
      (if negb ex_rollup then
         if equal_parties existing proposed && Bool.eqb ex_rollup prop_rollup && negb other_changed
         then validate_smart_contract_signers e [] signers
         else match validate_all_required_signed e (party_addrs existing) signers with
              | None => false
              | Some ds => validate_smart_contract_signers e (used_signers ds) signers
              end
       else match validate_all_required_parties_signed e existing existing roles signers with
            | None => false
            | Some ds => validate_smart_contract_signers e (used_signers ds) signers
            end)
  | ODeleteScope rollup owners roles =>
      if negb rollup then validate_signers_without_parties e (party_addrs owners) signers
      else match roles with
           | None => validate_signers_without_parties e (required_party_addrs owners) signers
           | Some rs =>
               match validate_all_required_parties_signed e owners owners rs signers with
               | None => false
               | Some ds => validate_smart_contract_signers e (used_signers ds) signers
               end
           end
  | OUpdateOwners rollup existing proposed roles =>
      parties_basic proposed && optional_parties_ok rollup proposed &&
      validate_roles_present proposed roles && prov_role_ok e proposed &&
      (if negb rollup then validate_signers_without_parties e (party_addrs existing) signers
       else match validate_all_required_parties_signed e existing existing roles signers with
            | None => false
            | Some ds => validate_smart_contract_signers e (used_signers ds) signers
            end)
  | OWriteSession rollup owners existing proposed roles =>
      parties_basic proposed && optional_parties_ok rollup proposed &&
      (if negb rollup then
         validate_roles_present proposed roles && prov_role_ok e proposed &&
         validate_signers_without_parties e (party_addrs owners) signers
       else
         validate_parties_are_present proposed owners &&
         match existing with
         | Some ex =>
             validate_roles_present proposed roles && prov_role_ok e proposed &&
             validate_signers_with_parties e (ex ++ owners) ex roles signers
         | None => validate_signers_with_parties e owners proposed roles signers
         end)
  | OWriteRecord rollup owners session old roles =>
      if negb rollup then
        validate_roles_present session roles &&
        validate_signers_without_parties e
          (party_addrs session ++ match old with Some o => party_addrs o | None => [] end) signers
      else validate_signers_with_parties e (owners ++ session ++ opt_parties old) session roles signers
  | ODeleteRecord rollup owners roles =>
      if negb rollup then validate_signers_without_parties e (party_addrs owners) signers
      else match roles with
           | None => validate_signers_without_parties e (required_party_addrs owners) signers
           | Some rs => validate_signers_with_parties e owners owners rs signers
           end
  | ODataAccess rollup owners roles =>
      if negb rollup then validate_signers_without_parties e (party_addrs owners) signers
      else match roles with
           | None => false
           | Some rs => validate_signers_with_parties e owners owners rs signers
           end
  | OUpdateValueOwners vos proposed =>
      (* ValidateUpdateValueOwners: some scope, every scope has a value owner, none of them is
         the proposed one; then ValidateScopeValueOwnersSigners over links.GetAccAddrs().
         NOTE: validateSmartContractSigners is not called on this path. *)
      match vos with [] => false | _ :: _ => true end &&
      forallb is_some_z vos &&
      negb (mem proposed (some_addrs vos)) &&
      match validate_value_owners_signers e (dedup_addrs [] (some_addrs vos)) proposed signers with
      | Some _ => true
      | None => false
      end
  | OWriteScopeFull ex pr roles =>
      (* proposed.ValidateBasic *)
      parties_basic (sv_owners pr) && optional_parties_ok (sv_rollup pr) (sv_owners pr) &&
      (* the existing value owner is looked up only when one is proposed *)
      (let ex_vo := match sv_vo pr with Some _ => sv_vo ex | None => None end in
       let ex' := with_vo ex ex_vo in
       (* onlyChangeIsValueOwner *)
       let only_vo :=
         match ex_vo with
         | Some _ => negb (opt_z_eqb ex_vo (sv_vo pr)) && scope_equals ex' (with_vo pr ex_vo)
         | None => false
         end in
       (* used signers of the party checks; None = error *)
       let validated : option (list Z) :=
         if only_vo then Some []
         else if validate_roles_present (sv_owners pr) roles && prov_role_ok e (sv_owners pr) then
           if negb (sv_rollup ex) then
             if negb (scope_equals ex' pr)
             then option_map used_signers
                    (validate_all_required_signed e (party_addrs (sv_owners ex)) signers)
             else Some []
           else option_map used_signers
                  (validate_all_required_parties_signed e (sv_owners ex) (sv_owners ex) roles signers)
         else None in
       match validated with
       | None => false
       | Some used1 =>
           (* ValidateScopeValueOwnersSigners(existingVOAddrs, proposed.ValueOwnerAddress) *)
           match sv_vo pr with
           | None => validate_smart_contract_signers e used1 signers
           | Some p =>
               match validate_value_owners_signers e
                       (match ex_vo with Some v => [v] | None => [] end) p signers with
               | None => false
               | Some used2 => validate_smart_contract_signers e (used2 ++ used1) signers
               end
           end
       end)
  end.

(** ** getAuthzMessageTypeURLs, on message kinds:
    1 MsgWriteScope, 2 MsgDeleteScope, 3 MsgAddScopeDataAccess, 4 MsgDeleteScopeDataAccess,
    5 MsgAddScopeOwner, 6 MsgDeleteScopeOwner, 7 MsgWriteSession, 8 MsgWriteRecord,
    9 MsgDeleteRecord, 10 MsgUpdateValueOwners.  A grant for the message's own kind always
    counts; 3-6 also accept a MsgWriteScope grant and 8 a MsgWriteSession grant. *)
Definition authz_urls (m : Z) : list Z :=
  m :: (if existsb (Z.eqb m) [3; 4; 5; 6] then [1] else if Z.eqb m 8 then [7] else []).

(** The environment a message of kind [m] sees: [raw] lists (granter, grantee, kind granted). *)
Definition mk_env (m : Z) (wasm : list Z) (raw : list (Z * Z * Z)) : env :=
  {| e_wasm := wasm;
     e_grants := map (fun g => (fst (fst g), snd (fst g)))
                     (filter (fun g => mem (snd g) (authz_urls m)) raw) |}.
