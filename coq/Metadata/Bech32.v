(** Bech32 as used by the SDK for metadata addresses (model; no proofs here).

    Transcribed from
      github.com/cosmos/btcutil@v1.0.5/bech32/bech32.go
        ConvertBits, bech32Polymod, writeBech32Checksum, VerifyChecksum, Normalize,
        toBytes, DecodeUnsafe, DecodeNoLimit, Decode, Encode
      cosmos-sdk types/bech32/bech32.go
        ConvertAndEncode (= ConvertBits 8->5 with padding, then Encode),
        DecodeAndConvert (= Decode with limit 1023, then ConvertBits 5->8 without padding).

    Representation.  A Go byte is an [N] (the harness only supplies values < 256; theorems say
    so where it matters); a Go string / []byte is a [list N] of byte codes, so texts with
    arbitrary (non printable, non ASCII) bytes can be cases.

    ConvertBits.  The Go loop keeps (nextByte, filledBits) and moves min(remFromBits, remToBits)
    bits at a time; [regroup] keeps the bits collected for the unfinished group as a list
    ([cur]: nextByte = of_bits cur, filledBits = length cur) and moves one bit at a time, most
    significant first - the same function, without the machine-word shifting.  Group sizes are
    [nat] (they are 1..8, not data).  fromBits/toBits outside 1..8 are rejected as in Go.

    DecodeUnsafe.  strings.LastIndexByte(bech,'1') followed by slicing is [split_last]: the
    part before the last '1' and the part after it; "one < 1" is "not found or empty hrp",
    "one+7 > len" is "fewer than 6 characters after the separator".

    bech32Polymod works on Go [int] (64 bit): no overflow is possible because the running value
    stays below 2^30; it is an [N] here.  The generator rounds are xor's of [gen_i] selected by
    the bits of [chk >> 25], exactly as in Go. *)
From Coq Require Import String Ascii.
From Coq Require Import NArith List Bool.
Import ListNotations.
Open Scope N_scope.

Definition codes (s : string) : list N := map N_of_ascii (list_ascii_of_string s).

(** *** ConvertBits *)
Fixpoint to_bits (k : nat) (v : N) : list bool :=      (* the k low bits of v, MSB first *)
  match k with
  | O => []
  | S k' => N.testbit v (N.of_nat k') :: to_bits k' v
  end.

Definition of_bits (bs : list bool) : N :=
  fold_left (fun acc (b : bool) => 2 * acc + (if b then 1 else 0)) bs 0.

Fixpoint regroup (to : nat) (cur : list bool) (bits : list bool) : list (list bool) * list bool :=
  match bits with
  | [] => ([], cur)
  | b :: r =>
      let cur' := cur ++ [b] in
      if Nat.eqb (length cur') to
      then let (gs, rest) := regroup to [] r in (cur' :: gs, rest)
      else regroup to cur' r
  end.

Definition bits_ok (k : nat) : bool := Nat.leb 1 k && Nat.leb k 8.

Definition convert_bits (from to : nat) (pad : bool) (data : list N) : option (list N) :=
  if negb (bits_ok from && bits_ok to) then None else
  let (gs, rest) := regroup to [] (flat_map (to_bits from) data) in
  let out := map of_bits gs in
  match rest with
  | [] => Some out
  | _ :: _ =>
      if pad then Some (out ++ [of_bits (rest ++ repeat false (to - length rest))])
      else if Nat.ltb 4 (length rest) || negb (of_bits rest =? 0) then None
      else Some out
  end.

(** *** Character set *)
Definition charset : list N := codes "qpzry9x8gf2tvdw0s3jn54khce6mua7l".

Fixpoint index_of (c : N) (l : list N) (i : N) : option N :=
  match l with
  | [] => None
  | x :: r => if x =? c then Some i else index_of c r (N.succ i)
  end.

Definition char_index (c : N) : option N := index_of c charset 0.
Definition char_of (v : N) : N := nth (N.to_nat v) charset 0.

Fixpoint to_bytes (chars : list N) : option (list N) :=
  match chars with
  | [] => Some []
  | c :: r =>
      match char_index c, to_bytes r with
      | Some v, Some vs => Some (v :: vs)
      | _, _ => None
      end
  end.

(** *** Checksum *)
Definition gen0 := 0x3b6a57b2.
Definition gen1 := 0x26508e6d.
Definition gen2 := 0x1ea119fa.
Definition gen3 := 0x3d4233dd.
Definition gen4 := 0x2a1462b3.

Definition polymod_step (chk v : N) : N :=
  let b := N.shiftr chk 25 in
  let c := N.lxor (N.shiftl (N.land chk 0x1ffffff) 5) v in
  let c := if N.testbit b 0 then N.lxor c gen0 else c in
  let c := if N.testbit b 1 then N.lxor c gen1 else c in
  let c := if N.testbit b 2 then N.lxor c gen2 else c in
  let c := if N.testbit b 3 then N.lxor c gen3 else c in
  let c := if N.testbit b 4 then N.lxor c gen4 else c in
  c.

Definition hrp_high (hrp : list N) : list N := map (fun c => N.shiftr c 5) hrp.
Definition hrp_low (hrp : list N) : list N := map (fun c => N.land c 31) hrp.

(** [checksum = None] is Go's nil checksum (six zero symbols). *)
Definition polymod (hrp values : list N) (checksum : option (list N)) : N :=
  let tail := match checksum with None => repeat 0 6 | Some c => c end in
  fold_left polymod_step (hrp_high hrp ++ [0] ++ hrp_low hrp ++ values ++ tail) 1.

Definition create_checksum (hrp data : list N) : list N :=
  let pm := N.lxor (polymod hrp data None) 1 in
  map (fun i => N.land (N.shiftr pm (5 * (5 - i))) 31) [0; 1; 2; 3; 4; 5].

Definition verify_checksum (hrp values checksum : list N) : bool :=
  polymod hrp values (Some checksum) =? 1.

(** *** Normalize, Decode, Encode *)
Definition is_lower (c : N) : bool := (97 <=? c) && (c <=? 122).
Definition is_upper (c : N) : bool := (65 <=? c) && (c <=? 90).
Definition lower_char (c : N) : N := if is_upper c then c + 32 else c.
Definition lower (s : list N) : list N := map lower_char s.

Definition normalize (bech : list N) : option (list N) :=
  if negb (forallb (fun c => (33 <=? c) && (c <=? 126)) bech) then None
  else if existsb is_lower bech && existsb is_upper bech then None
  else Some (lower bech).

Fixpoint split_last (c : N) (l : list N) : option (list N * list N) :=
  match l with
  | [] => None
  | x :: r =>
      match split_last c r with
      | Some (a, b) => Some (x :: a, b)
      | None => if x =? c then Some ([], r) else None
      end
  end.

Definition sep : N := 49. (* '1' *)

Definition decode_unsafe (bech : list N) : option (list N * list N * list N) :=
  match split_last sep bech with
  | None => None
  | Some (hrp, data) =>
      if Nat.eqb (length hrp) 0 || Nat.ltb (length data) 6 then None else
      match to_bytes data with
      | None => None
      | Some decoded =>
          let n := (length decoded - 6)%nat in
          Some (hrp, firstn n decoded, skipn n decoded)
      end
  end.

Definition decode (bech : list N) (limit : nat) : option (list N * list N) :=
  if Nat.ltb limit (length bech) then None else
  if Nat.ltb (length bech) 8 then None else
  match normalize bech with
  | None => None
  | Some b =>
      match decode_unsafe b with
      | None => None
      | Some (hrp, values, checksum) =>
          if verify_checksum hrp values checksum then Some (hrp, values) else None
      end
  end.

Definition encode (hrp data : list N) : option (list N) :=
  let hrp := lower hrp in
  if negb (forallb (fun b => b <? 32) data) then None
  else Some (hrp ++ [sep] ++ map char_of data ++ map char_of (create_checksum hrp data)).

(** *** The SDK wrappers *)
Definition convert_and_encode (hrp data : list N) : option (list N) :=
  match convert_bits 8 5 true data with
  | None => None
  | Some conv => encode hrp conv
  end.

Definition decode_and_convert (bech : list N) : option (list N * list N) :=
  match decode bech 1023 with
  | None => None
  | Some (hrp, data) =>
      match convert_bits 5 8 false data with
      | None => None
      | Some conv => Some (hrp, conv)
      end
  end.
