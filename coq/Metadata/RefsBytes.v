(** The metadata store at byte level: the composite of Metadata/Refs.v (which entry refers to
    which, on interned ids) and Metadata/Address.v (what the keys are made of) (model; no proofs).

    An environment [env] says which bytes every interned id of Refs.v stands for: the 16 byte
    UUIDs of scopes, sessions, scope specifications and contract specifications, the 16 byte name
    hash of every record name, the address bytes of every account and the text of every NAV
    denom.  [store_keys env st] is then the complete key set of the module's KV store in state
    [st], key layout transcribed from /repo/x/metadata/types/keys.go and address.go:

      0x00 scope uuid                                   Scope            (MetadataAddress)
      0x01 scope uuid | session uuid                    Session          (MetadataAddress)
      0x02 scope uuid | name hash                       Record           (SetRecord: key =
                                                        record.SessionId.MustGetAsRecordAddress(Name))
      0x03 uuid   0x04 uuid   0x05 cspec uuid | name hash   contract / scope / record specification
      0x17 len|account | scope id          GetAddressScopeCacheKey           (address.MustLengthPrefix)
      0x11 scope spec id | scope id        GetScopeSpecScopeCacheKey
      0x19 len|account | scope spec id     GetAddressScopeSpecCacheKey
      0x14 contract spec id | scope spec id   GetContractSpecScopeSpecCacheKey
      0x20 len|account | contract spec id  GetAddressContractSpecCacheKey
      0x21 len|account                     GetOSLocatorKey
      0x22 len|scope id | denom            NetAssetValueKey
    (0x23, the object store locator params, is a constant key and left out.)

    The byte-level readers used by the keeper:
      IterateSessions(scope) / IterateRecords(scope) = prefix scan with
      ScopeSessionIteratorPrefix / ScopeRecordIteratorPrefix of the scope's address;
      sessionHasRecords / ValidateWriteSession / ValidateWriteRecord find "the scope of" a session
      or record id with AsScopeAddress / ScopeUUID. *)
From Coq Require Import ZArith NArith List Bool.
From PV Require Export Metadata.Address Metadata.Refs.
Import ListNotations.

Notation bytes := (list N) (only parsing).

Record env := Env {
  e_scope : Z -> bytes; e_sess : Z -> bytes; e_sspec : Z -> bytes; e_cspec : Z -> bytes;
  e_name : Z -> bytes;            (* name hash *)
  e_acct : Z -> bytes;            (* decoded account address *)
  e_denom : Z -> bytes }.

(** an environment given by lists: id i (1-based; denoms 0-based) = i-th element; an id outside
    the list stands for the all-zero UUID / the empty address *)
Definition zero16 : bytes := repeat 0%N 16.
Definition nthb (d : bytes) (l : list bytes) (i : Z) : bytes := nth (Z.to_nat i) l d.
Definition env_of (scopes sess sspecs cspecs names accts denoms : list bytes) : env :=
  Env (fun i => nthb zero16 scopes (i - 1)) (fun i => nthb zero16 sess (i - 1))
      (fun i => nthb zero16 sspecs (i - 1)) (fun i => nthb zero16 cspecs (i - 1))
      (fun i => nthb zero16 names (i - 1)) (fun i => nthb [] accts (i - 1))
      (fun i => nthb [] denoms i).

Section Keys.
  Variable e : env.

  (** *** Primary keys (MetadataAddress bytes) *)
  Definition scope_key (id : Z) : bytes := scope_addr (e_scope e id).
  Definition session_key (s : session) : bytes :=
    session_addr (e_scope e (se_scope s)) (e_sess e (se_uuid s)).
  Definition record_key (r : record) : bytes :=
    type_byte TRecord :: e_scope e (r_scope r) ++ e_name e (r_name r).
  (** the SessionId field stored inside a record *)
  Definition record_session_id (r : record) : bytes :=
    session_addr (e_scope e (r_scope r)) (e_sess e (r_sess r)).
  Definition sspec_key (id : Z) : bytes := scope_spec_addr (e_sspec e id).
  Definition cspec_key (id : Z) : bytes := contract_spec_addr (e_cspec e id).
  Definition rspec_key (r : rspec) : bytes :=
    type_byte TRecordSpec :: e_cspec e (rs_cspec r) ++ e_name e (rs_name r).

  (** *** Secondary keys *)
  Definition lp (a : bytes) : bytes := N.of_nat (length a) :: a.     (* address.MustLengthPrefix *)
  Definition k_as (k : key) : bytes := 23%N :: lp (e_acct e (fst k)) ++ scope_key (snd k).
  Definition k_ss (k : key) : bytes := 17%N :: sspec_key (fst k) ++ scope_key (snd k).
  Definition k_asp (k : key) : bytes := 25%N :: lp (e_acct e (fst k)) ++ sspec_key (snd k).
  Definition k_cs (k : key) : bytes := 20%N :: cspec_key (fst k) ++ sspec_key (snd k).
  Definition k_ac (k : key) : bytes := 32%N :: lp (e_acct e (fst k)) ++ cspec_key (snd k).
  Definition k_loc (l : Z * Z) : bytes := 33%N :: lp (e_acct e (fst l)).
  Definition k_nav (n : nav) : bytes :=
    34%N :: lp (scope_key (fst (fst n))) ++ e_denom e (snd (fst n)).

  Definition primary_keys (st : state) : list bytes :=
    map (fun s => scope_key (sc_id s)) (scopes st) ++ map session_key (sessions st) ++
    map record_key (records st).

  Definition store_keys (st : state) : list bytes :=
    primary_keys st ++
    map (fun s => cspec_key (cs_id s)) (cspecs st) ++ map (fun s => sspec_key (ss_id s)) (sspecs st) ++
    map rspec_key (rspecs st) ++
    map k_ss (ix_ss st) ++ map k_cs (ix_cs st) ++ map k_as (ix_as st) ++ map k_asp (ix_asp st) ++
    map k_ac (ix_ac st) ++ map k_loc (locs st) ++ map k_nav (navs st).
End Keys.

(** *** Byte-level readers *)
Fixpoint is_prefix (p k : bytes) : bool :=
  match p, k with
  | [], _ => true
  | a :: p', b :: k' => N.eqb a b && is_prefix p' k'
  | _ :: _, [] => false
  end.

(** KVStorePrefixIterator over a key set *)
Definition scan (p : option bytes) (K : list bytes) : list bytes :=
  match p with Some p => filter (is_prefix p) K | None => [] end.

(** IterateSessions(scopeAddr) / IterateRecords(scopeAddr) on the key set *)
Definition sessions_under (scope_addr_bytes : bytes) (K : list bytes) : list bytes :=
  scan (scope_session_prefix scope_addr_bytes) K.
Definition records_under (scope_addr_bytes : bytes) (K : list bytes) : list bytes :=
  scan (scope_record_prefix scope_addr_bytes) K.

(** injectivity of an interning on the ids that are in use *)
Definition inj_on (ids : list Z) (f : Z -> bytes) : Prop :=
  forall a b, In a ids -> In b ids -> f a = f b -> a = b.

(** what the environment must satisfy: 16 byte UUIDs / hashes *)
Definition env_len (e : env) : Prop :=
  (forall i, length (e_scope e i) = 16%nat) /\ (forall i, length (e_sess e i) = 16%nat) /\
  (forall i, length (e_name e i) = 16%nat).

(** lexicographic order on keys, for comparing key SETS with the store's own listing *)
Fixpoint bytes_ltb (a b : bytes) : bool :=
  match a, b with
  | [], [] => false
  | [], _ :: _ => true
  | _ :: _, [] => false
  | x :: a', y :: b' => N.ltb x y || (N.eqb x y && bytes_ltb a' b')
  end.
Fixpoint insert_bytes (x : bytes) (l : list bytes) : list bytes :=
  match l with
  | [] => [x]
  | y :: t => if bytes_ltb x y then x :: l else if bytes_ltb y x then y :: insert_bytes x t else l
  end.
Definition sort_keys (l : list bytes) : list bytes := fold_right insert_bytes [] l.
