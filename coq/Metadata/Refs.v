(** Metadata store: scopes, sessions, records, the three kinds of specification, net asset
    values and the five lookup (index) families (model; no proofs here).

    Transcribed from /repo/x/metadata/keeper
      scope.go          SetScope/writeScopeToState, RemoveScope (CURRENT code: after the records
                        it also removes the sessions that are left - fix 293c28892), indexScope,
                        getScopeIndexValues, getMissingScopeIndexValues, IndexKeys,
                        SetNetAssetValue, RemoveNetAssetValues
      session.go        SetSession, RemoveSession, sessionHasRecords, the referential guards of
                        ValidateWriteSession
      record.go         SetRecord, RemoveRecord, the referential guards of ValidateWriteRecord /
                        ValidateDeleteRecord
      specification.go  Set/Remove{Scope,Contract,Record}Specification, index*Specification,
                        is*SpecUsed, ValidateWriteScopeSpecification (new contract specs exist),
                        ValidateWrite{Contract,Record}Specification
      objectstore.go    SetOSLocator, RemoveOSLocator, ModifyOSLocator, GetOSLocatorByScope
      types/scope.go    Scope.AddOwners, RemoveOwners, AddDataAccess, RemoveDataAccess,
                        ValidatePartiesBasic (at least one party, no two equal parties)
      msg_server.go     WriteScope, DeleteScope (RemoveScope + RemoveNetAssetValues),
                        AddScopeDataAccess, DeleteScopeDataAccess, AddScopeOwner, DeleteScopeOwner
                        (all four: GetScope, change the list, ValidateUpdate*, SetScope - so the
                        lookups are maintained by the same indexScope diff as for WriteScope),
                        Bind/Delete/ModifyOSLocator, WriteSession, WriteRecord (a
                        record moved to another session: the old session is removed when it
                        has no records left), DeleteRecord, Write/Delete*Specification,
                        Add/DeleteContractSpecTo/FromScopeSpec, AddNetAssetValues
    and the key layout of /repo/x/metadata/types/keys.go:
      0x17 account|scope          [ix_as]      0x11 scope spec|scope          [ix_ss]
      0x19 account|scope spec     [ix_asp]     0x14 contract spec|scope spec  [ix_cs]
      0x20 account|contract spec  [ix_ac]      0x22 scope|denom -> NAV        [navs]
      0x21 account -> object store locator [locs]  (keyed by ACCOUNT, not by scope)
    (the value-owner lookup 0x18 no longer exists: value owners live in the bank module.)

    Identifiers.  UUIDs, record-name hashes, account addresses and denoms are interned to [Z] by
    the harness: this file is about which entry refers to which, the byte layout (that a session
    id starts with its scope's UUID, that a record id is scope UUID + name hash) is
    Metadata/Address.v.  A session id is (scope uuid, session uuid); a record's SessionId field
    fixes both its session and (SetRecord: SessionId.MustGetAsRecordAddress(name)) the scope part
    of its own key, so a record is (scope uuid, name, session uuid).  All account addresses are
    valid bech32 (Scope.ValidateBasic; the harness never writes others), fixed-width keys make
    prefix scans exact (account parts are length-prefixed).

    Two levels of operation.  [K*] = one exported keeper function, exactly as it behaves (no
    referential guards: SetSession/SetRecord store whatever they are given).  [M*] = the message
    handler: referential guards of Validate* followed by the keeper calls the handler makes.
    Object store locators belong to accounts: [MBindLoc]'s flag [has_acct] is the fact, observed
    by the harness in the auth module, that the owner account exists; uri 0 stands for a URI that
    checkValidURI rejects (no scheme / host, too long).
    Party rollup: what is modelled is the flag's effect on which owner lists are valid
    (optional parties) and on which messages look up the scope specification; the signer side
    (every non-optional party signs, every role of the specification has a signing party) is kept
    satisfied by the harness: all accounts sign, every scope it writes has an OWNER party, session
    parties are an OWNER party of the scope.
    NOT modelled (the harness keeps inside): signature / party-role / smart-contract checks
    (every message is signed by all accounts and parties carry the roles the specs ask for),
    value owners (scopes are written without one; C09), record inputs/outputs (always conform),
    audit fields, events.  A failed handler returns the OLD state. *)
From Coq Require Import ZArith List Bool.
Import ListNotations.
Open Scope Z_scope.

(** A scope: [sc_owners] are the owner PARTIES, [sc_rollup] is require_party_rollup.  A party is
    coded as one integer: entry + 1000 * role + 100000 * (1 if optional), where entry (< 1000) is
    the address string as below (account and spelling), role 0 = OWNER (the only role the
    harness's specifications involve), 1 = CUSTODIAN, 2 = INVESTOR ...  So a plain entry [a] is the
    required OWNER party of that address string, and [acct] (the decoded address) works on
    parties and on data-access entries alike. *)
Record scope := ScR { sc_id : Z; sc_spec : Z; sc_owners : list Z; sc_da : list Z; sc_rollup : bool }.
(** a scope without party rollup *)
Definition Sc (id spec : Z) (owners da : list Z) : scope := ScR id spec owners da false.
Record session := Se { se_scope : Z; se_uuid : Z; se_spec : Z }.       (* se_spec: contract spec *)
Record record := Re { r_scope : Z; r_name : Z; r_sess : Z }.
Record sspec := Ss { ss_id : Z; ss_owners : list Z; ss_cspecs : list Z }.
Record cspec := Cs { cs_id : Z; cs_owners : list Z }.
Record rspec := Rs { rs_cspec : Z; rs_name : Z }.
Definition nav := (Z * Z * Z)%type.                                      (* scope, denom, price *)
Definition key := (Z * Z)%type.

Record state := St {
  scopes : list scope; sessions : list session; records : list record;
  sspecs : list sspec; cspecs : list cspec; rspecs : list rspec; navs : list nav;
  ix_as : list key; ix_ss : list key; ix_asp : list key; ix_cs : list key; ix_ac : list key;
  locs : list (Z * Z) }.                                      (* account -> uri *)

Definition init : state := St [] [] [] [] [] [] [] [] [] [] [] [] [].

Definition with_scopes s v := St v (sessions s) (records s) (sspecs s) (cspecs s) (rspecs s) (navs s) (ix_as s) (ix_ss s) (ix_asp s) (ix_cs s) (ix_ac s) (locs s).
Definition with_sessions s v := St (scopes s) v (records s) (sspecs s) (cspecs s) (rspecs s) (navs s) (ix_as s) (ix_ss s) (ix_asp s) (ix_cs s) (ix_ac s) (locs s).
Definition with_records s v := St (scopes s) (sessions s) v (sspecs s) (cspecs s) (rspecs s) (navs s) (ix_as s) (ix_ss s) (ix_asp s) (ix_cs s) (ix_ac s) (locs s).
Definition with_sspecs s v := St (scopes s) (sessions s) (records s) v (cspecs s) (rspecs s) (navs s) (ix_as s) (ix_ss s) (ix_asp s) (ix_cs s) (ix_ac s) (locs s).
Definition with_cspecs s v := St (scopes s) (sessions s) (records s) (sspecs s) v (rspecs s) (navs s) (ix_as s) (ix_ss s) (ix_asp s) (ix_cs s) (ix_ac s) (locs s).
Definition with_rspecs s v := St (scopes s) (sessions s) (records s) (sspecs s) (cspecs s) v (navs s) (ix_as s) (ix_ss s) (ix_asp s) (ix_cs s) (ix_ac s) (locs s).
Definition with_navs s v := St (scopes s) (sessions s) (records s) (sspecs s) (cspecs s) (rspecs s) v (ix_as s) (ix_ss s) (ix_asp s) (ix_cs s) (ix_ac s) (locs s).
Definition with_ix_scope s a b := St (scopes s) (sessions s) (records s) (sspecs s) (cspecs s) (rspecs s) (navs s) a b (ix_asp s) (ix_cs s) (ix_ac s) (locs s).
Definition with_ix_sspec s a b := St (scopes s) (sessions s) (records s) (sspecs s) (cspecs s) (rspecs s) (navs s) (ix_as s) (ix_ss s) a b (ix_ac s) (locs s).
Definition with_locs s v := St (scopes s) (sessions s) (records s) (sspecs s) (cspecs s) (rspecs s) (navs s) (ix_as s) (ix_ss s) (ix_asp s) (ix_cs s) (ix_ac s) v.
Definition with_ix_cspec s a := St (scopes s) (sessions s) (records s) (sspecs s) (cspecs s) (rspecs s) (navs s) (ix_as s) (ix_ss s) (ix_asp s) (ix_cs s) a (locs s).

(** *** Small list helpers *)
Definition memz (x : Z) (l : list Z) : bool := existsb (Z.eqb x) l.
Definition key_eqb (a b : key) : bool := (fst a =? fst b) && (snd a =? snd b).
Definition memk (k : key) (l : list key) : bool := existsb (key_eqb k) l.

(** store.Set / store.Delete of an index key (the index is a set of keys) *)
Definition idx_add (k : key) (ix : list key) : list key := if memk k ix then ix else k :: ix.
Definition idx_del (k : key) (ix : list key) : list key := filter (fun x => negb (key_eqb k x)) ix.
(** provutils.FindMissing / FindMissingMdAddr: entries of [req] not in [found] *)
Definition missing (req found : list key) : list key := filter (fun k => negb (memk k found)) req.

(** index*(new, old): Set every key of new that old does not have, then Delete every key of old
    that new does not have (new and old carry the same id at every call site). *)
Definition reindex (newk oldk ix : list key) : list key :=
  fold_left (fun ix k => idx_del k ix) (missing oldk newk)
    (fold_left (fun ix k => idx_add k ix) (missing newk oldk) ix).

(** index{Scope,Contract}Specification BEFORE fix 722f4df35 diffed the owner-address STRINGS
    (provutils.FindMissing on []string) and only afterwards decoded each string into an index key:
    Set the keys of the strings new has and old lacks, then Delete the keys of the strings old has
    and new lacks.  When an owner merely changed spelling the key was written and then deleted
    (finding C14-spec-owner-respelling, fixed).  Kept only for the refutation witness
    [set_sspec_strdiff] / [set_cspec_strdiff] below; the current code compares decoded addresses
    (FindMissingFunc with sameBech32Addr), i.e. [reindex] on the decoded keys, as indexScope does. *)
Definition missing_z (req found : list Z) : list Z := filter (fun e => negb (existsb (Z.eqb e) found)) req.
Definition reindex_str (key_of : Z -> key) (newe olde : list Z) (ix : list key) : list key :=
  fold_left (fun ix k => idx_del k ix) (map key_of (missing_z olde newe))
    (fold_left (fun ix k => idx_add k ix) (map key_of (missing_z newe olde)) ix).

(** *** Index values (getScopeIndexValues etc.) *)
(** An owner / data-access / spec-owner entry is a bech32 STRING; the same account has two legal
    spellings (lower and upper case, both accepted by sdk.AccAddressFromBech32 and ValidateBasic).
    Entry [a] (1 <= a < 100) is the lower-case spelling of account [a], entry [100 + a] its
    upper-case spelling; [acct] is the decoded address (the bytes that go into index keys). *)
Definition acct (e : Z) : Z := e mod 100.

Definition scope_keys_as (s : scope) : list key := map (fun a => (acct a, sc_id s)) (sc_da s ++ sc_owners s).
Definition scope_keys_ss (s : scope) : list key := [(sc_spec s, sc_id s)].
Definition sspec_keys_asp (s : sspec) : list key := map (fun a => (acct a, ss_id s)) (ss_owners s).
Definition sspec_keys_cs (s : sspec) : list key := map (fun c => (c, ss_id s)) (ss_cspecs s).
Definition cspec_keys_ac (s : cspec) : list key := map (fun a => (acct a, cs_id s)) (cs_owners s).

Definition okeys {A} (f : A -> list key) (o : option A) : list key :=
  match o with Some a => f a | None => [] end.

(** *** Lookups of primary entries *)
Definition find_scope st id := find (fun s => sc_id s =? id) (scopes st).
Definition find_session st su ss := find (fun s => (se_scope s =? su) && (se_uuid s =? ss)) (sessions st).
Definition find_record st su n := find (fun r => (r_scope r =? su) && (r_name r =? n)) (records st).
Definition find_sspec st id := find (fun s => ss_id s =? id) (sspecs st).
Definition find_cspec st id := find (fun s => cs_id s =? id) (cspecs st).
Definition find_rspec st cu n := find (fun r => (rs_cspec r =? cu) && (rs_name r =? n)) (rspecs st).
Definition isSome {A} (o : option A) : bool := match o with Some _ => true | None => false end.

(** *** Keeper functions *)
(** SetScope (no value owner) = writeScopeToState *)
Definition set_scope (st : state) (s : scope) : state :=
  let old := find_scope st (sc_id s) in
  let st := with_scopes st (s :: filter (fun x => negb (sc_id x =? sc_id s)) (scopes st)) in
  with_ix_scope st
    (reindex (scope_keys_as s) (okeys scope_keys_as old) (ix_as st))
    (reindex (scope_keys_ss s) (okeys scope_keys_ss old) (ix_ss st)).

Definition set_session (st : state) (s : session) : state :=
  with_sessions st
    (s :: filter (fun x => negb ((se_scope x =? se_scope s) && (se_uuid x =? se_uuid s))) (sessions st)).

(** sessionHasRecords: a record of the session's scope whose SessionId is this session *)
Definition session_has_records (st : state) (su ss : Z) : bool :=
  existsb (fun r => (r_scope r =? su) && (r_sess r =? ss)) (records st).

Definition remove_session (st : state) (su ss : Z) : state :=
  if negb (isSome (find_session st su ss)) || session_has_records st su ss then st
  else with_sessions st (filter (fun x => negb ((se_scope x =? su) && (se_uuid x =? ss))) (sessions st)).

Definition set_record (st : state) (r : record) : state :=
  with_records st
    (r :: filter (fun x => negb ((r_scope x =? r_scope r) && (r_name x =? r_name r))) (records st)).

(** RemoveRecord: delete it, then RemoveSession(record.SessionId) *)
Definition remove_record (st : state) (su n : Z) : state :=
  match find_record st su n with
  | None => st
  | Some r =>
      let st := with_records st (filter (fun x => negb ((r_scope x =? su) && (r_name x =? n))) (records st)) in
      remove_session st su (r_sess r)
  end.

(** RemoveScope: nothing when the scope does not exist; all records under the scope prefix are
    removed with RemoveRecord, then all sessions still under the scope prefix with RemoveSession,
    then the scope's index entries and the scope. *)
Definition remove_scope (st : state) (id : Z) : state :=
  match find_scope st id with
  | None => st
  | Some sc =>
      let st := fold_left (fun st r => remove_record st (r_scope r) (r_name r))
                  (filter (fun r => r_scope r =? id) (records st)) st in
      let st := fold_left (fun st s => remove_session st (se_scope s) (se_uuid s))
                  (filter (fun s => se_scope s =? id) (sessions st)) st in
      let st := with_ix_scope st (reindex [] (scope_keys_as sc) (ix_as st))
                                 (reindex [] (scope_keys_ss sc) (ix_ss st)) in
      with_scopes st (filter (fun x => negb (sc_id x =? id)) (scopes st))
  end.

Definition set_sspec (st : state) (s : sspec) : state :=
  let old := find_sspec st (ss_id s) in
  let st := with_sspecs st (s :: filter (fun x => negb (ss_id x =? ss_id s)) (sspecs st)) in
  with_ix_sspec st
    (reindex (sspec_keys_asp s) (okeys sspec_keys_asp old) (ix_asp st))
    (reindex (sspec_keys_cs s) (okeys sspec_keys_cs old) (ix_cs st)).

(** isScopeSpecUsed: the scope-spec -> scope lookup has an entry *)
Definition sspec_used (st : state) (id : Z) : bool := existsb (fun k => fst k =? id) (ix_ss st).

Definition remove_sspec (st : state) (id : Z) : option state :=
  if sspec_used st id then None else
  match find_sspec st id with
  | None => None
  | Some s =>
      let st := with_ix_sspec st (reindex [] (sspec_keys_asp s) (ix_asp st))
                                 (reindex [] (sspec_keys_cs s) (ix_cs st)) in
      Some (with_sspecs st (filter (fun x => negb (ss_id x =? id)) (sspecs st)))
  end.

Definition set_cspec (st : state) (s : cspec) : state :=
  let old := find_cspec st (cs_id s) in
  let st := with_cspecs st (s :: filter (fun x => negb (cs_id x =? cs_id s)) (cspecs st)) in
  with_ix_cspec st (reindex (cspec_keys_ac s) (okeys cspec_keys_ac old) (ix_ac st)).

(** isContractSpecUsed: the contract-spec -> scope-spec lookup has an entry (isRecordSpecUsed is
    constantly false) *)
Definition cspec_used (st : state) (id : Z) : bool := existsb (fun k => fst k =? id) (ix_cs st).

Definition remove_cspec (st : state) (id : Z) : option state :=
  if cspec_used st id then None else
  match find_cspec st id with
  | None => None
  | Some s =>
      let st := with_ix_cspec st (reindex [] (cspec_keys_ac s) (ix_ac st)) in
      Some (with_cspecs st (filter (fun x => negb (cs_id x =? id)) (cspecs st)))
  end.

(** The pre-fix (722f4df35) writers of the two specification kinds: owner strings diffed as
    strings.  Not used by [step]; only for the witness that this variant loses a re-spelled owner. *)
Definition set_sspec_strdiff (st : state) (s : sspec) : state :=
  let old := find_sspec st (ss_id s) in
  let st := with_sspecs st (s :: filter (fun x => negb (ss_id x =? ss_id s)) (sspecs st)) in
  with_ix_sspec st
    (reindex_str (fun a => (acct a, ss_id s)) (ss_owners s) (match old with Some o => ss_owners o | None => [] end) (ix_asp st))
    (reindex (sspec_keys_cs s) (okeys sspec_keys_cs old) (ix_cs st)).

Definition set_cspec_strdiff (st : state) (s : cspec) : state :=
  let old := find_cspec st (cs_id s) in
  let st := with_cspecs st (s :: filter (fun x => negb (cs_id x =? cs_id s)) (cspecs st)) in
  with_ix_cspec st (reindex_str (fun a => (acct a, cs_id s)) (cs_owners s) (match old with Some o => cs_owners o | None => [] end) (ix_ac st)).

Definition set_rspec (st : state) (r : rspec) : state :=
  with_rspecs st
    (r :: filter (fun x => negb ((rs_cspec x =? rs_cspec r) && (rs_name x =? rs_name r))) (rspecs st)).

Definition remove_rspec (st : state) (cu n : Z) : option state :=
  match find_rspec st cu n with
  | None => None
  | Some _ => Some (with_rspecs st (filter (fun x => negb ((rs_cspec x =? cu) && (rs_name x =? n))) (rspecs st)))
  end.

(** SetNetAssetValue: NetAssetValue.Validate rejects a negative price *)
Definition set_nav (st : state) (sc denom price : Z) : option state :=
  if price <? 0 then None else
  Some (with_navs st ((sc, denom, price) ::
          filter (fun x => negb ((fst (fst x) =? sc) && (snd (fst x) =? denom))) (navs st))).

Definition remove_navs (st : state) (sc : Z) : state :=
  with_navs st (filter (fun x => negb (fst (fst x) =? sc)) (navs st)).

(** *** Object store locators (objectstore.go): one entry per ACCOUNT (key 0x21 | account) *)
Definition find_loc (st : state) (a : Z) : option (Z * Z) := find (fun x => fst x =? a) (locs st).
(** SetOSLocator: checkValidURI, the account must exist in the auth module, not bound yet *)
Definition set_loc (st : state) (has_acct : bool) (a uri : Z) : option state :=
  if (uri =? 0) || negb has_acct || isSome (find_loc st a) then None
  else Some (with_locs st ((a, uri) :: locs st)).
Definition remove_loc (st : state) (a : Z) : option state :=
  if isSome (find_loc st a) then Some (with_locs st (filter (fun x => negb (fst x =? a)) (locs st)))
  else None.
Definition modify_loc (st : state) (a uri : Z) : option state :=
  if (uri =? 0) || negb (isSome (find_loc st a)) then None
  else Some (with_locs st ((a, uri) :: filter (fun x => negb (fst x =? a)) (locs st))).
(** GetOSLocatorByScope: the locators of the scope's owners, in owner order (an owner listed in
    both spellings contributes its locator twice); error when the scope does not exist *)
Definition locs_by_scope (st : state) (id : Z) : option (list (Z * Z)) :=
  match find_scope st id with
  | None => None
  | Some sc => Some (flat_map (fun e => match find_loc st (acct e) with Some l => [l] | None => [] end)
                              (sc_owners sc))
  end.

(** *** Owner / data-access list edits (types/scope.go) *)
Fixpoint nodupz (l : list Z) : bool :=
  match l with [] => true | x :: t => negb (memz x t) && nodupz t end.
(** ValidatePartiesBasic on parties that all carry the same role: at least one, no two with the
    same address STRING (the two spellings of one account are different parties) *)
Definition p_entry (p : Z) : Z := p mod 1000.          (* the address string *)
Definition p_same (p : Z) : Z := p mod 100000.         (* address string + role: Party.IsSameAs *)
Definition p_role (p : Z) : Z := (p / 1000) mod 100.
Definition p_opt (p : Z) : bool := 100000 <=? p.        (* Party.Optional *)
Definition owners_basic (l : list Z) : bool :=
  match l with [] => false | _ => nodupz (map p_same l) end.
(** ValidateOptionalParties: optional parties only on scopes with party rollup *)
Definition optional_ok (rollup : bool) (l : list Z) : bool := rollup || negb (existsb p_opt l).
(** validateRolesPresent against parties_involved = [OWNER] (every specification the harness
    writes): some party has the role OWNER *)
Definition roles_present (l : list Z) : bool := existsb (fun p => p_role p =? 0) l.
(** Scope.ValidateOwnersBasic + validateRolesPresent *)
Definition owners_ok (rollup : bool) (l : list Z) : bool :=
  owners_basic l && optional_ok rollup l && roles_present l.
(** Scope.RemoveOwners: drop every party whose ADDRESS is listed *)
Definition drop_addrs (l cur : list Z) : list Z := filter (fun p => negb (memz (p_entry p) l)) cur.
(** Scope.AddDataAccess: append every entry that is not there yet (also de-duplicates the request) *)
Definition add_each (l cur : list Z) : list Z :=
  fold_left (fun cur a => if memz a cur then cur else cur ++ [a]) l cur.
(** Scope.RemoveDataAccess / RemoveOwners: drop every entry equal (as a string) to a listed one *)
Definition drop_all (l cur : list Z) : list Z := filter (fun x => negb (memz x l)) cur.

(** *** Operations *)
Definition usd : Z := 0.  (* the interned "usd" denom *)

Inductive op :=
| KSetScope (s : scope) | KRemoveScope (id : Z)
| KSetSession (s : session) | KRemoveSession (su ss : Z)
| KSetRecord (r : record) | KRemoveRecord (su n : Z)
| KSetSSpec (s : sspec) | KRemoveSSpec (id : Z)
| KSetCSpec (s : cspec) | KRemoveCSpec (id : Z)
| KSetRSpec (r : rspec) | KRemoveRSpec (cu n : Z)
| KSetNav (sc denom price : Z) | KRemoveNavs (sc : Z)
| MWriteScope (s : scope) (usd_mills : Z)
| MDeleteScope (id : Z)
| MAddDataAccess (id : Z) (l : list Z) | MDelDataAccess (id : Z) (l : list Z)
| MAddOwners (id : Z) (l : list Z) | MDelOwners (id : Z) (l : list Z)
| MBindLoc (has_acct : bool) (a uri : Z) | MDelLoc (a : Z) | MModLoc (a uri : Z)
| MWriteSession (s : session)
| MWriteRecord (r : record)
| MDeleteRecord (su n : Z)
| MWriteSSpec (s : sspec) | MDeleteSSpec (id : Z)
| MWriteCSpec (s : cspec) | MDeleteCSpec (id : Z)
| MWriteRSpec (r : rspec) | MDeleteRSpec (cu n : Z)
| MAddCSpecToSSpec (c s : Z) | MDelCSpecFromSSpec (c s : Z)
| MAddNav (sc price : Z).

Definition ok (st : state) : state * bool := (st, true).
Definition of_opt (old : state) (o : option state) : state * bool :=
  match o with Some st => (st, true) | None => (old, false) end.

Definition step (st : state) (o : op) : state * bool :=
  match o with
  | KSetScope s => ok (set_scope st s)
  | KRemoveScope id => ok (remove_scope st id)
  | KSetSession s => ok (set_session st s)
  | KRemoveSession su ss => ok (remove_session st su ss)
  | KSetRecord r => ok (set_record st r)
  | KRemoveRecord su n => ok (remove_record st su n)
  | KSetSSpec s => ok (set_sspec st s)
  | KRemoveSSpec id => of_opt st (remove_sspec st id)
  | KSetCSpec s => ok (set_cspec st s)
  | KRemoveCSpec id => of_opt st (remove_cspec st id)
  | KSetRSpec r => ok (set_rspec st r)
  | KRemoveRSpec cu n => of_opt st (remove_rspec st cu n)
  | KSetNav sc d p => of_opt st (set_nav st sc d p)
  | KRemoveNavs sc => ok (remove_navs st sc)

  | MWriteScope s mills =>
      (* Scope.ValidateBasic: owners are ValidatePartiesBasic, optional parties only with party
         rollup; ValidateWriteScope: the scope specification must exist and its roles be present;
         msg.UsdMills > 0 sets a usd NAV *)
      if negb (owners_ok (sc_rollup s) (sc_owners s)) then (st, false) else
      if negb (isSome (find_sspec st (sc_spec s))) then (st, false) else
      let st1 := if 0 <? mills then set_nav st (sc_id s) usd mills else Some st in
      of_opt st (option_map (fun st1 => set_scope st1 s) st1)
  | MDeleteScope id =>
      if negb (isSome (find_scope st id)) then (st, false)
      else ok (remove_navs (remove_scope st id) id)
  | MAddDataAccess id l =>
      (* ValidateBasic: the list is not empty; ValidateAddScopeDataAccess: no requested entry is
         already there (compared as STRINGS); then GetScope -> AddDataAccess -> SetScope.  The
         scope specification is looked up only for scopes with party rollup. *)
      match l, find_scope st id with
      | [], _ | _, None => (st, false)
      | _, Some sc => if existsb (fun a => memz a (sc_da sc)) l
                         || (sc_rollup sc && negb (isSome (find_sspec st (sc_spec sc)))) then (st, false)
                      else ok (set_scope st (ScR (sc_id sc) (sc_spec sc) (sc_owners sc) (add_each l (sc_da sc)) (sc_rollup sc)))
      end
  | MDelDataAccess id l =>
      match l, find_scope st id with
      | [], _ | _, None => (st, false)
      | _, Some sc => if negb (forallb (fun a => memz a (sc_da sc)) l)
                         || (sc_rollup sc && negb (isSome (find_sspec st (sc_spec sc)))) then (st, false)
                      else ok (set_scope st (ScR (sc_id sc) (sc_spec sc) (sc_owners sc) (drop_all l (sc_da sc)) (sc_rollup sc)))
      end
  | MAddOwners id l =>
      (* ValidateBasic: ValidatePartiesBasic(msg.Owners); AddOwners: a new party that IsSameAs
         (address string and role) an existing one is an error, otherwise appended;
         ValidateUpdateScopeOwners: the resulting owners are ValidateOwnersBasic (optional parties
         only with party rollup), the scope specification must exist, its roles be present *)
      if negb (owners_basic l) then (st, false) else
      match find_scope st id with
      | None => (st, false)
      | Some sc =>
          let owners' := sc_owners sc ++ l in
          if existsb (fun a => memz (p_same a) (map p_same (sc_owners sc))) l
             || negb (owners_ok (sc_rollup sc) owners')
             || negb (isSome (find_sspec st (sc_spec sc))) then (st, false)
          else ok (set_scope st (ScR (sc_id sc) (sc_spec sc) owners' (sc_da sc) (sc_rollup sc)))
      end
  | MDelOwners id l =>
      (* ValidateBasic: at least one address; RemoveOwners: every address must be an owner's
         (as a STRING), all parties with a listed address go (whatever their role); the rest as
         for AddScopeOwner - in particular the last owner cannot be removed *)
      match l, find_scope st id with
      | [], _ | _, None => (st, false)
      | _, Some sc =>
          let owners' := drop_addrs l (sc_owners sc) in
          if negb (forallb (fun a => memz a (map p_entry (sc_owners sc))) l)
             || negb (owners_ok (sc_rollup sc) owners')
             || negb (isSome (find_sspec st (sc_spec sc))) then (st, false)
          else ok (set_scope st (ScR (sc_id sc) (sc_spec sc) owners' (sc_da sc) (sc_rollup sc)))
      end
  | MBindLoc has_acct a uri => of_opt st (set_loc st has_acct (acct a) uri)
  | MDelLoc a => of_opt st (remove_loc st (acct a))
  | MModLoc a uri => of_opt st (modify_loc st (acct a) uri)
  | MWriteSession s =>
      (* existing: the contract spec cannot change; scope, contract spec, the scope's scope spec
         must exist and the scope spec must list the contract spec *)
      let same_spec := match find_session st (se_scope s) (se_uuid s) with
                       | Some e => se_spec e =? se_spec s | None => true end in
      match find_scope st (se_scope s) with
      | None => (st, false)
      | Some sc =>
          match find_sspec st (sc_spec sc) with
          | None => (st, false)
          | Some sp =>
              if same_spec && isSome (find_cspec st (se_spec s)) && memz (se_spec s) (ss_cspecs sp)
              then ok (set_session st s) else (st, false)
          end
      end
  | MWriteRecord r =>
      (* scope, session and the record spec (session's contract spec, record name) must exist;
         a record that changes session: RemoveSession(old) after the write *)
      match find_scope st (r_scope r), find_session st (r_scope r) (r_sess r) with
      | Some _, Some se =>
          if isSome (find_rspec st (se_spec se) (r_name r)) then
            let old := find_record st (r_scope r) (r_name r) in
            let st1 := set_record st r in
            match old with
            | Some e => if r_sess e =? r_sess r then ok st1
                        else ok (remove_session st1 (r_scope r) (r_sess e))
            | None => ok st1
            end
          else (st, false)
      | _, _ => (st, false)
      end
  | MDeleteRecord su n =>
      if isSome (find_record st su n) then ok (remove_record st su n) else (st, false)
  | MWriteSSpec s =>
      (* ValidateWriteScopeSpecification: contract spec ids that the existing spec does not list
         must exist *)
      let have := match find_sspec st (ss_id s) with Some e => ss_cspecs e | None => [] end in
      if forallb (fun c => memz c have || isSome (find_cspec st c)) (ss_cspecs s)
      then ok (set_sspec st s) else (st, false)
  | MDeleteSSpec id =>
      if isSome (find_sspec st id) then of_opt st (remove_sspec st id) else (st, false)
  | MWriteCSpec s => ok (set_cspec st s)
  | MDeleteCSpec id =>
      (* all record specs of the contract spec are removed first; if the contract spec is still
         in use the whole message fails *)
      if isSome (find_cspec st id) then
        of_opt st (remove_cspec (with_rspecs st (filter (fun x => negb (rs_cspec x =? id)) (rspecs st))) id)
      else (st, false)
  | MWriteRSpec r =>
      if isSome (find_cspec st (rs_cspec r)) then ok (set_rspec st r) else (st, false)
  | MDeleteRSpec cu n =>
      if isSome (find_rspec st cu n) && isSome (find_cspec st cu)
      then of_opt st (remove_rspec st cu n) else (st, false)
  | MAddCSpecToSSpec c s =>
      match find_cspec st c, find_sspec st s with
      | Some _, Some sp =>
          if memz c (ss_cspecs sp) then (st, false)
          else ok (set_sspec st (Ss (ss_id sp) (ss_owners sp) (ss_cspecs sp ++ [c])))
      | _, _ => (st, false)
      end
  | MDelCSpecFromSSpec c s =>
      match find_sspec st s with
      | Some sp =>
          if memz c (ss_cspecs sp)
          then ok (set_sspec st (Ss (ss_id sp) (ss_owners sp) (filter (fun x => negb (x =? c)) (ss_cspecs sp))))
          else (st, false)
      | None => (st, false)
      end
  | MAddNav sc price =>
      if isSome (find_scope st sc) then of_opt st (set_nav st sc usd price) else (st, false)
  end.

Definition run (ops : list op) : state := fold_left (fun st o => fst (step st o)) ops init.

(** Operations that carry the referential guards (every message, and the keeper functions other
    than the two raw writers SetSession / SetRecord, which store whatever id they are given). *)
Definition guarded (o : op) : bool :=
  match o with KSetSession _ | KSetRecord _ => false | _ => true end.

(** Specification references.  The keeper writers SetScope / SetScopeSpecification /
    SetRecordSpecification store whatever specification ids they are given, and the keeper's
    RemoveContractSpecification leaves the contract specification's record specifications behind
    (the message handler removes them first); every message checks what it newly refers to. *)
Definition spec_guarded (o : op) : bool :=
  match o with KSetScope _ | KSetSSpec _ | KSetRSpec _ | KRemoveCSpec _ => false | _ => true end.

(** Removals of contract / record specifications: NOT blocked by the sessions / records that use
    them (isContractSpecUsed only looks at scope specifications - "TODO: Look for sessions";
    isRecordSpecUsed is the constant false - "TODO: Check for records"). *)
Definition removes_cr_spec (o : op) : bool :=
  match o with
  | KRemoveCSpec _ | MDeleteCSpec _ | KRemoveRSpec _ _ | MDeleteRSpec _ _ => true
  | _ => false
  end.
