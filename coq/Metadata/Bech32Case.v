(** Letter case of bech32 text (model; no proofs here).  BIP-173 allows a bech32 string to be
    spelled all in lower case or all in upper case; mixed case is invalid.  The decoder of
    Metadata/Bech32.v ([normalize], transcribed from cosmos/btcutil/bech32 Normalize) rejects mixed
    case and lower-cases everything else.  [upper] is strings.ToUpper on the printable ASCII a
    bech32 string consists of (the harness hands the upper-case spelling over as observed). *)
From Coq Require Import NArith List Bool.
From PV Require Import Metadata.Bech32.
Import ListNotations.
Open Scope N_scope.

Definition upper_char (c : N) : N := if is_lower c then c - 32 else c.
Definition upper (s : list N) : list N := map upper_char s.
Definition mixed_case (s : list N) : bool := existsb is_lower s && existsb is_upper s.
