(** The authz assumption of Metadata/Signers.v as theorems about Metadata/AuthzCount.v:
    - on a store of GENERIC authorizations, findAuthzGrantee (with whatever the per-message cache
      holds) never errors, returns exactly [find_grantee] of the relation of the grants LIVE at the
      block time, [mk_env m wasm (raw_of now st)], and leaves the store unchanged: lookups commute,
      can be repeated, and the accept / reject functions of Metadata/Signers.v, which only ever
      call [find_grantee] / [granted], see all there is to see;
    - with ONE count-limited authorization both fail: a lookup changes the store and the same
      message is accepted once and then rejected;
    - a message accepted through a grant had a grant that was live at its block time;
    - a CountAuthorization with n uses (no expiration) stands in for exactly n messages;
    - at the very second of its expiration a CountAuthorization with >= 2 uses makes the message
      FAIL (the re-save of the decremented grant is refused), one with 1 use or a generic one
      still works; afterwards nothing works. *)
From Coq Require Import ZArith List Bool Lia.
From PV Require Import Metadata.Signers Metadata.AuthzCount.
Import ListNotations.
Open Scope Z_scope.

Definition has (now : Z) (st : cstore) (granter grantee kind : Z) : bool :=
  existsb (cg_live_is now granter grantee kind) st.

(** every cached triple is backed by a stored live authorization *)
Definition cache_ok (now : Z) (st : cstore) (c : ccache) : Prop :=
  forall t, In t c -> has now st (snd (fst t)) (fst (fst t)) (snd t) = true.

Lemma cache_has_ok : forall now st c grantee granter k,
  cache_ok now st c -> cache_has c grantee granter k = true -> has now st granter grantee k = true.
Proof.
  intros now st c grantee granter k Hok H. unfold cache_has in H. apply existsb_exists in H as (t & Ht & He).
  apply andb_prop in He as [He H3]. apply andb_prop in He as [H1 H2].
  apply Z.eqb_eq in H1, H2, H3. subst. now apply Hok.
Qed.

Lemma find_has : forall now st granter grantee k,
  (match find (cg_live_is now granter grantee k) st with Some _ => true | None => false end)
  = has now st granter grantee k.
Proof.
  intros now st granter grantee k. unfold has. induction st as [|g t IH]; cbn; [reflexivity|].
  destruct (cg_live_is now granter grantee k g); auto.
Qed.

Lemma try_kinds_generic : forall now st c granter grantee kinds,
  all_generic st -> cache_ok now st c ->
  match try_kinds now st c granter grantee kinds with
  | LFound st' c' => st' = st /\ cache_ok now st c' /\ existsb (has now st granter grantee) kinds = true
  | LNone => existsb (has now st granter grantee) kinds = false
  | LErr => False
  end.
Proof.
  intros now st c granter grantee kinds Hg Hok; induction kinds as [|k rest IH]; cbn [try_kinds existsb].
  - reflexivity.
  - destruct (cache_has c grantee granter k) eqn:Hc.
    + split; [reflexivity|]. split; [exact Hok|]. now rewrite (cache_has_ok _ _ _ _ _ _ Hok Hc).
    + pose proof (find_has now st granter grantee k) as Hf.
      destruct (find (cg_live_is now granter grantee k) st) as [g|] eqn:Hfind.
      * assert (Hin : In g st) by (apply find_some in Hfind; tauto).
        unfold accept. rewrite (Hg g Hin).
        split; [reflexivity|]. rewrite <- Hf. split; [|reflexivity].
        intros t [<-|Ht]; [cbn; now rewrite <- Hf|now apply Hok].
      * rewrite <- Hf. cbn [orb]. exact IH.
Qed.

Lemma find_grantee_c_generic : forall now st c granter grantees kinds,
  all_generic st -> cache_ok now st c ->
  exists c',
    (match find (fun g => existsb (has now st granter g) kinds) grantees with
     | Some g => find_grantee_c now st c granter grantees kinds = RFound g st c'
     | None => find_grantee_c now st c granter grantees kinds = RNone st c'
     end) /\ cache_ok now st c'.
Proof.
  intros now st c granter grantees kinds Hg Hok; induction grantees as [|g rest IH]; cbn [find_grantee_c find].
  - exists c. auto.
  - pose proof (try_kinds_generic now st c granter g kinds Hg Hok) as HT.
    destruct (try_kinds now st c granter g kinds) as [|st' c'|].
    + rewrite HT. exact IH.
    + destruct HT as (-> & Hok' & ->). exists c'. auto.
    + destruct HT.
Qed.

Lemma granted_raw : forall now st m wasm granter grantee,
  granted (mk_env m wasm (raw_of now st)) granter grantee =
  existsb (has now st granter grantee) (authz_urls m).
Proof.
  intros now st m wasm granter grantee. apply eq_true_iff_eq.
  unfold granted, mk_env, raw_of. cbn [e_grants]. rewrite !existsb_exists. split.
  - intros ([a b] & Hin & He). cbn in He. apply andb_prop in He as [H1 H2]. apply Z.eqb_eq in H1, H2. subst.
    apply in_map_iff in Hin as ([[a' b'] k] & Heq & Hin). cbn in Heq. injection Heq as -> ->.
    apply filter_In in Hin as [Hin Hk]. cbn [snd] in Hk.
    apply in_map_iff in Hin as (g & Hg & Hgin). injection Hg as <- <- <-.
    apply filter_In in Hgin as [Hgin Hlive].
    unfold mem in Hk. apply existsb_exists in Hk as (k' & Hk' & He). apply Z.eqb_eq in He. subst k'.
    exists (cg_kind g). split; auto. unfold has. apply existsb_exists. exists g. split; auto.
    unfold cg_live_is, cg_is. now rewrite !Z.eqb_refl, Hlive.
  - intros (k & Hk & Hh). unfold has in Hh. apply existsb_exists in Hh as (g & Hg & Hc).
    unfold cg_live_is, cg_is in Hc. apply andb_prop in Hc as [Hc Hlive].
    apply andb_prop in Hc as [Hc H3]. apply andb_prop in Hc as [H1 H2].
    apply Z.eqb_eq in H1, H2, H3. subst.
    exists (cg_granter g, cg_grantee g). split; [|cbn; now rewrite !Z.eqb_refl].
    apply in_map_iff. exists (cg_granter g, cg_grantee g, cg_kind g). split; [reflexivity|].
    apply filter_In. split.
    + apply in_map_iff. exists g. split; auto. apply filter_In. auto.
    + cbn [snd]. unfold mem. apply existsb_exists. exists (cg_kind g). split; auto. apply Z.eqb_refl.
Qed.

Lemma find_ext : forall A (f g : A -> bool) l, (forall x, f x = g x) -> find f l = find g l.
Proof. intros A f g l H; induction l as [|x t IH]; cbn; [reflexivity|]. now rewrite H, IH. Qed.

(** THE ASSUMPTION: on generic authorizations the real lookup is the model's relation (of the
    grants live at the block time), read-only, and never errors. *)
Theorem generic_store_is_relation : forall now st c m wasm granter grantees,
  all_generic st -> cache_ok now st c ->
  exists c',
    (match find_grantee (mk_env m wasm (raw_of now st)) granter grantees with
     | Some g => find_grantee_c now st c granter grantees (authz_urls m) = RFound g st c'
     | None => find_grantee_c now st c granter grantees (authz_urls m) = RNone st c'
     end) /\ cache_ok now st c'.
Proof.
  intros now st c m wasm granter grantees Hg Hok.
  destruct (find_grantee_c_generic now st c granter grantees (authz_urls m) Hg Hok) as (c' & Heq & Hok').
  exists c'. split; [|exact Hok']. unfold find_grantee.
  rewrite (find_ext _ (granted (mk_env m wasm (raw_of now st)) granter)
                      (fun g => existsb (has now st granter g) (authz_urls m)) grantees); [exact Heq|].
  intros g. apply granted_raw.
Qed.

(** ... and it is needed: one count-limited authorization, the same lookup twice (each with the
    fresh cache of a new message): found and consumed, then gone. *)
Theorem counted_store_is_not_a_relation :
  exists st granter grantees m now,
    find_grantee_c now st [] granter grantees (authz_urls m) = RFound 2 [] [(2, 1, 1)] /\
    find_grantee_c now [] [] granter grantees (authz_urls m) = RNone [] [] /\
    find_grantee (mk_env m [] (raw_of now st)) granter grantees = Some 2.
Proof.
  exists [{| cg_granter := 1; cg_grantee := 2; cg_kind := 1; cg_left := Some 1; cg_exp := None |}], 1, [2], 1, 5.
  vm_compute. repeat split; reflexivity.
Qed.

(** Within ONE message the cache makes the second lookup of the same triple free. *)
Theorem counted_lookup_cached_within_message :
  exists st granter grantees m now c1,
    find_grantee_c now st [] granter grantees (authz_urls m) = RFound 2 [] c1 /\
    find_grantee_c now [] c1 granter grantees (authz_urls m) = RFound 2 [] c1.
Proof.
  exists [{| cg_granter := 1; cg_grantee := 2; cg_kind := 1; cg_left := Some 1; cg_exp := None |}], 1, [2], 1, 5,
         [(2, 1, 1)].
  vm_compute. repeat split; reflexivity.
Qed.

(** ** A message accepted through a grant had a grant that was live at its block time *)
Lemma try_kinds_found_live : forall now st granter grantee kinds st' c',
  try_kinds now st [] granter grantee kinds = LFound st' c' ->
  exists g k, In g st /\ In k kinds /\ cg_is granter grantee k g = true /\ live now g = true.
Proof.
  intros now st granter grantee kinds st' c'; induction kinds as [|k rest IH]; intros H; cbn [try_kinds] in H;
    [discriminate|]. cbn [cache_has existsb] in H.
  destruct (find (cg_live_is now granter grantee k) st) as [g|] eqn:Hf.
  - apply find_some in Hf as [Hin Hp]. apply andb_prop in Hp as [Hp1 Hp2].
    destruct (accept g) as [| | |g'].
    + destruct (IH H) as (g0 & k0 & H1 & H2 & H3 & H4). exists g0, k0.
      split; [exact H1|]. split; [now right|]. split; assumption.
    + exists g, k. split; [exact Hin|]. split; [now left|]. split; assumption.
    + exists g, k. split; [exact Hin|]. split; [now left|]. split; assumption.
    + exists g, k. split; [exact Hin|]. split; [now left|]. split; assumption.
  - destruct (IH H) as (g0 & k0 & H1 & H2 & H3 & H4). exists g0, k0.
    split; [exact H1|]. split; [now right|]. split; assumption.
Qed.

Theorem accepted_message_had_live_grant : forall now st granter signers m,
  fst (one_message now st granter signers m) = true ->
  In granter signers \/
  exists g s, In g st /\ In s signers /\ In (cg_kind g) (authz_urls m) /\
              cg_granter g = granter /\ cg_grantee g = s /\ live now g = true.
Proof.
  intros now st granter signers m H. unfold one_message in H.
  destruct (mem granter signers) eqn:Hm.
  - left. unfold mem in Hm. apply existsb_exists in Hm as (x & Hx & He). apply Z.eqb_eq in He. now subst.
  - right. clear Hm.
    assert (HG : forall grantees, (forall s, In s grantees -> In s signers) ->
              forall s st' c', find_grantee_c now st [] granter grantees (authz_urls m) = RFound s st' c' ->
              exists g s, In g st /\ In s signers /\ In (cg_kind g) (authz_urls m) /\
                          cg_granter g = granter /\ cg_grantee g = s /\ live now g = true).
    { induction grantees as [|x rest IH]; intros Hincl s st' c' HF; cbn [find_grantee_c] in HF; [discriminate|].
      destruct (try_kinds now st [] granter x (authz_urls m)) as [|st2 c2|] eqn:HT.
      - eapply IH; [|exact HF]. intros y Hy. apply Hincl. now right.
      - destruct (try_kinds_found_live _ _ _ _ _ _ _ HT) as (g & k & Hg & Hk & Hc & Hl).
        unfold cg_is in Hc. apply andb_prop in Hc as [Hc H3]. apply andb_prop in Hc as [H1 H2].
        apply Z.eqb_eq in H1, H2, H3. exists g, x. repeat split; auto.
        + apply Hincl. now left.
        + now rewrite H3.
      - discriminate. }
    destruct (find_grantee_c now st [] granter signers (authz_urls m)) as [st' c'|s st' c'|] eqn:HF;
      cbn in H; try discriminate.
    eapply HG; [|exact HF]. auto.
Qed.

(** ** A CountAuthorization with n uses (no expiration) stands in for exactly n messages *)
Definition st_n (a b m : Z) (n : nat) : cstore :=
  [{| cg_granter := a; cg_grantee := b; cg_kind := m; cg_left := Some (Z.of_nat n); cg_exp := None |}].

Lemma authz_urls_head : forall m, exists t, authz_urls m = m :: t.
Proof. intros m. unfold authz_urls. eauto. Qed.

Lemma one_message_empty : forall now a signers m, mem a signers = false ->
  one_message now [] a signers m = (false, []).
Proof.
  intros now a signers m Hm. unfold one_message. rewrite Hm.
  assert (H : forall kinds, find_grantee_c now [] [] a signers kinds = RNone [] []).
  { intros kinds. clear Hm. induction signers as [|s t IH]; cbn; [reflexivity|].
    assert (HT : try_kinds now [] [] a s kinds = LNone).
    { clear. induction kinds as [|k ks IHk]; [reflexivity|]. cbn [try_kinds cache_has existsb find]. exact IHk. }
    rewrite HT. apply IH. }
  now rewrite H.
Qed.

Lemma one_message_count : forall now a b m n, a <> b ->
  one_message now (st_n a b m n) a [b] m =
  match n with
  | O => (false, st_n a b m 0)
  | S O => (true, [])
  | S (S n') => (true, st_n a b m (S n'))
  end.
Proof.
  intros now a b m n Hne. unfold one_message.
  assert (Hm : mem a [b] = false).
  { unfold mem. cbn. rewrite orb_false_r. now apply Z.eqb_neq. }
  rewrite Hm. destruct (authz_urls_head m) as (t & ->).
  cbn [find_grantee_c try_kinds cache_has existsb st_n find].
  unfold cg_live_is at 1. unfold cg_is at 1, live at 1. cbn [cg_granter cg_grantee cg_kind cg_exp].
  rewrite !Z.eqb_refl. cbn [andb]. unfold accept. cbn [cg_left].
  destruct n as [|[|n']].
  - cbn [Z.of_nat Z.leb Z.compare]. cbn.
    assert (HT : forall kinds, try_kinds now (st_n a b m 0) [] a b kinds = LNone).
    { induction kinds as [|k ks IH]; cbn; [reflexivity|].
      destruct (cg_live_is now a b k _); [exact IH|exact IH]. }
    unfold st_n in HT. cbn in HT. now rewrite HT.
  - change (Z.of_nat 1) with 1. cbn [Z.leb Z.eqb Z.compare Pos.eqb st_update st_n].
    unfold cg_live_is, cg_is, live. cbn [cg_granter cg_grantee cg_kind cg_exp]. rewrite !Z.eqb_refl. reflexivity.
  - assert (H1 : Z.leb (Z.of_nat (S (S n'))) 0 = false) by (apply Z.leb_gt; lia).
    assert (H2 : Z.eqb (Z.of_nat (S (S n'))) 1 = false) by (apply Z.eqb_neq; lia).
    rewrite H1, H2. cbn [save_ok cg_exp]. unfold st_n. cbn [st_update].
    unfold cg_live_is, cg_is, live. cbn [cg_granter cg_grantee cg_kind cg_exp].
    rewrite !Z.eqb_refl. cbn [andb].
    replace (Z.of_nat (S (S n')) - 1) with (Z.of_nat (S n')) by lia. reflexivity.
Qed.

Lemma messages_cons : forall now times st a signers m,
  messages (now :: times) st a signers m =
  fst (one_message now st a signers m) :: messages times (snd (one_message now st a signers m)) a signers m.
Proof.
  intros. unfold messages. cbn [messages_obs]. destruct (one_message now st a signers m). reflexivity.
Qed.

Lemma messages_empty : forall times a signers m, mem a signers = false ->
  messages times [] a signers m = repeat false (length times).
Proof.
  induction times as [|now times IH]; intros a signers m Hm; [reflexivity|].
  rewrite messages_cons, (one_message_empty _ _ _ _ Hm). cbn [fst snd length repeat]. now rewrite IH.
Qed.

Theorem count_n_stands_for_n_messages : forall n times a b m, a <> b ->
  messages times (st_n a b m n) a [b] m =
  repeat true (Nat.min (length times) n) ++ repeat false (length times - n).
Proof.
  assert (Hm : forall a b, a <> b -> mem a [b] = false).
  { intros a b Hne. unfold mem. cbn. rewrite orb_false_r. now apply Z.eqb_neq. }
  induction n as [|n IH]; intros times a b m Hne.
  - rewrite Nat.min_0_r, Nat.sub_0_r. cbn [repeat app].
    induction times as [|now times IHk]; [reflexivity|].
    rewrite messages_cons, (one_message_count now a b m 0 Hne). cbn [fst snd length repeat]. now rewrite IHk.
  - destruct times as [|now times]; [reflexivity|].
    rewrite messages_cons, (one_message_count now a b m (S n) Hne). destruct n as [|n'].
    + cbn [fst snd]. rewrite (messages_empty _ _ _ _ (Hm a b Hne)). cbn [length Nat.min Nat.sub].
      destruct (length times); cbn; rewrite ?Nat.sub_0_r; reflexivity.
    + cbn [fst snd]. rewrite (IH times a b m Hne). reflexivity.
Qed.

(** ** Expirations.  Granter 1, grantee 2, expiration at second 10.  3 uses: before the expiration
    it works and the expiration stays; AT second 10 the message fails (two uses left: the re-save
    is refused) and nothing changes; after it nothing is found.  With 1 use left, or generic, the
    message AT second 10 still goes through.  The expiration reported for the key never changes. *)
Theorem expiration_behaviour :
  let g uses := {| cg_granter := 1; cg_grantee := 2; cg_kind := 1; cg_left := uses; cg_exp := Some 10 |} in
  messages_obs [g (Some 3)] [5; 10; 10; 11] [g (Some 3)] 1 [2] 1 =
    [(true, [10]); (false, [10]); (false, [10]); (false, [10])] /\
  messages_obs [g (Some 2)] [5; 10; 11] [g (Some 2)] 1 [2] 1 =
    [(true, [10]); (true, [-1]); (false, [-1])] /\
  messages_obs [g None] [5; 10; 11] [g None] 1 [2] 1 =
    [(true, [10]); (true, [10]); (false, [10])].
Proof. vm_compute. repeat split; reflexivity. Qed.
