(** The authz assumption of Metadata/Signers.v as theorems about Metadata/AuthzCount.v:
    - on a store of GENERIC authorizations, findAuthzGrantee (with whatever the per-message cache
      holds) returns exactly [find_grantee] of the erased relation [mk_env m wasm (raw_of st)] and
      leaves the store unchanged: lookups commute, can be repeated, and the accept / reject
      functions of Metadata/Signers.v, which only ever call [find_grantee] / [granted], see all
      there is to see;
    - with ONE count-limited authorization both fail: a lookup changes the store and the same
      message is accepted once and then rejected;
    - a CountAuthorization with n uses stands in for exactly n messages (what the harness
      compares the real keeper with in the count-limited evidence cases). *)
From Coq Require Import ZArith List Bool Lia.
From PV Require Import Metadata.Signers Metadata.AuthzCount.
Import ListNotations.
Open Scope Z_scope.

Definition has (st : cstore) (granter grantee kind : Z) : bool :=
  existsb (cg_is granter grantee kind) st.

(** every cached triple is backed by a stored authorization *)
Definition cache_ok (st : cstore) (c : ccache) : Prop :=
  forall t, In t c -> has st (snd (fst t)) (fst (fst t)) (snd t) = true.

Lemma cache_has_ok : forall st c grantee granter k,
  cache_ok st c -> cache_has c grantee granter k = true -> has st granter grantee k = true.
Proof.
  intros st c grantee granter k Hok H. unfold cache_has in H. apply existsb_exists in H as (t & Ht & He).
  apply andb_prop in He as [He H3]. apply andb_prop in He as [H1 H2].
  apply Z.eqb_eq in H1, H2, H3. subst. now apply Hok.
Qed.

Lemma find_has : forall st granter grantee k,
  (match find (cg_is granter grantee k) st with Some _ => true | None => false end)
  = has st granter grantee k.
Proof.
  intros st granter grantee k. unfold has. induction st as [|g t IH]; cbn; [reflexivity|].
  destruct (cg_is granter grantee k g); auto.
Qed.

Lemma st_update_same : forall st granter grantee k g,
  find (cg_is granter grantee k) st = Some g -> st_update st granter grantee k (Some g) = st.
Proof.
  induction st as [|x t IH]; intros granter grantee k g H; cbn in *; [discriminate|].
  destruct (cg_is granter grantee k x).
  - now injection H as ->.
  - now rewrite (IH _ _ _ _ H).
Qed.

Lemma try_kinds_generic : forall st c granter grantee kinds,
  all_generic st -> cache_ok st c ->
  match try_kinds st c granter grantee kinds with
  | Some (st', c') => st' = st /\ cache_ok st c' /\ existsb (has st granter grantee) kinds = true
  | None => existsb (has st granter grantee) kinds = false
  end.
Proof.
  intros st c granter grantee kinds Hg Hok; induction kinds as [|k rest IH]; cbn [try_kinds existsb].
  - reflexivity.
  - destruct (cache_has c grantee granter k) eqn:Hc.
    + split; [reflexivity|]. split; [exact Hok|]. now rewrite (cache_has_ok _ _ _ _ _ Hok Hc).
    + pose proof (find_has st granter grantee k) as Hf.
      destruct (find (cg_is granter grantee k) st) as [g|] eqn:Hfind.
      * assert (Hin : In g st) by (apply find_some in Hfind; tauto).
        unfold accept. rewrite (Hg g Hin). rewrite (st_update_same _ _ _ _ _ Hfind).
        split; [reflexivity|]. rewrite <- Hf. split; [|reflexivity].
        intros t [<-|Ht]; [cbn; now rewrite <- Hf|now apply Hok].
      * rewrite <- Hf. cbn [orb]. exact IH.
Qed.

Lemma find_grantee_c_generic : forall st c granter grantees kinds,
  all_generic st -> cache_ok st c ->
  exists c', find_grantee_c st c granter grantees kinds =
             (find (fun g => existsb (has st granter g) kinds) grantees, st, c') /\
             cache_ok st c'.
Proof.
  intros st c granter grantees kinds Hg Hok; induction grantees as [|g rest IH]; cbn [find_grantee_c find].
  - exists c. auto.
  - pose proof (try_kinds_generic st c granter g kinds Hg Hok) as HT.
    destruct (try_kinds st c granter g kinds) as [[st' c']|].
    + destruct HT as (-> & Hok' & ->). exists c'. auto.
    + rewrite HT. exact IH.
Qed.

Lemma granted_raw : forall st m wasm granter grantee,
  granted (mk_env m wasm (raw_of st)) granter grantee =
  existsb (has st granter grantee) (authz_urls m).
Proof.
  intros st m wasm granter grantee. apply eq_true_iff_eq.
  unfold granted, mk_env, raw_of. cbn [e_grants]. rewrite !existsb_exists. split.
  - intros ([a b] & Hin & He). cbn in He. apply andb_prop in He as [H1 H2]. apply Z.eqb_eq in H1, H2. subst.
    apply in_map_iff in Hin as ([[a' b'] k] & Heq & Hin). cbn in Heq. injection Heq as -> ->.
    apply filter_In in Hin as [Hin Hk]. cbn [snd] in Hk.
    apply in_map_iff in Hin as (g & Hg & Hgin). injection Hg as <- <- <-.
    unfold mem in Hk. apply existsb_exists in Hk as (k' & Hk' & He). apply Z.eqb_eq in He. subst k'.
    exists (cg_kind g). split; auto. unfold has. apply existsb_exists. exists g. split; auto.
    unfold cg_is. now rewrite !Z.eqb_refl.
  - intros (k & Hk & Hh). unfold has in Hh. apply existsb_exists in Hh as (g & Hg & Hc).
    unfold cg_is in Hc. apply andb_prop in Hc as [Hc H3]. apply andb_prop in Hc as [H1 H2].
    apply Z.eqb_eq in H1, H2, H3. subst.
    exists (cg_granter g, cg_grantee g). split; [|cbn; now rewrite !Z.eqb_refl].
    apply in_map_iff. exists (cg_granter g, cg_grantee g, cg_kind g). split; [reflexivity|].
    apply filter_In. split; [apply in_map_iff; exists g; auto|].
    cbn [snd]. unfold mem. apply existsb_exists. exists (cg_kind g). split; auto. apply Z.eqb_refl.
Qed.

Lemma find_ext : forall A (f g : A -> bool) l, (forall x, f x = g x) -> find f l = find g l.
Proof. intros A f g l H; induction l as [|x t IH]; cbn; [reflexivity|]. now rewrite H, IH. Qed.

(** THE ASSUMPTION: on generic authorizations the real lookup is the model's relation, read-only. *)
Theorem generic_store_is_relation : forall st c m wasm granter grantees,
  all_generic st -> cache_ok st c ->
  exists c', find_grantee_c st c granter grantees (authz_urls m) =
             (find_grantee (mk_env m wasm (raw_of st)) granter grantees, st, c') /\
             cache_ok st c'.
Proof.
  intros st c m wasm granter grantees Hg Hok.
  destruct (find_grantee_c_generic st c granter grantees (authz_urls m) Hg Hok) as (c' & Heq & Hok').
  exists c'. split; [|exact Hok']. rewrite Heq. unfold find_grantee.
  rewrite (find_ext _ _ (granted (mk_env m wasm (raw_of st)) granter) grantees); [reflexivity|].
  intros g. symmetry. apply granted_raw.
Qed.

(** ... and it is needed: one count-limited authorization, the same lookup twice (each with the
    fresh cache of a new message): found and consumed, then gone. *)
Theorem counted_store_is_not_a_relation :
  exists st granter grantees m,
    let '(r1, st1, _) := find_grantee_c st [] granter grantees (authz_urls m) in
    let '(r2, _, _) := find_grantee_c st1 [] granter grantees (authz_urls m) in
    r1 = Some 2 /\ st1 <> st /\ r2 = None /\
    find_grantee (mk_env m [] (raw_of st)) granter grantees = Some 2.
Proof.
  exists [{| cg_granter := 1; cg_grantee := 2; cg_kind := 1; cg_left := Some 1 |}], 1, [2], 1.
  vm_compute. repeat split; try reflexivity. discriminate.
Qed.

(** Within ONE message the cache makes the second lookup of the same triple free. *)
Theorem counted_lookup_cached_within_message :
  exists st granter grantees m,
    let '(r1, st1, c1) := find_grantee_c st [] granter grantees (authz_urls m) in
    let '(r2, st2, _) := find_grantee_c st1 c1 granter grantees (authz_urls m) in
    r1 = Some 2 /\ r2 = Some 2 /\ st2 = st1.
Proof.
  exists [{| cg_granter := 1; cg_grantee := 2; cg_kind := 1; cg_left := Some 1 |}], 1, [2], 1.
  vm_compute. repeat split; reflexivity.
Qed.

(** ** A CountAuthorization with n uses stands in for exactly n messages *)
Definition st_n (a b m : Z) (n : nat) : cstore :=
  [{| cg_granter := a; cg_grantee := b; cg_kind := m; cg_left := Some (Z.of_nat n) |}].

Lemma authz_urls_head : forall m, exists t, authz_urls m = m :: t.
Proof. intros m. unfold authz_urls. eauto. Qed.

Lemma one_message_empty : forall a signers m, mem a signers = false ->
  one_message [] a signers m = (false, []).
Proof.
  intros a signers m Hm. unfold one_message. rewrite Hm.
  assert (H : forall kinds, find_grantee_c [] [] a signers kinds = (None, [], [])).
  { intros kinds. induction signers as [|s t IH]; cbn; [reflexivity|].
    assert (HT : try_kinds [] [] a s kinds = None).
    { clear. induction kinds as [|k ks IHk]; [reflexivity|]. cbn [try_kinds cache_has existsb find]. exact IHk. }
    rewrite HT. apply IH. cbn in Hm. apply orb_false_elim in Hm. tauto. }
  now rewrite H.
Qed.

Lemma one_message_count : forall a b m n, a <> b ->
  one_message (st_n a b m n) a [b] m =
  match n with
  | O => (false, st_n a b m 0)
  | S O => (true, [])
  | S (S n') => (true, st_n a b m (S n'))
  end.
Proof.
  intros a b m n Hne. unfold one_message.
  assert (Hm : mem a [b] = false).
  { unfold mem. cbn. rewrite orb_false_r. now apply Z.eqb_neq. }
  rewrite Hm. destruct (authz_urls_head m) as (t & ->).
  cbn [find_grantee_c try_kinds cache_has existsb st_n find].
  unfold cg_is at 1. cbn [cg_granter cg_grantee cg_kind].
  rewrite !Z.eqb_refl. cbn [andb]. unfold accept. cbn [cg_left].
  destruct n as [|[|n']].
  - cbn [Z.of_nat Z.leb Z.compare]. cbn.
    (* count 0: Accept errors for every kind; the other kinds have no grant unless equal to m *)
    assert (HT : forall kinds, try_kinds (st_n a b m 0) [] a b kinds = None).
    { induction kinds as [|k ks IH]; cbn; [reflexivity|].
      destruct (cg_is a b k _); [exact IH|exact IH]. }
    unfold st_n in HT. cbn in HT. now rewrite HT.
  - change (Z.of_nat 1) with 1. cbn [Z.leb Z.eqb Z.compare Pos.eqb st_update st_n].
    unfold cg_is. cbn [cg_granter cg_grantee cg_kind]. rewrite !Z.eqb_refl. reflexivity.
  - assert (H1 : Z.leb (Z.of_nat (S (S n'))) 0 = false) by (apply Z.leb_gt; lia).
    assert (H2 : Z.eqb (Z.of_nat (S (S n'))) 1 = false) by (apply Z.eqb_neq; lia).
    rewrite H1, H2. unfold st_n. cbn [st_update]. unfold cg_is. cbn [cg_granter cg_grantee cg_kind].
    rewrite !Z.eqb_refl. cbn [andb].
    replace (Z.of_nat (S (S n')) - 1) with (Z.of_nat (S n')) by lia. reflexivity.
Qed.

Lemma messages_empty : forall k a signers m, mem a signers = false ->
  messages k [] a signers m = repeat false k.
Proof.
  induction k as [|k IH]; intros a signers m Hm; cbn [messages repeat]; [reflexivity|].
  rewrite (one_message_empty _ _ _ Hm). now rewrite IH.
Qed.

Theorem count_n_stands_for_n_messages : forall n k a b m, a <> b ->
  messages k (st_n a b m n) a [b] m = repeat true (Nat.min k n) ++ repeat false (k - n).
Proof.
  assert (Hm : forall a b, a <> b -> mem a [b] = false).
  { intros a b Hne. unfold mem. cbn. rewrite orb_false_r. now apply Z.eqb_neq. }
  induction n as [|n IH]; intros k a b m Hne.
  - rewrite Nat.min_0_r, Nat.sub_0_r. cbn [repeat app].
    induction k as [|k IHk]; cbn [messages repeat]; [reflexivity|].
    rewrite (one_message_count a b m 0 Hne). now rewrite IHk.
  - destruct k as [|k]; [reflexivity|]. cbn [messages].
    rewrite (one_message_count a b m (S n) Hne). destruct n as [|n'].
    + rewrite (messages_empty _ _ _ _ (Hm a b Hne)). cbn [Nat.min Nat.sub].
      destruct k; cbn; rewrite ?Nat.sub_0_r; reflexivity.
    + rewrite (IH k a b m Hne). reflexivity.
Qed.
