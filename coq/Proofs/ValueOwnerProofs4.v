(** Proofs about [PV.Metadata.ValueOwner] (property C09), part 4: the statements of the property,
    derived from [trans]: uniqueness, query = holder, consent, deposit, deletion burns, sanctioned
    owners, markers in every status, quarantine release, all-or-nothing bulk changes, histories,
    authz grants as state. *)
From Coq Require Import ZArith NArith List Bool Lia.
From PV Require Import Metadata.ValueOwner Proofs.ValueOwnerProofs Proofs.ValueOwnerProofs2 Proofs.ValueOwnerProofs3.
Import ListNotations.
Open Scope Z_scope.

Lemma option_eq_dec_addr (x y : option addr) : {x = y} + {x <> y}.
Proof. decide equality. apply N.eq_dec. Qed.

(** *** Token uniqueness *)
Lemma balance_inv s : Inv s -> forall d,
  (sup s d = 0 \/ sup s d = 1) /\
  (forall a, balance s a d = 0 \/ balance s a d = 1) /\
  (forall a b, balance s a d <> 0 -> balance s b d <> 0 -> a = b) /\
  (forall a, balance s a d <> 0 -> sup s d = 1 /\ scope_of s d <> None) /\
  (sup s d = 1 -> exists a, balance s a d = 1).
Proof.
  intros (HB & HT & _) d. unfold balance.
  destruct (HB d) as [(Hs & Ht)|(Hs & h & Ht)]; rewrite Ht, Hs.
  - split; [left; reflexivity|]. split; [intros a; left; reflexivity|].
    split; [intros a b Ha; contradiction Ha; reflexivity|].
    split; [intros a Ha; contradiction Ha; reflexivity|discriminate].
  - split; [right; reflexivity|].
    split; [intros a; rewrite bal_of_single; destruct (N.eqb h a); auto|].
    split.
    { intros a b. rewrite !bal_of_single. destruct (N.eqb_spec h a), (N.eqb_spec h b); congruence. }
    split.
    { intros a _. split; [reflexivity|]. apply HT. rewrite Ht. discriminate. }
    intros _. exists h. rewrite bal_of_single, N.eqb_refl. reflexivity.
Qed.

(** *** The reported value owner is the holder of the token *)
Lemma value_owner_inv s : Inv s -> forall d,
  match value_owner s d with
  | Some h => balance s h d = 1 /\ (forall a, a <> h -> balance s a d = 0) /\ sup s d = 1
  | None => (forall a, balance s a d = 0) /\ sup s d = 0
  end /\ denom_owner (tok s d) <> None.
Proof.
  intros (HB & _) d. unfold value_owner, balance.
  destruct (HB d) as [(Hs & Ht)|(Hs & h & Ht)]; rewrite Ht, Hs; cbn [denom_owner].
  - split; [|discriminate]. split; [intros a; reflexivity|reflexivity].
  - split; [|discriminate]. split; [rewrite bal_of_single, N.eqb_refl; reflexivity|].
    split; [|reflexivity]. intros a Ha. rewrite bal_of_single.
    destruct (N.eqb_spec h a); [congruence|reflexivity].
Qed.

(** *** What a holder change is *)
Lemma holder_none s d : BankInv s -> holder s d = None -> tok s d = [].
Proof.
  intros HB. unfold holder, value_owner.
  destruct (HB d) as [(_ & Ht)|(_ & x & Ht)]; rewrite Ht; cbn; [reflexivity|discriminate].
Qed.

(** A token that leaves its holder [h] was moved from [h] (to somebody else, or to the module
    account to be burnt). *)
Lemma leaves_moved s o s' d h :
  BankInv s -> trans s o s' -> holder s d = Some h -> holder s' d <> Some h ->
  mem h (sanctioned s) = false /\ exists to', moved s o d h to'.
Proof.
  intros HB HT Hh Hch. pose proof (holder_inv _ _ _ HB Hh) as Ht.
  destruct (HT d) as [(A & _)|[(f & t & A & B & C & D & E)|[(t & A & _)|(f & A & B & C & D & E & _)]]].
  - exfalso. apply Hch. rewrite <- Hh. apply holder_same. exact A.
  - rewrite Ht in A. injection A as <-. split; [exact D|]. exists t. exact E.
  - rewrite Ht in A. discriminate.
  - rewrite Ht in A. injection A as <-. split; [exact D|]. exists MODULE. exact E.
Qed.

(** A token that arrives at a new holder [n] was moved there or minted for it. *)
Lemma arrives_moved s o s' d n :
  BankInv s -> trans s o s' -> holder s' d = Some n -> holder s d <> Some n ->
  (exists f, moved s o d f n) \/ minted s o n.
Proof.
  intros HB HT Hn Hch.
  destruct (HT d) as [(A & _)|[(f & t & A & B & C & D & E)|[(t & A & B & _ & E)|(f & A & B & _)]]].
  - exfalso. apply Hch. rewrite <- Hn. symmetry. apply holder_same. exact A.
  - rewrite (holder_single _ _ _ B) in Hn. injection Hn as <-. left. exists f. exact E.
  - rewrite (holder_single _ _ _ B) in Hn. injection Hn as <-. right. exact E.
  - rewrite (holder_nil _ _ B) in Hn. discriminate.
Qed.

Lemma moved_consent s o d f to' : moved s o d f to' -> consent s o f.
Proof.
  intros [sg k to Hsg Hk Hne Hr Hc _|to amt -> _ _|outs to ds -> _ _ _ _|froms perm r -> -> _ _ _ _].
  - destruct Hc as [H|[H|(g & Hg & Hgr)]].
    + left. rewrite Hsg. eapply effective_signers_incl. exact H.
    + right. right. left. unfold is_marker in H. destruct (marker_of s f) as [m|] eqn:Em; [|discriminate].
      destruct (restrict_from _ _ _ _ _ Hr Em) as (g & Hg & Hw). exists m, g. split; [reflexivity|].
      split; [rewrite Hsg; eapply effective_signers_incl; exact Hg|exact Hw].
    + right. left. exists k, g. split; [exact Hk|]. split; [rewrite Hsg; eapply effective_signers_incl; exact Hg|exact Hgr].
  - left. left. reflexivity.
  - left. left. reflexivity.
  - right. right. right. split; reflexivity.
Qed.

Lemma qdest_cases s f to : qdest s f to = to \/ qdest s f to = QHOLD.
Proof. unfold qdest. destruct (quarantines s f to); auto. Qed.

Lemma moved_deposit s o d f n :
  marker_of s QHOLD = None -> moved s o d f n -> deposit_ok s o n.
Proof.
  intros HQ Hm m Hmk Hres.
  assert (Hnq : n <> QHOLD) by (intros ->; congruence).
  destruct Hm as [sg k to Hsg Hk Hne Hr Hc Hto|to amt -> Hr Hto|outs to ds -> _ _ Hr Hto|froms perm r -> -> _ _ _ Hr].
  - destruct (qdest_cases s f to) as [E|E]; rewrite E in Hto; [subst to|congruence].
    destruct (restrict_to _ _ _ _ _ Hr Hmk Hres) as [(Hnil & _)|(g & Hg & Hd)].
    + exfalso. apply (effective_signers_nonempty s sg Hne). exact Hnil.
    + left. exists g. split; [rewrite Hsg; eapply effective_signers_incl; exact Hg|exact Hd].
  - destruct (qdest_cases s f to) as [E|E]; rewrite E in Hto; [subst to|congruence].
    destruct (restrict_to _ _ _ _ _ Hr Hmk Hres) as [(_ & Hd)|(g & [] & _)].
    left. exists f. split; [left; reflexivity|exact Hd].
  - destruct (qdest_cases s f to) as [E|E]; rewrite E in Hto; [subst to|congruence].
    destruct (restrict_to _ _ _ _ _ Hr Hmk Hres) as [(_ & Hd)|(g & [] & _)].
    left. exists f. split; [left; reflexivity|exact Hd].
  - destruct (restrict_to _ _ _ _ _ Hr Hmk Hres) as [(_ & Hd)|(g & [] & _)].
    right. split; [reflexivity|exact Hd].
Qed.

Lemma minted_deposit s o n :
  marker_of s QHOLD = None -> minted s o n -> deposit_ok s o n.
Proof.
  intros HQ (sg & to & Hsg & Hne & Hr & Hto) m Hmk Hres.
  assert (Hnq : n <> QHOLD) by (intros ->; congruence).
  destruct (qdest_cases s MODULE to) as [E|E]; rewrite E in Hto; [subst to|congruence].
  destruct (restrict_to _ _ _ _ _ Hr Hmk Hres) as [(Hnil & _)|(g & Hg & Hd)].
  - exfalso. apply (effective_signers_nonempty s sg Hne). exact Hnil.
  - left. exists g. split; [rewrite Hsg; eapply effective_signers_incl; exact Hg|exact Hd].
Qed.

(** *** Consent and deposit, one step *)
Lemma run_op_consent s o d h :
  Inv s -> holder s d = Some h -> holder (run_op s o) d <> Some h -> consent s o h.
Proof.
  intros HI Hh Hch.
  destruct (leaves_moved s o _ d h (proj1 HI) (run_op_trans s o HI) Hh Hch) as (_ & to' & Hm).
  eapply moved_consent. exact Hm.
Qed.

Lemma run_op_deposit s o d n :
  Inv s -> holder (run_op s o) d = Some n -> holder s d <> Some n -> deposit_ok s o n.
Proof.
  intros HI Hn Hch. destruct HI as (HB & HT & HQ).
  destruct (arrives_moved s o _ d n HB (run_op_trans s o (conj HB (conj HT HQ))) Hn Hch) as [(f & Hm)|Hm].
  - eapply moved_deposit; eassumption.
  - eapply minted_deposit; eassumption.
Qed.

Lemma delete_burns s sg d :
  Inv s -> snd (step s (ODelete sg d)) = true ->
  let s' := run_op s (ODelete sg d) in
  sup s' d = 0 /\ (forall a, balance s' a d = 0) /\ scope_of s' d = None.
Proof.
  intros HI. unfold run_op, step. cbn [step_opt].
  destruct (step_delete s sg d) as [s'|] eqn:E; cbn [fst snd]; [|discriminate]. intros _.
  destruct (step_delete_spec _ _ _ _ HI E) as (_ & Hs & Ht & Hsc).
  split; [exact Hs|]. split; [|exact Hsc]. intros a. unfold balance. rewrite Ht. reflexivity.
Qed.

(** *** A sanctioned value owner keeps its tokens, whatever the operation *)
Lemma run_op_sanctioned s o d h :
  Inv s -> holder s d = Some h -> In h (sanctioned s) -> holder (run_op s o) d = Some h.
Proof.
  intros HI Hh Hs.
  destruct (option_eq_dec_addr (holder (run_op s o) d) (Some h)) as [E|Hch]; [exact E|].
  destruct (leaves_moved s o _ d h (proj1 HI) (run_op_trans s o HI) Hh Hch) as (Hns & _).
  apply mem_In in Hs. congruence.
Qed.

(** *** Markers, in every status: out needs withdraw access of a signer of a metadata message *)
Lemma moved_from_marker s o d f to' m :
  marker_of s QHOLD = None -> marker_of s f = Some m -> moved s o d f to' ->
  kind_of o <> None /\ exists g, In g (signers_of o) /\ In g (mk_withdraw m).
Proof.
  intros HQ Hmk [sg k to Hsg Hk Hne Hr _ _|to amt -> Hr _|outs to ds -> _ _ Hr _|froms perm r -> -> _ _ _ _].
  - split; [congruence|]. destruct (restrict_from _ _ _ _ _ Hr Hmk) as (g & Hg & Hw).
    exists g. split; [rewrite Hsg; eapply effective_signers_incl; exact Hg|exact Hw].
  - exfalso. destruct (restrict_from _ _ _ _ _ Hr Hmk) as (g & [] & _).
  - exfalso. destruct (restrict_from _ _ _ _ _ Hr Hmk) as (g & [] & _).
  - congruence.
Qed.

Lemma run_op_marker_out s o d h m :
  Inv s -> holder s d = Some h -> marker_of s h = Some m -> holder (run_op s o) d <> Some h ->
  kind_of o <> None /\ exists g, In g (signers_of o) /\ In g (mk_withdraw m).
Proof.
  intros HI Hh Hmk Hch.
  destruct (leaves_moved s o _ d h (proj1 HI) (run_op_trans s o HI) Hh Hch) as (_ & to' & Hm).
  eapply moved_from_marker; [apply HI|exact Hmk|exact Hm].
Qed.

(** *** Quarantine: the funds holder gives a token up only to the receiver it was addressed to *)
Lemma run_op_release s o d n :
  Inv s -> holder s d = Some QHOLD -> holder (run_op s o) d = Some n -> n <> QHOLD ->
  In QHOLD (signers_of o) \/
  (exists k g, kind_of o = Some k /\ In g (signers_of o) /\ has_grant s QHOLD g k = true) \/
  (exists froms perm r, o = OAccept n froms perm /\ In r (qrecs s) /\ accepted n froms r = true /\
                        In d (denoms (q_coins r))).
Proof.
  intros HI Hh Hn Hne. destruct HI as (HB & HT & HQ).
  pose proof (run_op_trans s o (conj HB (conj HT HQ))) as Htr.
  pose proof (holder_inv _ _ _ HB Hh) as Ht.
  destruct (Htr d) as [(A & _)|[(f & t & A & B & C & D & E)|[(t & A & _)|(f & A & B & _)]]].
  - exfalso. apply Hne. rewrite (holder_same _ _ _ A), Hh in Hn. congruence.
  - rewrite Ht in A. injection A as <-. rewrite (holder_single _ _ _ B) in Hn. injection Hn as ->.
    destruct E as [sg k to Hsg Hk Hnn Hr Hc _|to amt -> _ _|outs to ds -> _ _ _ _|froms perm r -> _ Hin Hacc Hd _].
    + destruct Hc as [H|[H|(g & Hg & Hgr)]].
      * left. rewrite Hsg. eapply effective_signers_incl. exact H.
      * unfold is_marker in H. rewrite HQ in H. discriminate.
      * right. left. exists k, g. split; [exact Hk|]. split; [rewrite Hsg; eapply effective_signers_incl; exact Hg|exact Hgr].
    + left. left. reflexivity.
    + left. left. reflexivity.
    + right. right. exists froms, perm, r. auto.
  - rewrite Ht in A. discriminate.
  - rewrite (holder_nil _ _ B) in Hn. discriminate.
Qed.

(** *** Bulk endpoints: all or nothing *)
Lemma rejected_unchanged s o : snd (step s o) = false -> run_op s o = s.
Proof. unfold run_op, step. destruct (step_opt s o); cbn; [discriminate|reflexivity]. Qed.

Lemma update_all s sg ds p :
  Inv s -> snd (step s (OUpdate sg ds p)) = true ->
  let s' := run_op s (OUpdate sg ds p) in
  (forall d, In d ds -> exists f, holder s d = Some f /\ f <> p /\ holder s' d = Some (qdest s f p)) /\
  (forall d, ~ In d ds -> holder s' d = holder s d).
Proof.
  intros HI. unfold run_op, step. cbn [step_opt].
  destruct (step_update s sg ds p) as [s'|] eqn:E; cbn [fst snd]; [|discriminate]. intros _.
  destruct (step_update_spec _ _ _ _ _ HI E) as (_ & Hmv & Hkeep). split.
  - intros d Hd. destruct (Hmv d Hd) as (f & A & B & C). exists f.
    split; [apply holder_single; exact A|]. split; [exact B|apply holder_single; exact C].
  - intros d Hd. apply holder_same. apply Hkeep. exact Hd.
Qed.

Lemma migrate_all s sg e p :
  Inv s -> snd (step s (OMigrate sg e p)) = true ->
  let s' := run_op s (OMigrate sg e p) in
  e <> p /\
  (forall d, holder s d = Some e -> holder s' d = Some (qdest s e p)) /\
  (forall d, holder s d <> Some e -> holder s' d = holder s d).
Proof.
  intros HI. unfold run_op, step. cbn [step_opt].
  destruct (step_migrate s sg e p) as [s'|] eqn:E; cbn [fst snd]; [|discriminate]. intros _.
  destruct (step_migrate_spec _ _ _ _ _ HI E) as (_ & Hne & Hmv & Hkeep). split; [exact Hne|]. split.
  - intros d Hd. apply holder_single. apply Hmv. apply holder_inv; [apply HI|exact Hd].
  - intros d Hd. apply holder_same. apply Hkeep. intros Ht. apply Hd. apply holder_single. exact Ht.
Qed.

(** *** Histories *)
Lemma history_consent ops : forall s, Inv s ->
  forall i o, nth_error ops i = Some o ->
  let si := run s (firstn i ops) in
  forall d h, holder si d = Some h -> holder (run_op si o) d <> Some h -> consent si o h.
Proof.
  intros s HI i o _ si d h. apply run_op_consent. apply run_inv. exact HI.
Qed.

(** *** Authz grants as state *)
Lemma has_grant_spec s x y k :
  has_grant s x y k = true <->
  exists g, lookup (grants s) x y k = Some g /\
            (match g_exp g with Some e => now s <= e | None => True end) /\
            (match g_left g with Some n => 0 < n | None => True end).
Proof.
  unfold has_grant, usable, live, expired. split.
  - destruct (lookup (grants s) x y k) as [g|]; [|discriminate]. intros H.
    apply andb_prop in H. destruct H as (H1 & H2). exists g. split; [reflexivity|]. split.
    + destruct (g_exp g) as [e|]; [|exact I]. apply negb_true_iff in H1. apply Z.ltb_ge in H1. exact H1.
    + destruct (g_left g) as [n|]; [|exact I]. apply Z.ltb_lt. exact H2.
  - intros (g & -> & H1 & H2). apply andb_true_intro. split.
    + destruct (g_exp g) as [e|]; [|reflexivity]. apply negb_true_iff. apply Z.ltb_ge. exact H1.
    + destruct (g_left g) as [n|]; [|reflexivity]. apply Z.ltb_lt. exact H2.
Qed.

(** After a revocation the grant gives no consent. *)
Lemma revoke_no_grant s x y k :
  has_grant (run_op s (ORevoke x y k)) x y k = false.
Proof.
  unfold run_op, step. cbn [step_opt]. destruct (lookup (grants s) x y k) as [g|] eqn:El; cbn [fst].
  - unfold has_grant, usable, lookup. cbn [grants with_grants now].
    destruct (find (g_is x y k) (filter (fun g0 => negb (g_is x y k g0)) (grants s))) as [g'|] eqn:Ef; [|reflexivity].
    apply find_some in Ef. destruct Ef as (Hin & Hk). apply filter_In in Hin. destruct Hin as (_ & Hn).
    rewrite Hk in Hn. discriminate.
  - unfold has_grant, usable. rewrite El. reflexivity.
Qed.

(** Once the block time has passed its expiration a grant gives no consent. *)
Lemma expired_no_grant s x y k g e :
  lookup (grants s) x y k = Some g -> g_exp g = Some e -> e < now s -> has_grant s x y k = false.
Proof.
  intros Hl He Hlt. unfold has_grant, usable, live, expired. rewrite Hl, He.
  assert (H : (e <? now s) = true) by (apply Z.ltb_lt; exact Hlt). rewrite H. reflexivity.
Qed.

(** A count authorization without uses left gives no consent. *)
Lemma used_up_no_grant s x y k g n :
  lookup (grants s) x y k = Some g -> g_left g = Some n -> n <= 0 -> has_grant s x y k = false.
Proof.
  intros Hl He Hle. unfold has_grant, usable, live. rewrite Hl, He.
  assert (H : (0 <? n) = false) by (apply Z.ltb_ge; exact Hle). rewrite H. apply andb_false_r.
Qed.

(** *** Whatever the parties sign: without the holder's own consent the token stays *)
Lemma run_op_no_consent_stays s o d h :
  Inv s -> holder s d = Some h -> ~ In h (signers_of o) ->
  (forall k g, kind_of o = Some k -> In g (signers_of o) -> has_grant s h g k = false) ->
  (forall m, marker_of s h = Some m -> forall g, In g (signers_of o) -> ~ In g (mk_withdraw m)) ->
  (h = QHOLD -> is_accept o = false) ->
  holder (run_op s o) d = Some h.
Proof.
  intros HI Hh Hns Hng Hnm Hnq.
  destruct (option_eq_dec_addr (holder (run_op s o) d) (Some h)) as [E|Hch]; [exact E|]. exfalso.
  destruct (run_op_consent s o d h HI Hh Hch) as [H|[(k & g & Hk & Hg & Hgr)|[(m & g & Hm & Hg & Hw)|(Hq & Ha)]]].
  - contradiction.
  - rewrite (Hng k g Hk Hg) in Hgr. discriminate.
  - exact (Hnm m Hm g Hg Hw).
  - rewrite (Hnq Hq) in Ha. discriminate.
Qed.
