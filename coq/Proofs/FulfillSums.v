(** C01: what an accepted BuildSettlement adds up to.

    [build_shape]: the final fulfillments behind an accepted [build] and everything known about
    them.  From it:
      [build_sums]       sum of price applied over the asks = sum of the bids' prices, and sum of
                         assets filled over the asks = sum over the bids;
      [build_transfers]  the net effect of all built transfers on any address and denom is the
                         sum of what the reported filled orders say (seller: -assets filled
                         +price applied; buyer: +assets -price), and the fee inputs charge every
                         owner exactly the fees reported for its orders. *)
From Coq Require Import ZArith List Bool Lia ZifyBool PArith.
From PV Require Import Exchange.Arith Exchange.Split Exchange.Fulfill Exchange.SettleSpec
  Proofs.ArithProofs Proofs.SplitProofs Proofs.FulfillProofs Proofs.FulfillSteps Proofs.FulfillShape.
Import ListNotations.
Open Scope Z_scope.

Lemma Forall_map_eq {T} (p : ofl -> T) (P : T -> Prop) l l' :
  map p l = map p l' -> Forall (fun f => P (p f)) l' -> Forall (fun f => P (p f)) l.
Proof. intros H HF. rewrite <- Forall_map in *. rewrite H. assumption. Qed.

(** ** Phase 1: allocateAssets on fresh fulfillments *)
Definition zero_price (l : list ofl) : Prop :=
  sumz f_papplied l = 0 /\ (forall x, sumz (owned_by x f_papplied) l = 0) /\
  (forall x, sumz (fun a => dsum (f_pdists a) x) l = 0).

Definition fresh_price_t (t : order * list (addr * Z) * Z * Z * coins) : Prop :=
  let '(_, pd, pa, _, _) := t in pa = 0 /\ pd = [].

Lemma fresh_zero l : Forall (fun f => fresh_price_t (aproj f)) l -> zero_price l.
Proof.
  intros H. rewrite Forall_forall in H. unfold zero_price. repeat split; intros; apply sumz_zero; intros f Hf;
    destruct (H f Hf) as [E1 E2]; unfold owned_by; rewrite ?E1, ?E2; try reflexivity.
  destruct (Pos.eqb x (f_owner f)); reflexivity.
Qed.

Lemma new_ofl_sums l :
  sumz f_afilled (map new_ofl l) = 0 /\
  (forall x, sumz (owned_by x f_afilled) (map new_ofl l) = 0) /\
  (forall x, sumz (fun a => dsum (f_adists a) x) (map new_ofl l) = 0).
Proof.
  repeat split; intros; apply sumz_zero; intros f Hf; apply in_map_iff in Hf as (o & <- & _); cbn; try reflexivity.
  unfold owned_by. destruct (Pos.eqb x _); reflexivity.
Qed.

Lemma phase1 asks bids a1 b1 :
  allocate_assets (map new_ofl asks) (map new_ofl bids) = Ok (a1, b1) ->
  map f_order a1 = asks /\ map f_order b1 = bids /\
  sumz f_afilled a1 = sumz f_afilled b1 /\
  (forall x, sumz (fun a => dsum (f_adists a) x) a1 = sumz (owned_by x f_afilled) b1) /\
  zero_price a1 /\ zero_price b1.
Proof.
  intros H. apply allocate_assets_steps, assets_steps_inv in H. destruct H as (P1 & P2 & S1 & S2 & _).
  destruct (new_ofl_sums asks) as (Za1 & Za2 & Za3). destruct (new_ofl_sums bids) as (Zb1 & Zb2 & Zb3).
  assert (Hord : forall l l', map aproj l' = map aproj (map new_ofl l) -> map f_order l' = l).
  { intros l l' E.
    rewrite (map_coarser aproj f_order (fun '(o, _, _, _, _) => o) (fun f => eq_refl) _ _ E).
    rewrite map_map. cbn. apply map_id. }
  assert (Hfresh : forall l l', map aproj l' = map aproj (map new_ofl l) -> zero_price l').
  { intros l l' E. apply fresh_zero. apply (Forall_map_eq aproj fresh_price_t _ _ E).
    apply Forall_forall. intros f Hf. apply in_map_iff in Hf as (o & <- & _). cbn. split; reflexivity. }
  split; [apply Hord, P1|]. split; [apply Hord, P2|]. split; [lia|]. split.
  - intros x. specialize (S2 x). rewrite Za3, Zb2 in S2. lia.
  - split; [apply (Hfresh _ _ P1)|apply (Hfresh _ _ P2)].
Qed.

(** ** Phase 2: splitPartial *)
Lemma splitted_aq f fil unf :
  split (f_order f) (f_afilled f) = Ok (fil, unf) ->
  aq (splitted f fil) = aq f /\ pq (splitted f fil) = pq f /\ o_assets fil = f_afilled f.
Proof.
  intros H. destruct (split_sound _ _ _ _ H) as (_ & _ & (_ & _ & Ho & _) & _ & Ha & _).
  unfold aq, pq, f_owner. cbn. rewrite Ho. repeat split. exact Ha.
Qed.

Lemma phase2 a1 b1 a2 b2 lft :
  split_partial a1 b1 = Ok (a2, b2, lft) ->
  oshape (map f_order a1) (map f_order b1) (map f_order a2) (map f_order b2) lft /\
  map aq a2 = map aq a1 /\ map aq b2 = map aq b1 /\ map pq a2 = map pq a1 /\ map pq b2 = map pq b1.
Proof.
  intros H. apply split_partial_full in H. destruct lft as [unf|].
  - destruct H as (pre & f & fil & Hs & [(-> & -> & ->)|(-> & -> & ->)]);
      destruct (splitted_aq _ _ _ Hs) as (E1 & E2 & E3); rewrite !map_app; cbn [map]; rewrite E1, E2;
      (split; [|repeat split]).
    + eapply os_ask; [reflexivity|]. cbn [splitted f_order]. rewrite E3. exact Hs.
    + eapply os_bid; [reflexivity|]. cbn [splitted f_order]. rewrite E3. exact Hs.
  - destruct H as [-> ->]. split; [constructor|repeat split].
Qed.

Lemma oshape_sides asks bids oa ob lft AD PD :
  oshape asks bids oa ob lft ->
  Forall (side_ok true AD PD) asks -> Forall (side_ok false AD PD) bids ->
  Forall (side_ok true AD PD) oa /\ Forall (side_ok false AD PD) ob.
Proof.
  assert (Hst : forall t o k fil unf, split o k = Ok (fil, unf) -> side_ok t AD PD o -> side_ok t AD PD fil).
  { intros t o k fil unf Hs (E1 & E2 & E3).
    destruct (split_sound _ _ _ _ Hs) as (_ & _ & (_ & S1 & _ & S2 & S3 & _) & _).
    unfold side_ok. rewrite S1, S2, S3. repeat split; assumption. }
  intros H Ha Hb. destruct H as [|pre o fil unf -> Hs|pre o fil unf -> Hs]; [split; assumption| |].
  - split; [|assumption]. apply Forall_app in Ha as [Ha1 Ha2]. apply Forall_app; split; [assumption|].
    constructor; [|constructor]. apply (Hst _ _ _ _ _ Hs (Forall_inv Ha2)).
  - split; [assumption|]. apply Forall_app in Hb as [Hb1 Hb2]. apply Forall_app; split; [assumption|].
    constructor; [|constructor]. apply (Hst _ _ _ _ _ Hs (Forall_inv Hb2)).
Qed.

Lemma oshape_ids asks bids oa ob lft :
  oshape asks bids oa ob lft -> map o_id oa = map o_id asks /\ map o_id ob = map o_id bids.
Proof.
  intros H. destruct H as [|pre o fil unf -> Hs|pre o fil unf -> Hs]; [split; reflexivity| |];
    destruct (split_sound _ _ _ _ Hs) as (_ & _ & (S0 & _) & _); rewrite !map_app; cbn [map]; rewrite S0;
    split; reflexivity.
Qed.

(** ** The final fulfillments of an accepted build *)
Record built (asks bids : list order) (r : option ratio) (s : settlement) (A B : list ofl)
    (AD PD : denom) : Prop := {
  b_sideA : Forall (fun f => side_ok true AD PD (f_order f)) A;
  b_sideB : Forall (fun f => side_ok false AD PD (f_order f)) B;
  b_shape : oshape asks bids (map f_order A) (map f_order B) (s_left s);
  b_validA : Forall (fun f => o_assets (f_order f) = f_afilled f /\ o_price (f_order f) <= f_papplied f) A;
  b_validB : Forall (fun f => o_assets (f_order f) = f_afilled f /\ o_price (f_order f) = f_papplied f) B;
  b_feesA : Forall (fun f => match r with
                             | None => f_fees f = o_fees (f_order f)
                             | Some rt => exists amt,
                                 ratio_fee rt (o_pd (f_order f)) (f_papplied f) = Ok (r_fd rt, amt) /\
                                 f_fees f = coins_add1 (o_fees (f_order f)) (r_fd rt) amt
                             end) A;
  b_feesB : Forall (fun f => f_fees f = o_fees (f_order f)) B;
  b_sum_assets : sumz f_afilled A = sumz f_afilled B;
  b_sum_price : sumz f_papplied A = sumz f_papplied B;
  b_adists : forall x, sumz (fun a => dsum (f_adists a) x) A = sumz (owned_by x f_afilled) B;
  b_pdists : forall x, sumz (fun b => dsum (f_pdists b) x) B = sumz (owned_by x f_papplied) A;
  b_record : exists ts1 fees1 ts2,
      record_all get_asset_transfer A [] = Ok (ts1, fees1) /\
      record_all get_price_transfer B fees1 = Ok (ts2, s_fee_inputs s) /\
      s_transfers s = ts1 ++ ts2;
  b_fee_pos : idx_pos (s_fee_inputs s);
  b_filled : populate (A ++ B) (s_left s) [] None = (s_full s, s_partial s)
}.

Definition q_aq := fun t : order * list (addr * Z) * list (addr * Z) * Z * Z * Z * Z =>
  let '(o, ad, _, af, _, _, _) := t in (o_owner o, ad, af).
Definition q_pq := fun t : order * list (addr * Z) * list (addr * Z) * Z * Z * Z * Z =>
  let '(o, _, pd, _, _, pa, _) := t in (o_owner o, pd, pa).
Definition q_ord := fun t : order * list (addr * Z) * list (addr * Z) * Z * Z * Z * Z =>
  let '(o, _, _, _, _, _, _) := t in o.

Lemma nofee_coarser l l' : map nofee l = map nofee l' ->
  map aq l = map aq l' /\ map pq l = map pq l' /\ map f_order l = map f_order l'.
Proof.
  intros H. split; [|split].
  - apply (map_coarser nofee aq q_aq (fun f => eq_refl) _ _ H).
  - apply (map_coarser nofee pq q_pq (fun f => eq_refl) _ _ H).
  - apply (map_coarser nofee f_order q_ord (fun f => eq_refl) _ _ H).
Qed.

Lemma pproj_coarser l l' : map pproj l = map pproj l' ->
  map aq l = map aq l' /\ map f_order l = map f_order l'.
Proof.
  intros H. split.
  - apply (map_coarser pproj aq (fun '(o, ad, af, _, _) => (o_owner o, ad, af)) (fun f => eq_refl) _ _ H).
  - apply (map_coarser pproj f_order (fun '(o, _, _, _, _) => o) (fun f => eq_refl) _ _ H).
Qed.

Lemma build_shape asks bids lk s :
  build asks bids lk = Ok s ->
  exists r A B AD PD, lk = Ok r /\ built asks bids r s A B AD PD.
Proof.
  unfold build. intros H.
  destruct (validate_can_settle asks bids) eqn:Hvcs; cbn [negb] in H; [|discriminate].
  destruct (validate_can_settle_sides _ _ Hvcs) as (AD & PD & HsA & HsB).
  inv_bind H. destruct x as [a1 b1]. inv_bind H. destruct x as [[a2 b2] lft].
  inv_bind H. destruct x as [a3 b3]. inv_bind H. rename x into r. inv_bind H. rename x into a4.
  set (b4 := set_bid_fees b3) in *.
  destruct (forallb validate_ofl a4 && forallb validate_ofl b4) eqn:Hval; cbn [negb] in H; [|discriminate].
  apply andb_prop in Hval as [Hva Hvb].
  inv_bind H. destruct x as [ts1 fees1]. inv_bind H. destruct x as [ts2 fees2]. inv_bind H. rename x into fi.
  destruct (populate a4 lft [] None) as [full1 part1] eqn:Hp1.
  destruct (populate b4 lft full1 part1) as [full2 part2] eqn:Hp2.
  inversion H; subst s; clear H.
  (* phases *)
  destruct (phase1 _ _ _ _ Hx) as (O1a & O1b & S1 & S2 & Za1 & Zb1).
  destruct (phase2 _ _ _ _ _ Hx0) as (Osh & Qa2 & Qb2 & Pa2 & Pb2). rewrite O1a, O1b in Osh.
  apply allocate_price_steps, price_steps_inv in Hx1. destruct Hx1 as (Pp3a & Pp3b & S3 & S4 & _).
  destruct (pproj_coarser _ _ Pp3a) as (Qa3 & Oa3). destruct (pproj_coarser _ _ Pp3b) as (Qb3 & Ob3).
  pose proof (set_ask_fees_spec _ _ _ Hx3) as Hfa.
  destruct (nofee_coarser _ _ (ask_fee_ok_nofee _ _ _ Hfa)) as (Qa4 & Pa4 & Oa4).
  destruct (nofee_coarser _ _ (set_bid_fees_nofee b3)) as (Qb4 & Pb4 & Ob4). fold b4 in Qb4, Pb4, Ob4.
  (* orders of the final fulfillments *)
  assert (OA : map f_order a4 = map f_order a2) by (rewrite Oa4, Oa3; reflexivity).
  assert (OB : map f_order b4 = map f_order b2) by (rewrite Ob4, Ob3; reflexivity).
  rewrite <- OA, <- OB in Osh.
  destruct (oshape_sides _ _ _ _ _ _ _ Osh HsA HsB) as [SdA SdB].
  rewrite Forall_map in SdA, SdB.
  (* sums *)
  destruct (aq_sums _ _ Qa2) as (A21 & A22 & A23). destruct (aq_sums _ _ Qb2) as (B21 & B22 & B23).
  destruct (aq_sums _ _ Qa3) as (A31 & A32 & A33). destruct (aq_sums _ _ Qb3) as (B31 & B32 & B33).
  destruct (aq_sums _ _ Qa4) as (A41 & A42 & A43). destruct (aq_sums _ _ Qb4) as (B41 & B42 & B43).
  destruct (pq_sums _ _ Pa2) as (PA21 & PA22 & PA23). destruct (pq_sums _ _ Pb2) as (PB21 & PB22 & PB23).
  destruct (pq_sums _ _ Pa4) as (PA41 & PA42 & PA43). destruct (pq_sums _ _ Pb4) as (PB41 & PB42 & PB43).
  destruct Za1 as (Za11 & Za12 & Za13). destruct Zb1 as (Zb11 & Zb12 & Zb13).
  exists r, a4, b4, AD, PD. split; [assumption|].
  rewrite forallb_forall in Hva, Hvb.
  constructor; cbn [s_left s_transfers s_fee_inputs s_full s_partial].
  - exact SdA.
  - exact SdB.
  - exact Osh.
  - apply Forall_forall. intros f Hf. specialize (Hva f Hf). rewrite Forall_forall in SdA.
    destruct (SdA f Hf) as (Ek & _). unfold validate_ofl in Hva. rewrite Ek in Hva. lia.
  - apply Forall_forall. intros f Hf. specialize (Hvb f Hf). rewrite Forall_forall in SdB.
    destruct (SdB f Hf) as (Ek & _). unfold validate_ofl in Hvb. rewrite Ek in Hvb. lia.
  - clear - Hfa. induction Hfa as [|a a' l l' Hh _ IH]; constructor; [|exact IH].
    destruct r as [rt|]; cbn [ask_fee_ok] in Hh; [destruct Hh as (amt & Hr & ->); exists amt; split; [exact Hr|reflexivity]|subst a'; reflexivity].
  - apply Forall_forall. intros f Hf. unfold b4, set_bid_fees in Hf. apply in_map_iff in Hf as (b & <- & _). reflexivity.
  - rewrite A41, A31, A21, B41, B31, B21. exact S1.
  - rewrite PA41, PB41. lia.
  - intros x. rewrite A43, A33, A23, B42, B32, B22. apply S2.
  - intros x. specialize (S4 x). rewrite PB43, PA42. rewrite PA22, PB23, Za12, Zb13 in S4. lia.
  - exists ts1, fees1, ts2. split; [assumption|]. split; [|reflexivity].
    destruct fees2; [inversion Hx6; subst; exact Hx5|apply idx_get_ok in Hx6; subst; exact Hx5].
  - destruct fees2; [inversion Hx6; subst; constructor|apply (idx_get_pos _ _ Hx6)].
  - rewrite populate_app, Hp1. exact Hp2.
Qed.

(** ** The reported filled orders are exactly the final fulfillments *)
Definition fills_of (s : settlement) : list filled := s_full s ++ opt_list (s_partial s).

(** How the reported orders relate to the input orders (distinct order ids). *)
Definition reported_shape (asks bids : list order) (s : settlement) : Prop :=
  match s_left s with
  | None => s_partial s = None /\ map fo_order (s_full s) = asks ++ bids
  | Some unf =>
      exists pre o p, s_partial s = Some p /\
        split o (o_assets (fo_order p)) = Ok (fo_order p, unf) /\
        ((asks = pre ++ [o] /\ map fo_order (s_full s) = pre ++ bids) \/
         (bids = pre ++ [o] /\ map fo_order (s_full s) = asks ++ pre))
  end.

Lemma map_fo_order l : map fo_order (map as_filled l) = map f_order l.
Proof. rewrite map_map. reflexivity. Qed.

Lemma built_filled asks bids r s A B AD PD :
  built asks bids r s A B AD PD -> NoDup (map o_id (asks ++ bids)) ->
  reported_shape asks bids s /\
  (forall g, sumz g (fills_of s) = sumz (fun f => g (as_filled f)) (A ++ B)) /\
  (forall P : filled -> Prop, Forall (fun f => P (as_filled f)) (A ++ B) -> Forall P (fills_of s)).
Proof.
  intros Hb Hnd. pose proof (b_shape _ _ _ _ _ _ _ _ Hb) as Osh. pose proof (b_filled _ _ _ _ _ _ _ _ Hb) as Hp.
  destruct (oshape_ids _ _ _ _ _ Osh) as [Ia Ib].
  assert (Hnd' : NoDup (map fid (A ++ B))).
  { unfold fid. rewrite <- (map_map f_order o_id), map_app, map_app, Ia, Ib, <- map_app. exact Hnd. }
  unfold reported_shape, fills_of.
  destruct (s_left s) as [unf|] eqn:El.
  - assert (Hcase : exists F1 f F2 pre o, A ++ B = F1 ++ f :: F2 /\ fid f = o_id unf /\
              split o (o_assets (f_order f)) = Ok (f_order f, unf) /\
              ((asks = pre ++ [o] /\ map f_order (F1 ++ F2) = pre ++ bids) \/
               (bids = pre ++ [o] /\ map f_order (F1 ++ F2) = asks ++ pre))).
    { inversion Osh as [|pre o fil unf' Ea Hs E1 E2 E3|pre o fil unf' Eb Hs E1 E2 E3]; subst unf'.
      - symmetry in E1. apply map_eq_app_last in E1 as (A0 & f & -> & E1 & E1').
        exists A0, f, B, pre, o. rewrite <- app_assoc. cbn [app]. split; [reflexivity|].
        destruct (split_sound _ _ _ _ Hs) as (_ & _ & (S0 & _) & (U0 & _) & _).
        split; [unfold fid; rewrite E1', S0, U0; reflexivity|]. rewrite E1'. split; [exact Hs|].
        left. split; [assumption|]. rewrite map_app, E1. reflexivity.
      - symmetry in E2. apply map_eq_app_last in E2 as (B0 & f & -> & E2 & E2').
        exists (A ++ B0), f, [], pre, o. rewrite <- app_assoc. split; [reflexivity|].
        destruct (split_sound _ _ _ _ Hs) as (_ & _ & (S0 & _) & (U0 & _) & _).
        split; [unfold fid; rewrite E2', S0, U0; reflexivity|]. rewrite E2'. split; [exact Hs|].
        right. split; [assumption|]. rewrite app_nil_r, map_app, E2. reflexivity. }
    destruct Hcase as (F1 & f & F2 & pre & o & EAB & Hid & Hs & Hor).
    rewrite EAB in *. rewrite (populate_one _ _ _ _ Hnd' Hid) in Hp. inversion Hp as [[Hfull Hpart]].
    split; [|split].
    + exists pre, o, (as_filled f). split; [reflexivity|]. cbn [as_filled fo_order]. split; [exact Hs|].
      rewrite map_fo_order. exact Hor.
    + intros g. cbn [opt_list]. rewrite (sumz_snoc_mid (fun f => g (as_filled f)) F1 f F2), !sumz_app, sumz_map, sumz_app. reflexivity.
    + intros P HP. cbn [opt_list]. apply Forall_app in HP as [HP1 HP2]. inversion HP2 as [|? ? HPf HP3]; subst.
      apply Forall_app; split; [|constructor; [assumption|constructor]].
      rewrite Forall_map. apply Forall_app; split; assumption.
  - rewrite populate_none in Hp. inversion Hp as [[Hfull Hpart]]. cbn [app opt_list].
    split; [|split].
    + split; [reflexivity|]. rewrite map_fo_order, map_app.
      inversion Osh as [E1 E2 E3| |]. rewrite <- E1, <- E2. reflexivity.
    + intros g. rewrite app_nil_r, sumz_map. reflexivity.
    + intros P HP. rewrite app_nil_r, Forall_map. exact HP.
Qed.

(** ** Task 1: the two sides add up *)
Definition ask_part (g : filled -> Z) (f : filled) : Z := if o_ask (fo_order f) then g f else 0.
Definition bid_part (g : filled -> Z) (f : filled) : Z := if o_ask (fo_order f) then 0 else g f.

Lemma side_sum (k : bool) AD PD (g : filled -> Z) L :
  Forall (fun f => side_ok k AD PD (f_order f)) L ->
  sumz (fun f => ask_part g (as_filled f)) L = (if k then sumz (fun f => g (as_filled f)) L else 0) /\
  sumz (fun f => bid_part g (as_filled f)) L = (if k then 0 else sumz (fun f => g (as_filled f)) L).
Proof.
  induction 1 as [|f l (Hk & _) _ [IH1 IH2]]; [destruct k; split; reflexivity|].
  rewrite !sumz_cons, IH1, IH2. unfold ask_part, bid_part. cbn [as_filled fo_order]. rewrite Hk.
  destruct k; split; lia.
Qed.

Lemma build_sums asks bids lk s :
  build asks bids lk = Ok s -> NoDup (map o_id (asks ++ bids)) ->
  sumz (ask_part fo_price) (fills_of s) = sumz (bid_part (fun f => o_price (fo_order f))) (fills_of s) /\
  sumz (ask_part (fun f => o_assets (fo_order f))) (fills_of s) =
  sumz (bid_part (fun f => o_assets (fo_order f))) (fills_of s) /\
  exists AD PD, Forall (fun f => o_ad (fo_order f) = AD /\ o_pd (fo_order f) = PD) (fills_of s).
Proof.
  intros H Hnd. destruct (build_shape _ _ _ _ H) as (r & A & B & AD & PD & _ & Hb).
  destruct (built_filled _ _ _ _ _ _ _ _ Hb Hnd) as (_ & Hsum & HP).
  pose proof (b_sideA _ _ _ _ _ _ _ _ Hb) as SA. pose proof (b_sideB _ _ _ _ _ _ _ _ Hb) as SB.
  rewrite !Hsum, !sumz_app.
  destruct (side_sum true AD PD fo_price A SA) as [E1 _].
  destruct (side_sum false AD PD fo_price B SB) as [E2 _].
  destruct (side_sum true AD PD (fun f => o_price (fo_order f)) A SA) as [_ E3].
  destruct (side_sum false AD PD (fun f => o_price (fo_order f)) B SB) as [_ E4].
  destruct (side_sum true AD PD (fun f => o_assets (fo_order f)) A SA) as [E5 E6].
  destruct (side_sum false AD PD (fun f => o_assets (fo_order f)) B SB) as [E7 E8].
  rewrite E1, E2, E3, E4, E5, E6, E7, E8. cbn [as_filled fo_price fo_order].
  split; [|split].
  - rewrite (sumz_ext (fun f => o_price (f_order f)) f_papplied B).
    + rewrite Z.add_0_r, Z.add_0_l. exact (b_sum_price _ _ _ _ _ _ _ _ Hb).
    + intros f Hf. pose proof (b_validB _ _ _ _ _ _ _ _ Hb) as V. rewrite Forall_forall in V. apply (V f Hf).
  - rewrite (sumz_ext (fun f => o_assets (f_order f)) f_afilled A), (sumz_ext (fun f => o_assets (f_order f)) f_afilled B).
    + rewrite Z.add_0_r, Z.add_0_l. exact (b_sum_assets _ _ _ _ _ _ _ _ Hb).
    + intros f Hf. pose proof (b_validB _ _ _ _ _ _ _ _ Hb) as V. rewrite Forall_forall in V. apply (V f Hf).
    + intros f Hf. pose proof (b_validA _ _ _ _ _ _ _ _ Hb) as V. rewrite Forall_forall in V. apply (V f Hf).
  - exists AD, PD. apply HP. apply Forall_app; split; [eapply Forall_impl; [|exact SA]|eapply Forall_impl; [|exact SB]];
      intros f (_ & E & E'); cbn; split; assumption.
Qed.

(** ** Task 2: the transfers pay what the filled orders report *)
Definition fill_move (f : filled) (x : addr) (d : denom) : Z :=
  let o := fo_order f in
  if Pos.eqb x (o_owner o) then
    if o_ask o then at_d d (o_pd o) (fo_price f) - at_d d (o_ad o) (o_assets o)
    else at_d d (o_ad o) (o_assets o) - at_d d (o_pd o) (fo_price f)
  else 0.

Definition fill_fee (f : filled) (x : addr) (d : denom) : Z :=
  if Pos.eqb x (o_owner (fo_order f)) then amount_of (fo_fees f) d else 0.

Definition transfers_net (ts : list transfer) (x : addr) (d : denom) : Z :=
  sumz (fun t => transfer_net t x d) ts.

Lemma asset_transfers_sum AD PD A ts x d :
  Forall2 (fun f t => get_asset_transfer f = Ok t) A ts ->
  Forall (fun f => side_ok true AD PD (f_order f)) A ->
  Forall transfer_sorted ts /\
  transfers_net ts x d = at_d d AD (sumz (fun a => dsum (f_adists a) x) A - sumz (owned_by x f_afilled) A).
Proof.
  unfold transfers_net. induction 1 as [|f t l l' Hg _ IH]; intros HS.
  - split; [constructor|]. unfold at_d. cbn. destruct (Pos.eqb d AD); reflexivity.
  - inversion HS as [|? ? (Hk & Had & _) HS']; subst. destruct (IH HS') as [IH1 IH2].
    destruct (asset_transfer_net _ _ Hg Hk) as [Hs Hn]. split; [constructor; assumption|].
    rewrite !sumz_cons, IH2, Hn. unfold at_d. destruct (Pos.eqb d (o_ad (f_order f))); lia.
Qed.

Lemma price_transfers_sum AD PD B ts x d :
  Forall2 (fun f t => get_price_transfer f = Ok t) B ts ->
  Forall (fun f => side_ok false AD PD (f_order f)) B ->
  Forall transfer_sorted ts /\
  transfers_net ts x d = at_d d PD (sumz (fun b => dsum (f_pdists b) x) B - sumz (owned_by x f_papplied) B).
Proof.
  unfold transfers_net. induction 1 as [|f t l l' Hg _ IH]; intros HS.
  - split; [constructor|]. unfold at_d. cbn. destruct (Pos.eqb d PD); reflexivity.
  - inversion HS as [|? ? (Hk & _ & Hpd) HS']; subst. destruct (IH HS') as [IH1 IH2].
    destruct (price_transfer_net _ _ Hg Hk) as [Hs Hn]. split; [constructor; assumption|].
    rewrite !sumz_cons, IH2, Hn. unfold at_d. destruct (Pos.eqb d (o_pd (f_order f))); lia.
Qed.

Lemma moves_sum (k : bool) AD PD L x d :
  Forall (fun f => side_ok k AD PD (f_order f) /\ o_assets (f_order f) = f_afilled f) L ->
  sumz (fun f => fill_move (as_filled f) x d) L =
  (if k then 1 else -1) * (at_d d PD (sumz (owned_by x f_papplied) L) - at_d d AD (sumz (owned_by x f_afilled) L)).
Proof.
  induction 1 as [|f l ((Hk & Had & Hpd) & Hv) _ IH]; [unfold at_d; cbn; destruct (Pos.eqb d PD), (Pos.eqb d AD), k; reflexivity|].
  rewrite !sumz_cons, IH. unfold fill_move, owned_by, f_owner, at_d. cbn [as_filled fo_order fo_price].
  rewrite Hk, Had, Hpd, Hv.
  destruct (Pos.eqb x (o_owner (f_order f))), (Pos.eqb d PD), (Pos.eqb d AD), k; lia.
Qed.

Lemma oshape_sorted asks bids oa ob lft :
  oshape asks bids oa ob lft ->
  Forall (fun o => sorted (o_fees o)) asks -> Forall (fun o => sorted (o_fees o)) bids ->
  Forall (fun o => sorted (o_fees o)) oa /\ Forall (fun o => sorted (o_fees o)) ob /\
  match lft with Some unf => sorted (o_fees unf) | None => True end.
Proof.
  intros H Ha Hb. destruct H as [|pre o fil unf -> Hs|pre o fil unf -> Hs]; [repeat split; assumption| |].
  - apply Forall_app in Ha as [Ha1 Ha2]. destruct (split_sorted _ _ _ _ (Forall_inv Ha2) Hs) as [S1 S2].
    split; [|split; assumption]. apply Forall_app; split; [assumption|constructor; [assumption|constructor]].
  - apply Forall_app in Hb as [Hb1 Hb2]. destruct (split_sorted _ _ _ _ (Forall_inv Hb2) Hs) as [S1 S2].
    split; [assumption|split; [|assumption]]. apply Forall_app; split; [assumption|constructor; [assumption|constructor]].
Qed.

Lemma build_transfers asks bids lk s :
  build asks bids lk = Ok s -> NoDup (map o_id (asks ++ bids)) ->
  Forall transfer_sorted (s_transfers s) /\ idx_pos (s_fee_inputs s) /\
  (forall x d, transfers_net (s_transfers s) x d = sumz (fun f => fill_move f x d) (fills_of s)) /\
  (Forall (fun o => sorted (o_fees o)) (asks ++ bids) ->
   idx_sorted (s_fee_inputs s) /\ Forall (fun f => sorted (fo_fees f)) (fills_of s) /\
   match s_left s with Some unf => sorted (o_fees unf) | None => True end /\
   (forall x d, idx_at (s_fee_inputs s) x d = sumz (fun f => fill_fee f x d) (fills_of s)) /\
   (forall d, idx_amount (s_fee_inputs s) d = sumz (fun f => amount_of (fo_fees f) d) (fills_of s))).
Proof.
  intros H Hnd. destruct (build_shape _ _ _ _ H) as (r & A & B & AD & PD & _ & Hb).
  destruct (built_filled _ _ _ _ _ _ _ _ Hb Hnd) as (_ & Hsum & HP).
  pose proof (b_sideA _ _ _ _ _ _ _ _ Hb) as SA. pose proof (b_sideB _ _ _ _ _ _ _ _ Hb) as SB.
  pose proof (b_validA _ _ _ _ _ _ _ _ Hb) as VA. pose proof (b_validB _ _ _ _ _ _ _ _ Hb) as VB.
  destruct (b_record _ _ _ _ _ _ _ _ Hb) as (ts1 & fees1 & ts2 & R1 & R2 & Ets).
  destruct (record_all_spec _ _ _ _ _ R1) as [F1 G1]. destruct (record_all_spec _ _ _ _ _ R2) as [F2 G2].
  split; [|split; [exact (b_fee_pos _ _ _ _ _ _ _ _ Hb)|split]].
  - rewrite Ets. apply Forall_app; split.
    + apply (asset_transfers_sum AD PD A ts1 1%positive 1%positive F1 SA).
    + apply (price_transfers_sum AD PD B ts2 1%positive 1%positive F2 SB).
  - intros x d. rewrite Hsum, Ets, sumz_app. unfold transfers_net. rewrite sumz_app.
    destruct (asset_transfers_sum AD PD A ts1 x d F1 SA) as [_ T1].
    destruct (price_transfers_sum AD PD B ts2 x d F2 SB) as [_ T2].
    unfold transfers_net in T1, T2. rewrite T1, T2.
    rewrite (moves_sum true AD PD A x d), (moves_sum false AD PD B x d).
    + rewrite (b_adists _ _ _ _ _ _ _ _ Hb x), (b_pdists _ _ _ _ _ _ _ _ Hb x).
      unfold at_d. destruct (Pos.eqb d AD), (Pos.eqb d PD); lia.
    + rewrite Forall_forall in *. intros f Hf. split; [apply SB, Hf|apply (VB f Hf)].
    + rewrite Forall_forall in *. intros f Hf. split; [apply SA, Hf|apply (VA f Hf)].
  - intros Hso. apply Forall_app in Hso as [HsoA HsoB].
    destruct (oshape_sorted _ _ _ _ _ (b_shape _ _ _ _ _ _ _ _ Hb) HsoA HsoB) as (SoA & SoB & SoL).
    rewrite Forall_map in SoA, SoB.
    assert (SfA : Forall (fun f => sorted (f_fees f)) A).
    { pose proof (b_feesA _ _ _ _ _ _ _ _ Hb) as FA. rewrite Forall_forall in *. intros f Hf.
      specialize (FA f Hf). specialize (SoA f Hf). destruct r as [rt|].
      - destruct FA as (amt & _ & ->). apply (coins_add1_spec _ _ _ SoA).
      - rewrite FA. exact SoA. }
    assert (SfB : Forall (fun f => sorted (f_fees f)) B).
    { pose proof (b_feesB _ _ _ _ _ _ _ _ Hb) as FB. rewrite Forall_forall in *. intros f Hf.
      rewrite (FB f Hf). apply SoB, Hf. }
    destruct (G1 (Forall_nil _) SfA) as (I1 & A1 & T1). destruct (G2 I1 SfB) as (I2 & A2 & T2).
    split; [exact I2|]. split; [|split; [exact SoL|split]].
    + apply HP. apply Forall_app; split; [exact SfA|exact SfB].
    + intros x d. rewrite A2, A1, Hsum, sumz_app. unfold idx_at at 1. cbn [sumz fold_right].
      assert (Hconv : forall L, Forall (fun f => sorted (f_fees f)) L ->
                sumz (owned_by x (fun f => raw_sum (f_fees f) d)) L = sumz (fun f => fill_fee (as_filled f) x d) L).
      { intros L HL. apply sumz_ext. intros f Hf. rewrite Forall_forall in HL.
        unfold owned_by, fill_fee, f_owner. cbn [as_filled fo_order fo_fees].
        rewrite (raw_sum_sorted _ (HL f Hf)). reflexivity. }
      rewrite (Hconv A SfA), (Hconv B SfB). lia.
    + intros d. rewrite T2, T1, Hsum, sumz_app. cbn [idx_amount fold_right].
      assert (Hconv : forall L, Forall (fun f => sorted (f_fees f)) L ->
                sumz (fun f => raw_sum (f_fees f) d) L = sumz (fun f => amount_of (fo_fees (as_filled f)) d) L).
      { intros L HL. apply sumz_ext. intros f Hf. rewrite Forall_forall in HL. cbn [as_filled fo_fees].
        apply (raw_sum_sorted _ (HL f Hf)). }
      rewrite (Hconv A SfA), (Hconv B SfB). lia.
Qed.

(** ** What is reported for each order *)
Definition fill_ok (r : option ratio) (f : filled) : Prop :=
  let o := fo_order f in
  if o_ask o then
    o_price o <= fo_price f /\
    match r with
    | None => fo_fees f = o_fees o
    | Some rt => exists amt, ratio_fee rt (o_pd o) (fo_price f) = Ok (r_fd rt, amt) /\
                             fo_fees f = coins_add1 (o_fees o) (r_fd rt) amt
    end
  else fo_price f = o_price o /\ fo_fees f = o_fees o.

Lemma build_fills asks bids lk s :
  build asks bids lk = Ok s -> NoDup (map o_id (asks ++ bids)) ->
  exists r, lk = Ok r /\ reported_shape asks bids s /\ Forall (fill_ok r) (fills_of s) /\
            Forall (fun o => o_ask o = true) asks /\ Forall (fun o => o_ask o = false) bids.
Proof.
  intros H Hnd. destruct (build_shape _ _ _ _ H) as (r & A & B & AD & PD & Hlk & Hb).
  destruct (built_filled _ _ _ _ _ _ _ _ Hb Hnd) as (Hsh & _ & HP).
  exists r. split; [assumption|]. split; [assumption|]. split.
  - apply HP. apply Forall_app; split; apply Forall_forall; intros f Hf; unfold fill_ok; cbn [as_filled fo_order fo_price fo_fees].
    + pose proof (b_sideA _ _ _ _ _ _ _ _ Hb) as S. pose proof (b_validA _ _ _ _ _ _ _ _ Hb) as V.
      pose proof (b_feesA _ _ _ _ _ _ _ _ Hb) as F. rewrite Forall_forall in S, V, F.
      destruct (S f Hf) as (-> & _). split; [apply (V f Hf)|apply (F f Hf)].
    + pose proof (b_sideB _ _ _ _ _ _ _ _ Hb) as S. pose proof (b_validB _ _ _ _ _ _ _ _ Hb) as V.
      pose proof (b_feesB _ _ _ _ _ _ _ _ Hb) as F. rewrite Forall_forall in S, V, F.
      destruct (S f Hf) as (-> & _). split; [symmetry; apply (V f Hf)|apply (F f Hf)].
  - unfold build in H. destruct (validate_can_settle asks bids) eqn:Hv; [|discriminate].
    destruct (validate_can_settle_sides _ _ Hv) as (AD' & PD' & S1 & S2).
    split; [eapply Forall_impl; [|exact S1]|eapply Forall_impl; [|exact S2]]; intros o (E & _); exact E.
Qed.

(** The seller's ratio fee is the ceiling of price applied * fee / price of the ratio. *)
Lemma ratio_fee_ceiling rt pd p fd amt :
  ratio_fee rt pd p = Ok (fd, amt) -> 0 < r_p rt -> 0 <= r_f rt -> 0 <= p ->
  fd = r_fd rt /\ r_pd rt = pd /\ r_p rt * (amt - 1) < p * r_f rt <= r_p rt * amt.
Proof.
  unfold ratio_fee. intros H Hrp Hrf Hp.
  destruct (Pos.eqb_spec (r_pd rt) pd) as [Epd|]; cbn [negb] in H; [|discriminate].
  destruct (apply_loosely_chk (r_p rt) (r_f rt) p) as [[[a b]|]|] eqn:E; inversion H; subst; clear H.
  split; [reflexivity|]. split; [reflexivity|].
  unfold apply_loosely_chk in E. replace (r_p rt =? 0) with false in E by lia.
  unfold chk in E. destruct (int_ok (p * r_f rt)); cbn [obind] in E; [|discriminate].
  unfold quo_rem in E.
  destruct (int_ok _); cbn [obind] in E; [|discriminate]. inversion E; subst; clear E.
  destruct (apply_loosely_ceiling (r_p rt) (r_f rt) p Hrp Hrf Hp) as (x & r & Ha & Hc & _).
  unfold apply_loosely, quo_rem in Ha. replace (r_p rt =? 0) with false in Ha by lia.
  inversion Ha; subst. exact Hc.
Qed.

(** Without distinct order ids the reported list can lose an order: [populate] recognises the
    partially filled order by its id, so an ask with the id of the partially filled bid is
    reported as "the partial order" first and then overwritten.  (The keeper only ever passes
    distinct stored ids: ValidateBasic and the order store.) *)
Lemma build_sums_needs_distinct_ids :
  exists asks bids s,
    build asks bids (Ok None) = Ok s /\
    sumz (ask_part fo_price) (fills_of s) <> sumz (bid_part (fun f => o_price (fo_order f))) (fills_of s).
Proof.
  exists [ {| o_id := 3; o_ask := true; o_owner := 1%positive; o_ad := 1%positive; o_assets := 10;
              o_pd := 2%positive; o_price := 20; o_fees := []; o_partial := false |} ],
         [ {| o_id := 3; o_ask := false; o_owner := 2%positive; o_ad := 1%positive; o_assets := 25;
              o_pd := 2%positive; o_price := 50; o_fees := []; o_partial := true |} ].
  eexists. split; [vm_compute; reflexivity|]. vm_compute. discriminate.
Qed.

(** [build_transfers], as stated in Properties/C01.v. *)
Lemma build_transfers_reported asks bids lk s :
  build asks bids lk = Ok s -> NoDup (map o_id (asks ++ bids)) ->
  (forall x d, transfers_net (s_transfers s) x d = sumz (fun f => fill_move f x d) (fills_of s)) /\
  (Forall (fun o => sorted (o_fees o)) (asks ++ bids) ->
   forall x d, idx_at (s_fee_inputs s) x d = sumz (fun f => fill_fee f x d) (fills_of s)).
Proof.
  intros H Hnd. destruct (build_transfers _ _ _ _ H Hnd) as (_ & _ & Hn & Hf). split; [exact Hn|].
  intros Hs. apply (Hf Hs).
Qed.
