(** Proofs about Genesis/DanglingRefs.v (property C18). *)
From Coq Require Import List.
From PV Require Import Genesis.RoundTrip Genesis.Indexed Genesis.MarkerGenesis Genesis.FullProduct Genesis.DanglingRefs
                       Proofs.FullProductProofs.
Import ListNotations.

Lemma with_marker_wf : forall x s mk',
  full_wf x s ->
  marker_wf (fx_marker_valid x) (fx_nav_valid x) mk' ->
  (forall k m, In (k, m) (mks_accounts mk') -> fx_other_accnum x (mr_addr m) = Some (mr_accnum m)) ->
  full_wf x (with_marker s mk').
Proof.
  intros x s mk' (Hb & _ & Hmd & Hx & Hpre & _ & Hvo) Hmk Hnum.
  unfold full_wf, with_marker; cbn [f_base f_marker f_md f_exch].
  exact (conj Hb (conj Hmk (conj Hmd (conj Hx (conj Hpre (conj Hnum Hvo)))))).
Qed.

(** Whatever becomes of the marker module's state - markers removed whose denom or account the
    records of the other nine modules still mention - the export of the whole state is accepted
    by a fresh chain and rebuilds every module exactly. *)
Theorem dangling_marker_references_survive : forall x s mk',
  full_wf x s ->
  marker_wf (fx_marker_valid x) (fx_nav_valid x) mk' ->
  (forall k m, In (k, m) (mks_accounts mk') -> fx_other_accnum x (mr_addr m) = Some (mr_accnum m)) ->
  exists g, full_export x (with_marker s mk') = Some g /\ full_import x g = Some (with_marker s mk').
Proof. intros x s mk' Hwf Hmk Hnum. apply full_import_export. apply with_marker_wf; assumption. Qed.
