(** Lemmas about Metadata/Signers.v, part 2: BuildPartyDetails, the signer / authz association,
    and the assembled characterisation of validateAllRequiredPartiesSigned,
    ValidateSignersWithParties and ValidateSignersWithoutParties by the declarative rule of
    Metadata/SignersSpec.v. *)
From Coq Require Import ZArith List Bool Lia Permutation.
From PV Require Import Metadata.Signers Metadata.SignersSpec Proofs.SignersProofs.
Import ListNotations.
Open Scope Z_scope.

(** ** Small list facts *)
Lemma NoDup_map_inj : forall A B (f : A -> B) l x y,
  NoDup (map f l) -> In x l -> In y l -> f x = f y -> x = y.
Proof.
  intros A B f l; induction l as [|a t IH]; intros x y Hnd Hx Hy Hf; [destruct Hx|].
  cbn in Hnd. inversion Hnd as [|? ? Hnin Hnd']; subst.
  destruct Hx as [<-|Hx], Hy as [<-|Hy]; auto.
  - exfalso; apply Hnin. rewrite Hf. now apply in_map.
  - exfalso; apply Hnin. rewrite <- Hf. now apply in_map.
Qed.

Lemma NoDup_map_on : forall A B (f : A -> B) l,
  NoDup l -> (forall x y, In x l -> In y l -> f x = f y -> x = y) -> NoDup (map f l).
Proof.
  intros A B f l; induction l as [|a t IH]; intros Hnd Hinj; cbn; [constructor|].
  inversion Hnd as [|? ? Hnin Hnd']; subst. constructor.
  - intros Hin. apply in_map_iff in Hin as (x & Hfx & Hx).
    assert (x = a) by (apply Hinj; [now right|now left|exact Hfx]). subst. contradiction.
  - apply IH; auto. intros x y Hx Hy. apply Hinj; now right.
Qed.

Lemma NoDup_snoc : forall A (l : list A) x, NoDup l -> ~ In x l -> NoDup (l ++ [x]).
Proof.
  intros A l x Hnd Hnin. eapply Permutation_NoDup; [apply Permutation_cons_append|].
  now constructor.
Qed.

Lemma Forall2_map_l : forall A B C (f : A -> B) (R : B -> C -> Prop) l l',
  Forall2 (fun a c => R (f a) c) l l' -> Forall2 R (map f l) l'.
Proof. intros A B C f R l l' H; induction H; cbn; constructor; auto. Qed.

Lemma find_existsb : forall A (f : A -> bool) l,
  (match find f l with Some _ => true | None => false end) = existsb f l.
Proof. intros A f l; induction l as [|a t IH]; cbn; [reflexivity|]. destruct (f a); auto. Qed.

Lemma covered_b_spec : forall e signers a, covered_b e signers a = true <-> covered e signers a.
Proof.
  intros e signers a. unfold covered_b, covered. rewrite orb_true_iff, mem_In, existsb_exists.
  split; (intros [H|H]; [now left|right]); destruct H as (g & H1 & H2); exists g; auto.
Qed.

Lemma has_grantee_existsb : forall e signers d,
  has_grantee e signers d = existsb (granted e (d_addr d)) signers.
Proof. intros; unfold has_grantee, find_grantee. apply find_existsb. Qed.

Lemma find_grantee_some : forall e a signers g,
  find_grantee e a signers = Some g -> In g signers /\ granted e a g = true.
Proof. intros e a signers g H. now apply find_some in H. Qed.

Lemma same_as_key : forall a r d, same_as a r d = true <-> key d = (a, r).
Proof.
  intros a r d. unfold same_as, key. rewrite andb_true_iff, !Z.eqb_eq. split.
  - intros [-> ->]; reflexivity.
  - intros H; injection H; auto.
Qed.

Lemma existsb_same_as : forall a r ds, existsb (same_as a r) ds = true <-> In (a, r) (map key ds).
Proof.
  intros a r ds. rewrite existsb_exists, in_map_iff. split.
  - intros (d & Hd & Hs). exists d. split; auto. now apply same_as_key.
  - intros (d & Hk & Hd). exists d. split; auto. now apply same_as_key.
Qed.

(** ** BuildPartyDetails: the invariant.  [PA] = keys (address, role) that are available,
    [PQ] = keys that are required (optional = false). *)
Definition Inv (PA PQ : Z * Z -> Prop) (ds : list details) : Prop :=
  NoDup (map key ds) /\
  (forall d, In d ds ->
     d_used d = false /\ d_signer d = None /\
     (d_can d = true <-> PA (key d)) /\ (d_opt d = false <-> PQ (key d))) /\
  (forall k, In k (map key ds) <-> PA k \/ PQ k).

Lemma Inv_ext : forall PA PQ PA' PQ' ds,
  (forall k, PA k <-> PA' k) -> (forall k, PQ k <-> PQ' k) -> Inv PA PQ ds -> Inv PA' PQ' ds.
Proof.
  intros PA PQ PA' PQ' ds HA HQ (Hnd & Hd & Hk). split; [exact Hnd|]. split.
  - intros d Hin. destruct (Hd d Hin) as (H1 & H2 & H3 & H4).
    split; [exact H1|]. split; [exact H2|]. split.
    + etransitivity; [exact H3|apply HA].
    + etransitivity; [exact H4|apply HQ].
  - intros k. rewrite Hk, HA, HQ. reflexivity.
Qed.

Lemma add_available_inv : forall avail acc PA,
  Inv PA (fun _ => False) acc ->
  Inv (fun k => PA k \/ In k (map pkey avail)) (fun _ => False) (add_available acc avail).
Proof.
  induction avail as [|p rest IH]; intros acc PA HI; cbn [add_available].
  - eapply Inv_ext; [| |exact HI]; cbn; intros k; tauto.
  - destruct (existsb (same_as (p_addr p) (p_role p)) acc) eqn:Hex.
    + apply existsb_same_as in Hex.
      assert (HPA : PA (pkey p)).
      { destruct HI as (_ & _ & Hk). apply Hk in Hex as [H|[]]. exact H. }
      eapply Inv_ext; [| |exact (IH _ _ HI)]; cbn; intros k; [|tauto].
      split; [intros [H|H]; auto|intros [H|[<-|H]]; auto].
    + assert (Hnin : ~ In (pkey p) (map key acc)).
      { intros H. apply existsb_same_as in H. unfold pkey in H. congruence. }
      assert (HI' : Inv (fun k => PA k \/ k = pkey p) (fun _ => False) (acc ++ [wrap_available p])).
      { destruct HI as (Hnd & Hd & Hk). split; [|split].
        - rewrite map_app. cbn. now apply NoDup_snoc.
        - intros d Hin. apply in_app_or in Hin as [Hin|[<-|[]]].
          + destruct (Hd d Hin) as (H1 & H2 & H3 & H4).
            split; [exact H1|]. split; [exact H2|]. split; [|exact H4]. split.
            * intros Hc. left. now apply H3.
            * intros [H|H]; [now apply H3|]. exfalso. apply Hnin. rewrite <- H. now apply in_map.
          + change (key (wrap_available p)) with (pkey p). cbn.
            split; [reflexivity|]. split; [reflexivity|]. split.
            * split; [intros _; now right|reflexivity].
            * split; [discriminate|intros []].
        - intros k. rewrite map_app, in_app_iff, Hk. cbn. unfold pkey, key. cbn.
          split; [intros [[H|[]]|[<-|[]]]; auto|intros [[H| <-]|[]]; auto]. }
      eapply Inv_ext; [| |exact (IH _ _ HI')]; cbn; intros k; [|tauto].
      split; [intros [[H| ->]|H]; auto|intros [H|[<-|H]]; auto].
Qed.

Definition nonopt (ps : list party) : list party := filter (fun p => negb (p_opt p)) ps.

Lemma add_required_inv : forall req acc PA PQ,
  Inv PA PQ acc ->
  Inv PA (fun k => PQ k \/ In k (map pkey (nonopt req))) (add_required acc req).
Proof.
  induction req as [|p rest IH]; intros acc PA PQ HI; cbn [add_required].
  - eapply Inv_ext; [| |exact HI]; cbn; intros k; tauto.
  - destruct (p_opt p) eqn:Hopt.
    + eapply Inv_ext; [| |exact (IH _ _ _ HI)]; cbn; intros k; [tauto|].
      unfold nonopt. cbn. rewrite Hopt. cbn. reflexivity.
    + assert (Hno : forall k, (PQ k \/ In k (map pkey (nonopt (p :: rest)))) <->
                             ((PQ k \/ k = pkey p) \/ In k (map pkey (nonopt rest)))).
      { intros k. unfold nonopt. cbn. rewrite Hopt. cbn.
        split; [intros [H|[<-|H]]; auto|intros [[H| ->]|H]; auto]. }
      destruct (take_first (same_as (p_addr p) (p_role p)) make_required acc) as [acc'|] eqn:HT.
      * destruct (take_first_some _ _ _ _ HT) as (l1 & d & l2 & -> & -> & Hd & _).
        apply same_as_key in Hd. change (key d = pkey p) in Hd.
        assert (HI' : Inv PA (fun k => PQ k \/ k = pkey p) (l1 ++ make_required d :: l2)).
        { destruct HI as (Hnd & Hall & Hk).
          assert (Hkeys : map key (l1 ++ make_required d :: l2) = map key (l1 ++ d :: l2))
            by (rewrite !map_app; reflexivity).
          split; [|split].
          - now rewrite Hkeys.
          - intros x Hin.
            assert (Hcase : x = make_required d \/ (In x (l1 ++ d :: l2) /\ key x <> pkey p)).
            { apply in_app_or in Hin as [Hin|[<-|Hin]]; [right|now left|right].
              - split; [apply in_or_app; now left|]. intros Hkx.
                assert (x = d).
                { eapply NoDup_map_inj; [exact Hnd| | |congruence];
                    apply in_or_app; [now left|right; now left]. }
                subst x. rewrite map_app in Hnd. cbn in Hnd. apply NoDup_remove_2 in Hnd.
                apply Hnd. apply in_or_app. left. now apply in_map.
              - split; [apply in_or_app; right; now right|]. intros Hkx.
                assert (x = d).
                { eapply NoDup_map_inj; [exact Hnd| | |congruence];
                    apply in_or_app; right; [now right|now left]. }
                subst x. rewrite map_app in Hnd. cbn in Hnd. apply NoDup_remove_2 in Hnd.
                apply Hnd. apply in_or_app. right. now apply in_map. }
            destruct Hcase as [->|[Hx Hne]].
            + destruct (Hall d) as (H1 & H2 & H3 & H4); [apply in_or_app; right; now left|].
              change (key (make_required d)) with (key d). cbn.
              split; [exact H1|]. split; [exact H2|]. split; [exact H3|].
              split; [intros _; now right|reflexivity].
            + destruct (Hall x Hx) as (H1 & H2 & H3 & H4).
              split; [exact H1|]. split; [exact H2|]. split; [exact H3|]. split.
              * intros Ho; left; now apply H4.
              * intros [H|H]; [now apply H4|contradiction].
          - intros k. rewrite Hkeys, Hk. split; [intros [H|H]; auto|intros [H|[H| ->]]; auto].
            apply Hk. rewrite <- Hd. apply in_map. apply in_or_app; right; now left. }
        eapply Inv_ext; [| |exact (IH _ _ _ HI')]; cbn; intros k; [tauto|]. symmetry; apply Hno.
      * assert (Hnin : ~ In (pkey p) (map key acc)).
        { intros H. apply in_map_iff in H as (d & Hk & Hd).
          pose proof (proj1 (take_first_none _ _ _) HT d Hd) as Hf.
          assert (same_as (p_addr p) (p_role p) d = true) by (apply same_as_key; exact Hk).
          congruence. }
        assert (HI' : Inv PA (fun k => PQ k \/ k = pkey p) (acc ++ [wrap_required p])).
        { destruct HI as (Hnd & Hall & Hk). split; [|split].
          - rewrite map_app. cbn. now apply NoDup_snoc.
          - intros d Hin. apply in_app_or in Hin as [Hin|[<-|[]]].
            + destruct (Hall d Hin) as (H1 & H2 & H3 & H4).
              split; [exact H1|]. split; [exact H2|]. split; [exact H3|]. split.
              * intros Ho; left; now apply H4.
              * intros [H|H]; [now apply H4|]. exfalso. apply Hnin. rewrite <- H. now apply in_map.
            + change (key (wrap_required p)) with (pkey p). cbn.
              split; [reflexivity|]. split; [reflexivity|]. split.
              * split; [discriminate|]. intros HPA. exfalso. apply Hnin. apply Hk. now left.
              * split; [intros _; now right|intros _; exact Hopt].
          - intros k. rewrite map_app, in_app_iff, Hk. cbn. unfold pkey, key. cbn.
            split; [intros [[H|H]|[<-|[]]]; auto|intros [H|[H| <-]]; auto]. }
        eapply Inv_ext; [| |exact (IH _ _ _ HI')]; cbn; intros k; [tauto|]. symmetry; apply Hno.
Qed.

Definition PAof (avail : list party) (k : Z * Z) : Prop := In k (map pkey avail).
Definition PQof (req : list party) (k : Z * Z) : Prop := In k (map pkey (nonopt req)).

Lemma build_inv : forall req avail, Inv (PAof avail) (PQof req) (build_party_details req avail).
Proof.
  intros req avail. unfold build_party_details.
  assert (H0 : Inv (fun _ => False) (fun _ => False) []).
  { split; [constructor|]. split; [intros d []|]. intros k; cbn; tauto. }
  apply (add_available_inv avail) in H0. apply (add_required_inv req) in H0.
  eapply Inv_ext; [| |exact H0]; cbn; intros k; unfold PAof, PQof; tauto.
Qed.

(** ** associateSigners + associateAuthorizations(required): what signer a party ends up with. *)
Definition sig_of (e : env) (signers : list Z) (d : details) : option Z :=
  if mem (d_addr d) signers then Some (d_addr d)
  else if negb (d_opt d) then find_grantee e (d_addr d) signers else None.

Definition Inv2 (e : env) (signers : list Z) (PA PQ : Z * Z -> Prop) (ds : list details) : Prop :=
  NoDup (map key ds) /\
  (forall d, In d ds ->
     d_used d = false /\ d_signer d = sig_of e signers d /\
     (d_can d = true <-> PA (key d)) /\ (d_opt d = false <-> PQ (key d))) /\
  (forall k, In k (map key ds) <-> PA k \/ PQ k).

Definition sign1 (e : env) (signers : list Z) (d : details) : details :=
  let d1 := if mem (d_addr d) signers then set_signer (d_addr d) d else d in
  if is_required d1 && negb (has_signer d1) then
    match find_grantee e (d_addr d1) signers with Some g => set_signer g d1 | None => d1 end
  else d1.

Lemma sign_pass_map : forall e signers ds,
  associate_authz_required e signers (associate_signers signers ds) = map (sign1 e signers) ds.
Proof. intros. unfold associate_authz_required, associate_signers. rewrite map_map. reflexivity. Qed.

Lemma sign1_facts : forall e signers d, d_signer d = None ->
  key (sign1 e signers d) = key d /\ d_addr (sign1 e signers d) = d_addr d /\
  d_opt (sign1 e signers d) = d_opt d /\ d_can (sign1 e signers d) = d_can d /\
  d_used (sign1 e signers d) = d_used d /\
  d_signer (sign1 e signers d) = sig_of e signers (sign1 e signers d).
Proof.
  intros e signers d Hs. unfold sign1, sig_of, is_required, has_signer.
  destruct (mem (d_addr d) signers) eqn:Hm; cbn.
  - rewrite andb_false_r. cbn. rewrite Hm. repeat split; reflexivity.
  - rewrite Hs. cbn. rewrite andb_true_r. destruct (d_opt d) eqn:Ho; cbn.
    + rewrite Hm, Ho. cbn. repeat split; auto.
    + destruct (find_grantee e (d_addr d) signers) eqn:Hf; cbn; rewrite Hm, Ho; cbn;
        rewrite Hf; repeat split; auto.
Qed.

Lemma sign_pass_inv : forall e signers PA PQ ds,
  Inv PA PQ ds -> Inv2 e signers PA PQ (map (sign1 e signers) ds).
Proof.
  intros e signers PA PQ ds (Hnd & Hall & Hk).
  assert (Hkeys : map key (map (sign1 e signers) ds) = map key ds).
  { rewrite map_map. apply map_ext_in. intros d Hd.
    destruct (Hall d Hd) as (_ & Hs & _). now destruct (sign1_facts e signers d Hs). }
  split; [now rewrite Hkeys|]. split; [|intros k; now rewrite Hkeys].
  intros d' Hin. apply in_map_iff in Hin as (d & <- & Hd).
  destruct (Hall d Hd) as (H1 & H2 & H3 & H4).
  destruct (sign1_facts e signers d H2) as (F1 & F2 & F3 & F4 & F5 & F6).
  rewrite F1, F3, F4, F5. repeat split; auto; try apply H3; try apply H4.
Qed.

Lemma sig_has_signer : forall e signers d, d_signer d = sig_of e signers d ->
  has_signer d = mem (d_addr d) signers || (negb (d_opt d) && has_grantee e signers d).
Proof.
  intros e signers d H. unfold has_signer. rewrite H. unfold sig_of, has_grantee.
  destruct (mem (d_addr d) signers); cbn; [reflexivity|].
  destruct (d_opt d); cbn; [reflexivity|]. reflexivity.
Qed.

Lemma E_covered : forall e signers r d,
  d_used d = false -> d_signer d = sig_of e signers d ->
  E e signers r d = d_can d && Z.eqb (d_role d) r && covered_b e signers (d_addr d).
Proof.
  intros e signers r d Hu Hs. unfold E, S, G, usable_as, covered_b.
  rewrite (sig_has_signer _ _ _ Hs), Hu, <- has_grantee_existsb. cbn.
  destruct (d_can d), (Z.eqb (d_role d) r), (mem (d_addr d) signers), (d_opt d),
    (has_grantee e signers d); reflexivity.
Qed.

Lemma E_excl : forall e signers r r' d,
  E e signers r d = true -> E e signers r' d = true -> r = r'.
Proof.
  intros e signers r r' d H H'. unfold E, S, G in *.
  assert (U : usable_as r d = true).
  { apply orb_prop in H as [H|H]; apply andb_prop in H as [H _]; auto.
    apply andb_prop in H as [H _]; auto. }
  assert (U' : usable_as r' d = true).
  { apply orb_prop in H' as [H'|H']; apply andb_prop in H' as [H' _]; auto.
    apply andb_prop in H' as [H' _]; auto. }
  apply usable_role in U, U'. congruence.
Qed.

(** The count condition on the signed party details is the existence of an injective role
    assignment into the available parties whose signature is accounted for. *)
Lemma counts_assignment : forall e signers req avail roles ds,
  Inv2 e signers (PAof avail) (PQof req) ds ->
  ((forall r, (count_occ Z.eq_dec roles r <= cnt (E e signers r) ds)%nat) <->
   role_assignment (covered e signers) avail roles).
Proof.
  intros e signers req avail roles ds (Hnd & Hall & Hk). split.
  - intros Hc.
    destruct (assignment_of_counts (E e signers) (E_excl e signers) roles ds) as (ps & Hps & HF); auto.
    { eapply NoDup_map_inv; exact Hnd. }
    exists (map key ps). split.
    + apply NoDup_map_on; auto. intros x y Hx Hy.
      assert (Hin : forall z, In z ps -> In z ds).
      { clear - HF. induction HF as [|a r l l' [Ha _] _ IH]; intros z []; subst; auto. }
      apply (NoDup_map_inj _ _ key ds); auto.
    + apply Forall2_map_l. eapply Forall2_imp; [|exact HF]. intros d r [Hd HE].
      destruct (Hall d Hd) as (Hu & Hs & Hcan & _).
      rewrite (E_covered _ _ _ _ Hu Hs) in HE.
      apply andb_prop in HE as [HE Hcov]. apply andb_prop in HE as [Hc' Hr].
      split; [now apply Hcan|]. split; [now apply Z.eqb_eq|]. now apply covered_b_spec.
  - intros (ks & Hks & HF).
    assert (Hex : exists ps, map key ps = ks /\
                   Forall2 (fun a r => In a ds /\ E e signers r a = true) ps roles).
    { clear Hks. induction HF as [|k r ks' rs (Hin & Hr & Hcov) _ IH].
      - exists []. split; constructor.
      - destruct IH as (ps & Hm & HF').
        assert (Hkin : In k (map key ds)) by (apply Hk; now left).
        apply in_map_iff in Hkin as (d & Hkd & Hd).
        exists (d :: ps). split; [cbn; congruence|]. constructor; auto. split; auto.
        destruct (Hall d Hd) as (Hu & Hs & Hcan & _).
        rewrite (E_covered _ _ _ _ Hu Hs).
        assert (d_can d = true) by (apply Hcan; rewrite Hkd; exact Hin).
        assert (d_role d = r) by (rewrite <- Hr, <- Hkd; reflexivity).
        assert (covered_b e signers (d_addr d) = true).
        { apply covered_b_spec. rewrite <- Hkd in Hcov. exact Hcov. }
        rewrite H, H1, H0, Z.eqb_refl. reflexivity. }
    destruct Hex as (ps & Hm & HF').
    eapply counts_of_assignment; [|exact HF'].
    eapply NoDup_map_inv. rewrite Hm. exact Hks.
Qed.

(** Required parties: nothing unsigned is left exactly when each is covered. *)
Lemma unsigned_required_nil : forall e signers req avail ds,
  Inv2 e signers (PAof avail) (PQof req) ds ->
  (unsigned_required ds = [] <->
   forall p, In p req -> p_opt p = false -> covered e signers (p_addr p)).
Proof.
  intros e signers req avail ds (Hnd & Hall & Hk). unfold unsigned_required. split.
  - intros Hnil p Hp Hopt.
    assert (Hq : PQof req (pkey p)).
    { unfold PQof, nonopt. apply in_map. apply filter_In. split; auto. now rewrite Hopt. }
    assert (Hin : In (pkey p) (map key ds)) by (apply Hk; now right).
    apply in_map_iff in Hin as (d & Hkd & Hd).
    destruct (Hall d Hd) as (_ & Hs & _ & Ho).
    assert (Hf : (is_required d && negb (has_signer d)) = false).
    { destruct (is_required d && negb (has_signer d)) eqn:Hx; auto.
      assert (In d (filter (fun d => is_required d && negb (has_signer d)) ds))
        by (apply filter_In; split; auto).
      rewrite Hnil in H. destruct H. }
    assert (Hr : d_opt d = false) by (apply Ho; rewrite Hkd; exact Hq).
    unfold is_required in Hf. rewrite Hr in Hf. cbn in Hf. apply negb_false_iff in Hf.
    rewrite (sig_has_signer _ _ _ Hs), Hr in Hf. cbn in Hf.
    assert (d_addr d = p_addr p) by (unfold key, pkey in Hkd; congruence). rewrite <- H.
    apply covered_b_spec. unfold covered_b. rewrite <- has_grantee_existsb. exact Hf.
  - intros Hcov. destruct (filter _ ds) as [|d t] eqn:Hf; auto. exfalso.
    assert (Hd : In d (filter (fun d => is_required d && negb (has_signer d)) ds))
      by (rewrite Hf; now left).
    apply filter_In in Hd as [Hd Hx]. apply andb_prop in Hx as [Hr Hns].
    destruct (Hall d Hd) as (_ & Hs & _ & Ho).
    unfold is_required in Hr. apply negb_true_iff in Hr.
    apply Ho in Hr as Hq. unfold PQof in Hq. apply in_map_iff in Hq as (p & Hkp & Hp).
    apply filter_In in Hp as [Hp Hopt]. apply negb_true_iff in Hopt.
    specialize (Hcov p Hp Hopt). apply covered_b_spec in Hcov.
    assert (d_addr d = p_addr p) by (unfold key, pkey in Hkp; congruence).
    apply negb_true_iff in Hns. rewrite (sig_has_signer _ _ _ Hs), Hr in Hns. cbn in Hns.
    unfold covered_b in Hcov. rewrite <- H, <- has_grantee_existsb in Hcov. congruence.
Qed.

(** ** What the two role passes preserve. *)
Lemma pass_a_Forall : forall (Q : details -> Prop) roles ds ds' missing,
  (forall d, Q d -> Q (mark_used d)) ->
  associate_required_roles ds roles = (ds', missing) -> Forall Q ds -> Forall Q ds'.
Proof.
  intros Q roles; induction roles as [|r0 rest IH]; intros ds ds' missing HQ H HF; cbn in H.
  - injection H as <- _. exact HF.
  - destruct (take_first _ mark_used ds) as [ds1|] eqn:HT.
    + eapply IH; [exact HQ|exact H|]. eapply take_first_Forall; [exact HT| |exact HF]. auto.
    + destruct (associate_required_roles ds rest) as [ds2 m] eqn:HR. injection H as <- _.
      eapply IH; eauto.
Qed.

Lemma pass_b_Forall : forall e signers (Q : details -> Prop) missing ds ds' flag,
  (forall d, has_signer d = false -> has_grantee e signers d = true -> Q d ->
             Q (take_grantee e signers d)) ->
  associate_authz_for_roles e signers ds missing = (ds', flag) -> Forall Q ds -> Forall Q ds'.
Proof.
  intros e signers Q missing; induction missing as [|r0 rest IH]; intros ds ds' flag HQ H HF; cbn in H.
  - injection H as <- _. exact HF.
  - destruct (take_first _ (take_grantee e signers) ds) as [ds1|] eqn:HT.
    + eapply IH; [exact HQ|exact H|]. eapply take_first_Forall; [exact HT| |exact HF].
      intros d HP HQd. apply andb_prop in HP as [HP Hg]. apply andb_prop in HP as [_ Hns].
      apply negb_true_iff in Hns. auto.
    + destruct (associate_authz_for_roles e signers ds rest) as [ds2 f2] eqn:HR. injection H as <- _.
      eapply IH; eauto.
Qed.

Lemma pass_a_exists : forall (Q : details -> Prop) roles ds ds' missing,
  (forall d, Q d -> Q (mark_used d)) ->
  associate_required_roles ds roles = (ds', missing) ->
  (exists d, In d ds /\ Q d) -> exists d, In d ds' /\ Q d.
Proof.
  intros Q roles; induction roles as [|r0 rest IH]; intros ds ds' missing HQ H HE; cbn in H.
  - injection H as <- _. exact HE.
  - destruct (take_first _ mark_used ds) as [ds1|] eqn:HT.
    + eapply IH; [exact HQ|exact H|]. eapply take_first_exists; [exact HT| |exact HE]. auto.
    + destruct (associate_required_roles ds rest) as [ds2 m] eqn:HR. injection H as <- _.
      eapply IH; eauto.
Qed.

Lemma pass_b_exists : forall e signers (Q : details -> Prop) missing ds ds' flag,
  (forall d, has_signer d = false -> Q d -> Q (take_grantee e signers d)) ->
  associate_authz_for_roles e signers ds missing = (ds', flag) ->
  (exists d, In d ds /\ Q d) -> exists d, In d ds' /\ Q d.
Proof.
  intros e signers Q missing; induction missing as [|r0 rest IH]; intros ds ds' flag HQ H HE; cbn in H.
  - injection H as <- _. exact HE.
  - destruct (take_first _ (take_grantee e signers) ds) as [ds1|] eqn:HT.
    + eapply IH; [exact HQ|exact H|]. eapply take_first_exists; [exact HT| |exact HE].
      intros d HP HQd. apply andb_prop in HP as [HP _]. apply andb_prop in HP as [_ Hns].
      apply negb_true_iff in Hns. auto.
    + destruct (associate_authz_for_roles e signers ds rest) as [ds2 f2] eqn:HR. injection H as <- _.
      eapply IH; eauto.
Qed.

Lemma pass_b_keys : forall e signers missing ds ds' flag,
  associate_authz_for_roles e signers ds missing = (ds', flag) -> map key ds' = map key ds.
Proof.
  intros e signers missing; induction missing as [|r0 rest IH]; intros ds ds' flag H; cbn in H.
  - now injection H as <- _.
  - destruct (take_first _ (take_grantee e signers) ds) as [ds1|] eqn:HT.
    + rewrite (IH _ _ _ H). eapply take_first_keys; [|exact HT].
      intros d. unfold take_grantee. destruct (find_grantee e (d_addr d) signers); reflexivity.
    + destruct (associate_authz_for_roles e signers ds rest) as [ds2 f2] eqn:HR. injection H as <- _.
      eauto.
Qed.

(** ** The final party details: what the later checks (PROVENANCE rule, used signers) rely on. *)
Definition final_ok (e : env) (signers : list Z) (req avail : list party) (ds : list details) : Prop :=
  (forall d, In d ds -> (d_can d = true <-> PAof avail (key d))) /\
  (forall k, In k (map key ds) <-> PAof avail k \/ PQof req k) /\
  (forall d s, In d ds -> d_signer d = Some s ->
     In s signers /\ (s = d_addr d \/ granted e (d_addr d) s = true)) /\
  (forall k, PAof avail k \/ PQof req k -> In (fst k) signers ->
     exists d, In d ds /\ d_signer d = Some (fst k)).

Definition QF (e : env) (signers : list Z) (avail : list party) (d : details) : Prop :=
  (d_can d = true <-> PAof avail (key d)) /\
  (forall s, d_signer d = Some s -> In s signers /\ (s = d_addr d \/ granted e (d_addr d) s = true)).

Lemma take_grantee_key : forall e signers d, key (take_grantee e signers d) = key d.
Proof. intros; unfold take_grantee; destruct (find_grantee e (d_addr d) signers); reflexivity. Qed.

Theorem all_required_parties_signed_spec : forall e req avail roles signers,
  (exists ds, validate_all_required_parties_signed e req avail roles signers = Some ds) <->
  ((forall p, In p req -> p_opt p = false -> covered e signers (p_addr p)) /\
   role_assignment (covered e signers) avail roles).
Proof.
  intros e req avail roles signers. unfold validate_all_required_parties_signed.
  rewrite sign_pass_map.
  pose proof (sign_pass_inv e signers _ _ _ (build_inv req avail)) as HI.
  set (ds2 := map (sign1 e signers) (build_party_details req avail)) in *.
  rewrite <- (unsigned_required_nil _ _ _ _ _ HI), <- (counts_assignment _ _ _ _ roles _ HI).
  destruct (unsigned_required ds2) as [|u t] eqn:HU.
  - destruct (associate_required_roles ds2 roles) as [ds3 missing] eqn:HA.
    destruct (associate_authz_for_roles e signers ds3 missing) as [ds4 flag] eqn:HB.
    pose proof (greedy_counts e signers _ _ _ _ _ _ HA HB) as HG.
    destruct flag.
    + split; [intros (ds & Hd); discriminate|]. intros [_ Hc]. apply HG in Hc. discriminate.
    + split; [intros _; split; auto; now apply HG|]. intros _. now exists ds4.
  - split; [intros (ds & Hd); discriminate|]. intros [Hn _]. discriminate.
Qed.

Theorem all_required_parties_signed_final : forall e req avail roles signers ds,
  validate_all_required_parties_signed e req avail roles signers = Some ds ->
  final_ok e signers req avail ds.
Proof.
  intros e req avail roles signers ds4. unfold validate_all_required_parties_signed.
  rewrite sign_pass_map.
  pose proof (sign_pass_inv e signers _ _ _ (build_inv req avail)) as (Hnd & Hall & Hk).
  set (ds2 := map (sign1 e signers) (build_party_details req avail)) in *.
  destruct (unsigned_required ds2) as [|u t]; [|discriminate].
  destruct (associate_required_roles ds2 roles) as [ds3 missing] eqn:HA.
  destruct (associate_authz_for_roles e signers ds3 missing) as [ds4' flag] eqn:HB.
  destruct flag; [discriminate|]. intros H; injection H as <-.
  assert (Hkeys : map key ds4' = map key ds2).
  { rewrite (pass_b_keys _ _ _ _ _ _ HB). now destruct (pass_a_counts e signers _ _ _ _ HA) as (_ & _ & _ & _ & K). }
  assert (HQ2 : Forall (QF e signers avail) ds2).
  { apply Forall_forall. intros d Hd. destruct (Hall d Hd) as (_ & Hs & Hcan & _). split; auto.
    intros s Hss. rewrite Hs in Hss. unfold sig_of in Hss.
    destruct (mem (d_addr d) signers) eqn:Hm.
    - injection Hss as <-. split; [now apply mem_In|now left].
    - destruct (negb (d_opt d)); [|discriminate].
      apply find_grantee_some in Hss as [H1 H2]. split; auto. }
  assert (HQ4 : Forall (QF e signers avail) ds4').
  { eapply pass_b_Forall; [|exact HB|].
    - intros d Hns Hg (Hc & Hsg). unfold take_grantee. unfold has_grantee in Hg.
      destruct (find_grantee e (d_addr d) signers) as [g|] eqn:Hf; [|discriminate].
      split; [exact Hc|]. cbn. intros s Hs. injection Hs as <-.
      apply find_grantee_some in Hf as [H1 H2]. split; auto.
    - eapply pass_a_Forall; [|exact HA|exact HQ2]. intros d (Hc & Hsg). split; auto. }
  rewrite Forall_forall in HQ4.
  split; [|split; [|split]].
  - intros d Hd. apply (HQ4 d Hd).
  - intros k. rewrite Hkeys. apply Hk.
  - intros d s Hd Hs. apply (HQ4 d Hd). exact Hs.
  - intros k Hkk Hsig.
    assert (Hin : In k (map key ds2)) by (apply Hk; exact Hkk).
    apply in_map_iff in Hin as (d & Hkd & Hd).
    assert (H2 : exists d, In d ds2 /\ d_signer d = Some (fst k)).
    { exists d. split; auto. destruct (Hall d Hd) as (_ & Hs & _). rewrite Hs. unfold sig_of.
      assert (d_addr d = fst k) by (rewrite <- Hkd; reflexivity).
      rewrite H. apply mem_In in Hsig. now rewrite Hsig. }
    eapply pass_b_exists; [|exact HB|].
    + intros x Hns Hx. unfold has_signer in Hns. rewrite Hx in Hns. discriminate.
    + eapply pass_a_exists; [|exact HA|exact H2]. intros x Hx. exact Hx.
Qed.

Lemma used_signers_In : forall ds s, In s (used_signers ds) <-> exists d, In d ds /\ d_signer d = Some s.
Proof.
  intros ds s. unfold used_signers. rewrite in_flat_map. split.
  - intros (d & Hd & Hs). exists d. split; auto. destruct (d_signer d); [|destruct Hs].
    destruct Hs as [->|[]]. reflexivity.
  - intros (d & Hd & Hs). exists d. split; auto. rewrite Hs. now left.
Qed.

Lemma considered_keys : forall req avail k,
  (PAof avail k \/ PQof req k) <-> In k (map pkey (considered req avail)).
Proof.
  intros req avail k. unfold PAof, PQof, considered, nonopt. rewrite map_app, in_app_iff. tauto.
Qed.

Lemma provenance_role_spec : forall e signers req avail ds,
  final_ok e signers req avail ds ->
  (validate_provenance_role e ds = true <-> provenance_rule e avail).
Proof.
  intros e signers req avail ds (Hcan & Hk & _ & _). unfold validate_provenance_role, provenance_rule.
  rewrite forallb_forall. split.
  - intros H p Hp.
    assert (Hin : In (pkey p) (map key ds)) by (apply Hk; left; now apply in_map).
    apply in_map_iff in Hin as (d & Hkd & Hd).
    specialize (H d Hd).
    assert (Hc : d_can d = true) by (apply (Hcan d Hd); rewrite Hkd; now apply in_map).
    rewrite Hc in H. apply eqb_prop in H.
    assert (d_addr d = p_addr p /\ d_role d = p_role p) as [Ha Hr]
      by (unfold key, pkey in Hkd; split; congruence).
    rewrite Ha, Hr in H. rewrite H. apply Z.eqb_eq.
  - intros H d Hd. destruct (d_can d) eqn:Hc; auto.
    apply (Hcan d Hd) in Hc. unfold PAof in Hc. apply in_map_iff in Hc as (p & Hkp & Hp).
    specialize (H p Hp).
    assert (d_addr d = p_addr p /\ d_role d = p_role p) as [Ha Hr]
      by (unfold key, pkey in Hkp; split; congruence).
    rewrite Ha, Hr. apply eqb_true_iff. apply eq_true_iff_eq. rewrite H. symmetry. apply Z.eqb_eq.
Qed.

(** ** ValidateSignersWithParties *)
Theorem with_parties_sound : forall e req avail roles signers,
  validate_signers_with_parties e req avail roles signers = true ->
  (forall p, In p req -> p_opt p = false -> covered e signers (p_addr p)) /\
  role_assignment (covered e signers) avail roles /\
  provenance_rule e avail /\
  contract_rule e (stands_for_party e req avail) signers.
Proof.
  intros e req avail roles signers H. unfold validate_signers_with_parties in H.
  destruct (validate_all_required_parties_signed e req avail roles signers) as [ds|] eqn:HV;
    [|discriminate].
  apply andb_prop in H as [Hp Hc].
  pose proof (all_required_parties_signed_final _ _ _ _ _ _ HV) as HF.
  destruct (proj1 (all_required_parties_signed_spec e req avail roles signers)) as [H1 H2];
    [now exists ds|].
  split; auto. split; auto. split; [now apply (provenance_role_spec _ _ _ _ _ HF)|].
  apply sc_loop_spec in Hc. eapply contract_rule_mono; [|exact Hc].
  intros s _ Hs. apply used_signers_In in Hs as (d & Hd & Hsd).
  destruct HF as (_ & Hk & Hsg & _).
  destruct (Hsg d s Hd Hsd) as [_ Hor].
  assert (Hkin : In (key d) (map pkey (considered req avail))).
  { apply considered_keys. apply Hk. now apply in_map. }
  apply in_map_iff in Hkin as (p & Hkp & Hpin).
  exists p. split; auto.
  assert (Hpa : p_addr p = d_addr d) by (unfold key, pkey in Hkp; congruence).
  rewrite Hpa. destruct Hor as [->|Hg]; auto.
Qed.

Theorem with_parties_complete : forall e req avail roles signers,
  (forall p, In p req -> p_opt p = false -> covered e signers (p_addr p)) ->
  role_assignment (covered e signers) avail roles ->
  provenance_rule e avail ->
  contract_rule e (is_party_signer req avail) signers ->
  validate_signers_with_parties e req avail roles signers = true.
Proof.
  intros e req avail roles signers H1 H2 H3 H4. unfold validate_signers_with_parties.
  destruct (proj2 (all_required_parties_signed_spec e req avail roles signers) (conj H1 H2))
    as (ds & HV).
  rewrite HV.
  pose proof (all_required_parties_signed_final _ _ _ _ _ _ HV) as HF.
  apply andb_true_intro. split; [now apply (provenance_role_spec _ _ _ _ _ HF)|].
  apply sc_loop_spec. eapply contract_rule_mono; [|exact H4].
  intros s Hs (p & Hp & Ha). apply used_signers_In.
  destruct HF as (_ & _ & _ & Hdir).
  destruct (Hdir (pkey p)) as (d & Hd & Hsd).
  - apply considered_keys. now apply in_map.
  - cbn. now rewrite Ha.
  - exists d. split; auto. cbn in Hsd. now rewrite Ha in Hsd.
Qed.

(** ** ValidateSignersWithoutParties *)
Lemma without_details : forall e required signers ds,
  validate_all_required_signed e required signers = Some ds ->
  (forall a, In a required -> covered e signers a) /\
  (forall s, In s (used_signers ds) ->
     In s signers /\ exists a, In a required /\ (a = s \/ granted e a s = true)) /\
  (forall a, In a required -> In a signers -> In a (used_signers ds)).
Proof.
  intros e required signers ds H. unfold validate_all_required_signed in H.
  set (ds1 := associate_signers signers (map wrap_addr required)) in *.
  assert (Hds2 : exists ds2, ds = ds2 /\ unsigned_required ds2 = [] /\
            (ds2 = ds1 \/ ds2 = associate_authz_required e signers ds1)).
  { destruct (unsigned_required ds1) eqn:HU.
    - rewrite HU in H. injection H as <-. exists ds1. auto.
    - destruct (unsigned_required (associate_authz_required e signers ds1)) eqn:HU2; [|discriminate].
      injection H as <-. eexists. split; [reflexivity|]. auto. }
  destruct Hds2 as (ds2 & -> & HU & Hor).
  (* every element of ds2 comes from a required address and carries sig_of *)
  assert (Hchar : forall d, In d ds2 -> In (d_addr d) required /\ d_opt d = false /\
             (forall s, d_signer d = Some s -> In s signers /\ (s = d_addr d \/ granted e (d_addr d) s = true))).
  { intros d Hd. destruct Hor as [->| ->].
    - unfold ds1, associate_signers in Hd. rewrite map_map in Hd. apply in_map_iff in Hd as (a & <- & Ha).
      cbn. destruct (mem a signers) eqn:Hm; cbn; (split; [exact Ha|]); (split; [reflexivity|]);
        intros s Hs; [|discriminate].
      injection Hs as <-. split; [now apply mem_In|now left].
    - unfold ds1 in Hd. rewrite sign_pass_map, map_map in Hd. apply in_map_iff in Hd as (a & <- & Ha).
      destruct (sign1_facts e signers (wrap_addr a) eq_refl) as (F1 & F2 & F3 & F4 & F5 & F6).
      rewrite F2, F3. cbn. split; [exact Ha|]. split; [reflexivity|].
      intros s Hs. rewrite F6 in Hs. unfold sig_of in Hs.
      rewrite F2, F3 in Hs. cbn in Hs. destruct (mem a signers) eqn:Hm.
      + injection Hs as <-. split; [now apply mem_In|now left].
      + apply find_grantee_some in Hs as [H1 H2]. split; auto. }
  assert (Hall : forall a, In a required -> exists d, In d ds2 /\ d_addr d = a /\
             (In a signers -> d_signer d = Some a)).
  { intros a Ha. destruct Hor as [->| ->].
    - exists (if mem a signers then set_signer a (wrap_addr a) else wrap_addr a). split.
      + unfold ds1, associate_signers. rewrite map_map. apply in_map_iff. exists a. split; auto.
      + destruct (mem a signers) eqn:Hm; cbn; split; auto. intros Hin. apply mem_In in Hin. congruence.
    - exists (sign1 e signers (wrap_addr a)). split.
      + unfold ds1. rewrite sign_pass_map, map_map. apply in_map_iff. exists a. split; auto.
      + destruct (sign1_facts e signers (wrap_addr a) eq_refl) as (F1 & F2 & F3 & F4 & F5 & F6).
        split; [exact F2|]. intros Hin. rewrite F6. unfold sig_of. rewrite F2. cbn.
        apply mem_In in Hin. now rewrite Hin. }
  split; [|split].
  - intros a Ha. destruct (Hall a Ha) as (d & Hd & Hda & _).
    destruct (Hchar d Hd) as (_ & Ho & Hsg).
    destruct (d_signer d) as [s|] eqn:Hs.
    + destruct (Hsg s eq_refl) as [Hin [->|Hg]]; [left; congruence|].
      right. exists s. split; auto. now rewrite <- Hda.
    + exfalso. assert (In d (unsigned_required ds2)).
      { unfold unsigned_required. apply filter_In. split; auto.
        unfold is_required, has_signer. now rewrite Ho, Hs. }
      rewrite HU in H0. destruct H0.
  - intros s Hs. apply used_signers_In in Hs as (d & Hd & Hsd).
    destruct (Hchar d Hd) as (Hreq & _ & Hsg). destruct (Hsg s Hsd) as [Hin Hor'].
    split; auto. exists (d_addr d). split; auto. destruct Hor'; auto.
  - intros a Ha Hin. apply used_signers_In. destruct (Hall a Ha) as (d & Hd & _ & Hs). exists d. auto.
Qed.

Lemma without_exists : forall e required signers,
  (forall a, In a required -> covered e signers a) ->
  exists ds, validate_all_required_signed e required signers = Some ds.
Proof.
  intros e required signers Hcov. unfold validate_all_required_signed.
  set (ds1 := associate_signers signers (map wrap_addr required)).
  assert (HU2 : unsigned_required (associate_authz_required e signers ds1) = []).
  { unfold unsigned_required. destruct (filter _ _) as [|d t] eqn:Hf; auto. exfalso.
    assert (Hd : In d (filter (fun d => is_required d && negb (has_signer d))
                         (associate_authz_required e signers ds1))) by (rewrite Hf; now left).
    apply filter_In in Hd as [Hd Hx]. unfold ds1 in Hd. rewrite sign_pass_map, map_map in Hd.
    apply in_map_iff in Hd as (a & <- & Ha).
    destruct (sign1_facts e signers (wrap_addr a) eq_refl) as (F1 & F2 & F3 & F4 & F5 & F6).
    apply andb_prop in Hx as [_ Hns]. apply negb_true_iff in Hns.
    rewrite (sig_has_signer _ _ _ F6), F2, F3 in Hns. cbn in Hns.
    specialize (Hcov a Ha). apply covered_b_spec in Hcov. unfold covered_b in Hcov.
    unfold has_grantee in Hns. rewrite F2 in Hns. cbn in Hns.
    unfold find_grantee in Hns. rewrite find_existsb in Hns. congruence. }
  destruct (unsigned_required ds1) eqn:HU.
  - rewrite HU. now exists ds1.
  - rewrite HU2. eexists; reflexivity.
Qed.

Theorem without_parties_sound : forall e required signers,
  validate_signers_without_parties e required signers = true ->
  (forall a, In a required -> covered e signers a) /\
  contract_rule e (fun s => exists a, In a required /\ (a = s \/ granted e a s = true)) signers.
Proof.
  intros e required signers H. unfold validate_signers_without_parties in H.
  destruct (validate_all_required_signed e required signers) as [ds|] eqn:HV; [|discriminate].
  destruct (without_details _ _ _ _ HV) as (H1 & H2 & _). split; auto.
  apply sc_loop_spec in H. eapply contract_rule_mono; [|exact H].
  intros s _ Hs. now apply H2.
Qed.

Theorem without_parties_complete : forall e required signers,
  (forall a, In a required -> covered e signers a) ->
  contract_rule e (fun s => In s required) signers ->
  validate_signers_without_parties e required signers = true.
Proof.
  intros e required signers H1 H2. unfold validate_signers_without_parties.
  destruct (without_exists _ _ _ H1) as (ds & HV). rewrite HV.
  destruct (without_details _ _ _ _ HV) as (_ & _ & H3).
  apply sc_loop_spec. eapply contract_rule_mono; [|exact H2].
  intros s Hs Hr. now apply H3.
Qed.
