(** Proofs about [PV.Exchange.FeeCheck], [PV.Exchange.ReqAttr] against [PV.Exchange.AdmitSpec]
    (property C20). *)
From Coq Require Import ZArith List Bool String Ascii Lia ZifyBool Permutation Arith.
From PV Require Import Exchange.Arith Proofs.ArithProofs Exchange.ReqAttr Exchange.FeeCheck Exchange.AdmitSpec.
Import ListNotations.
Open Scope Z_scope.
Ltac Zify.zify_post_hook ::= Z.div_mod_to_equations.

(** ** Well-formedness of what Market.Validate lets through *)
Definition ratio_wf (r : ratio) : Prop := 0 < r_pa r /\ 0 <= r_fa r.
Definition ratios_wf (rs : list ratio) : Prop := Forall ratio_wf rs.
Definition flats_wf (opts : list coin) : Prop := NoDup (map fst opts).

Definition market_wf (m : market) : Prop :=
  flats_wf (m_create_ask m) /\ flats_wf (m_create_bid m) /\ flats_wf (m_create_com m) /\
  flats_wf (m_seller_flat m) /\ flats_wf (m_buyer_flat m) /\
  ratios_wf (m_seller_ratios m) /\ ratios_wf (m_buyer_ratios m).

(** ** Lookups *)
Lemma get_flat_in opts d f : get_flat opts d = Some f -> In (d, f) opts.
Proof.
  induction opts as [|[d' a] r IH]; cbn [get_flat]; [discriminate|].
  destruct (String.eqb_spec d' d) as [->|N]; intros H.
  - injection H as ->. left; reflexivity.
  - right; auto.
Qed.

Lemma in_get_flat opts d f : flats_wf opts -> In (d, f) opts -> get_flat opts d = Some f.
Proof.
  unfold flats_wf. induction opts as [|[d' a] r IH]; cbn [get_flat map fst]; intros ND HI; [contradiction|].
  inversion ND as [|? ? Hn ND']; subst.
  destruct HI as [E|HI].
  - injection E as -> ->. rewrite String.eqb_refl. reflexivity.
  - destruct (String.eqb_spec d' d) as [->|N]; [|auto].
    exfalso. apply Hn. change d with (fst (d, f)). apply in_map. assumption.
Qed.

Lemma get_ratio_spec rs pd fd r :
  get_ratio rs pd fd = Some r -> In r rs /\ r_pd r = pd /\ r_fd r = fd.
Proof.
  induction rs as [|r' rest IH]; cbn [get_ratio]; [discriminate|].
  destruct (String.eqb_spec (r_pd r') pd) as [E1|N1]; cbn [andb].
  - destruct (String.eqb_spec (r_fd r') fd) as [E2|N2].
    + intros [= ->]. repeat split; auto. left; reflexivity.
    + intros H. destruct (IH H) as (? & ? & ?). repeat split; auto. right; assumption.
  - intros H. destruct (IH H) as (? & ? & ?). repeat split; auto. right; assumption.
Qed.

Lemma get_ratio_wf rs pd fd r : ratios_wf rs -> get_ratio rs pd fd = Some r -> ratio_wf r.
Proof.
  intros W H. destruct (get_ratio_spec _ _ _ _ H) as (HI & _).
  unfold ratios_wf in W. rewrite Forall_forall in W. auto.
Qed.

Lemma nonempty_false {A} (l : list A) : nonempty l = false <-> l = [].
Proof. destruct l; cbn; split; congruence. Qed.
Lemma nonempty_true {A} (l : list A) : nonempty l = true <-> l <> [].
Proof. destruct l; cbn; split; congruence. Qed.

(** ** The ratio charge is the ceiling *)
Lemma ceil_div_bounds a b : 0 < b -> b * (ceil_div a b - 1) < a <= b * ceil_div a b.
Proof. intros Hb. unfold ceil_div. nia. Qed.

Lemma ceil_unique b a x y :
  0 < b -> b * (x - 1) < a <= b * x -> b * (y - 1) < a <= b * y -> x = y.
Proof. intros. nia. Qed.

Lemma apply_to_loosely_charge r p :
  ratio_wf r -> 0 <= p ->
  apply_to_loosely (r_pa r) (r_fa r) p = ratio_charge r p.
Proof.
  intros [Hp Hf] Hpp. unfold ratio_charge. replace (0 <? r_pa r) with true by lia.
  destruct (apply_to_loosely_some (r_pa r) (r_fa r) p Hp Hf Hpp) as (x & -> & Hb & _).
  f_equal. eapply ceil_unique; [exact Hp|exact Hb|apply ceil_div_bounds; exact Hp].
Qed.

Lemma apply_to_loosely_ceil r p :
  0 < r_pa r /\ 0 <= r_fa r -> 0 <= p ->
  apply_to_loosely (r_pa r) (r_fa r) p = Some (ceil_div (p * r_fa r) (r_pa r)).
Proof.
  intros W Hp. rewrite (apply_to_loosely_charge r p W Hp). unfold ratio_charge.
  destruct W as [W1 W2]. replace (0 <? r_pa r) with true by lia. reflexivity.
Qed.

(** ** Flat fees *)
Lemma flat_fee_iff opts fee :
  validate_flat_fee opts fee = true <->
  opts = [] \/ exists d a f, fee = Some (d, a) /\ get_flat opts d = Some f /\ f <= a.
Proof.
  unfold validate_flat_fee. destruct opts as [|o r] eqn:E.
  - cbn. split; auto.
  - rewrite <- E. replace (nonempty opts) with true by (subst; reflexivity). cbn [negb].
    split.
    + intros H. right. destruct fee as [[d a]|]; [|discriminate].
      destruct (get_flat opts d) as [f|] eqn:G; [|discriminate].
      exists d, a, f. repeat split; auto. lia.
    + intros [H|(d & a & f & -> & G & L)]; [subst; discriminate|].
      rewrite G. lia.
Qed.

Lemma flat_fee_spec_eq opts fee :
  flats_wf opts -> validate_flat_fee opts fee = flat_fee_spec opts fee.
Proof.
  intros W. apply eq_true_iff_eq. rewrite flat_fee_iff.
  unfold flat_fee_spec. destruct opts as [|o r] eqn:E.
  - split; auto.
  - rewrite <- E in *. split.
    + intros [H|(d & a & f & -> & G & L)]; [subst; discriminate|].
      apply existsb_exists. exists (d, f). split; [apply get_flat_in; assumption|].
      unfold denom_of, amt_of; cbn [fst snd]. rewrite String.eqb_refl. lia.
    + intros H. right. destruct fee as [[d a]|]; [|discriminate].
      apply existsb_exists in H. destruct H as ([d' f] & HI & H).
      unfold denom_of, amt_of in H; cbn [fst snd] in H.
      apply andb_true_iff in H. destruct H as [H1 H2]. apply String.eqb_eq in H1. subst d'.
      exists d, a, f. repeat split; [apply in_get_flat; assumption|lia].
Qed.

(** ** Buyer settlement fee *)
Ltac cmp_step :=
  match goal with
  | |- context [Z.ltb ?a ?b] => destruct (Z.ltb_spec a b)
  | |- context [Z.leb ?a ?b] => destruct (Z.leb_spec a b)
  end.
Ltac cmp_destr := repeat (cbn; cmp_step); cbn.

Section Buyer.
  Variable flats : list coin.
  Variable rs : list ratio.
  Variable price : coin.
  Hypothesis Wr : ratios_wf rs.
  Hypothesis Wp : 0 <= amt_of price.

  Let F c := is_some (covers_flat flats c).
  Let R c := is_some (covers_ratio rs price c).
  Let B c := covers_both flats rs price c.

  Lemma buyer_step_both fo ro c :
    flats <> [] -> rs <> [] ->
    buyer_step flats rs price fo ro c =
    if (F c && ro) || (R c && fo) || B c then BDone else BCont (fo || F c) (ro || R c).
  Proof.
    intros Hf Hr. unfold buyer_step, F, R, B, covers_both, covers_flat, covers_ratio, flat_part, ratio_part.
    apply nonempty_true in Hf. apply nonempty_true in Hr. rewrite Hf, Hr. cbn [negb].
    destruct (get_flat flats (denom_of c)) as [f|];
    destruct (get_ratio rs (denom_of price) (denom_of c)) as [r|] eqn:G;
      try rewrite (apply_to_loosely_charge r (amt_of price) (get_ratio_wf _ _ _ _ Wr G) Wp);
      try destruct (ratio_charge r (amt_of price)) as [x|];
      destruct fo, ro; cmp_destr; try reflexivity; try lia.
  Qed.

  Lemma buyer_loop_both fee : flats <> [] -> rs <> [] -> forall fo ro,
    buyer_loop flats rs price fee fo ro =
    (fo && existsb R fee) || (ro && existsb F fee) || existsb B fee || two_coins F R fee.
  Proof.
    intros Hf Hr. induction fee as [|c r IH]; intros fo ro; cbn [buyer_loop existsb two_coins].
    - destruct fo, ro; reflexivity.
    - rewrite buyer_step_both by assumption.
      destruct ((F c && ro) || (R c && fo) || B c) eqn:D.
      + destruct (F c), (R c), (B c), fo, ro; cbn in D; try discriminate; cbn;
          repeat rewrite orb_true_r; try reflexivity;
          destruct (existsb R r), (existsb F r), (existsb B r), (two_coins F R r); reflexivity.
      + rewrite IH.
        destruct (F c), (R c), (B c), fo, ro; cbn in D; try discriminate; cbn;
          destruct (existsb R r), (existsb F r), (existsb B r), (two_coins F R r); reflexivity.
  Qed.

  Lemma buyer_loop_flat_only fee : flats <> [] -> rs = [] -> forall fo ro,
    buyer_loop flats rs price fee fo ro = existsb F fee.
  Proof.
    intros Hf Hr. subst rs. induction fee as [|c r IH]; intros fo ro; cbn [buyer_loop existsb]; [reflexivity|].
    unfold buyer_step, flat_part, ratio_part. apply nonempty_true in Hf. rewrite Hf. cbn [nonempty negb].
    unfold F at 1, covers_flat.
    destruct (get_flat flats (denom_of c)) as [f|].
    - destruct (Z.ltb_spec (amt_of c) f); destruct (Z.leb_spec f (amt_of c)); try lia; cbn; auto.
    - cbn. auto.
  Qed.

  Lemma buyer_loop_ratio_only fee : flats = [] -> rs <> [] -> forall fo ro,
    buyer_loop flats rs price fee fo ro = existsb R fee.
  Proof.
    intros Hf Hr. induction fee as [|c r IH]; intros fo ro; cbn [buyer_loop existsb]; [reflexivity|].
    unfold buyer_step, flat_part, ratio_part. apply nonempty_true in Hr. rewrite Hr. subst flats. cbn [nonempty negb].
    unfold R at 1, covers_ratio.
    destruct (get_ratio rs (denom_of price) (denom_of c)) as [r'|] eqn:G.
    - rewrite (apply_to_loosely_charge r' (amt_of price) (get_ratio_wf _ _ _ _ Wr G) Wp).
      destruct (ratio_charge r' (amt_of price)) as [x|].
      + destruct (Z.ltb_spec (amt_of c) x); destruct (Z.leb_spec x (amt_of c)); try lia; cbn; auto.
      + cbn. auto.
    - cbn. auto.
  Qed.

End Buyer.

Lemma buyer_fee_spec_eq flats rs price fee :
  ratios_wf rs -> 0 <= amt_of price ->
  validate_buyer_settlement_fee flats rs price fee = buyer_fee_spec flats rs price fee.
Proof.
  intros Wr Wp. unfold validate_buyer_settlement_fee, buyer_fee_spec.
  destruct flats as [|f0 fl] eqn:Ef; destruct rs as [|r0 rl] eqn:Er; cbn [nonempty negb andb].
  - reflexivity.
  - rewrite <- Er in *. rewrite buyer_loop_ratio_only by (assumption || subst; congruence). reflexivity.
  - rewrite <- Ef in *. rewrite buyer_loop_flat_only by (assumption || subst; congruence). reflexivity.
  - rewrite <- Er, <- Ef in *. rewrite buyer_loop_both by (assumption || subst; congruence). reflexivity.
Qed.


(** *** The declarative reading of [buyer_fee_spec] *)
Definition flat_covered (flats : list coin) (c : coin) (f : Z) : Prop :=
  get_flat flats (denom_of c) = Some f /\ f <= amt_of c.
Definition ratio_covered (rs : list ratio) (price c : coin) (x : Z) : Prop :=
  exists r, get_ratio rs (denom_of price) (denom_of c) = Some r /\
            x = ceil_div (amt_of price * r_fa r) (r_pa r) /\ x <= amt_of c.

Lemma covers_flat_iff flats c f : covers_flat flats c = Some f <-> flat_covered flats c f.
Proof.
  unfold covers_flat, flat_covered. destruct (get_flat flats (denom_of c)) as [f'|].
  - destruct (Z.leb_spec f' (amt_of c)); split.
    + intros [= ->]. auto.
    + intros [[= ->] _]. reflexivity.
    + discriminate.
    + intros [[= ->] ?]. lia.
  - split; [discriminate|intros [? _]; discriminate].
Qed.

Lemma covers_ratio_iff rs price c x :
  ratios_wf rs -> (covers_ratio rs price c = Some x <-> ratio_covered rs price c x).
Proof.
  intros W. unfold covers_ratio, ratio_covered.
  destruct (get_ratio rs (denom_of price) (denom_of c)) as [r|] eqn:G.
  - destruct (get_ratio_wf _ _ _ _ W G) as [Hp Hf].
    unfold ratio_charge. replace (0 <? r_pa r) with true by lia.
    destruct (Z.leb_spec (ceil_div (amt_of price * r_fa r) (r_pa r)) (amt_of c)); split.
    + intros [= <-]. exists r. auto.
    + intros (r' & [= <-] & -> & _). reflexivity.
    + discriminate.
    + intros (r' & [= <-] & -> & ?). lia.
  - split; [discriminate|intros (r' & ? & _); discriminate].
Qed.

Lemma is_some_iff {A} (o : option A) : is_some o = true <-> exists x, o = Some x.
Proof. destruct o; cbn; split; eauto; try discriminate. intros [? ?]; discriminate. Qed.

Lemma coin_eq_dec (a b : coin) : {a = b} + {a <> b}.
Proof. decide equality; [apply Z.eq_dec|apply string_dec]. Qed.

Lemma two_coins_intro F R l c1 c2 :
  In c1 l -> In c2 l -> c1 <> c2 -> F c1 = true -> R c2 = true -> two_coins F R l = true.
Proof.
  induction l as [|c r IH]; intros H1 H2 N HF HR; [contradiction|]. cbn [two_coins].
  destruct H1 as [->|H1], H2 as [->|H2].
  - congruence.
  - rewrite HF. replace (existsb R r) with true; [reflexivity|].
    symmetry. apply existsb_exists. eauto.
  - rewrite HR. replace (existsb F r) with true; [apply orb_true_iff; left; apply orb_true_r|].
    symmetry. apply existsb_exists. eauto.
  - rewrite IH by assumption. apply orb_true_r.
Qed.

Lemma two_coins_elim F R l :
  NoDup l -> two_coins F R l = true ->
  exists c1 c2, In c1 l /\ In c2 l /\ c1 <> c2 /\ F c1 = true /\ R c2 = true.
Proof.
  induction l as [|c r IH]; intros ND H; [discriminate|]. cbn [two_coins] in H.
  inversion ND as [|? ? Hn ND']; subst.
  apply orb_true_iff in H. destruct H as [H|H]; [apply orb_true_iff in H; destruct H as [H|H]|].
  - apply andb_true_iff in H. destruct H as [HF HE]. apply existsb_exists in HE. destruct HE as (c2 & HI & HR).
    exists c, c2. repeat split; auto; [left; reflexivity|right; assumption|]. intros ->. contradiction.
  - apply andb_true_iff in H. destruct H as [HR HE]. apply existsb_exists in HE. destruct HE as (c1 & HI & HF).
    exists c1, c. repeat split; auto; [right; assumption|left; reflexivity|]. intros ->. contradiction.
  - destruct (IH ND' H) as (c1 & c2 & H1 & H2 & N & HF & HR).
    exists c1, c2. repeat split; auto; right; assumption.
Qed.

Lemma buyer_fee_iff flats rs price fee :
  ratios_wf rs -> 0 <= amt_of price -> NoDup fee ->
  (validate_buyer_settlement_fee flats rs price fee = true <->
   (flats = [] /\ rs = []) \/
   (flats <> [] /\ rs = [] /\ exists c f, In c fee /\ flat_covered flats c f) \/
   (flats = [] /\ rs <> [] /\ exists c x, In c fee /\ ratio_covered rs price c x) \/
   (flats <> [] /\ rs <> [] /\
    exists c1 c2 f x, In c1 fee /\ In c2 fee /\ flat_covered flats c1 f /\ ratio_covered rs price c2 x /\
                      (c1 = c2 -> f + x <= amt_of c1))).
Proof.
  intros W Hp ND. rewrite buyer_fee_spec_eq by assumption. unfold buyer_fee_spec.
  destruct flats as [|f0 fl] eqn:Ef; destruct rs as [|r0 rl] eqn:Er; rewrite <- ?Ef, <- ?Er in *.
  - split; [intros _; left; auto|reflexivity].
  - split.
    + intros H. right; right; left. repeat split; try (subst; congruence).
      apply existsb_exists in H. destruct H as (c & HI & H). apply is_some_iff in H. destruct H as [x H].
      exists c, x. split; [assumption|]. apply covers_ratio_iff; assumption.
    + intros [[_ H]|[(_ & H & _)|[(_ & _ & c & x & HI & H)|(H & _)]]]; try (subst; congruence).
      apply existsb_exists. exists c. split; [assumption|]. apply is_some_iff. exists x. apply covers_ratio_iff; assumption.
  - split.
    + intros H. right; left. repeat split; try (subst; congruence).
      apply existsb_exists in H. destruct H as (c & HI & H). apply is_some_iff in H. destruct H as [x H].
      exists c, x. split; [assumption|]. apply covers_flat_iff; assumption.
    + intros [[H _]|[(_ & _ & c & x & HI & H)|[(H & _)|(_ & H & _)]]]; try (subst; congruence).
      apply existsb_exists. exists c. split; [assumption|]. apply is_some_iff. exists x. apply covers_flat_iff; assumption.
  - split.
    + intros H. right; right; right. repeat split; try (subst; congruence).
      apply orb_true_iff in H. destruct H as [H|H].
      * apply existsb_exists in H. destruct H as (c & HI & H). unfold covers_both in H.
        destruct (covers_flat flats c) as [f|] eqn:CF; [|discriminate].
        destruct (covers_ratio rs price c) as [x|] eqn:CR; [|discriminate].
        apply covers_flat_iff in CF. apply covers_ratio_iff in CR; [|assumption].
        exists c, c, f, x. do 4 (split; [assumption|]). intros _. lia.
      * destruct (two_coins_elim _ _ _ ND H) as (c1 & c2 & H1 & H2 & N & HF & HR).
        apply is_some_iff in HF. destruct HF as [f HF]. apply is_some_iff in HR. destruct HR as [x HR].
        apply covers_flat_iff in HF. apply covers_ratio_iff in HR; [|assumption].
        exists c1, c2, f, x. do 4 (split; [assumption|]). intros E; contradiction.
    + intros [[H _]|[(_ & H & _)|[(H & _)|(_ & _ & c1 & c2 & f & x & H1 & H2 & HF & HR & HS)]]]; try (subst; congruence).
      apply covers_flat_iff in HF. apply covers_ratio_iff in HR; [|assumption].
      apply orb_true_iff. destruct (coin_eq_dec c1 c2) as [E|N].
      * left. subst c2. apply existsb_exists. exists c1. split; [assumption|].
        unfold covers_both. rewrite HF, HR. specialize (HS eq_refl). lia.
      * right. apply (two_coins_intro _ _ fee c1 c2 H1 H2 N); apply is_some_iff; eauto.
Qed.

(** Independence of the order in which the fee coins are offered. *)
Lemma buyer_fee_order_independent flats rs price fee fee' :
  ratios_wf rs -> 0 <= amt_of price -> NoDup fee -> Permutation fee fee' ->
  validate_buyer_settlement_fee flats rs price fee = validate_buyer_settlement_fee flats rs price fee'.
Proof.
  intros W Hp ND P. assert (ND' : NoDup fee') by (eapply Permutation_NoDup; eauto).
  apply eq_true_iff_eq. rewrite !buyer_fee_iff by assumption.
  assert (HI : forall c, In c fee <-> In c fee').
  { intros c; split; intros H; [eapply Permutation_in; eauto|eapply Permutation_in; [apply Permutation_sym; eauto|assumption]]. }
  split; (intros [H|[(H1 & H2 & c & f & Hc & H)|[(H1 & H2 & c & x & Hc & H)|(H1 & H2 & c1 & c2 & f & x & Hc1 & Hc2 & H)]]];
    [left; assumption
    |right; left; repeat split; auto; exists c, f; split; [apply HI; assumption|assumption]
    |right; right; left; repeat split; auto; exists c, x; split; [apply HI; assumption|assumption]
    |right; right; right; split; [assumption|]; split; [assumption|]; exists c1, c2, f, x;
     split; [apply HI; assumption|]; split; [apply HI; assumption|]; assumption]).
Qed.

(** ** Ask price *)
Definition flat_from_price (price : coin) (flat : option coin) : Z :=
  match flat with
  | Some c => if String.eqb (denom_of c) (denom_of price) then amt_of c else 0
  | None => 0
  end.

(** The seller ratio charge for a price: [None] when the market has seller ratios but none for the
    price denom, 0 when it has none at all. *)
Definition seller_charge (rs : list ratio) (price : coin) : option Z :=
  match get_ratio rs (denom_of price) (denom_of price) with
  | Some r => Some (ceil_div (amt_of price * r_fa r) (r_pa r))
  | None => match rs with [] => Some 0 | _ => None end
  end.

Lemma ask_price_spec_eq rs price flat :
  ratios_wf rs -> 0 <= amt_of price ->
  validate_ask_price rs price flat = ask_price_spec rs price flat.
Proof.
  intros W Hp. destruct price as [pd pa]. unfold validate_ask_price, ask_price_spec, seller_ratio.
  unfold denom_of, amt_of in *; cbn [fst snd] in *.
  destruct (get_ratio rs pd pd) as [r|] eqn:G.
  - rewrite (apply_to_loosely_charge r pa (get_ratio_wf _ _ _ _ W G) Hp).
    destruct (ratio_charge r pa) as [x|]; [|reflexivity].
    destruct flat as [[fd fa]|]; cbn [fst snd].
    + rewrite (String.eqb_sym fd pd). destruct (String.eqb pd fd); destruct (Z.eqb_spec fa 0); cbn [negb andb]; lia.
    + cbn [negb andb]. lia.
  - destruct rs as [|r0 rl]; cbn [nonempty]; [|reflexivity].
    destruct flat as [[fd fa]|]; cbn [fst snd].
    + rewrite (String.eqb_sym fd pd). destruct (String.eqb pd fd); destruct (Z.eqb_spec fa 0); cbn [negb andb];
        try (destruct (Z.leb_spec pa fa)); try reflexivity; lia.
    + reflexivity.
Qed.

Lemma ask_price_iff rs price flat :
  ratios_wf rs -> 0 < amt_of price -> 0 <= flat_from_price price flat ->
  (validate_ask_price rs price flat = true <->
   exists x, seller_charge rs price = Some x /\ flat_from_price price flat + x < amt_of price).
Proof.
  intros W Hp Hf. rewrite ask_price_spec_eq by (assumption || lia).
  unfold ask_price_spec, seller_charge, flat_from_price in *.
  destruct (get_ratio rs (denom_of price) (denom_of price)) as [r|] eqn:G.
  - destruct (get_ratio_wf _ _ _ _ W G) as [Hrp Hrf].
    unfold ratio_charge. replace (0 <? r_pa r) with true by lia.
    split.
    + intros H. eexists; split; [reflexivity|]. lia.
    + intros (x & [= <-] & H). lia.
  - destruct rs as [|r0 rl].
    + split.
      * intros H. exists 0. split; [reflexivity|]. lia.
      * intros (x & [= <-] & H). lia.
    + split; [discriminate|intros (x & H & _); discriminate].
Qed.

(** A price that covers the fees keeps covering them when the order is filled at a higher price
    (the ask price is a minimum), as long as the ratio takes at most the whole price. *)
Lemma ask_price_monotone rp rf flat p p' :
  0 < rp -> 0 <= rf <= rp -> 0 <= p <= p' ->
  flat + ceil_div (p * rf) rp < p -> flat + ceil_div (p' * rf) rp < p'.
Proof.
  intros Hrp Hrf Hp H.
  pose proof (ceil_div_bounds (p * rf) rp Hrp) as B1.
  pose proof (ceil_div_bounds (p' * rf) rp Hrp) as B2.
  set (x := ceil_div (p * rf) rp) in *. set (y := ceil_div (p' * rf) rp) in *. clearbody x y.
  assert (y <= x + (p' - p)) by nia. lia.
Qed.

(** ** Byte strings: prefix, suffix, splitting on dots *)
Lemma ascii_eqb_eq a b : Ascii.eqb a b = true <-> a = b.
Proof. apply Ascii.eqb_eq. Qed.

Lemma bytes_eqb_eq a : forall b, bytes_eqb a b = true <-> a = b.
Proof.
  induction a as [|x a IH]; intros [|y b]; cbn [bytes_eqb]; split; try congruence; try discriminate.
  - intros H. apply andb_true_iff in H. destruct H as [H1 H2]. apply Ascii.eqb_eq in H1. apply IH in H2. congruence.
  - intros [= -> ->]. rewrite Ascii.eqb_refl. apply IH. reflexivity.
Qed.

Lemma has_prefix_iff p : forall s, has_prefix p s = true <-> exists t, s = p ++ t.
Proof.
  induction p as [|x p IH]; intros s; cbn [has_prefix].
  - split; [intros _; exists s; reflexivity|reflexivity].
  - destruct s as [|y s].
    + split; [discriminate|intros [t H]; discriminate].
    + split.
      * intros H. apply andb_true_iff in H. destruct H as [H1 H2]. apply Ascii.eqb_eq in H1. apply IH in H2.
        destruct H2 as [t ->]. exists t. subst; reflexivity.
      * intros [t H]. cbn in H. injection H as -> ->. rewrite Ascii.eqb_refl. apply IH. eauto.
Qed.

Lemma has_suffix_iff suf s : has_suffix suf s = true <-> exists x, s = x ++ suf.
Proof.
  unfold has_suffix. rewrite has_prefix_iff. split.
  - intros [t H]. exists (rev t). rewrite <- (rev_involutive s), H, rev_app_distr, rev_involutive. reflexivity.
  - intros [x ->]. exists (rev x). apply rev_app_distr.
Qed.

Lemma split_dot_nonnil s : split_dot s <> [].
Proof.
  destruct s as [|c r]; cbn [split_dot]; [discriminate|].
  destruct (Ascii.eqb c dot); [discriminate|]. destruct (split_dot r); discriminate.
Qed.

Lemma split_dot_app_dot x y : split_dot (x ++ dot :: y) = split_dot x ++ split_dot y.
Proof.
  induction x as [|c x IH]; cbn [app split_dot].
  - rewrite Ascii.eqb_refl. reflexivity.
  - destruct (Ascii.eqb c dot); [rewrite IH; reflexivity|].
    rewrite IH. pose proof (split_dot_nonnil x) as N. destruct (split_dot x); [congruence|reflexivity].
Qed.

Lemma join_split s : join_dot (split_dot s) = s.
Proof.
  induction s as [|c r IH]; cbn [split_dot]; [reflexivity|].
  destruct (Ascii.eqb_spec c dot) as [->|N].
  - pose proof (split_dot_nonnil r) as NN. cbn [join_dot]. destruct (split_dot r) eqn:E; [congruence|].
    cbn [app]. rewrite IH. reflexivity.
  - pose proof (split_dot_nonnil r) as NN. destruct (split_dot r) as [|seg rest] eqn:E; [congruence|].
    cbn [join_dot] in *. destruct rest; [subst; reflexivity|]. cbn [app]. rewrite <- IH. reflexivity.
Qed.

Lemma join_app a b : a <> [] -> b <> [] -> join_dot (a ++ b) = join_dot a ++ dot :: join_dot b.
Proof.
  induction a as [|s a IH]; intros Ha Hb; [congruence|].
  destruct a as [|s' a'].
  - cbn [app join_dot]. destruct b; [congruence|reflexivity].
  - change ((s :: s' :: a') ++ b) with (s :: ((s' :: a') ++ b)).
    change (join_dot (s :: s' :: a')) with (s ++ dot :: join_dot (s' :: a')).
    assert (E : join_dot (s :: (s' :: a') ++ b) = s ++ dot :: join_dot ((s' :: a') ++ b)) by reflexivity.
    rewrite E, IH by congruence. rewrite <- app_assoc. reflexivity.
Qed.

(** The wildcard: "*." ++ base matches exactly the names made of one or more extra levels followed
    by the levels of the base. *)
Lemma wildcard_match base acc :
  is_req_attr_match (star :: dot :: base) acc = true <->
  exists extra, extra <> [] /\ split_dot acc = extra ++ split_dot base.
Proof.
  unfold is_req_attr_match. cbn [has_prefix wild_prefix skipn]. rewrite !Ascii.eqb_refl. cbn [andb].
  split.
  - destruct acc as [|a acc']; [discriminate|]. intros H. apply has_suffix_iff in H. destruct H as [x H].
    rewrite H, split_dot_app_dot. exists (split_dot x). split; [apply split_dot_nonnil|reflexivity].
  - intros (extra & Hn & H).
    assert (E : acc = join_dot extra ++ dot :: base).
    { rewrite <- (join_split acc), H, join_app by (assumption || apply split_dot_nonnil).
      rewrite join_split. reflexivity. }
    destruct acc as [|a acc']; [destruct (join_dot extra); discriminate|].
    apply has_suffix_iff. eauto.
Qed.

Lemma plain_match req acc :
  has_prefix wild_prefix req = false -> req <> [] -> acc <> [] ->
  (is_req_attr_match req acc = true <-> req = acc).
Proof.
  intros H Hr Ha. unfold is_req_attr_match. rewrite H.
  destruct req; [congruence|]. destruct acc; [congruence|]. apply bytes_eqb_eq.
Qed.

(** No name matches a wildcard requirement with zero extra levels. *)
Lemma wildcard_needs_extra_level base : is_req_attr_match (star :: dot :: base) base = false.
Proof.
  destruct (is_req_attr_match (star :: dot :: base) base) eqn:E; [|reflexivity].
  apply wildcard_match in E. destruct E as (extra & Hn & H).
  apply (f_equal (@List.length bytes)) in H. rewrite app_length in H.
  destruct extra; [congruence|]. cbn [List.length] in H. lia.
Qed.

(** *** [levels_match] (the declarative matcher) agrees with the byte-level transcription *)
Lemma list_bytes_eqb_eq a : forall b, list_bytes_eqb a b = true <-> a = b.
Proof.
  induction a as [|x a IH]; intros [|y b]; cbn [list_bytes_eqb]; split; try congruence; try discriminate.
  - intros H. apply andb_true_iff in H. destruct H as [H1 H2]. apply bytes_eqb_eq in H1. apply IH in H2. congruence.
  - intros [= -> ->]. apply andb_true_iff. split; [apply bytes_eqb_eq|apply IH]; reflexivity.
Qed.

Lemma split_dot_wild rest : split_dot (star :: dot :: rest) = [star] :: split_dot rest.
Proof. cbn [split_dot]. change (Ascii.eqb star dot) with false. rewrite Ascii.eqb_refl. reflexivity. Qed.

Lemma split_head_star req b bs :
  split_dot req = [star] :: b :: bs -> req = star :: dot :: join_dot (b :: bs).
Proof.
  intros H. rewrite <- (join_split req), H. reflexivity.
Qed.

Lemma has_prefix_wild_split req :
  has_prefix wild_prefix req = true <-> exists rest, req = star :: dot :: rest.
Proof. rewrite has_prefix_iff. reflexivity. Qed.

Lemma skipn_suffix {A} (al base : list A) :
  (0 < List.length al - List.length base)%nat ->
  skipn (List.length al - List.length base) al = base ->
  exists extra, extra <> [] /\ al = extra ++ base.
Proof.
  intros Hl Hs. exists (firstn (List.length al - List.length base) al). split.
  - intros E. apply (f_equal (@List.length A)) in E. rewrite firstn_length in E. cbn in E. lia.
  - pose proof (firstn_skipn (List.length al - List.length base) al) as E. rewrite Hs in E. symmetry; exact E.
Qed.

Lemma levels_match_eq req acc : levels_match req acc = is_req_attr_match req acc.
Proof.
  unfold levels_match.
  destruct req as [|r0 req']; [reflexivity|]. destruct acc as [|a0 acc']; [reflexivity|].
  cbn [nonempty andb].
  destruct (has_prefix wild_prefix (r0 :: req')) eqn:HP.
  - apply has_prefix_wild_split in HP. destruct HP as [rest HP]. rewrite HP.
    rewrite split_dot_wild. pose proof (split_dot_nonnil rest) as NN.
    destruct (split_dot rest) as [|b bs] eqn:Eb; [congruence|].
    replace (bytes_eqb [star] [star]) with true by reflexivity.
    rewrite <- Eb. apply eq_true_iff_eq. rewrite wildcard_match. split.
    + intros H. apply andb_true_iff in H. destruct H as [H1 H2]. apply Nat.ltb_lt in H1.
      apply list_bytes_eqb_eq in H2. apply skipn_suffix; assumption.
    + intros (extra & Hn & H). rewrite H. rewrite app_length.
      replace (List.length extra + List.length (split_dot rest) - List.length (split_dot rest))%nat
        with (List.length extra) by lia.
      apply andb_true_iff. split.
      * apply Nat.ltb_lt. destruct extra; [congruence|cbn; lia].
      * apply list_bytes_eqb_eq. rewrite skipn_app, skipn_all, Nat.sub_diag. reflexivity.
  - assert (E : is_req_attr_match (r0 :: req') (a0 :: acc') = bytes_eqb (r0 :: req') (a0 :: acc')).
    { unfold is_req_attr_match. rewrite HP. reflexivity. }
    rewrite E.
    destruct (split_dot (r0 :: req')) as [|w base] eqn:Es; [reflexivity|].
    destruct base as [|b bs]; [reflexivity|].
    destruct (bytes_eqb w [star]) eqn:Ew; [|reflexivity].
    apply bytes_eqb_eq in Ew. subst w. apply split_head_star in Es. rewrite Es in HP. discriminate.
Qed.

(** ** Attribute lists *)
Lemma filter_nil_forallb {A} (f : A -> bool) l :
  (match filter (fun x => negb (f x)) l with [] => true | _ => false end) = forallb f l.
Proof.
  induction l as [|x l IH]; cbn [filter forallb]; [reflexivity|].
  destruct (f x); cbn [negb andb]; [assumption|reflexivity].
Qed.

Lemma acct_has_req_attrs_forallb reqs accs :
  acct_has_req_attrs reqs accs = forallb (fun r => existsb (is_req_attr_match r) accs) reqs.
Proof.
  unfold acct_has_req_attrs, find_unmatched, has_req_attr_match.
  destruct reqs as [|r0 rr]; [reflexivity|]. apply filter_nil_forallb.
Qed.

Lemma forallb_map' {A B} (f : B -> bool) (g : A -> B) l :
  forallb f (map g l) = forallb (fun x => f (g x)) l.
Proof. induction l as [|x l IH]; cbn [map forallb]; [reflexivity|rewrite IH; reflexivity]. Qed.
Lemma forallb_ext' {A} (f g : A -> bool) l : (forall x, f x = g x) -> forallb f l = forallb g l.
Proof. intros E. induction l as [|x l IH]; cbn [forallb]; [reflexivity|rewrite E, IH; reflexivity]. Qed.
Lemma existsb_ext' {A} (f g : A -> bool) l : (forall x, f x = g x) -> existsb f l = existsb g l.
Proof. intros E. induction l as [|x l IH]; cbn [existsb]; [reflexivity|rewrite E, IH; reflexivity]. Qed.

Lemma attrs_spec_eq raw accs :
  acct_has_req_attrs (map normalize_name (map bytes_of raw)) accs = attrs_spec raw accs.
Proof.
  rewrite acct_has_req_attrs_forallb. unfold attrs_spec. rewrite map_map, forallb_map'.
  apply forallb_ext'. intros r. apply existsb_ext'. intros a. symmetry. apply levels_match_eq.
Qed.

(** ** Admission *)
Lemma create_market_stored m s :
  create_market m = Some s ->
  s_mkt s = clear_reqs m /\
  s_req_ask s = map normalize_name (map bytes_of (m_req_ask m)) /\
  s_req_bid s = map normalize_name (map bytes_of (m_req_bid m)) /\
  s_req_com s = map normalize_name (map bytes_of (m_req_com m)).
Proof.
  unfold create_market, normalize_req_attrs.
  destruct (validate_req_attrs _ && validate_req_attrs _ && validate_req_attrs _); [|discriminate].
  destruct (forallb _ _ && forallb _ _ && forallb _ _); [|discriminate].
  intros [= <-]. cbn. auto.
Qed.

Definition action_wf (a : action) : Prop :=
  match a with
  | ACreateAsk p _ _ | ACreateBid p _ _ | AFillAsks _ p _ _ => 0 <= amt_of p
  | ACommit _ | AFillBids _ _ _ _ => True
  end.

(** [s] is what the store holds for the configuration [m]. *)
Definition stored_of (m : market) (s : stored) : Prop :=
  s_mkt s = clear_reqs m /\
  s_req_ask s = map normalize_name (map bytes_of (m_req_ask m)) /\
  s_req_bid s = map normalize_name (map bytes_of (m_req_bid m)) /\
  s_req_com s = map normalize_name (map bytes_of (m_req_com m)).

Lemma admission_stored m s accs a :
  market_wf m -> action_wf a -> stored_of m s ->
  admits (Some s) accs a = admit_spec true m accs a.
Proof.
  intros (W1 & W2 & W3 & W4 & W5 & W6 & W7) Wa (Em & Ea & Eb & Ec).
  unfold admits, admit_spec. rewrite Em, Ea, Eb, Ec.
  cbn [andb clear_reqs m_create_ask m_create_bid m_create_com m_seller_flat m_seller_ratios m_buyer_flat
       m_buyer_ratios m_accepting_orders m_user_settle m_accepting_commitments].
  destruct a as [p sf cf|p sfs cf|cf|ok ps sf cf|ok p sfs cf]; cbn [action_wf] in Wa;
    rewrite ?attrs_spec_eq, ?flat_fee_spec_eq, ?buyer_fee_spec_eq, ?ask_price_spec_eq by assumption;
    try reflexivity.
  (* commitments: the Go code checks the fee before the flag and the attributes *)
  destruct (flat_fee_spec (m_create_com m) cf), (m_accepting_commitments m), (attrs_spec (m_req_com m) accs); reflexivity.
Qed.

Lemma admission_eq m accs a :
  market_wf m -> action_wf a ->
  admits (create_market m) accs a = admit_spec (is_some (create_market m)) m accs a.
Proof.
  intros W Wa. destruct (create_market m) as [s|] eqn:C; [|reflexivity].
  apply admission_stored; try assumption. apply create_market_stored; assumption.
Qed.

(** Flag updates keep the correspondence between the store and the configuration, and
    well-formedness; so admission after any sequence of flag updates is again [admit_spec] of the
    updated configuration. *)
Lemma set_flags_stored_of m s ao us ac :
  stored_of m s -> stored_of (set_flags m ao us ac) (set_flags_stored s ao us ac).
Proof. intros (Em & Ea & Eb & Ec). unfold stored_of. cbn [set_flags_stored s_mkt s_req_ask s_req_bid s_req_com]. rewrite Em. auto. Qed.

Lemma set_flags_wf m ao us ac : market_wf m -> market_wf (set_flags m ao us ac).
Proof. intros W. exact W. Qed.

Lemma admission_after_flag_updates m s accs a (ups : list (bool * bool * bool)) :
  market_wf m -> action_wf a -> create_market m = Some s ->
  let upd_m := fold_left (fun m' u => let '(ao, us, ac) := u in set_flags m' ao us ac) ups m in
  let upd_s := fold_left (fun s' u => let '(ao, us, ac) := u in set_flags_stored s' ao us ac) ups s in
  admits (Some upd_s) accs a = admit_spec true upd_m accs a.
Proof.
  intros W Wa C. cbn zeta. apply create_market_stored in C. fold (stored_of m s) in C.
  revert m s W C. induction ups as [|[[ao us] ac] r IH]; intros m s W C; cbn [fold_left].
  - apply admission_stored; assumption.
  - apply IH; [apply set_flags_wf; assumption|apply set_flags_stored_of; assumption].
Qed.
