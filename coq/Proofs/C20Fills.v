(** C20: admission of the two user-fill requests in full; the ask side of OrderFeeCalc. *)
From Coq Require Import ZArith List Bool String Ascii Lia ZifyBool.
From PV Require Import Exchange.Arith Proofs.ArithProofs Exchange.ReqAttr Exchange.FeeCheck Exchange.AdmitSpec
     Proofs.C20Proofs Proofs.C20Defs.
Import ListNotations.
Open Scope Z_scope.

Lemma attrs_spec_carries raw accs : attrs_spec raw accs = true <-> carries raw accs.
Proof.
  unfold attrs_spec, carries. rewrite forallb_forall. split; intros H r Hr.
  - apply existsb_exists. apply H. exact Hr.
  - apply existsb_exists. apply H. exact Hr.
Qed.

Lemma flat_fee_spec_met opts fee : flats_wf opts -> (flat_fee_spec opts fee = true <-> flat_met opts fee).
Proof.
  intros W. rewrite <- flat_fee_spec_eq by exact W. unfold flat_met. apply flat_fee_iff.
Qed.

Lemma seller_ratio_known_iff rs d : is_some (seller_ratio rs d) = true <-> seller_ratio_known rs d.
Proof.
  unfold seller_ratio, seller_ratio_known. destruct (get_ratio rs d d) as [r|] eqn:G.
  - cbn [is_some]. split; [intros _; right; exists r; reflexivity|reflexivity].
  - destruct rs as [|r0 rl]; cbn [nonempty is_some].
    + split; [intros _; left; reflexivity|reflexivity].
    + split; [discriminate|]. intros [H|[r H]]; discriminate.
Qed.

(** MsgFillBids is admitted exactly when: the two optional fee coins are positive when given
    (ValidateBasic); the market takes orders and allows user settlement; the seller carries every
    attribute required for asks; the ask creation fee and the seller settlement flat fee each
    meet a flat option (or there is none); the order ids name existing bids of other accounts in
    this market adding up to the stated assets; and the market has a seller ratio for every denom
    of the bids' total price (or no seller ratio at all). *)
Lemma opt_pos_iff o : opt_ok coin_pos o = true <-> forall c, o = Some c -> 0 < amt_of c.
Proof.
  destruct o as [c0|]; cbn [opt_ok]; unfold coin_pos; split.
  - intros H c [= <-]. lia.
  - intros H. specialize (H c0 eq_refl). lia.
  - intros _ c; discriminate.
  - reflexivity.
Qed.

Lemma fill_bids_admission_iff m s accs ok prices sflat cfee :
  market_wf m -> stored_of m s ->
  (admits_msg (Some s) accs (AFillBids ok prices sflat cfee) = true <->
   (forall c, sflat = Some c -> 0 < amt_of c) /\ (forall c, cfee = Some c -> 0 < amt_of c) /\
   m_accepting_orders m = true /\ m_user_settle m = true /\
   carries (m_req_ask m) accs /\
   flat_met (m_create_ask m) cfee /\ flat_met (m_seller_flat m) sflat /\
   ok = true /\
   (forall p, In p prices -> seller_ratio_known (m_seller_ratios m) (denom_of p))).
Proof.
  intros W (Em & Ea & Eb & Ec).
  unfold admits_msg, admits, msg_basic. rewrite Em, Ea.
  cbn [clear_reqs m_create_ask m_create_bid m_create_com m_seller_flat m_seller_ratios m_buyer_flat m_buyer_ratios m_accepting_orders m_user_settle m_accepting_commitments m_bips m_interm].
  rewrite attrs_spec_eq. rewrite !andb_true_iff.
  rewrite !opt_pos_iff, attrs_spec_carries, !flat_fee_iff, forallb_forall.
  assert (HP : (forall x, In x prices -> is_some (seller_ratio (m_seller_ratios m) (denom_of x)) = true) <->
               (forall p, In p prices -> seller_ratio_known (m_seller_ratios m) (denom_of p))).
  { split; intros H p Hp; apply seller_ratio_known_iff; apply H; exact Hp. }
  rewrite HP. unfold flat_met. tauto.
Qed.

(** MsgFillAsks: the total price is positive, the settlement fees are a valid coin set, the
    optional bid creation fee is positive (ValidateBasic); the market takes orders and allows
    user settlement; the buyer carries every attribute required for bids; the creation fee meets
    a flat option; the settlement fees cover a buyer flat option plus a ratio option applied to
    the TOTAL price ([buyer_fee_spec], read by [buyer_fee_iff]); the orders exist; the market has
    a seller ratio for the price denom (or none at all). *)
Lemma fill_asks_admission_iff m s accs ok tprice sfees cfee :
  market_wf m -> stored_of m s ->
  (admits_msg (Some s) accs (AFillAsks ok tprice sfees cfee) = true <->
   0 < amt_of tprice /\ coins_valid sfees = true /\ (forall c, cfee = Some c -> 0 < amt_of c) /\
   m_accepting_orders m = true /\ m_user_settle m = true /\
   carries (m_req_bid m) accs /\
   flat_met (m_create_bid m) cfee /\
   buyer_fee_spec (m_buyer_flat m) (m_buyer_ratios m) tprice sfees = true /\
   ok = true /\
   seller_ratio_known (m_seller_ratios m) (denom_of tprice)).
Proof.
  intros W (Em & Ea & Eb & Ec). destruct W as (_ & _ & _ & _ & _ & _ & W7).
  unfold admits_msg, admits, msg_basic, coin_pos. rewrite Em, Eb.
  cbn [clear_reqs m_create_ask m_create_bid m_create_com m_seller_flat m_seller_ratios m_buyer_flat m_buyer_ratios m_accepting_orders m_user_settle m_accepting_commitments m_bips m_interm].
  destruct (Z.ltb_spec 0 (amt_of tprice)) as [P|P].
  - rewrite attrs_spec_eq. rewrite buyer_fee_spec_eq by (assumption || lia).
    rewrite !andb_true_iff.
    rewrite opt_pos_iff, attrs_spec_carries, flat_fee_iff, seller_ratio_known_iff.
    unfold flat_met. tauto.
  - cbn [andb]. split; [discriminate|]. intros (H & _). lia.
Qed.

(** A market that is not accepting orders, or does not allow user settlement, refuses every fill. *)
Lemma fills_refused_when_closed m s accs a :
  stored_of m s -> (m_accepting_orders m = false \/ m_user_settle m = false) ->
  match a with AFillBids _ _ _ _ | AFillAsks _ _ _ _ => admits_msg (Some s) accs a = false | _ => True end.
Proof.
  intros (Em & _) H. destruct a as [p sf cf|p sfs cf|cf|ok ps sf cf|ok p sfs cf]; try exact I;
    unfold admits_msg, admits; rewrite Em;
    cbn [clear_reqs m_create_ask m_create_bid m_create_com m_seller_flat m_seller_ratios m_buyer_flat m_buyer_ratios m_accepting_orders m_user_settle m_accepting_commitments m_bips m_interm];
    apply andb_false_iff; right;
    (destruct H as [-> | ->]; [reflexivity|rewrite andb_false_r; reflexivity]).
Qed.

(** ** OrderFeeCalc, ask side: the quote is exactly what the ask checks demand. *)
Lemma pick_valid opts f : flats_wf opts -> pick opts f -> validate_flat_fee opts f = true.
Proof.
  intros W [[-> ->]|(c & HI & ->)]; [reflexivity|].
  apply flat_fee_iff. right. destruct c as [d a]. exists d, a, a.
  split; [reflexivity|]. split; [apply in_get_flat; assumption|lia].
Qed.

Lemma ask_quote_exact m s price C F R :
  market_wf m -> stored_of m s -> 0 < amt_of price ->
  quote_ask (Some s) price = Some (C, F, R) ->
  C = m_create_ask m /\ F = m_seller_flat m /\
  (forall c, pick C c -> validate_flat_fee (m_create_ask m) c = true) /\
  (forall f, pick F f -> validate_flat_fee (m_seller_flat m) f = true) /\
  (forall f, validate_ask_price (m_seller_ratios m) price f =
             (flat_from_price price f + match R with [] => 0 | x :: _ => amt_of x end <? amt_of price)).
Proof.
  intros W (Em & _) Hp Q. destruct W as (W1 & _ & _ & W4 & _ & W6 & _).
  assert (VA : forall f, validate_ask_price (m_seller_ratios m) price f = ask_price_spec (m_seller_ratios m) price f).
  { intros f. apply ask_price_spec_eq; [assumption|lia]. }
  unfold quote_ask in Q. rewrite Em in Q.
  cbn [clear_reqs m_create_ask m_create_bid m_create_com m_seller_flat m_seller_ratios m_buyer_flat m_buyer_ratios m_accepting_orders m_user_settle m_accepting_commitments m_bips m_interm] in Q.
  unfold seller_ratio in Q.
  destruct (get_ratio (m_seller_ratios m) (denom_of price) (denom_of price)) as [r|] eqn:G.
  - pose proof (get_ratio_wf _ _ _ _ W6 G) as Wr.
    rewrite (apply_to_loosely_ceil r (amt_of price) Wr) in Q by lia.
    injection Q as <- <- <-.
    split; [reflexivity|]. split; [reflexivity|].
    split; [intros c Hc; apply pick_valid; assumption|].
    split; [intros c Hc; apply pick_valid; assumption|].
    intros f. rewrite VA. unfold ask_price_spec, flat_from_price. rewrite G.
    unfold ratio_charge. destruct Wr as [Wr1 Wr2]. replace (0 <? r_pa r) with true by lia.
    unfold amt_of; cbn [snd]. reflexivity.
  - destruct (m_seller_ratios m) as [|r0 rl] eqn:E; cbn [nonempty] in Q; [|discriminate].
    injection Q as <- <- <-.
    split; [reflexivity|]. split; [reflexivity|].
    split; [intros c Hc; apply pick_valid; assumption|].
    split; [intros c Hc; apply pick_valid; assumption|].
    intros f. rewrite VA. unfold ask_price_spec, flat_from_price. cbn [get_ratio].
    destruct f as [c|]; [destruct (String.eqb (denom_of c) (denom_of price))|]; lia.
Qed.

(** One unit less than a quoted flat option (creation fee or seller settlement flat fee) is refused. *)
Lemma flat_quote_minus_one opts d f :
  flats_wf opts -> In (d, f) opts -> validate_flat_fee opts (Some (d, f - 1)) = false.
Proof.
  intros W HI. unfold validate_flat_fee.
  assert (N : nonempty opts = true) by (destruct opts; [contradiction|reflexivity]).
  rewrite N. cbn [negb]. rewrite (in_get_flat _ _ _ W HI). lia.
Qed.

(** When the query fails for an existing market, no ask at that price is admitted. *)
Lemma ask_quote_none m s price accs sf cf :
  market_wf m -> stored_of m s -> 0 < amt_of price ->
  quote_ask (Some s) price = None -> admits (Some s) accs (ACreateAsk price sf cf) = false.
Proof.
  intros W (Em & _) Hp Q. destruct W as (_ & _ & _ & _ & _ & W6 & _).
  unfold admits. rewrite Em.
  cbn [clear_reqs m_create_ask m_create_bid m_create_com m_seller_flat m_seller_ratios m_buyer_flat m_buyer_ratios m_accepting_orders m_user_settle m_accepting_commitments m_bips m_interm].
  replace (validate_ask_price (m_seller_ratios m) price sf) with false; [apply andb_false_r|].
  symmetry. unfold quote_ask in Q. rewrite Em in Q.
  cbn [clear_reqs m_create_ask m_create_bid m_create_com m_seller_flat m_seller_ratios m_buyer_flat m_buyer_ratios m_accepting_orders m_user_settle m_accepting_commitments m_bips m_interm] in Q.
  destruct price as [pd pa]. unfold validate_ask_price.
  unfold denom_of, amt_of in *; cbn [fst snd] in *.
  destruct (seller_ratio (m_seller_ratios m) pd) as [[r|]|] eqn:S.
  - exfalso. unfold seller_ratio in S.
    destruct (get_ratio (m_seller_ratios m) pd pd) as [r'|] eqn:G;
      [|destruct (nonempty (m_seller_ratios m)); discriminate].
    injection S as ->.
    pose proof (get_ratio_wf _ _ _ _ W6 G) as Wr.
    rewrite (apply_to_loosely_ceil r pa Wr) in Q by lia. discriminate.
  - discriminate.
  - reflexivity.
Qed.
