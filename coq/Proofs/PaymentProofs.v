(** C13 (payments part): the payment listings of every reachable exchange store show exactly the
    stored payments; the by-target listing shows a payment exactly under its current target. *)
From Coq Require Import ZArith NArith List Bool Lia.
From PV Require Import Exchange.KV Exchange.Index Proofs.KVProofs.
Import ListNotations.
Open Scope N_scope.

(** ---- list / encoding facts ---- *)
Lemma app_eq_len : forall (A : Type) (a b x y : list A),
  length a = length b -> a ++ x = b ++ y -> a = b /\ x = y.
Proof.
  intros A. induction a as [|h a IH]; intros [|h' b] x y Hl He; cbn in *; try discriminate.
  - split; [reflexivity|exact He].
  - injection He as Hh Ht. injection Hl as Hl.
    destruct (IH b x y Hl Ht) as [H1 H2]. subst. split; reflexivity.
Qed.

Lemma len_prefix_inj : forall a b x y : list N,
  len_prefix a ++ x = len_prefix b ++ y -> a = b /\ x = y.
Proof.
  intros a b x y H. unfold len_prefix in H. cbn [app] in H.
  injection H as Hn Hr. apply Nat2N.inj in Hn.
  apply app_eq_len; assumption.
Qed.

Lemma firstn_app_len : forall (A : Type) (a e : list A), firstn (length a) (a ++ e) = a.
Proof. intros A. induction a as [|h a IH]; intros e; cbn; [reflexivity|]. f_equal. apply IH. Qed.

Lemma skipn_app_len : forall (A : Type) (a e : list A), skipn (length a) (a ++ e) = e.
Proof. intros A. induction a as [|h a IH]; intros e; cbn; [reflexivity|]. apply IH. Qed.

Lemma parse_ok : forall a e : list N,
  a <> [] -> parse_len_prefixed (len_prefix a ++ e) = Some (a, e).
Proof.
  intros a e Ha. unfold parse_len_prefixed, len_prefix. cbn [app].
  rewrite Nat2N.id.
  assert (E1 : (N.of_nat (length a) =? 0) = false).
  { apply N.eqb_neq. destruct a; [congruence|]. cbn [length]. lia. }
  assert (E2 : Nat.ltb (length (a ++ e)) (length a) = false).
  { apply Nat.ltb_ge. rewrite app_length. lia. }
  rewrite E1, E2. cbn [orb]. rewrite firstn_app_len, skipn_app_len. reflexivity.
Qed.

(** ---- normal forms of the payment keys ---- *)
Definition kp (src e : bytes) : key := 112 :: (len_prefix src ++ e).
Definition kt (t src e : bytes) : key := 16 :: (len_prefix t ++ len_prefix src ++ e).

Lemma k_pay_kp : forall src e, k_pay src e = kp src e.
Proof. reflexivity. Qed.

Lemma k_tgt_kt : forall t src e, k_tgt t src e = kt t src e.
Proof.
  intros. unfold k_tgt, p_tgt_src, p_tgt, kt. cbn [app]. rewrite <- app_assoc. reflexivity.
Qed.

Lemma kp_inj : forall a e a' e', kp a e = kp a' e' -> a = a' /\ e = e'.
Proof. intros a e a' e' H. unfold kp in H. apply (f_equal (@tl N)) in H. cbn [tl] in H. apply len_prefix_inj; exact H. Qed.

Lemma kt_inj : forall t a e t' a' e', kt t a e = kt t' a' e' -> t = t' /\ a = a' /\ e = e'.
Proof.
  intros t a e t' a' e' H. unfold kt in H. apply (f_equal (@tl N)) in H. cbn [tl] in H.
  apply len_prefix_inj in H. destruct H as [H1 H2]. apply len_prefix_inj in H2. tauto.
Qed.

Lemma key_eq_dec : forall a b : key, a = b \/ a <> b.
Proof.
  intros a b. destruct (key_eqb a b) eqn:E; [left; apply key_eqb_eq|right; apply key_eqb_neq]; exact E.
Qed.

Lemma get_set_eq : forall (s : st) k v, get (set s k v) k = Some v.
Proof. intros. rewrite get_set, key_eqb_refl. reflexivity. Qed.

Lemma get_set_neq : forall (s : st) k v k', k' <> k -> get (set s k v) k' = get s k'.
Proof. intros s k v k' H. rewrite get_set. apply key_eqb_neq in H. rewrite H. reflexivity. Qed.

Lemma get_del_eq : forall (s : st) k, get (del s k) k = None.
Proof. intros. rewrite get_del, key_eqb_refl. reflexivity. Qed.

Lemma get_del_neq : forall (s : st) k k', k' <> k -> get (del s k) k' = get s k'.
Proof. intros s k k' H. rewrite get_del. apply key_eqb_neq in H. rewrite H. reflexivity. Qed.

Lemma get_payment_iff : forall (s : st) a e p,
  get_payment s a e = Some p <-> get s (kp a e) = Some (VPay p).
Proof.
  intros s a e p. unfold get_payment. rewrite k_pay_kp.
  destruct (get s (kp a e)) as [[o|q|b]|]; split; intros H; try discriminate; congruence.
Qed.

(** ---- the invariant ---- *)
Definition stored (s : st) (p : payment) : Prop :=
  get s (kp (p_source p) (p_ext p)) = Some (VPay p).

Record Inv (s : st) : Prop := {
  inv_S : sorted_keys s;
  inv_P : forall r v, get s (112 :: r) = Some v ->
          exists p, v = VPay p /\ r = len_prefix (p_source p) ++ p_ext p /\ p_source p <> [];
  inv_T : forall r v, get s (16 :: r) = Some v ->
          exists p, stored s p /\ p_target p <> [] /\
                    r = len_prefix (p_target p) ++ len_prefix (p_source p) ++ p_ext p;
  inv_Q : forall p, stored s p -> p_target p <> [] ->
          get s (kt (p_target p) (p_source p) (p_ext p)) <> None
}.

Lemma inv_stored_at : forall s a e p,
  Inv s -> get s (kp a e) = Some (VPay p) -> p_source p = a /\ p_ext p = e /\ a <> [].
Proof.
  intros s a e p HI H. unfold kp in H.
  destruct (inv_P s HI _ _ H) as [q [Hv [Hr Hne]]]. injection Hv as <-.
  apply len_prefix_inj in Hr. destruct Hr as [-> ->]. auto.
Qed.

Lemma inv_init : Inv init.
Proof. constructor; unfold init, stored; cbn; try exact I; intros; discriminate. Qed.

(** ---- frame: order operations do not touch payment keys ---- *)
Definition nonpay (k : key) : Prop := forall r, k <> 112 :: r /\ k <> 16 :: r.

Definition fr (s s' : st) : Prop :=
  (sorted_keys s -> sorted_keys s') /\
  (forall r, get s' (112 :: r) = get s (112 :: r)) /\
  (forall r, get s' (16 :: r) = get s (16 :: r)).

Lemma fr_refl : forall s, fr s s.
Proof. intros s. repeat split; auto. Qed.

Lemma fr_trans : forall a b c, fr a b -> fr b c -> fr a c.
Proof.
  intros a b c [S1 [P1 T1]] [S2 [P2 T2]]. repeat split.
  - auto.
  - intros r. rewrite P2. apply P1.
  - intros r. rewrite T2. apply T1.
Qed.

Lemma fr_set : forall (s : st) k v, nonpay k -> fr s (set s k v).
Proof.
  intros s k v Hk. repeat split.
  - apply sorted_set.
  - intros r. apply get_set_neq. intros E. destruct (Hk r) as [H _]. congruence.
  - intros r. apply get_set_neq. intros E. destruct (Hk r) as [_ H]. congruence.
Qed.

Lemma fr_del : forall (s : st) k, nonpay k -> fr s (del s k).
Proof.
  intros s k Hk. repeat split.
  - apply sorted_del.
  - intros r. apply get_del_neq. intros E. destruct (Hk r) as [H _]. congruence.
  - intros r. apply get_del_neq. intros E. destruct (Hk r) as [_ H]. congruence.
Qed.

Lemma fr_set_all : forall l s, Forall (fun kv => nonpay (fst kv)) l -> fr s (set_all s l).
Proof.
  induction l as [|a l IH]; intros s Hl; [apply fr_refl|].
  inversion Hl as [|? ? Ha Hl']; subst. unfold set_all. cbn [fold_left].
  eapply fr_trans; [apply fr_set; exact Ha|]. apply IH. exact Hl'.
Qed.

Lemma fr_del_all : forall l s, Forall (fun kv => nonpay (fst kv)) l -> fr s (del_all s l).
Proof.
  induction l as [|a l IH]; intros s Hl; [apply fr_refl|].
  inversion Hl as [|? ? Ha Hl']; subst. unfold del_all. cbn [fold_left].
  eapply fr_trans; [apply fr_del; exact Ha|]. apply IH. exact Hl'.
Qed.

Ltac np :=
  unfold nonpay, k_last, k_order, k_mkt, p_mkt, k_addr, p_addr, k_asset, p_asset, k_ext;
  cbn [app]; intros ?r; split; discriminate.

Lemma const_entries_np : forall id o, Forall (fun kv => nonpay (fst kv)) (const_entries id o).
Proof. intros id o. unfold const_entries. repeat apply Forall_cons; try apply Forall_nil; cbn [fst]; np. Qed.

Lemma ext_entry_np : forall id o, Forall (fun kv => nonpay (fst kv)) (ext_entry id o).
Proof. intros id o. unfold ext_entry. destruct (o_ext o); repeat apply Forall_cons; try apply Forall_nil; cbn [fst]; np. Qed.

Lemma fr_set_order : forall s id o s', set_order_in_store s id o = Some s' -> fr s s'.
Proof.
  intros s id o s' H. unfold set_order_in_store in H. cbv zeta in H.
  match type of H with (if ?c then _ else _) = _ => destruct c end; [discriminate|].
  injection H as <-.
  eapply fr_trans; [|apply (fr_set_all (ext_entry id o)); apply ext_entry_np].
  destruct (has s (k_order id)).
  - apply fr_set. np.
  - eapply fr_trans;
      [|apply (fr_set_all (const_entries id o) (set s (k_order id) (VOrder o))); apply const_entries_np].
    apply fr_set. np.
Qed.

Lemma fr_delete_and_deindex : forall s id o, fr s (delete_and_deindex s id o).
Proof.
  intros s id o. unfold delete_and_deindex.
  eapply fr_trans; [|apply fr_del_all; apply ext_entry_np].
  eapply fr_trans; [|apply fr_del_all; apply const_entries_np].
  apply fr_del. np.
Qed.

Lemma fr_create_order : forall s o s' id, create_order s o = Some (s', id) -> fr s s'.
Proof.
  intros s o s' id H. unfold create_order in H.
  destruct (negb (wf_order o)); [discriminate|].
  unfold next_order_id in H.
  destruct (set_order_in_store _ _ o) as [s2|] eqn:E; [|discriminate].
  injection H as <- _.
  eapply fr_trans; [|eapply fr_set_order; exact E]. apply fr_set. np.
Qed.

Lemma fr_cancel_order : forall s id s', cancel_order s id = Some s' -> fr s s'.
Proof.
  intros s id s' H. unfold cancel_order in H.
  destruct (get_order s id) as [o|]; [|discriminate]. injection H as <-.
  apply fr_delete_and_deindex.
Qed.

Lemma fr_set_order_ext : forall s m id e s', set_order_ext s m id e = Some s' -> fr s s'.
Proof.
  intros s m id e s' H. unfold set_order_ext in H.
  destruct (negb (ext_ok e)); [discriminate|].
  destruct (get_order s id) as [o|]; [|discriminate].
  destruct (negb (o_market o =? m)); [discriminate|].
  destruct (bytes_eqb (o_ext o) e); [discriminate|].
  eapply fr_trans; [|eapply fr_set_order; exact H].
  destruct (o_ext o); [apply fr_refl|]. apply fr_del. np.
Qed.

Lemma fr_fill_fold : forall (s0 : st) full s1,
  fr s1 (fold_left (fun s' id => match get_order s0 id with
                                 | Some o => delete_and_deindex s' id o
                                 | None => s'
                                 end) full s1).
Proof.
  intros s0. induction full as [|id full IH]; intros s1; [apply fr_refl|].
  cbn [fold_left]. eapply fr_trans; [|apply IH].
  destruct (get_order s0 id); [apply fr_delete_and_deindex|apply fr_refl].
Qed.

Lemma fr_fill_orders : forall s full part s', fill_orders s full part = Some s' -> fr s s'.
Proof.
  intros s full part s' H. unfold fill_orders in H. cbv zeta in H.
  match type of H with (if ?c then _ else _) = _ => destruct c end; [discriminate|].
  match type of H with (if ?c then _ else _) = _ => destruct c end; [discriminate|].
  match type of H with match ?c with Some _ => _ | None => _ end = _ =>
    destruct c as [s1|] eqn:E end; [|discriminate].
  injection H as <-.
  eapply fr_trans; [|apply fr_fill_fold].
  destruct part as [[id rest]|].
  - destruct (get_order s id) as [o|]; [|discriminate].
    destruct (Z.leb rest 0); [discriminate|]. eapply fr_set_order; exact E.
  - injection E as <-. apply fr_refl.
Qed.

Lemma fr_close_fold : forall (l : list (N * N)) s1,
  fr s1 (fold_left (fun s' idt => match cancel_order s' (fst idt) with
                                  | Some s'' => s''
                                  | None => s'
                                  end) l s1).
Proof.
  induction l as [|a l IH]; intros s1; [apply fr_refl|].
  cbn [fold_left]. eapply fr_trans; [|apply IH].
  destruct (cancel_order s1 (fst a)) eqn:E; [eapply fr_cancel_order; exact E|apply fr_refl].
Qed.

Lemma fr_close_market : forall s m, fr s (close_market s m).
Proof. intros s m. unfold close_market. apply fr_close_fold. Qed.

Lemma inv_fr : forall s s', Inv s -> fr s s' -> Inv s'.
Proof.
  intros s s' HI [HS [HP HT]]. constructor.
  - apply HS. apply (inv_S s HI).
  - intros r v H. rewrite HP in H. apply (inv_P s HI _ _ H).
  - intros r v H. rewrite HT in H. destruct (inv_T s HI _ _ H) as [p [H1 [H2 H3]]].
    exists p. split; [|split; assumption]. unfold stored, kp in *. rewrite HP. exact H1.
  - intros p H1 H2. unfold stored, kp, kt in *. rewrite HP in H1. rewrite HT.
    apply (inv_Q s HI p); assumption.
Qed.

(** ---- the two primitive payment writes ---- *)
Definition oset (s : st) (o : option key) : st :=
  match o with Some k => set s k (VBytes []) | None => s end.
Definition odel (s : st) (o : option key) : st :=
  match o with Some k => del s k | None => s end.

Definition Hnew (s : st) (p : payment) (new : option key) : Prop :=
  (new = Some (kt (p_target p) (p_source p) (p_ext p)) /\ p_target p <> []) \/
  (new = None /\ (p_target p = [] \/ get s (kt (p_target p) (p_source p) (p_ext p)) <> None)).

(** When only the SPELLING of the target changes ([p_target ex = p_target p] as bytes, the strings
    differ) the old and the new index key coincide: the entry is deleted and written again. *)
Definition Hold (s : st) (p : payment) (old new : option key) : Prop :=
  (exists ex, old = Some (kt (p_target ex) (p_source p) (p_ext p)) /\
              get s (kp (p_source p) (p_ext p)) = Some (VPay ex) /\
              p_target ex <> [] /\ (p_target ex <> p_target p \/ new <> None)) \/
  (old = None /\ forall ex, get s (kp (p_source p) (p_ext p)) = Some (VPay ex) ->
                            p_target ex = [] \/ p_target ex = p_target p).

Lemma sps_shape : forall s p, Inv s ->
  exists old new,
    set_payment_in_store s p = oset (odel (set s (kp (p_source p) (p_ext p)) (VPay p)) old) new /\
    Hnew s p new /\ Hold s p old new.
Proof.
  intros s p HI. unfold set_payment_in_store, Hnew, Hold.
  destruct (get_payment s (p_source p) (p_ext p)) as [ex|] eqn:G.
  - apply get_payment_iff in G.
    destruct (inv_stored_at _ _ _ _ HI G) as [Hsrc [Hext _]].
    destruct (p_target ex) as [|n l] eqn:Tex.
    + destruct (p_target p) as [|n' l'] eqn:Tp; cbv beta iota zeta; rewrite ?k_tgt_kt.
      * exists None, None. split; [reflexivity|]. split.
        -- right. split; [reflexivity|left; reflexivity].
        -- right. split; [reflexivity|]. intros ex' H'. rewrite G in H'. injection H' as <-.
           left. exact Tex.
      * exists None, (Some (kt (n' :: l') (p_source p) (p_ext p))). split; [reflexivity|]. split.
        -- left. split; [reflexivity|discriminate].
        -- right. split; [reflexivity|]. intros ex' H'. rewrite G in H'. injection H' as <-.
           left. exact Tex.
    + destruct (tgt_str_eqb (n :: l) (p_tgt_up ex) (p_target p) (p_tgt_up p)) eqn:B.
      * assert (B' : n :: l = p_target p).
        { unfold tgt_str_eqb in B. apply andb_true_iff in B. destruct B as [B _].
          apply key_eqb_eq in B. exact B. }
        clear B. rename B' into B. cbv beta iota zeta.
        exists None, None. split; [reflexivity|]. split.
        -- right. split; [reflexivity|]. right. rewrite <- B, <- Tex, <- Hsrc, <- Hext.
           apply (inv_Q s HI ex).
           ++ unfold stored. rewrite Hsrc, Hext. exact G.
           ++ rewrite Tex. discriminate.
        -- right. split; [reflexivity|]. intros ex' H'. rewrite G in H'. injection H' as <-.
           right. rewrite Tex. exact B.
      * clear B.
        destruct (p_target p) as [|n' l'] eqn:Tp; cbv beta iota zeta; rewrite ?k_tgt_kt.
        -- exists (Some (kt (n :: l) (p_source p) (p_ext p))), None. split; [reflexivity|]. split.
           ++ right. split; [reflexivity|left; reflexivity].
           ++ left. exists ex. rewrite Tex. repeat split; try assumption; try discriminate.
              left. discriminate.
        -- exists (Some (kt (n :: l) (p_source p) (p_ext p))),
                  (Some (kt (n' :: l') (p_source p) (p_ext p))). split; [reflexivity|]. split.
           ++ left. split; [reflexivity|discriminate].
           ++ left. exists ex. rewrite Tex. repeat split; try assumption; try discriminate.
              right. discriminate.
  - assert (Hno : forall ex, get s (kp (p_source p) (p_ext p)) = Some (VPay ex) -> False).
    { intros ex H'. apply get_payment_iff in H'. congruence. }
    destruct (p_target p) as [|n' l'] eqn:Tp; cbv beta iota zeta; rewrite ?k_tgt_kt.
    + exists None, None. split; [reflexivity|]. split.
      * right. split; [reflexivity|left; reflexivity].
      * right. split; [reflexivity|]. intros ex' H'. destruct (Hno _ H').
    + exists None, (Some (kt (n' :: l') (p_source p) (p_ext p))). split; [reflexivity|]. split.
      * left. split; [reflexivity|discriminate].
      * right. split; [reflexivity|]. intros ex' H'. destruct (Hno _ H').
Qed.

Lemma some_inj : forall (A : Type) (a b : A), Some a = Some b -> a = b.
Proof. intros A a b H. injection H as H. exact H. Qed.

Lemma upd_16 : forall (s : st) x v old new r,
  let s' := oset (odel (set s (112 :: x) v) old) new in
  (forall w, get s' (16 :: r) = Some w ->
             new = Some (16 :: r) \/ (get s (16 :: r) = Some w /\ old <> Some (16 :: r))) /\
  (get s (16 :: r) <> None -> old <> Some (16 :: r) -> get s' (16 :: r) <> None) /\
  (new = Some (16 :: r) -> get s' (16 :: r) <> None).
Proof.
  intros s x v old new r s'.
  assert (E0 : key_eqb (16 :: r) (112 :: x) = false) by (apply key_eqb_neq; discriminate).
  subst s'. destruct new as [kn|]; destruct old as [ko|]; cbn [oset odel];
    repeat (rewrite get_set || rewrite get_del); rewrite ?E0;
    repeat match goal with
           | |- context[key_eqb ?a ?b] =>
               let E := fresh "E" in
               destruct (key_eqb a b) eqn:E; [apply key_eqb_eq in E|apply key_eqb_neq in E]
           end;
    (split; [|split]); intros; unfold key in *; try congruence;
    try (left; congruence); try (right; split; congruence).
Qed.

Lemma upd_112 : forall (s : st) x v old new r,
  (forall k, old = Some k -> exists y, k = 16 :: y) ->
  (forall k, new = Some k -> exists y, k = 16 :: y) ->
  get (oset (odel (set s (112 :: x) v) old) new) (112 :: r) =
  if key_eqb (112 :: r) (112 :: x) then Some v else get s (112 :: r).
Proof.
  intros s x v old new r Ho Hn.
  destruct new as [kn|]; cbn [oset].
  - destruct (Hn kn eq_refl) as [y ->]. rewrite get_set_neq by discriminate.
    destruct old as [ko|]; cbn [odel].
    + destruct (Ho ko eq_refl) as [z ->]. rewrite get_del_neq by discriminate. apply get_set.
    + apply get_set.
  - destruct old as [ko|]; cbn [odel].
    + destruct (Ho ko eq_refl) as [z ->]. rewrite get_del_neq by discriminate. apply get_set.
    + apply get_set.
Qed.

Lemma inv_upd : forall s p old new,
  Inv s -> p_source p <> [] -> Hnew s p new -> Hold s p old new ->
  Inv (oset (odel (set s (kp (p_source p) (p_ext p)) (VPay p)) old) new).
Proof.
  intros s p old new HI Hsrc HN HO.
  set (s' := oset (odel (set s (kp (p_source p) (p_ext p)) (VPay p)) old) new).
  assert (N16 : forall k, new = Some k -> exists y, k = 16 :: y).
  { intros k Hk. destruct HN as [[HN _]|[HN _]]; rewrite HN in Hk; [|discriminate].
    injection Hk as <-. unfold kt. eexists; reflexivity. }
  assert (O16 : forall k, old = Some k -> exists y, k = 16 :: y).
  { intros k Hk. destruct HO as [[ex [HO _]]|[HO _]]; rewrite HO in Hk; [|discriminate].
    injection Hk as <-. unfold kt. eexists; reflexivity. }
  assert (G112 : forall r, get s' (112 :: r) =
                           if key_eqb (112 :: r) (kp (p_source p) (p_ext p))
                           then Some (VPay p) else get s (112 :: r)).
  { intros r. unfold s', kp. apply upd_112; assumption. }
  assert (F : forall r,
    (forall w, get s' (16 :: r) = Some w ->
               new = Some (16 :: r) \/ (get s (16 :: r) = Some w /\ old <> Some (16 :: r))) /\
    (get s (16 :: r) <> None -> old <> Some (16 :: r) -> get s' (16 :: r) <> None) /\
    (new = Some (16 :: r) -> get s' (16 :: r) <> None)).
  { intros r. unfold s', kp. apply upd_16. }
  assert (Sp : stored s' p).
  { unfold stored. unfold kp at 1. rewrite G112. unfold kp. rewrite key_eqb_refl. reflexivity. }
  assert (So : forall q, kp (p_source q) (p_ext q) <> kp (p_source p) (p_ext p) ->
                         (stored s' q <-> stored s q)).
  { intros q Hq. unfold stored. unfold kp at 1. rewrite G112.
    apply key_eqb_neq in Hq. unfold kp at 1 in Hq. rewrite Hq. reflexivity. }
  constructor.
  - (* sorted *)
    unfold s'. pose proof (inv_S s HI) as HS.
    destruct new, old; cbn [oset odel]; repeat (apply sorted_set || apply sorted_del); exact HS.
  - (* P *)
    intros r v H. rewrite G112 in H.
    destruct (key_eqb (112 :: r) (kp (p_source p) (p_ext p))) eqn:E.
    + apply key_eqb_eq in E. unfold kp in E. apply (f_equal (@tl N)) in E. cbn [tl] in E.
      injection H as <-. exists p. auto.
    + apply (inv_P s HI _ _ H).
  - (* T *)
    intros r v H. destruct (F r) as [F1 _]. destruct (F1 v H) as [Hn|[Hg Ho]].
    + destruct HN as [[HN Tp]|[HN _]]; rewrite HN in Hn; [|discriminate].
      injection Hn as Hn. exists p. split; [exact Sp|]. split; [exact Tp|]. symmetry. exact Hn.
    + destruct (inv_T s HI r v Hg) as [p0 [St0 [Tn0 Hr]]].
      destruct (key_eq_dec (kp (p_source p0) (p_ext p0)) (kp (p_source p) (p_ext p))) as [Ek|Nk].
      * destruct (kp_inj _ _ _ _ Ek) as [Ea Ee].
        unfold stored in St0. rewrite Ek in St0.
        destruct HO as [[ex [HO [Gex [Tex Dex]]]]|[HO Hall]].
        -- rewrite Gex in St0. injection St0 as ->.
           exfalso. apply Ho. rewrite HO. unfold kt. rewrite Hr, Ea, Ee. reflexivity.
        -- destruct (Hall p0 St0) as [Hc|Hc]; [contradiction|].
           exists p. split; [exact Sp|]. split; [rewrite <- Hc; exact Tn0|].
           rewrite Hr, Hc, Ea, Ee. reflexivity.
      * exists p0. split; [apply So; assumption|]. split; assumption.
  - (* Q *)
    intros q Hq Tq.
    destruct (key_eq_dec (kp (p_source q) (p_ext q)) (kp (p_source p) (p_ext p))) as [Ek|Nk].
    + assert (q = p).
      { unfold stored in Hq. rewrite Ek in Hq. unfold kp at 1 in Hq. rewrite G112 in Hq.
        unfold kp in Hq. rewrite key_eqb_refl in Hq. congruence. }
      subst q. unfold kt.
      destruct (F (len_prefix (p_target p) ++ len_prefix (p_source p) ++ p_ext p)) as [_ [F2 F3]].
      destruct HN as [[HN _]|[HN [Hc|Hc]]]; [apply F3; exact HN|contradiction|].
      apply F2; [exact Hc|].
      destruct HO as [[ex [HO [Gex [Tex Dex]]]]|[HO _]]; rewrite HO; [|discriminate].
      intros Hk. apply some_inj in Hk.
      apply (kt_inj (p_target ex) (p_source p) (p_ext p) (p_target p) (p_source p) (p_ext p)) in Hk.
      destruct Hk as [Hk _]. destruct Dex as [Dex|Dex]; [contradiction|apply Dex; exact HN].
    + apply So in Hq; [|exact Nk].
      pose proof (inv_Q s HI q Hq Tq) as Hg. unfold kt in *.
      destruct (F (len_prefix (p_target q) ++ len_prefix (p_source q) ++ p_ext q)) as [_ [F2 _]].
      apply F2; [exact Hg|].
      destruct HO as [[ex [HO [Gex [Tex Dex]]]]|[HO _]]; rewrite HO; [|discriminate].
      intros Hk. apply some_inj in Hk.
      apply (kt_inj (p_target ex) (p_source p) (p_ext p) (p_target q) (p_source q) (p_ext q)) in Hk.
      destruct Hk as [_ [Hk1 Hk2]]. apply Nk. rewrite Hk1, Hk2. reflexivity.
Qed.

Lemma inv_set_payment : forall s p, Inv s -> p_source p <> [] -> Inv (set_payment_in_store s p).
Proof.
  intros s p HI Hsrc. destruct (sps_shape s p HI) as [old [new [E [HN HO]]]].
  rewrite E. apply inv_upd; assumption.
Qed.

Lemma delete_sub : forall (s : st) p k v,
  get (delete_payment s p) k = Some v -> get s k = Some v.
Proof.
  intros s p k v. unfold delete_payment.
  destruct (p_target p); repeat rewrite get_del;
    repeat match goal with
           | |- context[key_eqb ?a ?b] => destruct (key_eqb a b)
           end; intros H; try discriminate; exact H.
Qed.

Lemma inv_delete_payment : forall s p,
  Inv s ->
  (forall v, get s (kp (p_source p) (p_ext p)) = Some v -> v = VPay p) ->
  Inv (delete_payment s p).
Proof.
  intros s p HI Hv.
  set (s' := delete_payment s p).
  assert (Sub : forall k v, get s' k = Some v -> get s k = Some v) by (apply delete_sub).
  assert (G112 : forall r, 112 :: r <> kp (p_source p) (p_ext p) -> get s' (112 :: r) = get s (112 :: r)).
  { intros r Hr. unfold s', delete_payment. rewrite k_pay_kp.
    destruct (p_target p); [|rewrite k_tgt_kt; unfold kt; rewrite get_del_neq by discriminate];
      apply get_del_neq; exact Hr. }
  assert (G112e : get s' (kp (p_source p) (p_ext p)) = None).
  { unfold s', delete_payment. rewrite k_pay_kp.
    destruct (p_target p); [|rewrite k_tgt_kt; unfold kt at 1; unfold kp at 2;
                             rewrite get_del_neq by discriminate]; apply get_del_eq. }
  assert (G16 : forall r, (p_target p <> [] -> 16 :: r <> kt (p_target p) (p_source p) (p_ext p)) ->
                          get s' (16 :: r) = get s (16 :: r)).
  { intros r Hr. unfold s', delete_payment. rewrite k_pay_kp.
    destruct (p_target p) as [|n l] eqn:Tp.
    - unfold kp. apply get_del_neq. discriminate.
    - rewrite k_tgt_kt. rewrite get_del_neq by (apply Hr; discriminate).
      unfold kp. apply get_del_neq. discriminate. }
  assert (G16e : p_target p <> [] -> get s' (kt (p_target p) (p_source p) (p_ext p)) = None).
  { intros Hr. unfold s', delete_payment.
    destruct (p_target p) as [|n l] eqn:Tp; [contradiction|].
    rewrite k_tgt_kt. apply get_del_eq. }
  constructor.
  - unfold s', delete_payment. pose proof (inv_S s HI) as HS.
    destruct (p_target p); repeat apply sorted_del; exact HS.
  - intros r v H. apply Sub in H. apply (inv_P s HI _ _ H).
  - intros r v H. pose proof (Sub _ _ H) as Hg.
    destruct (inv_T s HI r v Hg) as [p0 [St0 [Tn0 Hr]]].
    destruct (key_eq_dec (kp (p_source p0) (p_ext p0)) (kp (p_source p) (p_ext p))) as [Ek|Nk].
    + exfalso. unfold stored in St0. rewrite Ek in St0. apply Hv in St0. injection St0 as ->.
      pose proof (G16e Tn0) as Hn. unfold kt in Hn. rewrite <- Hr in Hn. congruence.
    + exists p0. split; [|split; assumption]. unfold stored. unfold kp at 1. rewrite G112; assumption.
  - intros q Hq Tq.
    destruct (key_eq_dec (kp (p_source q) (p_ext q)) (kp (p_source p) (p_ext p))) as [Ek|Nk].
    + exfalso. unfold stored in Hq. rewrite Ek, G112e in Hq. discriminate.
    + unfold stored in Hq. unfold kp at 1 in Hq. rewrite G112 in Hq by exact Nk.
      pose proof (inv_Q s HI q Hq Tq) as Hg. unfold kt at 1. rewrite G16; [exact Hg|].
      intros _ Hk.
      apply (kt_inj (p_target q) (p_source q) (p_ext q) (p_target p) (p_source p) (p_ext p)) in Hk.
      destruct Hk as [_ [Hk1 Hk2]]. apply Nk. rewrite Hk1, Hk2. reflexivity.
Qed.

Lemma inv_fold_delete : forall (A : Type) (f : A -> option payment) (s0 : st) l s1,
  (forall x p, In x l -> f x = Some p -> stored s0 p) ->
  Inv s1 -> (forall k v, get s1 k = Some v -> get s0 k = Some v) ->
  Inv (fold_left (fun s' x => match f x with Some p => delete_payment s' p | None => s' end) l s1).
Proof.
  intros A f s0. induction l as [|x l IH]; intros s1 Hl HI Hsub; cbn [fold_left]; [exact HI|].
  apply IH.
  - intros y p Hy. apply Hl. right. exact Hy.
  - destruct (f x) as [p|] eqn:E; [|exact HI].
    apply inv_delete_payment; [exact HI|].
    intros v Hg. apply Hsub in Hg. pose proof (Hl x p (or_introl eq_refl) E) as Hst.
    unfold stored in Hst. congruence.
  - destruct (f x) as [p|]; [|exact Hsub].
    intros k v Hg. apply Hsub. eapply delete_sub. exact Hg.
Qed.

(** ---- every operation preserves the invariant ---- *)
Lemma addr_ok_ne : forall a, addr_ok a = true -> a <> [].
Proof. intros a H ->. cbn in H. discriminate. Qed.

Lemma inv_create_payment : forall s p s', Inv s -> create_payment s p = Some s' -> Inv s'.
Proof.
  intros s p s' HI H. unfold create_payment in H.
  destruct (negb (wf_payment p)) eqn:W; [discriminate|].
  destruct (has s _); [discriminate|]. injection H as <-.
  apply inv_set_payment; [exact HI|].
  apply negb_false_iff in W. unfold wf_payment in W. rewrite !andb_true_iff in W.
  apply addr_ok_ne. tauto.
Qed.

Lemma get_payment_stored : forall s a e p, Inv s -> get_payment s a e = Some p ->
  stored s p /\ p_source p = a /\ p_ext p = e /\ a <> [].
Proof.
  intros s a e p HI G. apply get_payment_iff in G.
  destruct (inv_stored_at _ _ _ _ HI G) as [H1 [H2 H3]].
  unfold stored. rewrite H1, H2. auto.
Qed.

Lemma inv_take_payment : forall s t src e s', Inv s -> take_payment s t src e = Some s' -> Inv s'.
Proof.
  intros s t src e s' HI H. unfold take_payment in H.
  match type of H with (if ?c then _ else _) = _ => destruct c end; [discriminate|].
  destruct (get_payment s src e) as [p|] eqn:G; [|discriminate].
  destruct (Nat.eqb _ 0); [discriminate|].
  destruct (negb _); [discriminate|]. injection H as <-.
  destruct (get_payment_stored _ _ _ _ HI G) as [Hst _].
  apply inv_delete_payment; [exact HI|]. intros v Hg. unfold stored in Hst. congruence.
Qed.

Lemma inv_accept_payment : forall s t tup src sup e s',
  Inv s -> accept_payment s t tup src sup e = Some s' -> Inv s'.
Proof.
  intros s t tup src sup e s' HI H. unfold accept_payment in H.
  match type of H with (if ?c then _ else _) = _ => destruct c end; [discriminate|].
  destruct (get_payment s src e) as [p|] eqn:G; [|discriminate].
  destruct (negb (Bool.eqb _ _)); [discriminate|].
  destruct (negb _); [discriminate|]. injection H as <-.
  destruct (get_payment_stored _ _ _ _ HI G) as [Hst _].
  apply inv_delete_payment; [exact HI|]. intros v Hg. unfold stored in Hst. congruence.
Qed.

Lemma inv_cancel_payments : forall s src es s', Inv s -> cancel_payments s src es = Some s' -> Inv s'.
Proof.
  intros s src es s' HI H. unfold cancel_payments in H. cbv zeta in H.
  match type of H with (if ?c then _ else _) = _ => destruct c end; [discriminate|].
  match type of H with (if ?c then _ else _) = _ => destruct c end; [discriminate|].
  injection H as <-.
  apply (inv_fold_delete bytes (fun e => get_payment s src e) s).
  - intros x p _ G. apply (get_payment_stored _ _ _ _ HI G).
  - exact HI.
  - auto.
Qed.

Lemma inv_reject_payments : forall s t srcs s', Inv s -> reject_payments s t srcs = Some s' -> Inv s'.
Proof.
  intros s t srcs s' HI H. unfold reject_payments in H. cbv zeta in H.
  match type of H with (if ?c then _ else _) = _ => destruct c end; [discriminate|].
  match type of H with (if ?c then _ else _) = _ => destruct c end; [discriminate|].
  injection H as <-.
  apply (inv_fold_delete payment (fun x => Some x) s).
  - intros x p Hx Hp. injection Hp as <-.
    apply in_concat in Hx. destruct Hx as [l [Hl Hx]].
    apply in_map_iff in Hl. destruct Hl as [src0 [<- _]].
    unfold payments_for_target_source in Hx. apply in_flat_map in Hx.
    destruct Hx as [kv [_ Hx]].
    destruct (get_payment s src0 (fst kv)) as [q|] eqn:G; [|destruct Hx].
    destruct Hx as [<-|[]]. apply (get_payment_stored _ _ _ _ HI G).
  - exact HI.
  - auto.
Qed.

Lemma inv_retarget_payment : forall s src e nt s',
  Inv s -> retarget_payment s src e nt = Some s' -> Inv s'.
Proof.
  intros s src e nt s' HI H. unfold retarget_payment in H.
  match type of H with (if ?c then _ else _) = _ => destruct c end; [discriminate|].
  destruct (get_payment s src e) as [p|] eqn:G; [|discriminate].
  destruct (tgt_str_eqb _ _ nt false); [discriminate|]. injection H as <-.
  destruct (get_payment_stored _ _ _ _ HI G) as [_ [Hs [_ Hne]]].
  apply inv_set_payment; [exact HI|]. cbn [p_source]. rewrite Hs. exact Hne.
Qed.

Lemma inv_step : forall s o, Inv s -> Inv (fst (step s o)).
Proof.
  intros s o HI. unfold step. destruct o.
  - destruct (create_order s o) as [[s' id]|] eqn:E; cbn [fst]; [|exact HI].
    eapply inv_fr; [exact HI|]. eapply fr_create_order; exact E.
  - destruct (cancel_order s id) as [s'|] eqn:E; cbn [fst]; [|exact HI].
    eapply inv_fr; [exact HI|]. eapply fr_cancel_order; exact E.
  - destruct (set_order_ext s m id e) as [s'|] eqn:E; cbn [fst]; [|exact HI].
    eapply inv_fr; [exact HI|]. eapply fr_set_order_ext; exact E.
  - destruct (fill_orders s full part) as [s'|] eqn:E; cbn [fst]; [|exact HI].
    eapply inv_fr; [exact HI|]. eapply fr_fill_orders; exact E.
  - cbn [fst]. eapply inv_fr; [exact HI|]. apply fr_close_market.
  - destruct (create_payment s p) as [s'|] eqn:E; cbn [fst]; [|exact HI].
    eapply inv_create_payment; eauto.
  - destruct (accept_payment s t tup src sup e) as [s'|] eqn:E; cbn [fst]; [|exact HI].
    eapply inv_accept_payment; eauto.
  - destruct (take_payment s t src e) as [s'|] eqn:E; cbn [fst]; [|exact HI].
    eapply inv_take_payment; eauto.
  - destruct (cancel_payments s src es) as [s'|] eqn:E; cbn [fst]; [|exact HI].
    eapply inv_cancel_payments; eauto.
  - destruct (reject_payments s t srcs) as [s'|] eqn:E; cbn [fst]; [|exact HI].
    eapply inv_reject_payments; eauto.
  - destruct (retarget_payment s src e nt) as [s'|] eqn:E; cbn [fst]; [|exact HI].
    eapply inv_retarget_payment; eauto.
Qed.

Lemma inv_run_from : forall ops s, Inv s -> Inv (run_from s ops).
Proof.
  induction ops as [|o ops IH]; intros s HI; [exact HI|].
  unfold run_from. cbn [fold_left]. apply IH. apply inv_step. exact HI.
Qed.

Lemma inv_run : forall ops, Inv (run ops).
Proof. intros ops. unfold run. apply inv_run_from. apply inv_init. Qed.

(** ---- the listings ---- *)
Lemma in_sel : forall (A B : Type) (G : A -> option B) l p,
  In p (flat_map (fun kv => match G kv with Some q => [q] | None => [] end) l) <->
  exists kv, In kv l /\ G kv = Some p.
Proof.
  intros A B G l p. rewrite in_flat_map. split; intros [kv [Hin H]]; exists kv; split; auto.
  - destruct (G kv) as [q|]; [|destruct H]. destruct H as [->|[]]. reflexivity.
  - rewrite H. left. reflexivity.
Qed.

Lemma nodup_sel : forall (A : Type) (G : key * val -> option payment) (f : payment -> A)
                         (h : A -> key) (l : list (key * val)),
  NoDup (map fst l) ->
  (forall kv p, In kv l -> G kv = Some p -> fst kv = h (f p)) ->
  NoDup (map f (flat_map (fun kv => match G kv with Some q => [q] | None => [] end) l)).
Proof.
  intros A G f h. induction l as [|kv l IH]; intros Hnd Hh; cbn [flat_map]; [constructor|].
  cbn [map] in Hnd. inversion Hnd as [|? ? Hnin Hnd']; subst.
  assert (IH' : NoDup (map f (flat_map (fun kv => match G kv with Some q => [q] | None => [] end) l))).
  { apply IH; [exact Hnd'|]. intros kv' p Hin. apply Hh. right. exact Hin. }
  destruct (G kv) as [p|] eqn:E; cbn [app map]; [|exact IH'].
  constructor; [|exact IH'].
  intros Hin. apply in_map_iff in Hin. destruct Hin as [q [Hfq Hq]].
  apply in_sel in Hq. destruct Hq as [kv' [Hin' G']].
  apply Hnin. apply in_map_iff. exists kv'. split; [|exact Hin'].
  rewrite (Hh kv' q (or_intror Hin') G'), (Hh kv p (or_introl eq_refl) E), Hfq. reflexivity.
Qed.

Definition selpay (kv : key * val) : option payment :=
  match snd kv with VPay p => Some p | _ => None end.

Lemma sel_ext : forall l : list (key * val),
  flat_map (fun kv => match snd kv with VPay p => [p] | _ => [] end) l =
  flat_map (fun kv => match selpay kv with Some q => [q] | None => [] end) l.
Proof. intros l. apply flat_map_ext. intros [k [o|p|b]]; reflexivity. Qed.

Lemma selpay_some : forall r v p, selpay (r, v) = Some p -> v = VPay p.
Proof. intros r v p H. unfold selpay in H. cbn [snd] in H. destruct v; congruence. Qed.

Definition enc (ab : bytes * bytes) : key := len_prefix (fst ab) ++ snd ab.

Lemma all_ok : forall s, Inv s ->
  NoDup (map (fun p => (p_source p, p_ext p)) (all_payments s)) /\
  forall p, In p (all_payments s) <-> get_payment s (p_source p) (p_ext p) = Some p.
Proof.
  intros s HI. pose proof (inv_S s HI) as HS.
  assert (Ent : forall r v, In (r, v) (pstore s p_all_pay) <-> get s (112 :: r) = Some v).
  { intros r v. rewrite pstore_In. unfold p_all_pay. cbn [app]. apply sorted_In_get. exact HS. }
  unfold all_payments. rewrite sel_ext. split.
  - apply (nodup_sel _ selpay (fun p => (p_source p, p_ext p)) enc).
    + apply sorted_NoDup_keys. apply pstore_sorted. exact HS.
    + intros [r v] p Hin Hsel. apply selpay_some in Hsel. subst v. apply Ent in Hin.
      destruct (inv_P s HI _ _ Hin) as [q [Hq [Hr _]]]. injection Hq as <-. exact Hr.
  - intros p. rewrite in_sel. split.
    + intros [[r v] [Hin Hsel]]. apply selpay_some in Hsel. subst v. apply Ent in Hin.
      destruct (inv_P s HI _ _ Hin) as [q [Hq [Hr _]]]. injection Hq as <-.
      apply get_payment_iff. unfold kp. rewrite <- Hr. exact Hin.
    + intros G. apply get_payment_iff in G. unfold kp in G. apply Ent in G.
      eexists. split; [exact G|]. reflexivity.
Qed.

Lemma src_ok : forall s src, Inv s ->
  NoDup (map p_ext (payments_of_source s src)) /\
  forall p, In p (payments_of_source s src) <->
            (get_payment s (p_source p) (p_ext p) = Some p /\ p_source p = src).
Proof.
  intros s src HI. pose proof (inv_S s HI) as HS.
  assert (Ent : forall r v, In (r, v) (pstore s (p_pay_src src)) <-> get s (kp src r) = Some v).
  { intros r v. rewrite pstore_In. unfold p_pay_src, kp. cbn [app]. apply sorted_In_get. exact HS. }
  unfold payments_of_source. rewrite sel_ext. split.
  - apply (nodup_sel _ selpay p_ext (fun e => e)).
    + apply sorted_NoDup_keys. apply pstore_sorted. exact HS.
    + intros [r v] p Hin Hsel. apply selpay_some in Hsel. subst v. apply Ent in Hin.
      destruct (inv_stored_at _ _ _ _ HI Hin) as [_ [He _]]. cbn [fst]. symmetry. exact He.
  - intros p. rewrite in_sel. split.
    + intros [[r v] [Hin Hsel]]. apply selpay_some in Hsel. subst v. apply Ent in Hin.
      destruct (inv_stored_at _ _ _ _ HI Hin) as [Hs [He _]].
      split; [|exact Hs]. apply get_payment_iff. rewrite Hs, He. exact Hin.
    + intros [G Hs]. apply get_payment_iff in G. rewrite Hs in G. apply Ent in G.
      eexists. split; [exact G|]. reflexivity.
Qed.

Definition seltgt (s : st) (kv : key * val) : option payment :=
  match parse_len_prefixed (fst kv) with
  | Some (a, e) => get_payment s a e
  | None => None
  end.

Lemma tgt_ext : forall (s : st) (l : list (key * val)),
  flat_map (fun kv => match parse_len_prefixed (fst kv) with
                      | Some (src, e) => match get_payment s src e with Some p => [p] | None => [] end
                      | None => []
                      end) l =
  flat_map (fun kv => match seltgt s kv with Some q => [q] | None => [] end) l.
Proof.
  intros s l. apply flat_map_ext. intros kv. unfold seltgt.
  destruct (parse_len_prefixed (fst kv)) as [[a e]|]; [destruct (get_payment s a e)|]; reflexivity.
Qed.

Lemma tgt_entry : forall s t r v, Inv s -> In (r, v) (pstore s (p_tgt t)) ->
  exists p0, stored s p0 /\ p_target p0 = t /\ t <> [] /\
             r = len_prefix (p_source p0) ++ p_ext p0 /\ seltgt s (r, v) = Some p0.
Proof.
  intros s t r v HI Hin. apply pstore_In in Hin. unfold p_tgt in Hin. cbn [app] in Hin.
  apply (sorted_In_get _ _ _ (inv_S s HI)) in Hin.
  destruct (inv_T s HI _ _ Hin) as [p0 [St0 [Tn0 Hr]]].
  apply len_prefix_inj in Hr. destruct Hr as [Ht Hr].
  exists p0. split; [exact St0|]. split; [symmetry; exact Ht|]. split; [rewrite Ht; exact Tn0|].
  split; [exact Hr|].
  destruct (inv_stored_at _ _ _ _ HI St0) as [_ [_ Hne]].
  unfold seltgt. cbn [fst]. rewrite Hr, parse_ok by exact Hne.
  apply get_payment_iff. exact St0.
Qed.

Lemma tgt_ok : forall s t, Inv s ->
  NoDup (map (fun p => (p_source p, p_ext p)) (payments_of_target s t)) /\
  forall p, In p (payments_of_target s t) <->
            (get_payment s (p_source p) (p_ext p) = Some p /\ p_target p = t /\ t <> []).
Proof.
  intros s t HI. pose proof (inv_S s HI) as HS.
  unfold payments_of_target. rewrite tgt_ext. split.
  - apply (nodup_sel _ (seltgt s) (fun p => (p_source p, p_ext p)) enc).
    + apply sorted_NoDup_keys. apply pstore_sorted. exact HS.
    + intros [r v] p Hin Hsel.
      destruct (tgt_entry _ _ _ _ HI Hin) as [p0 [_ [_ [_ [Hr Hs0]]]]].
      rewrite Hs0 in Hsel. injection Hsel as <-. exact Hr.
  - intros p. rewrite in_sel. split.
    + intros [[r v] [Hin Hsel]].
      destruct (tgt_entry _ _ _ _ HI Hin) as [p0 [St0 [Ht [Hne [_ Hs0]]]]].
      rewrite Hs0 in Hsel. injection Hsel as <-.
      split; [apply get_payment_iff; exact St0|]. split; assumption.
    + intros [G [Ht Hne]]. apply get_payment_iff in G.
      assert (Tn : p_target p <> []) by (rewrite Ht; exact Hne).
      pose proof (inv_Q s HI p G Tn) as Hq.
      destruct (get s (kt (p_target p) (p_source p) (p_ext p))) as [v|] eqn:Eg; [|congruence].
      apply get_In in Eg. rewrite Ht in Eg.
      exists (len_prefix (p_source p) ++ p_ext p, v). split.
      * apply pstore_In. unfold p_tgt. cbn [app]. exact Eg.
      * destruct (inv_stored_at _ _ _ _ HI G) as [_ [_ Hsn]].
        unfold seltgt. cbn [fst]. rewrite parse_ok by exact Hsn.
        apply get_payment_iff. exact G.
Qed.

Lemma payments_consistent : forall ops,
  let s := run ops in
  (NoDup (map (fun p => (p_source p, p_ext p)) (all_payments s)) /\
   forall p, In p (all_payments s) <-> get_payment s (p_source p) (p_ext p) = Some p) /\
  (forall src,
     NoDup (map p_ext (payments_of_source s src)) /\
     forall p, In p (payments_of_source s src) <->
               (get_payment s (p_source p) (p_ext p) = Some p /\ p_source p = src)) /\
  (forall t,
     NoDup (map (fun p => (p_source p, p_ext p)) (payments_of_target s t)) /\
     forall p, In p (payments_of_target s t) <->
               (get_payment s (p_source p) (p_ext p) = Some p /\ p_target p = t /\ t <> [])).
Proof.
  intros ops s. pose proof (inv_run ops : Inv s) as HI. clearbody s.
  split; [apply all_ok; exact HI|]. split.
  - intros src. apply src_ok. exact HI.
  - intros t. apply tgt_ok. exact HI.
Qed.

Print Assumptions payments_consistent.
