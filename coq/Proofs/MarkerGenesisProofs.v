(** Proofs for Genesis/MarkerGenesis.v (property C18, marker module): the export of a well-formed
    marker state exists and importing it over the same auth accounts gives the state back.
    Closed under the global context. *)
From Coq Require Import ZArith NArith List Bool Sorted Lia.
From PV Require Import Genesis.RoundTrip Genesis.Indexed Genesis.MarkerGenesis Proofs.RoundTripProofs Proofs.TableLemmas.
Import ListNotations.
Open Scope Z_scope.

(* ------------------------------------------------------------------ generic helpers *)

Lemma In_tbuild : forall (R : Type) (es : list (key * R)) k v, In (k, v) (tbuild es) -> In (k, v) es.
Proof.
  intros R es k v H. apply In_tget in H; [|apply tbuild_sorted].
  unfold tbuild in H. apply tget_set_all_in in H; [|constructor].
  destruct H as [H|H]; [exact H | cbn [tget] in H; discriminate H].
Qed.

(** a key all of whose writes carry the same value ends up with that value *)
Lemma tget_set_all_unique : forall (R : Type) (es : list (key * R)) k v t,
  tsorted t -> (In (k, v) es \/ tget k t = Some v) ->
  (forall v', In (k, v') es -> v' = v) -> tget k (set_all es t) = Some v.
Proof.
  intros R es. induction es as [|[k' v'] es IH]; intros k v t Hs H Hu.
  - destruct H as [H|H]; [destruct H | exact H].
  - change (set_all ((k', v') :: es) t) with (set_all es (tset k' v' t)).
    apply IH.
    + apply tset_sorted; exact Hs.
    + destruct H as [[H|H]|H].
      * inversion H; subst. right. apply tget_tset_same. exact Hs.
      * left. exact H.
      * right. destruct (kcmp k k') eqn:E.
        -- apply kcmp_eq in E. subst k'. rewrite (Hu v' (or_introl eq_refl)).
           apply tget_tset_same; exact Hs.
        -- rewrite tget_tset_other; [exact H | exact Hs | rewrite E; discriminate].
        -- rewrite tget_tset_other; [exact H | exact Hs | rewrite E; discriminate].
    + intros v2 Hin. apply Hu. right. exact Hin.
Qed.

Lemma Forall2_In_left : forall (A B : Type) (P : A -> B -> Prop) l1 l2 x,
  Forall2 P l1 l2 -> In x l1 -> exists y, In y l2 /\ P x y.
Proof.
  intros A B P l1 l2 x H. induction H as [|a b l1 l2 Hab Hl IH]; intro Hin; [destruct Hin|].
  destruct Hin as [Hin|Hin].
  - subst a. exists b. split; [left; reflexivity | exact Hab].
  - destruct (IH Hin) as [y [Hy Hp]]. exists y. split; [right; exact Hy | exact Hp].
Qed.

Lemma Forall2_In_right : forall (A B : Type) (P : A -> B -> Prop) l1 l2 y,
  Forall2 P l1 l2 -> In y l2 -> exists x, In x l1 /\ P x y.
Proof.
  intros A B P l1 l2 y H. induction H as [|a b l1 l2 Hab Hl IH]; intro Hin; [destruct Hin|].
  destruct Hin as [Hin|Hin].
  - subst b. exists a. split; [left; reflexivity | exact Hab].
  - destruct (IH Hin) as [x [Hx Hp]]. exists x. split; [right; exact Hx | exact Hp].
Qed.

Lemma StronglySorted_map_in : forall (A B : Type) (P : A -> A -> Prop) (Q : B -> B -> Prop) (f : A -> B) l,
  StronglySorted P l ->
  (forall x y, In x l -> In y l -> P x y -> Q (f x) (f y)) ->
  StronglySorted Q (map f l).
Proof.
  intros A B P Q f l H. induction H as [|a l Hs IH Hall]; intro Hpq; cbn [map]; [constructor|].
  constructor.
  - apply IH. intros x y Hx Hy. apply Hpq; right; assumption.
  - rewrite Forall_forall in Hall |- *. intros b Hb. apply in_map_iff in Hb.
    destruct Hb as [x [Ex Hx]]. subst b. apply Hpq; [left; reflexivity | right; exact Hx | apply Hall; exact Hx].
Qed.

Lemma Forall_texport_id : forall (R : Type) (P : R -> Prop) (t : table R),
  Forall (fun kr => P (snd kr)) t -> Forall P (texport (fun e => e) t).
Proof.
  intros R P t H. unfold texport. induction H as [|x l Hx Hl IH]; cbn [map]; constructor; assumption.
Qed.

Lemma sorted_tget_all : forall (R : Type) (t : table R),
  tsorted t -> Forall (fun e => tget (fst e) t = Some (snd e)) t.
Proof.
  intros R t Hs. rewrite Forall_forall. intros [k v] Hin. cbn [fst snd]. apply In_tget; assumption.
Qed.

Lemma k_marker_inj : forall a b, k_marker a = k_marker b -> a = b.
Proof. intros a b H. unfold k_marker in H. apply len_prefixed_inj. congruence. Qed.

Lemma k_account_inj : forall a b, k_account a = k_account b -> a = b.
Proof. intros a b H. unfold k_account in H. congruence. Qed.

(** the entries [regroup] lists under an owner carry the owner's address *)
Lemma filter_readdress : forall (N0 : Type) (a : key) (l : list (key * N0)),
  map (fun n => (a, n)) (map snd (filter (fun e => keqb (fst e) a) l)) = filter (fun e => keqb (fst e) a) l.
Proof.
  intros N0 a l. induction l as [|[b n] l IH]; [reflexivity|].
  cbn [filter fst]. destruct (keqb b a) eqn:E; [|exact IH].
  apply keqb_true in E. subst b. cbn [map snd]. rewrite IH. reflexivity.
Qed.

Lemma nav_entries_regroup : forall (ms : list marker) (navs : list (key * mnav)),
  flat_map nav_entries (map (fun g => (fst g, map snd (snd g))) (regroup mr_addr fst ms navs)) =
  flat_map snd (regroup mr_addr fst ms navs).
Proof.
  intros ms navs. unfold regroup. induction ms as [|o ms IH]; [reflexivity|].
  cbn [map flat_map]. rewrite IH. f_equal.
  unfold nav_entries. cbn [fst snd]. apply filter_readdress.
Qed.

Lemma nav_groups_valid : forall (nv : mnav -> bool) (ms : list marker) (navs : list (key * mnav)),
  Forall (fun e => nv (snd e) = true) navs ->
  forallb (fun grp => forallb nv (snd grp))
          (map (fun g => (fst g, map snd (snd g))) (regroup mr_addr fst ms navs)) = true.
Proof.
  intros nv ms navs H. unfold regroup. induction ms as [|o ms IH]; [reflexivity|].
  cbn [map forallb fst snd]. rewrite IH. rewrite andb_true_r.
  apply forallb_forall. intros n Hn. apply in_map_iff in Hn. destruct Hn as [e [En He]]. subst n.
  apply filter_In in He. destruct He as [He _]. rewrite Forall_forall in H. apply H. exact He.
Qed.

(* ------------------------------------------------------------------ the marker module *)

Lemma exported_id : forall m, mr_seq m = 0%N -> exported m = m.
Proof.
  intros m H. destruct m as [f1 f2 f3 f4 f5 f6 f7 f8 f9 f10 f11 f12 f13].
  cbn [mr_seq] in H. subst f3. reflexivity.
Qed.

Lemma with_accnum_id : forall m, with_accnum m (mr_accnum m) = m.
Proof. intros m. destruct m. reflexivity. Qed.

Section MarkerProofs.
  Variable mv : marker -> bool.
  Variable nv : mnav -> bool.

  Definition acc_ok (accs : table marker) : Prop :=
    tsorted accs /\
    Forall (fun kr => fst kr = k_account (mr_addr (snd kr)) /\ mv (snd kr) = true /\
                      mr_seq (snd kr) = 0%N) accs.

  (** registry entry [e] names the stored marker account [m] *)
  Definition erel (accs : table marker) (e : key * key) (m : marker) : Prop :=
    tget (k_account (snd e)) accs = Some m /\ mr_addr m = snd e /\ fst e = k_marker (snd e) /\
    mv m = true /\ mr_seq m = 0%N.

  Lemma registry_of_map : forall accs,
    Forall (fun kr => mv (snd kr) = true) accs ->
    registry_of mv accs = map (fun kr => (k_marker (mr_addr (snd kr)), mr_addr (snd kr))) accs.
  Proof.
    intros accs H. unfold registry_of. induction H as [|kr l Hx Hl IH]; [reflexivity|].
    cbn [flat_map map]. rewrite Hx, IH. reflexivity.
  Qed.

  Lemma acc_ok_valid : forall accs, acc_ok accs -> Forall (fun kr => mv (snd kr) = true) accs.
  Proof.
    intros accs [_ H]. eapply Forall_impl; [|exact H]. intros kr (_ & Hv & _). exact Hv.
  Qed.

  Lemma registry_entries : forall accs, acc_ok accs ->
    Forall (fun e => exists m, erel accs e m) (tbuild (registry_of mv accs)).
  Proof.
    intros accs Hok. pose proof (acc_ok_valid accs Hok) as Hv. destruct Hok as [Hs Hf].
    rewrite (registry_of_map accs Hv). rewrite Forall_forall. intros [k a] Hin.
    apply In_tbuild in Hin. apply in_map_iff in Hin. destruct Hin as [[k0 m] [E Hin]].
    cbn [snd] in E. injection E as Ek Ea. subst k a.
    rewrite Forall_forall in Hf. destruct (Hf _ Hin) as (Hk & Hmv & Hseq). cbn [fst snd] in Hk, Hmv, Hseq.
    subst k0. exists m. unfold erel. cbn [fst snd].
    split; [apply In_tget; assumption|]. repeat split; assumption.
  Qed.

  Lemma registry_has : forall accs k0 m, acc_ok accs -> In (k0, m) accs ->
    tget (k_marker (mr_addr m)) (tbuild (registry_of mv accs)) = Some (mr_addr m).
  Proof.
    intros accs k0 m Hok Hin. rewrite (registry_of_map accs (acc_ok_valid accs Hok)).
    unfold tbuild. apply tget_set_all_unique.
    - constructor.
    - left. apply in_map_iff. exists (k0, m). split; [reflexivity | exact Hin].
    - intros v' Hv. apply in_map_iff in Hv. destruct Hv as [kr [E _]].
      pose proof (f_equal fst E) as E1. pose proof (f_equal snd E) as E2. cbn [fst snd] in E1, E2.
      subst v'. apply k_marker_inj. exact E1.
  Qed.

  Lemma export_markers_ok : forall accs ix,
    Forall (fun e => exists m, erel accs e m) ix ->
    exists ms, export_markers accs ix = Some ms /\ Forall2 (erel accs) ix ms.
  Proof.
    intros accs ix H. induction H as [|[k a] ix [m Hm] Hix [ms [Hms HF]]].
    - exists []. split; [reflexivity | constructor].
    - exists (m :: ms). split.
      + cbn [export_markers]. destruct Hm as (Hg & _ & _ & _ & Hseq). cbn [snd] in Hg.
        rewrite Hg, Hms. rewrite (exported_id m Hseq). reflexivity.
      + constructor; assumption.
  Qed.

  Lemma markers_valid : forall accs ix ms, Forall2 (erel accs) ix ms -> forallb mv ms = true.
  Proof.
    intros accs ix ms H. induction H as [|e m ix ms Hem Hl IH]; [reflexivity|].
    cbn [forallb]. destruct Hem as (_ & _ & _ & Hv & _). rewrite Hv, IH. reflexivity.
  Qed.

  (** one marker of the genesis whose account number is the one found (in the accounts written so
      far, else at the account of another type): it is written as it is, no fresh number is used *)
  Lemma marker_step_eq : forall other next A X fr m,
    mv m = true ->
    match tget (k_account (mr_addr m)) A with
    | Some ex => mr_accnum ex = mr_accnum m
    | None => other (mr_addr m) = Some (mr_accnum m)
    end ->
    marker_step mv other next (Some (A, X, fr)) m =
    Some (tset (k_account (mr_addr m)) m A, tset (k_marker (mr_addr m)) (mr_addr m) X, fr).
  Proof.
    intros other next A X fr m Hv Hn. unfold marker_step.
    destruct (tget (k_account (mr_addr m)) A) as [ex|]; rewrite Hn; cbv beta iota zeta;
      rewrite with_accnum_id, Hv; reflexivity.
  Qed.

  Lemma marker_step_id : forall other next accs I fr m,
    tget (k_account (mr_addr m)) accs = Some m -> mv m = true ->
    tget (k_marker (mr_addr m)) I = Some (mr_addr m) ->
    marker_step mv other next (Some (accs, I, fr)) m = Some (accs, I, fr).
  Proof.
    intros other next accs I fr m Hg Hv Hi. rewrite marker_step_eq; [| exact Hv | rewrite Hg; reflexivity].
    rewrite (tset_same_id _ _ _ _ Hg). rewrite (tset_same_id _ _ _ _ Hi). reflexivity.
  Qed.

  Lemma marker_fold_id : forall other next accs I fr ix ms,
    Forall2 (erel accs) ix ms -> Forall (fun e => tget (fst e) I = Some (snd e)) ix ->
    fold_left (marker_step mv other next) ms (Some (accs, I, fr)) = Some (accs, I, fr).
  Proof.
    intros other next accs I fr ix ms H. induction H as [|e m ix ms Hem Hl IH]; intro Hall; [reflexivity|].
    inversion Hall as [|? ? He Hall']; subst. cbn [fold_left].
    destruct Hem as (Hg & Ha & Hk & Hv & _).
    rewrite marker_step_id.
    - apply IH. exact Hall'.
    - rewrite Ha. exact Hg.
    - exact Hv.
    - rewrite Ha. rewrite <- Hk. exact He.
  Qed.

  (** the same loop over an account store that holds only (some of) the state's own accounts and
      where the accounts of another type carry the markers' numbers: a run of plain writes *)
  Lemma marker_fold_fresh : forall other next accs ms A X fr,
    tsorted A -> (forall k x, tget k A = Some x -> tget k accs = Some x) ->
    Forall (fun m => tget (k_account (mr_addr m)) accs = Some m /\ mv m = true /\
                     other (mr_addr m) = Some (mr_accnum m)) ms ->
    fold_left (marker_step mv other next) ms (Some (A, X, fr)) =
    Some (set_all (map (fun m => (k_account (mr_addr m), m)) ms) A,
          set_all (map (fun m => (k_marker (mr_addr m), mr_addr m)) ms) X, fr).
  Proof.
    intros other next accs ms. induction ms as [|m ms IH]; intros A X fr Hs Hsub Hall; [reflexivity|].
    inversion Hall as [|? ? (Hg & Hv & Ho) Hall']; subst. cbn [fold_left map].
    rewrite marker_step_eq; [| exact Hv |].
    2:{ destruct (tget (k_account (mr_addr m)) A) as [ex|] eqn:E; [|exact Ho].
        apply Hsub in E. rewrite Hg in E. injection E as E. subst ex. reflexivity. }
    rewrite IH; [reflexivity | apply tset_sorted; exact Hs | | exact Hall'].
    intros k x Hk. destruct (kcmp k (k_account (mr_addr m))) eqn:E.
    - apply kcmp_eq in E. subst k. rewrite (tget_tset_same _ _ _ _ Hs) in Hk. rewrite Hg. exact Hk.
    - rewrite tget_tset_other in Hk; [apply Hsub; exact Hk | exact Hs | rewrite E; discriminate].
    - rewrite tget_tset_other in Hk; [apply Hsub; exact Hk | exact Hs | rewrite E; discriminate].
  Qed.

  (** the registry entries are those of the exported markers, in order *)
  Lemma registry_of_exported : forall accs ix ms,
    Forall2 (erel accs) ix ms -> map (fun m => (k_marker (mr_addr m), mr_addr m)) ms = ix.
  Proof.
    intros accs ix ms H. induction H as [|[k a] m ix ms Hem Hl IH]; [reflexivity|].
    cbn [map]. rewrite IH. destruct Hem as (_ & Ha & Hk & _). cbn [fst snd] in Ha, Hk.
    rewrite Ha, <- Hk. reflexivity.
  Qed.

  (** writing the exported markers into an empty account store gives the accounts table back *)
  Lemma accounts_rebuilt : forall accs ms,
    acc_ok accs -> Forall2 (erel accs) (tbuild (registry_of mv accs)) ms ->
    tbuild (map (fun m => (k_account (mr_addr m), m)) ms) = accs.
  Proof.
    intros accs ms Hok HF.
    assert (Hms : forall m, In m ms -> tget (k_account (mr_addr m)) accs = Some m).
    { intros m Hm. destruct (Forall2_In_right _ _ _ _ _ _ HF Hm) as [e [_ (Hg & Ha & _)]].
      rewrite Ha. exact Hg. }
    assert (Hfwd : forall k v, tget k (tbuild (map (fun m => (k_account (mr_addr m), m)) ms)) = Some v ->
                               tget k accs = Some v).
    { intros k v H. unfold tbuild in H. apply tget_set_all_in in H; [|constructor].
      destruct H as [H|H]; [|cbn [tget] in H; discriminate H].
      apply in_map_iff in H. destruct H as [m [E Hm]].
      pose proof (f_equal fst E) as E1. pose proof (f_equal snd E) as E2. cbn [fst snd] in E1, E2.
      subst k v. apply Hms. exact Hm. }
    assert (Hbwd : forall k v, tget k accs = Some v ->
                               tget k (tbuild (map (fun m => (k_account (mr_addr m), m)) ms)) = Some v).
    { intros k v H. pose proof (tget_In _ _ _ _ H) as Hin.
      assert (Hk : k = k_account (mr_addr v)).
      { destruct Hok as [_ Hacc]. rewrite Forall_forall in Hacc. destruct (Hacc _ Hin) as (Hk & _). exact Hk. }
      pose proof (registry_has accs _ v Hok Hin) as Hreg. apply tget_In in Hreg.
      destruct (Forall2_In_left _ _ _ _ _ _ HF Hreg) as [o [Ho (Hg & _)]]. cbn [snd] in Hg.
      rewrite <- Hk, H in Hg. injection Hg as Hg. subst o.
      unfold tbuild. apply tget_set_all_unique.
      - constructor.
      - left. apply in_map_iff. exists v. split; [rewrite Hk; reflexivity | exact Ho].
      - intros v' Hv'. apply in_map_iff in Hv'. destruct Hv' as [m [E Hm]].
        pose proof (f_equal fst E) as E1. pose proof (f_equal snd E) as E2. cbn [fst snd] in E1, E2.
        subst v'. pose proof (Hms _ Hm) as Hgm. rewrite E1, H in Hgm. injection Hgm as Hgm. symmetry. exact Hgm. }
    destruct Hok as [Hs _]. apply sorted_ext_eq; [apply tbuild_sorted | exact Hs |].
    intro k. destruct (tget k accs) as [v|] eqn:E.
    - apply Hbwd. exact E.
    - destruct (tget k (tbuild (map (fun m => (k_account (mr_addr m), m)) ms))) as [v|] eqn:E2; [|reflexivity].
      apply Hfwd in E2. rewrite E in E2. discriminate E2.
  Qed.

  (** the exported markers come in the order of their length-prefixed addresses *)
  Lemma owners_sorted : forall accs ix ms,
    Forall2 (erel accs) ix ms -> tsorted ix ->
    StronglySorted (olt mr_addr len_prefixed) ms.
  Proof.
    intros accs ix ms H. induction H as [|e m ix ms Hem Hl IH]; intro Hs; [constructor|].
    inversion Hs as [|? ? Hs' Hall]; subst. constructor; [apply IH; exact Hs'|].
    rewrite Forall_forall in Hall |- *. intros m' Hm'.
    destruct (Forall2_In_right _ _ _ _ _ _ Hl Hm') as [e' [He' Hem']].
    specialize (Hall _ He'). unfold klt in Hall.
    destruct Hem as (_ & Ha & Hk & _). destruct Hem' as (_ & Ha' & Hk' & _).
    rewrite Hk, Hk' in Hall. unfold k_marker in Hall. rewrite kcmp_cons_same in Hall.
    unfold olt. rewrite Ha, Ha'. exact Hall.
  Qed.

  (** the stored net asset values come in the order of their markers' length-prefixed addresses *)
  Lemma navs_sorted : forall (t : table (key * mnav)),
    tsorted t ->
    Forall (fun kr => fst kr = k_nav (fst (snd kr)) (nv_denom (snd (snd kr)))) t ->
    StronglySorted (ele fst len_prefixed) (texport (fun e => e) t).
  Proof.
    intros t Hs Hf. unfold texport. apply StronglySorted_map_in with (P := klt); [exact Hs|].
    intros x y Hx Hy Hlt. rewrite Forall_forall in Hf.
    unfold klt in Hlt. rewrite (Hf _ Hx), (Hf _ Hy) in Hlt.
    unfold k_nav in Hlt. rewrite kcmp_cons_same, kcmp_len_prefixed_app in Hlt.
    unfold ele. intro Hgt. rewrite Hgt in Hlt. discriminate Hlt.
  Qed.

  (** every stored net asset value belongs to one of the exported markers *)
  Lemma navs_covered : forall accs ms (t : table (key * mnav)),
    acc_ok accs -> Forall2 (erel accs) (tbuild (registry_of mv accs)) ms ->
    Forall (fun kr => exists m, tget (k_account (fst (snd kr))) accs = Some m) t ->
    Forall (fun e => exists o, In o ms /\ mr_addr o = fst e) (texport (fun e => e) t).
  Proof.
    intros accs ms t Hok HF Hf. apply Forall_texport_id. eapply Forall_impl; [|exact Hf].
    intros [k [a n]] [m Hg]. cbn [fst snd] in Hg |- *.
    pose proof (tget_In _ _ _ _ Hg) as Hin.
    assert (Ha : a = mr_addr m).
    { destruct Hok as [_ Hacc]. rewrite Forall_forall in Hacc. destruct (Hacc _ Hin) as (Hk & _).
      cbn [fst snd] in Hk. apply k_account_inj. exact Hk. }
    pose proof (registry_has accs _ m Hok Hin) as Hreg. apply tget_In in Hreg.
    destruct (Forall2_In_left _ _ _ _ _ _ HF Hreg) as [o [Ho Hrel]].
    exists o. split; [exact Ho|]. destruct Hrel as (_ & Hao & _). cbn [snd] in Hao.
    rewrite Hao. symmetry. exact Ha.
  Qed.

  Lemma export_ok : forall s, marker_wf mv nv s ->
    exists ms, export_markers (mks_accounts s) (mks_index s) = Some ms /\
               Forall2 (erel (mks_accounts s)) (mks_index s) ms.
  Proof.
    intros s Hwf. destruct Hwf as (Hs & Hacc & HI & _). rewrite HI.
    apply export_markers_ok. apply registry_entries. split; assumption.
  Qed.
End MarkerProofs.

(* ------------------------------------------------------------------ the statements *)

Lemma marker_export_total : forall mv nv s,
  marker_wf mv nv s -> exists g, marker_export s = Some g.
Proof.
  intros mv nv s Hwf. destruct (export_ok mv nv s Hwf) as [ms [Hms _]].
  unfold marker_export. rewrite Hms. eexists. reflexivity.
Qed.

(** what the marker loop does not touch: validation, deny list, net asset values *)
Lemma marker_import_rest : forall mv nv pre other next p accs I deny navs ms A X fr,
  marker_wf mv nv {| mks_params := p; mks_accounts := accs; mks_index := I; mks_deny := deny; mks_navs := navs |} ->
  Forall2 (erel mv accs) I ms ->
  fold_left (marker_step mv other next) ms (Some (pre, tbuild (registry_of mv pre), 0%N)) = Some (A, X, fr) ->
  marker_import mv nv pre other next
    {| mkg_params := p; mkg_markers := ms; mkg_deny := texport (fun e => e) deny;
       mkg_navs := map (fun g => (fst g, map snd (snd g))) (regroup mr_addr fst ms (texport (fun e => e) navs)) |} =
  Some {| mks_params := p; mks_accounts := A; mks_index := X; mks_deny := deny; mks_navs := navs |}.
Proof.
  intros mv nv pre other next p accs I deny navs ms A X fr Hwf HF2 Hfold.
  unfold marker_wf in Hwf. cbn [mks_params mks_accounts mks_index mks_deny mks_navs] in Hwf.
  destruct Hwf as (Hs & Hacc & HI & Hds & Hd & Hns & Hn).
  assert (Hok : acc_ok mv accs) by (split; assumption).
  assert (HIs : tsorted I) by (rewrite HI; apply tbuild_sorted).
  unfold marker_import. cbn [mkg_params mkg_markers mkg_deny mkg_navs].
  rewrite (markers_valid mv accs I ms HF2).
  rewrite nav_groups_valid.
  2:{ apply Forall_texport_id. eapply Forall_impl; [|exact Hn]. intros kr (_ & _ & Hv & _). exact Hv. }
  cbn [andb]. rewrite Hfold.
  rewrite timport_plain.
  2:{ exact Hds. }
  2:{ eapply Forall_impl; [|exact Hd]. intros [k [a b]] (Hk & Ha & Hb). cbn [fst snd] in *.
      unfold deny_key. cbn [fst snd]. rewrite Ha, Hb. cbn [andb]. rewrite Hk. reflexivity. }
  rewrite nav_entries_regroup.
  rewrite (regroup_flat mr_addr fst len_prefixed).
  - rewrite timport_plain; [reflexivity | exact Hns |].
    eapply Forall_impl; [|exact Hn]. intros [k [a n]] (Hk & Ha & _). cbn [fst snd] in *.
    unfold nav_key. cbn [fst snd]. rewrite Ha, Hk. reflexivity.
  - apply (owners_sorted mv accs I ms HF2 HIs).
  - apply navs_sorted; [exact Hns|].
    eapply Forall_impl; [|exact Hn]. intros kr (Hk & _). exact Hk.
  - rewrite HI in HF2. apply (navs_covered mv accs ms navs Hok HF2).
    eapply Forall_impl; [|exact Hn]. intros kr (_ & _ & _ & Hm). exact Hm.
Qed.

(* the auth genesis keeps the MarkerAccounts *)
Lemma marker_import_export_kept : forall mv nv other next s g,
  marker_wf mv nv s -> marker_export s = Some g ->
  marker_import mv nv (mks_accounts s) other next g = Some s.
Proof.
  intros mv nv other next s g Hwf Hex.
  destruct (export_ok mv nv s Hwf) as [ms [Hms HF2]].
  destruct s as [p accs I deny navs]. unfold marker_export in Hex.
  cbn [mks_params mks_accounts mks_index mks_deny mks_navs] in *.
  rewrite Hms in Hex. injection Hex as Hex. subst g.
  apply (marker_import_rest mv nv accs other next p accs I deny navs ms accs I 0%N Hwf HF2).
  destruct Hwf as (_ & _ & HI & _). cbn [mks_accounts mks_index] in HI. rewrite <- HI.
  assert (HIs : tsorted I) by (rewrite HI; apply tbuild_sorted).
  apply (marker_fold_id mv other next accs I 0%N I ms HF2 (sorted_tget_all _ I HIs)).
Qed.

(* the scenario of app/export.go: no MarkerAccount in the auth genesis, the BaseAccount left at
   every marker's address carries the marker's account number *)
Lemma marker_import_export : forall mv nv other next s g,
  marker_wf mv nv s -> marker_export s = Some g ->
  (forall k m, In (k, m) (mks_accounts s) -> other (mr_addr m) = Some (mr_accnum m)) ->
  marker_import mv nv [] other next g = Some s.
Proof.
  intros mv nv other next s g Hwf Hex Hother.
  destruct (export_ok mv nv s Hwf) as [ms [Hms HF2]].
  destruct s as [p accs I deny navs]. unfold marker_export in Hex.
  cbn [mks_params mks_accounts mks_index mks_deny mks_navs] in *.
  rewrite Hms in Hex. injection Hex as Hex. subst g.
  apply (marker_import_rest mv nv [] other next p accs I deny navs ms accs I 0%N Hwf HF2).
  destruct Hwf as (Hs & Hacc & HI & _). cbn [mks_accounts mks_index] in Hs, Hacc, HI.
  assert (Hok : acc_ok mv accs) by (split; assumption).
  assert (HIs : tsorted I) by (rewrite HI; apply tbuild_sorted).
  assert (Hall : Forall (fun m => tget (k_account (mr_addr m)) accs = Some m /\ mv m = true /\
                                 other (mr_addr m) = Some (mr_accnum m)) ms).
  { rewrite Forall_forall. intros m Hm.
    destruct (Forall2_In_right _ _ _ _ _ _ HF2 Hm) as [e [_ (Hg & Ha & _ & Hv & _)]].
    rewrite Ha. split; [exact Hg|]. split; [exact Hv|]. rewrite <- Ha.
    apply (Hother (k_account (snd e))). apply tget_In. exact Hg. }
  assert (Hsub : forall k x, tget k (@nil (key * marker)) = Some x -> tget k accs = Some x).
  { intros k x H. cbn [tget] in H. discriminate H. }
  pose proof (marker_fold_fresh mv other next accs ms [] [] 0%N (SSorted_nil _) Hsub Hall) as Hfold.
  etransitivity; [exact Hfold|].
  fold (tbuild (map (fun m => (k_account (mr_addr m), m)) ms)).
  fold (tbuild (map (fun m => (k_marker (mr_addr m), mr_addr m)) ms)).
  rewrite (registry_of_exported mv accs I ms HF2). rewrite (tbuild_self _ I HIs).
  rewrite HI in HF2. rewrite (accounts_rebuilt mv accs ms Hok HF2). reflexivity.
Qed.
