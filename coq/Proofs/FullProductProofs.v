(** Round trip of the product of all ten custom modules' genesis models (Genesis/FullProduct.v,
    property C18).  Closed under the global context. *)
From Coq Require Import ZArith NArith List Bool.
From PV Require Import Genesis.RoundTrip Genesis.Indexed Genesis.ExchangeGenesis Genesis.MarkerGenesis
                       Genesis.MetadataGenesis Genesis.FullProduct
                       Proofs.RoundTripProofs Proofs.ExchangeGenesisProofs Proofs.MarkerGenesisProofs
                       Proofs.MetadataGenesisProofs.
Import ListNotations.
Open Scope Z_scope.

Lemma full_import_of_export : forall x s g,
  full_wf x s -> full_export x s = Some g -> full_import x g = Some s.
Proof.
  intros x [[q sa n att f h tr] mk md ex] g Hwf Hex.
  unfold full_wf in Hwf. cbn [f_base f_marker f_md f_exch a_hold] in Hwf.
  destruct Hwf as (Hb & Hmk & Hmd & Hx & Hpre & Hnum & Hvo).
  unfold app_wf in Hb. cbn [a_quar a_sanc a_name a_attr a_fees a_hold a_trig] in Hb.
  destruct Hb as (Hq & Hs & Hn & Ha & Hf & Hh & Ht & r & Hr1 & Hr2 & Hr3).
  unfold full_export in Hex. cbn [f_base f_marker f_md f_exch] in Hex.
  destruct (marker_export mk) as [mg|] eqn:Emk; [|discriminate].
  injection Hex as Hex. subst g.
  unfold full_import. cbn [fg_base fg_marker fg_md fg_exch].
  unfold app_export. cbn [g_quar g_sanc g_name g_attr g_fees g_hold g_trig
                           a_quar a_sanc a_name a_attr a_fees a_hold a_trig].
  rewrite Hpre. rewrite (marker_import_export _ _ _ _ _ _ Hmk Emk Hnum).
  rewrite (quar_import_export _ _ _ Hq).
  rewrite (sanc_import_export _ _ Hs).
  rewrite (name_import_export _ _ _ _ Hn).
  rewrite (attr_import_export _ _ _ _ _ Ha).
  unfold ensure_accountdata. rewrite Hr1, Hr2. unfold keqb. rewrite Hr3. cbn [andb].
  rewrite Hvo. rewrite (md_import_export _ _ _ _ _ Hmd).
  rewrite (msgfee_import_export _ _ _ Hf).
  rewrite (hold_import_export _ _ Hh).
  rewrite (exch_import_export _ _ Hx).
  rewrite (trig_import_export _ _ Ht).
  reflexivity.
Qed.

Lemma full_import_export : forall x s,
  full_wf x s -> exists g, full_export x s = Some g /\ full_import x g = Some s.
Proof.
  intros x s Hwf.
  destruct Hwf as (Hb & Hmk & Hrest).
  destruct (marker_export_total _ _ _ Hmk) as [mg Emk].
  exists {| fg_base := app_export (fx_base x) (f_base s); fg_marker := mg;
            fg_md := md_export (f_md s); fg_exch := exch_export (f_exch s) |}.
  assert (Hex : full_export x s = Some {| fg_base := app_export (fx_base x) (f_base s); fg_marker := mg;
                                          fg_md := md_export (f_md s); fg_exch := exch_export (f_exch s) |}).
  { unfold full_export. rewrite Emk. reflexivity. }
  split; [exact Hex|]. apply full_import_of_export; [|exact Hex].
  split; [exact Hb|]. split; [exact Hmk | exact Hrest].
Qed.

Lemma full_export_import_export : forall x s g s',
  full_wf x s -> full_export x s = Some g -> full_import x g = Some s' -> full_export x s' = Some g.
Proof.
  intros x s g s' Hwf Hex Him. rewrite (full_import_of_export x s g Hwf Hex) in Him.
  injection Him as Him. subst s'. exact Hex.
Qed.

Lemma full_reimported_accepts_own_export : forall x s g s',
  full_wf x s -> full_export x s = Some g -> full_import x g = Some s' ->
  exists g', full_export x s' = Some g' /\ full_import x g' = Some s'.
Proof.
  intros x s g s' Hwf Hex Him. pose proof (full_import_of_export x s g Hwf Hex) as H.
  rewrite H in Him. injection Him as Him. subst s'. exists g. split; assumption.
Qed.

(** the secondary indexes rebuilt by InitGenesis are the exporting chain's *)
Lemma full_indexes_rebuilt : forall x s g s',
  full_wf x s -> full_export x s = Some g -> full_import x g = Some s' ->
  xs_index (f_exch s') = xs_index (f_exch s) /\
  mks_index (f_marker s') = mks_index (f_marker s) /\
  md_index (f_md s') = md_index (f_md s).
Proof.
  intros x s g s' Hwf Hex Him. rewrite (full_import_of_export x s g Hwf Hex) in Him.
  injection Him as Him. subst s'. repeat split.
Qed.
