(** Proofs about [PV.Exchange.Holds] (property C02): every operation moves the hold by exactly
    the change of what the exchange records require to be reserved. *)
From Coq Require Import ZArith List Bool Lia ZifyBool.
From PV Require Import Exchange.Holds.
Import ListNotations.
Open Scope Z_scope.
Ltac Zify.zify_post_hook ::= Z.div_mod_to_equations.

Ltac zeqb :=
  repeat match goal with
         | |- context [Z.eqb ?x ?y] => destruct (Z.eqb_spec x y); subst
         end.

(** * First-match association lists. *)
Section AListFacts.
  Context {K V : Type}.
  Variable eqb : K -> K -> bool.
  Hypothesis eqb_spec : forall x y, reflect (x = y) (eqb x y).

  Implicit Types (k : K) (v : V) (l : list (K * V)).

  Lemma afind_aset k v l k' :
    afind eqb k' (aset eqb k v l) = if eqb k' k then Some v else afind eqb k' l.
  Proof.
    induction l as [|[k0 v0] r IH]; cbn [aset afind].
    - reflexivity.
    - destruct (eqb_spec k k0) as [E|E]; cbn [afind].
      + subst k0. destruct (eqb k' k); reflexivity.
      + destruct (eqb_spec k' k0) as [E'|E'].
        * subst k0. destruct (eqb_spec k' k) as [E2|E2]; [congruence|reflexivity].
        * exact IH.
  Qed.

  Lemma afind_in k l v : afind eqb k l = Some v -> In k (map fst l).
  Proof.
    induction l as [|[k0 v0] r IH]; cbn [afind map fst In]; intros H.
    - discriminate.
    - destruct (eqb_spec k k0) as [E|E]; [left; congruence | right; auto].
  Qed.

  Lemma keys_aset k v l k' : In k' (map fst (aset eqb k v l)) -> k' = k \/ In k' (map fst l).
  Proof.
    induction l as [|[k0 v0] r IH]; cbn [aset map fst In]; intros H.
    - destruct H as [H|[]]; auto.
    - destruct (eqb_spec k k0) as [E|E]; cbn [map fst In] in H.
      + right. exact H.
      + destruct H as [H|H]; [right; left; exact H|].
        destruct (IH H) as [H'|H']; auto.
  Qed.

  Lemma keys_adel k l k' : In k' (map fst (adel eqb k l)) -> In k' (map fst l).
  Proof.
    induction l as [|[k0 v0] r IH]; cbn [adel map fst In]; intros H.
    - exact H.
    - destruct (eqb_spec k k0) as [E|E]; cbn [map fst In] in H.
      + right. exact H.
      + destruct H as [H|H]; [left; exact H | right; auto].
  Qed.

  Variable f : K * V -> Z.

  Definition fnd (k : K) (l : list (K * V)) : Z :=
    match afind eqb k l with Some v0 => f (k, v0) | None => 0 end.

  Lemma sum_by_aset k v l : sum_by f (aset eqb k v l) = sum_by f l - fnd k l + f (k, v).
  Proof.
    unfold fnd, sum_by. induction l as [|[k0 v0] r IH]; cbn [aset afind fold_right].
    - lia.
    - destruct (eqb_spec k k0) as [E|E]; cbn [fold_right].
      + subst k0. lia.
      + lia.
  Qed.

  Lemma sum_by_adel k l : sum_by f (adel eqb k l) = sum_by f l - fnd k l.
  Proof.
    unfold fnd, sum_by. induction l as [|[k0 v0] r IH]; cbn [adel afind fold_right].
    - lia.
    - destruct (eqb_spec k k0) as [E|E]; cbn [fold_right].
      + subst k0. lia.
      + lia.
  Qed.
End AListFacts.

Lemma sum_by_cons {X} (f : X -> Z) x l : sum_by f (x :: l) = f x + sum_by f l.
Proof. reflexivity. Qed.

Lemma sum_by_app {X} (f : X -> Z) l1 l2 : sum_by f (l1 ++ l2) = sum_by f l1 + sum_by f l2.
Proof. induction l1 as [|x r IH]; cbn [app]; rewrite ?sum_by_cons; [reflexivity | lia]. Qed.

Lemma sum_by_zero {X} (f : X -> Z) l : (forall x, In x l -> f x = 0) -> sum_by f l = 0.
Proof.
  induction l as [|x r IH]; intros H; [reflexivity|].
  rewrite sum_by_cons, (H x (or_introl eq_refl)), IH; [reflexivity|].
  intros y Hy. apply H. right. exact Hy.
Qed.

Lemma k2_eqb_spec : forall x y : key2, reflect (x = y) (k2_eqb x y).
Proof.
  intros [a b] [c d]. unfold k2_eqb. cbn [fst snd].
  destruct (Z.eqb_spec a c), (Z.eqb_spec b d); constructor; congruence.
Qed.

Lemma key2_eq_dec : forall x y : key2, {x = y} + {x <> y}.
Proof. decide equality; apply Z.eq_dec. Qed.

Lemma zget_aset k v l k' : zget k' (aset k2_eqb k v l) = if k2_eqb k' k then v else zget k' l.
Proof. unfold zget. rewrite (afind_aset k2_eqb k2_eqb_spec). destruct (k2_eqb k' k); reflexivity. Qed.

(** * Coins. *)
Lemma amt_of_app a b d : amt_of (a ++ b) d = amt_of a d + amt_of b d.
Proof. induction a as [|c r IH]; cbn [app amt_of]; lia. Qed.

Lemma amt_of_add1 d' v cs d : amt_of (coins_add1 d' v cs) d = amt_of cs d + (if d' =? d then v else 0).
Proof.
  induction cs as [|[d0 v0] r IH]; cbn [coins_add1 amt_of fst snd].
  - lia.
  - destruct (Z.eqb_spec d0 d') as [E|E]; cbn [amt_of fst snd].
    + subst d0. destruct (d' =? d); lia.
    + rewrite IH. lia.
Qed.

Lemma amt_of_add a b d : amt_of (coins_add a b) d = amt_of a d + amt_of b d.
Proof.
  unfold coins_add. revert a. induction b as [|c r IH]; intros a; cbn [fold_left amt_of].
  - lia.
  - rewrite IH, amt_of_add1. lia.
Qed.

Lemma amt_of_neg b d : amt_of (coins_neg b) d = - amt_of b d.
Proof.
  unfold coins_neg. induction b as [|c r IH]; cbn [map amt_of fst snd]; [lia|].
  rewrite IH. destruct (fst c =? d); lia.
Qed.

Lemma amt_of_trim cs d : amt_of (coins_trim cs) d = amt_of cs d.
Proof.
  unfold coins_trim. induction cs as [|c r IH]; cbn [filter amt_of]; [reflexivity|].
  destruct (Z.eqb_spec (snd c) 0) as [E|E]; cbn [negb amt_of].
  - rewrite IH, E. destruct (fst c =? d); lia.
  - rewrite IH. reflexivity.
Qed.

Lemma amt_of_sub a b d : amt_of (coins_sub a b) d = amt_of a d - amt_of b d.
Proof. unfold coins_sub. rewrite amt_of_trim, amt_of_add, amt_of_neg. lia. Qed.

Lemma amt_of_zero cs d : coins_is_zero cs = true -> amt_of cs d = 0.
Proof.
  unfold coins_is_zero. induction cs as [|c r IH]; cbn [forallb amt_of]; intros H; [reflexivity|].
  apply andb_prop in H. destruct H as [H1 H2]. rewrite (IH H2).
  destruct (fst c =? d); lia.
Qed.

Lemma amt_of_absent cs d : (forall c, In c cs -> fst c <> d) -> amt_of cs d = 0.
Proof.
  induction cs as [|c r IH]; intros H; cbn [amt_of]; [reflexivity|].
  rewrite IH by (intros c' Hc'; apply H; right; exact Hc').
  destruct (Z.eqb_spec (fst c) d) as [E|E]; [|lia].
  exfalso. exact (H c (or_introl eq_refl) E).
Qed.

(** * Order.Split keeps the owner and the market, and the two parts' hold amounts add up. *)
Lemma split_fees_sum (P : Z * Z -> bool) (g1 g2 : Z -> Z) (fees : list (Z * Z)) d :
  (forall v, g1 v + g2 v = v) ->
  (forall c c', fst c = fst c' -> P c = P c') ->
  amt_of (filter P (coins_trim (map (fun f => (fst f, g1 (snd f))) fees))) d +
  amt_of (filter P (coins_trim (map (fun f => (fst f, g2 (snd f))) fees))) d =
  amt_of (filter P fees) d.
Proof.
  intros Hg HP. unfold coins_trim.
  induction fees as [|c r IH]; cbn [map filter amt_of fst snd]; [reflexivity|].
  assert (E1 : P (fst c, g1 (snd c)) = P c) by (apply HP; reflexivity).
  assert (E2 : P (fst c, g2 (snd c)) = P c) by (apply HP; reflexivity).
  pose proof (Hg (snd c)) as Hc.
  destruct (Z.eqb_spec (g1 (snd c)) 0) as [Z1|Z1], (Z.eqb_spec (g2 (snd c)) 0) as [Z2|Z2];
    cbn [negb filter]; rewrite ?E1, ?E2; destruct (P c); cbn [amt_of fst snd];
    destruct (fst c =? d); lia.
Qed.

Lemma split_preserves_hold o n f l :
  split_order o n = Some (f, l) ->
  o_owner f = o_owner o /\ o_owner l = o_owner o /\ o_market l = o_market o /\
  forall d, amt_of (order_hold f) d + amt_of (order_hold l) d = amt_of (order_hold o) d.
Proof.
  unfold split_order. intros H.
  destruct (_ || _) in H; [discriminate|].
  destruct (negb _) in H; [discriminate|].
  destruct (negb _) in H; [discriminate|].
  injection H as <- <-. cbn [o_owner o_market]. repeat split.
  intros d. unfold order_hold. cbn [o_ask o_assets o_price o_fees fst snd].
  destruct (o_ask o).
  - cbn [amt_of fst snd].
    pose proof (split_fees_sum (fun f : Z * Z => negb (fst f =? fst (o_price o)))
                  (fun v => Z.quot (v * n) (snd (o_assets o)))
                  (fun v => v - Z.quot (v * n) (snd (o_assets o))) (o_fees o) d) as HS.
    lazy beta in HS. rewrite <- HS.
    + destruct (fst (o_assets o) =? d); lia.
    + intros v. lia.
    + intros c c' E. rewrite E. reflexivity.
  - rewrite !amt_of_app. cbn [amt_of fst snd].
    pose proof (split_fees_sum (fun _ => true)
                  (fun v => Z.quot (v * n) (snd (o_assets o)))
                  (fun v => v - Z.quot (v * n) (snd (o_assets o))) (o_fees o) d) as HS.
    lazy beta in HS.
    assert (Hf : forall l0 : coins, filter (fun _ => true) l0 = l0).
    { induction l0 as [|x r IH]; cbn [filter]; [reflexivity | rewrite IH; reflexivity]. }
    rewrite !Hf in HS. rewrite <- HS.
    + destruct (fst (o_price o) =? d); lia.
    + intros v. lia.
    + reflexivity.
Qed.

(** * State: frames, the invariants, the effect of the hold keeper and the bank. *)
Definition le_inv (s : state) : Prop := forall a d, hold_of s a d <= bal_of s a d.

(** Order ids never exceed the last id handed out (GenesisState.Validate enforces it at
    genesis; without it CreateAsk/BidOrder would overwrite a stored order). *)
Definition ids_ok (s : state) : Prop := forall id, In id (map fst (orders s)) -> id <= last_id s.

Definition same_recs (s s' : state) : Prop :=
  orders s' = orders s /\ last_id s' = last_id s /\ commits s' = commits s /\ pays s' = pays s.

Lemma same_recs_refl s : same_recs s s.
Proof. repeat split. Qed.

Lemma same_recs_trans s1 s2 s3 : same_recs s1 s2 -> same_recs s2 s3 -> same_recs s1 s3.
Proof. unfold same_recs. intros (A & B & C & D) (A' & B' & C' & D'). repeat split; congruence. Qed.

Lemma required_same s s' a d : same_recs s s' -> required s' a d = required s a d.
Proof. intros (A & _ & C & D). unfold required. rewrite A, C, D. reflexivity. Qed.

Lemma hold_of_aset s a d v a' d' :
  hold_of (set_holds s (aset k2_eqb (a, d) v (holds s))) a' d' =
  if (a' =? a) && (d' =? d) then v else hold_of s a' d'.
Proof. unfold hold_of. cbn [holds set_holds]. rewrite zget_aset. reflexivity. Qed.

Lemma bal_of_aset s a d v a' d' :
  bal_of (set_bals s (aset k2_eqb (a, d) v (bals s))) a' d' =
  if (a' =? a) && (d' =? d) then v else bal_of s a' d'.
Proof. unfold bal_of. cbn [bals set_bals]. rewrite zget_aset. reflexivity. Qed.

(** Only the hold store changes: account [a]'s hold moves by [sg * amt_of cs]. *)
Definition hold_moved (s s' : state) (a : Z) (sg : Z) (cs : coins) : Prop :=
  same_recs s s' /\ bals s' = bals s /\
  (forall a' d, hold_of s' a' d = hold_of s a' d + (if a' =? a then sg * amt_of cs d else 0)) /\
  (le_inv s -> le_inv s').

Lemma add_hold_spec a cs : forall s s', add_hold s a cs = Some s' -> hold_moved s s' a 1 cs.
Proof.
  unfold hold_moved.
  induction cs as [|[d0 v] r IH]; intros s s' H; cbn [add_hold fst snd] in H.
  - injection H as <-. split; [apply same_recs_refl|]. repeat split; auto.
    intros a' d. cbn [amt_of]. destruct (a' =? a); lia.
  - destruct (Z.eqb_spec v 0) as [Ev|Ev].
    + apply IH in H. destruct H as (Hr & Hb & Hh & Hl). repeat split; try apply Hr; auto.
      intros a' d. rewrite Hh. cbn [amt_of fst snd]. destruct (a' =? a), (d0 =? d); lia.
    + destruct (v <? 0) eqn:Evn; [discriminate|].
      destruct (spendable s a d0 <? v) eqn:Esp; [discriminate|].
      unfold spendable, vlock_of in Esp.
      apply IH in H. destruct H as (Hr & Hb & Hh & Hl). repeat split; try apply Hr; auto.
      * intros a' d. rewrite Hh, hold_of_aset. cbn [amt_of fst snd]. zeqb; cbn [andb]; lia.
      * intros Hle. apply Hl. intros a' d. rewrite hold_of_aset.
        change (bal_of (set_holds s _) a' d) with (bal_of s a' d).
        pose proof (Hle a' d). zeqb; cbn [andb]; lia.
Qed.

Lemma release_hold_spec a cs : forall s s', release_hold s a cs = Some s' -> hold_moved s s' a (-1) cs.
Proof.
  unfold hold_moved.
  induction cs as [|[d0 v] r IH]; intros s s' H; cbn [release_hold fst snd] in H.
  - injection H as <-. split; [apply same_recs_refl|]. repeat split; auto.
    intros a' d. cbn [amt_of]. destruct (a' =? a); lia.
  - destruct (Z.eqb_spec v 0) as [Ev|Ev].
    + apply IH in H. destruct H as (Hr & Hb & Hh & Hl). repeat split; try apply Hr; auto.
      intros a' d. rewrite Hh. cbn [amt_of fst snd]. destruct (a' =? a), (d0 =? d); lia.
    + destruct (v <? 0) eqn:Evn; [discriminate|].
      destruct (hold_of s a d0 - v <? 0) eqn:Esp; [discriminate|].
      apply IH in H. destruct H as (Hr & Hb & Hh & Hl). repeat split; try apply Hr; auto.
      * intros a' d. rewrite Hh, hold_of_aset. cbn [amt_of fst snd]. zeqb; cbn [andb]; lia.
      * intros Hle. apply Hl. intros a' d. rewrite hold_of_aset.
        change (bal_of (set_holds s _) a' d) with (bal_of s a' d).
        pose proof (Hle a' d). zeqb; cbn [andb]; lia.
Qed.

(** Only the balances change, and never below what is on hold. *)
Definition only_bals (s s' : state) : Prop :=
  same_recs s s' /\ holds s' = holds s /\ (le_inv s -> le_inv s').

Lemma only_bals_refl s : only_bals s s.
Proof. split; [apply same_recs_refl|]. split; auto. Qed.

Lemma only_bals_trans s1 s2 s3 : only_bals s1 s2 -> only_bals s2 s3 -> only_bals s1 s3.
Proof.
  intros (A & B & C) (A' & B' & C'). split; [eapply same_recs_trans; eauto|].
  split; [congruence | auto].
Qed.

Lemma spend_spec a cs : forall s s', spend s a cs = Some s' -> only_bals s s'.
Proof.
  induction cs as [|[d0 v] r IH]; intros s s' H; cbn [spend fst snd] in H.
  - injection H as <-. apply only_bals_refl.
  - destruct (v =? 0); [apply IH; exact H|].
    destruct (v <? 0) eqn:Evn; [discriminate|].
    destruct (spendable s a d0 <? v) eqn:Esp; [discriminate|].
    unfold spendable, vlock_of in Esp.
    apply IH in H. eapply only_bals_trans; [|exact H].
    split; [repeat split|]. split; [reflexivity|].
    intros Hle a' d. rewrite bal_of_aset.
    change (hold_of (set_bals s _) a' d) with (hold_of s a' d).
    pose proof (Hle a' d). zeqb; cbn [andb]; lia.
Qed.

Lemma credit_spec a cs : forall s s', credit s a cs = Some s' -> only_bals s s'.
Proof.
  induction cs as [|[d0 v] r IH]; intros s s' H; cbn [credit fst snd] in H.
  - injection H as <-. apply only_bals_refl.
  - destruct (v <? 0) eqn:Evn; [discriminate|].
    apply IH in H. eapply only_bals_trans; [|exact H].
    split; [repeat split|]. split; [reflexivity|].
    intros Hle a' d. rewrite bal_of_aset.
    change (hold_of (set_bals s _) a' d) with (hold_of s a' d).
    pose proof (Hle a' d). zeqb; cbn [andb]; lia.
Qed.

Lemma send_spec s from to cs s' : send s from to cs = Some s' -> only_bals s s'.
Proof.
  unfold send. destruct (spend s from cs) as [s1|] eqn:E1; cbn [obind]; [|discriminate].
  intros E2. eapply only_bals_trans; [eapply spend_spec | eapply credit_spec]; eauto.
Qed.

(** A delegation only lowers balances (never below what is on hold) and vesting locks. *)
Lemma delegate_coins_spec a cs : forall s s', delegate_coins s a cs = Some s' -> only_bals s s'.
Proof.
  induction cs as [|[d0 v] r IH]; intros s s' H; cbn [delegate_coins fst snd] in H.
  - injection H as <-. apply only_bals_refl.
  - destruct (bal_of s a d0 - hold_of s a d0 <? v) eqn:Esp; [discriminate|].
    apply IH in H. eapply only_bals_trans; [|exact H].
    split; [repeat split|]. split; [reflexivity|].
    intros Hle a' d.
    change (bal_of (set_vest ?x _) a' d) with (bal_of x a' d).
    rewrite bal_of_aset.
    change (hold_of (set_vest (set_bals s _) _) a' d) with (hold_of s a' d).
    pose proof (Hle a' d). zeqb; cbn [andb]; lia.
Qed.

Lemma delegate_spec a cs s s' : delegate a cs s = Some s' -> only_bals s s'.
Proof.
  unfold delegate. destruct (coins_pos cs && nodupb (map fst cs)); cbn [negb]; [|discriminate].
  apply delegate_coins_spec.
Qed.

Lemma set_time_spec v s s' : set_time v s = Some s' -> only_bals s s'.
Proof.
  unfold set_time. intros H. injection H as <-.
  split; [repeat split|]. split; [reflexivity|]. intros Hle a d. exact (Hle a d).
Qed.

Lemma net_untouched (xs : list (key2 * Z)) : forall b k,
  ~ In k (map fst xs) ->
  zget k (fold_left (fun b x => aset k2_eqb (fst x) (zget (fst x) b + snd x) b) xs b) = zget k b.
Proof.
  induction xs as [|x r IH]; intros b k Hk; cbn [fold_left]; [reflexivity|].
  rewrite IH by (intros Hin; apply Hk; right; exact Hin).
  rewrite zget_aset. destruct (k2_eqb_spec k (fst x)) as [E|E]; [|reflexivity].
  exfalso. apply Hk. left. symmetry. exact E.
Qed.

Lemma apply_net_spec s xs s' : apply_net s xs = Some s' -> only_bals s s'.
Proof.
  unfold apply_net. intros H.
  destruct (forallb _ xs) eqn:Hall in H; [|discriminate]. injection H as <-.
  split; [repeat split|]. split; [reflexivity|].
  intros Hle a d. unfold hold_of, bal_of. cbn [holds bals set_bals].
  destruct (in_dec key2_eq_dec (a, d) (map fst xs)) as [Hin|Hout].
  - apply in_map_iff in Hin. destruct Hin as (x & Ex & Hx).
    rewrite forallb_forall in Hall. specialize (Hall x Hx). rewrite Ex in Hall.
    destruct (snd x <? 0); lia.
  - rewrite net_untouched by exact Hout. exact (Hle a d).
Qed.

(** * Order ids. *)
Definition ids_mono (s s' : state) : Prop :=
  last_id s <= last_id s' /\
  forall id, In id (map fst (orders s')) -> In id (map fst (orders s)) \/ id <= last_id s'.

Lemma ids_mono_refl s : ids_mono s s.
Proof. split; [lia | auto]. Qed.

Lemma ids_mono_trans s1 s2 s3 : ids_mono s1 s2 -> ids_mono s2 s3 -> ids_mono s1 s3.
Proof.
  intros (A & B) (A' & B'). split; [lia|]. intros id Hin.
  destruct (B' id Hin) as [H|H]; [|right; exact H].
  destruct (B id H) as [H'|H']; [left; exact H' | right; lia].
Qed.

Lemma ids_mono_same s s' : same_recs s s' -> ids_mono s s'.
Proof. intros (A & B & _). split; [lia|]. intros id Hin. left. rewrite <- A. exact Hin. Qed.

Lemma ids_mono_ok s s' : ids_mono s s' -> ids_ok s -> ids_ok s'.
Proof.
  intros (A & B) Hok id Hin. destruct (B id Hin) as [H|H]; [|exact H].
  specialize (Hok id H). lia.
Qed.

Lemma ids_ok_fresh s : ids_ok s -> afind Z.eqb (last_id s + 1) (orders s) = None.
Proof.
  intros Hok. destruct (afind Z.eqb (last_id s + 1) (orders s)) as [o|] eqn:E; [|reflexivity].
  apply (afind_in Z.eqb Z.eqb_spec) in E. specialize (Hok _ E). lia.
Qed.

(** * Effects. *)
(** [eff s s' h]: the hold store and what the records require both moved by [h]. *)
Definition eff (s s' : state) (h : Z -> Z -> Z) : Prop :=
  (forall a d, hold_of s' a d = hold_of s a d + h a d) /\
  (forall a d, required s' a d = required s a d + h a d) /\
  (le_inv s -> le_inv s') /\ ids_mono s s'.

Definition pres (s s' : state) : Prop :=
  ids_ok s ->
  ids_ok s' /\
  (forall a d, hold_of s' a d - required s' a d = hold_of s a d - required s a d) /\
  (le_inv s -> le_inv s').

Lemma pres_refl s : pres s s.
Proof. intros H. repeat split; auto. Qed.

Lemma pres_trans s1 s2 s3 : pres s1 s2 -> pres s2 s3 -> pres s1 s3.
Proof.
  intros P1 P2 H1. destruct (P1 H1) as (H2 & D1 & L1). destruct (P2 H2) as (H3 & D2 & L2).
  repeat split; auto. intros a d. rewrite D2. apply D1.
Qed.

Lemma eff_pres s s' h : eff s s' h -> pres s s'.
Proof.
  intros (Hh & Hr & Hl & Hi) Hok. split; [eapply ids_mono_ok; eauto|]. split; [|exact Hl].
  intros a d. rewrite Hh, Hr. lia.
Qed.

Lemma eff_ext s s' h h' : (forall a d, h a d = h' a d) -> eff s s' h -> eff s s' h'.
Proof.
  intros E (Hh & Hr & Hl & Hi). repeat split; try apply Hi; auto; intros a d; rewrite <- E; auto.
Qed.

Lemma eff_refl s : eff s s (fun _ _ => 0).
Proof. repeat split; auto; intros; lia. Qed.

Lemma only_bals_eff s s' : only_bals s s' -> eff s s' (fun _ _ => 0).
Proof.
  intros (Hr & Hh & Hl). split; [|split; [|split]].
  - intros a d. unfold hold_of. rewrite Hh. lia.
  - intros a d. rewrite (required_same s s') by exact Hr. lia.
  - exact Hl.
  - apply ids_mono_same. exact Hr.
Qed.

Lemma eff_trans s s1 s2 h1 h2 :
  eff s s1 h1 -> eff s1 s2 h2 -> eff s s2 (fun a d => h1 a d + h2 a d).
Proof.
  intros (Hh & Hr & Hl & Hi) (Hh' & Hr' & Hl' & Hi'). split; [|split; [|split]].
  - intros a d. rewrite Hh', Hh. lia.
  - intros a d. rewrite Hr', Hr. lia.
  - auto.
  - eapply ids_mono_trans; eauto.
Qed.

Lemma eff_then_bals s s1 s2 h : eff s s1 h -> only_bals s1 s2 -> eff s s2 h.
Proof.
  intros E B. apply only_bals_eff in B.
  eapply eff_ext; [|exact (eff_trans _ _ _ _ _ E B)]. intros; cbn beta; lia.
Qed.

Lemma bals_then_eff s s1 s2 h : only_bals s s1 -> eff s1 s2 h -> eff s s2 h.
Proof.
  intros B E. apply only_bals_eff in B.
  eapply eff_ext; [|exact (eff_trans _ _ _ _ _ B E)]. intros; cbn beta; lia.
Qed.

Lemma only_bals_pres s s' : only_bals s s' -> pres s s'.
Proof. intros B. eapply eff_pres, only_bals_eff, B. Qed.

Lemma fold_opt_rel {X} (R : state -> state -> Prop) (f : X -> state -> option state) :
  (forall s, R s s) -> (forall a b c, R a b -> R b c -> R a c) ->
  (forall x s s', f x s = Some s' -> R s s') ->
  forall l s s', fold_opt f l s = Some s' -> R s s'.
Proof.
  intros Hrefl Htrans Hf. induction l as [|x r IH]; intros s s' H; cbn [fold_opt] in H.
  - injection H as <-. apply Hrefl.
  - destruct (f x s) as [s1|] eqn:E; cbn [obind] in H; [|discriminate].
    eapply Htrans; [eapply Hf; exact E | eapply IH; exact H].
Qed.

Lemma fold_opt_pres {X} (f : X -> state -> option state) :
  (forall x s s', f x s = Some s' -> pres s s') ->
  forall l s s', fold_opt f l s = Some s' -> pres s s'.
Proof. apply fold_opt_rel; [exact pres_refl | exact pres_trans]. Qed.

Lemma try_or_skip_pres f :
  (forall s s', f s = Some s' -> pres s s') ->
  forall s s', try_or_skip f s = Some s' -> pres s s'.
Proof.
  intros Hf s s' H. unfold try_or_skip in H. destruct (f s) as [s1|] eqn:E.
  - injection H as <-. apply Hf. exact E.
  - injection H as <-. apply pres_refl.
Qed.

(** * What the records require after a store update. *)
Lemma req_orders_aset s id o lid a d :
  required (set_orders s (aset Z.eqb id o (orders s)) lid) a d =
  required s a d - order_req_of s id a d + order_req a d (id, o).
Proof.
  unfold required, order_req_of. cbn [orders commits pays set_orders].
  rewrite (sum_by_aset Z.eqb Z.eqb_spec). unfold fnd. lia.
Qed.

Lemma req_orders_adel s id lid a d :
  required (set_orders s (adel Z.eqb id (orders s)) lid) a d =
  required s a d - order_req_of s id a d.
Proof.
  unfold required, order_req_of. cbn [orders commits pays set_orders].
  rewrite (sum_by_adel Z.eqb Z.eqb_spec). unfold fnd. lia.
Qed.

Lemma req_pays_aset s k p a d :
  required (set_pays s (aset k2_eqb k p (pays s))) a d =
  required s a d - pay_req_of s k a d + pay_req a d (k, p).
Proof.
  unfold required, pay_req_of. cbn [orders commits pays set_pays].
  rewrite (sum_by_aset k2_eqb k2_eqb_spec). unfold fnd. lia.
Qed.

Lemma req_pays_adel s k a d :
  required (set_pays s (adel k2_eqb k (pays s))) a d = required s a d - pay_req_of s k a d.
Proof.
  unfold required, pay_req_of. cbn [orders commits pays set_pays].
  rewrite (sum_by_adel k2_eqb k2_eqb_spec). unfold fnd. lia.
Qed.

Lemma req_commits_cset s m acct v a d :
  required (set_commits s (cset (m, acct) v (commits s))) a d =
  required s a d - (if acct =? a then amt_of (cget (m, acct) (commits s)) d else 0)
                 + (if acct =? a then amt_of v d else 0).
Proof.
  unfold required, cset, cget. cbn [orders commits pays set_commits].
  destruct (coins_is_zero v) eqn:Ez.
  - rewrite (sum_by_adel k2_eqb k2_eqb_spec). unfold fnd.
    rewrite (amt_of_zero v d Ez).
    destruct (afind k2_eqb (m, acct) (commits s)); unfold commit_req; cbn [fst snd amt_of];
      destruct (acct =? a); lia.
  - rewrite (sum_by_aset k2_eqb k2_eqb_spec). unfold fnd.
    destruct (afind k2_eqb (m, acct) (commits s)); unfold commit_req; cbn [fst snd amt_of];
      rewrite amt_of_trim; destruct (acct =? a); lia.
Qed.

(** * Orders. *)
Lemma create_order_spec o cfee s s' :
  create_order o cfee s = Some s' ->
  (forall a d, hold_of s' a d = hold_of s a d + (if o_owner o =? a then amt_of (order_hold o) d else 0)) /\
  (le_inv s -> le_inv s') /\ ids_mono s s' /\
  (afind Z.eqb (last_id s + 1) (orders s) = None ->
   forall a d, required s' a d = required s a d + (if o_owner o =? a then amt_of (order_hold o) d else 0)).
Proof.
  unfold create_order. destruct (negb (order_valid o)); [discriminate|].
  destruct (spend s (o_owner o) cfee) as [s1|] eqn:Es; cbn [obind]; [|discriminate].
  intros Ha. apply spend_spec in Es. destruct Es as (Hr1 & Hh1 & Hl1).
  apply add_hold_spec in Ha. destruct Ha as (Hr & Hb & Hh & Hl).
  split; [|split; [|split]].
  - intros a d. rewrite Hh. unfold hold_of at 1. cbn [holds set_orders]. rewrite Hh1.
    fold (hold_of s a d). rewrite (Z.eqb_sym a). destruct (o_owner o =? a); lia.
  - intros Hle. apply Hl. exact (Hl1 Hle).
  - destruct Hr as (Ho & Hi & _). destruct Hr1 as (Ho1 & Hi1 & _).
    cbn [orders last_id set_orders] in Ho, Hi. split; [lia|].
    intros id Hin. rewrite Ho in Hin. apply (keys_aset Z.eqb Z.eqb_spec) in Hin.
    destruct Hin as [E|Hin]; [right; lia | left; rewrite <- Ho1; exact Hin].
  - intros Hfresh a d. rewrite (required_same _ s') by exact Hr.
    rewrite req_orders_aset. rewrite (required_same s s1) by exact Hr1.
    unfold order_req_of. destruct Hr1 as (Ho1 & Hi1 & _). rewrite Ho1, Hi1, Hfresh.
    unfold order_req. cbn [snd]. lia.
Qed.

Lemma create_order_pres o cfee s s' : create_order o cfee s = Some s' -> pres s s'.
Proof.
  intros H Hok. apply create_order_spec in H. destruct H as (Hh & Hl & Hi & Hr).
  specialize (Hr (ids_ok_fresh s Hok)).
  split; [eapply ids_mono_ok; eauto|]. split; [|exact Hl].
  intros a d. rewrite Hh, Hr. lia.
Qed.

Lemma cancel_order_eff id s s' :
  cancel_order id s = Some s' -> eff s s' (fun a d => - order_req_of s id a d).
Proof.
  unfold cancel_order.
  destruct (afind Z.eqb id (orders s)) as [o|] eqn:Ef; cbn [obind]; [|discriminate].
  destruct (release_hold s (o_owner o) (order_hold o)) as [s1|] eqn:Er; cbn [obind]; [|discriminate].
  intros H. injection H as <-. apply release_hold_spec in Er. destruct Er as (Hr & Hb & Hh & Hl).
  split; [|split; [|split]].
  - intros a d. unfold hold_of at 1. cbn [holds set_orders]. fold (hold_of s1 a d).
    rewrite Hh. unfold order_req_of. rewrite Ef. unfold order_req. cbn [snd].
    rewrite (Z.eqb_sym a). destruct (o_owner o =? a); lia.
  - intros a d. rewrite req_orders_adel. rewrite (required_same s s1) by exact Hr.
    unfold order_req_of. destruct Hr as (Ho & _). rewrite Ho. lia.
  - exact Hl.
  - destruct Hr as (Ho & Hi & _). split; [cbn [last_id set_orders]; lia|].
    intros id' Hin. cbn [orders set_orders] in Hin.
    apply (keys_adel Z.eqb Z.eqb_spec) in Hin. left. rewrite <- Ho. exact Hin.
Qed.

Lemma fill_partial_eff id n s s' :
  fill_partial id n s = Some s' ->
  exists o fl, afind Z.eqb id (orders s) = Some o /\ split_order o n = Some fl /\
               eff s s' (fun a d => - order_req a d (id, fst fl)).
Proof.
  unfold fill_partial.
  destruct (afind Z.eqb id (orders s)) as [o|] eqn:Ef; cbn [obind]; [|discriminate].
  destruct (split_order o n) as [[f l]|] eqn:Esp; cbn [obind fst snd]; [|discriminate].
  destruct (release_hold s (o_owner o) (order_hold f)) as [s1|] eqn:Er; cbn [obind]; [|discriminate].
  intros H. injection H as <-. exists o, (f, l). split; [reflexivity|]. split; [exact Esp|].
  apply release_hold_spec in Er. destruct Er as (Hr & Hb & Hh & Hl).
  apply split_preserves_hold in Esp. destruct Esp as (Of & Ol & _ & Hsum).
  cbn [fst]. split; [|split; [|split]].
  - intros a d. unfold hold_of at 1. cbn [holds set_orders]. fold (hold_of s1 a d).
    rewrite Hh. unfold order_req. cbn [snd]. rewrite Of.
    rewrite (Z.eqb_sym a). destruct (o_owner o =? a); lia.
  - intros a d. rewrite req_orders_aset. rewrite (required_same s s1) by exact Hr.
    unfold order_req_of. destruct Hr as (Ho & _). rewrite Ho, Ef.
    unfold order_req. cbn [snd]. rewrite Of, Ol. specialize (Hsum d).
    destruct (o_owner o =? a); lia.
  - exact Hl.
  - destruct Hr as (Ho & Hi & _). split; [cbn [last_id set_orders]; lia|].
    intros id' Hin. cbn [orders set_orders] in Hin.
    apply (keys_aset Z.eqb Z.eqb_spec) in Hin. left. rewrite Ho in Hin.
    destruct Hin as [->|Hin]; [|exact Hin].
    eapply (afind_in Z.eqb Z.eqb_spec). exact Ef.
Qed.

Lemma settle_pres req fulls part xfers s s' : settle req fulls part xfers s = Some s' -> pres s s'.
Proof.
  unfold settle, fill_full. destruct (negb (nodupb req)); [discriminate|].
  destruct (negb (nodupb _)); [discriminate|].
  destruct (fold_opt cancel_order fulls s) as [s1|] eqn:E1; cbn [obind]; [|discriminate].
  assert (P1 : pres s s1).
  { eapply fold_opt_pres; [|exact E1]. intros x t t' Hx. eapply eff_pres, cancel_order_eff, Hx. }
  destruct part as [p|].
  - destruct (fill_partial (fst p) (snd p) s1) as [s2|] eqn:E2; cbn [obind]; [|discriminate].
    intros E3. apply fill_partial_eff in E2. destruct E2 as (o & fl & _ & _ & E2).
    eapply pres_trans; [exact P1|]. eapply pres_trans; [eapply eff_pres, E2|].
    eapply only_bals_pres, apply_net_spec, E3.
  - cbn [obind]. intros E3. eapply pres_trans; [exact P1|].
    eapply only_bals_pres, apply_net_spec, E3.
Qed.

Lemma settle_single_eff req p xfers s s' :
  settle req [] (Some p) xfers s = Some s' ->
  exists o fl, afind Z.eqb (fst p) (orders s) = Some o /\ split_order o (snd p) = Some fl /\
               eff s s' (fun a d => - order_req a d (fst p, fst fl)).
Proof.
  unfold settle. destruct (negb (nodupb req)); [discriminate|].
  destruct (negb (nodupb _)); [discriminate|]. cbn [fold_opt obind].
  destruct (fill_partial (fst p) (snd p) s) as [s2|] eqn:E2; cbn [obind]; [|discriminate].
  intros E3. apply fill_partial_eff in E2. destruct E2 as (o & fl & Ef & Esp & E2).
  exists o, fl. split; [exact Ef|]. split; [exact Esp|].
  eapply eff_then_bals; [exact E2 | eapply apply_net_spec, E3].
Qed.

(** * Commitments. *)
Lemma commit_core m acct sg cs new s s1 :
  hold_moved s s1 acct sg cs ->
  (forall d, amt_of new d = amt_of (cget (m, acct) (commits s)) d + sg * amt_of cs d) ->
  eff s (set_commits s1 (cset (m, acct) new (commits s1)))
      (fun a d => if acct =? a then sg * amt_of cs d else 0).
Proof.
  intros (Hr & Hb & Hh & Hl) Hnew. split; [|split; [|split]].
  - intros a d. unfold hold_of at 1. cbn [holds set_commits]. fold (hold_of s1 a d).
    rewrite Hh. rewrite (Z.eqb_sym a). reflexivity.
  - intros a d. rewrite req_commits_cset. rewrite (required_same s s1) by exact Hr.
    destruct Hr as (_ & _ & Hc & _). rewrite Hc, Hnew. destruct (acct =? a); lia.
  - exact Hl.
  - destruct Hr as (Ho & Hi & _). split; [cbn [last_id set_commits]; lia|].
    intros id Hin. cbn [orders set_commits] in Hin. left. rewrite <- Ho. exact Hin.
Qed.

Lemma add_commitment_eff m acct amount s s' :
  add_commitment m acct amount s = Some s' ->
  eff s s' (fun a d => if acct =? a then amt_of amount d else 0).
Proof.
  unfold add_commitment. destruct (coins_is_zero amount) eqn:Ez.
  - intros H. injection H as <-. eapply eff_ext; [|apply eff_refl].
    intros a d. cbn beta. rewrite (amt_of_zero amount d Ez). destruct (acct =? a); reflexivity.
  - destruct (negb (coins_nonneg amount)); [discriminate|].
    destruct (add_hold s acct amount) as [s1|] eqn:Ea; cbn [obind]; [|discriminate].
    intros H. injection H as <-. apply add_hold_spec in Ea.
    eapply eff_ext; [|eapply commit_core; [exact Ea|]].
    + intros a d. cbn beta. destruct (acct =? a); lia.
    + intros d. rewrite amt_of_add. destruct Ea as ((_ & _ & Hc & _) & _). rewrite Hc. lia.
Qed.

Lemma commit_funds_eff m acct amount cfee s s' :
  commit_funds m acct amount cfee s = Some s' ->
  eff s s' (fun a d => if acct =? a then amt_of amount d else 0).
Proof.
  unfold commit_funds. destruct (spend s acct cfee) as [s1|] eqn:Es; cbn [obind]; [|discriminate].
  intros H. eapply bals_then_eff; [eapply spend_spec, Es | eapply add_commitment_eff, H].
Qed.

Lemma release_commitment_eff m acct amount s s' :
  release_commitment m (acct, amount) s = Some s' ->
  exists nr, release_split (cget (m, acct) (commits s)) amount = Some nr /\
             eff s s' (fun a d => if acct =? a then - amt_of (snd nr) d else 0).
Proof.
  unfold release_commitment. cbn [fst snd].
  destruct (release_split (cget (m, acct) (commits s)) amount) as [nr|] eqn:Esp; cbn [obind]; [|discriminate].
  destruct (release_hold s acct (snd nr)) as [s1|] eqn:Er; cbn [obind]; [|discriminate].
  intros H. injection H as <-. exists nr. split; [reflexivity|].
  apply release_hold_spec in Er.
  eapply eff_ext; [|eapply commit_core; [exact Er|]].
  - intros a d. cbn beta. destruct (acct =? a); lia.
  - intros d. unfold release_split in Esp.
    destruct (negb (coins_nonneg amount)); [discriminate|].
    destruct (coins_is_zero (cget (m, acct) (commits s))); [discriminate|].
    destruct (negb (coins_is_zero amount)).
    + destruct (coins_geb (cget (m, acct) (commits s)) amount); [|discriminate].
      injection Esp as <-. cbn [fst snd]. rewrite amt_of_sub. lia.
    + injection Esp as <-. cbn [fst snd amt_of]. lia.
Qed.

Lemma release_commitment_pres m e s s' : release_commitment m e s = Some s' -> pres s s'.
Proof.
  destruct e as [acct amount]. intros H. apply release_commitment_eff in H.
  destruct H as (nr & _ & H). eapply eff_pres, H.
Qed.

Lemma release_commitments_pres m es s s' : release_commitments m es s = Some s' -> pres s s'.
Proof. unfold release_commitments. apply fold_opt_pres. apply release_commitment_pres. Qed.

Lemma settle_commitments_pres m i o f s s' : settle_commitments m i o f s = Some s' -> pres s s'.
Proof.
  unfold settle_commitments. destruct (negb (_ && _ && _)); [discriminate|].
  destruct (negb (coins_eqb _ _)); [discriminate|].
  destruct (release_commitments m _ s) as [s1|] eqn:E1; cbn [obind]; [|discriminate].
  destruct (apply_net s1 _) as [s2|] eqn:E2; cbn [obind]; [|discriminate].
  intros E3. eapply pres_trans; [eapply release_commitments_pres, E1|].
  eapply pres_trans; [eapply only_bals_pres, apply_net_spec, E2|].
  eapply fold_opt_pres; [|exact E3].
  intros x t t' Hx. cbn beta in Hx. eapply eff_pres, add_commitment_eff, Hx.
Qed.

(** * Payments. *)
Lemma delete_release_eff k s s' :
  delete_release k s = Some s' -> eff s s' (fun a d => - pay_req_of s k a d).
Proof.
  unfold delete_release.
  destruct (afind k2_eqb k (pays s)) as [p|] eqn:Ef; cbn [obind]; [|discriminate].
  destruct (release_hold s (fst k) (p_samt p)) as [s1|] eqn:Er; cbn [obind]; [|discriminate].
  intros H. injection H as <-. apply release_hold_spec in Er. destruct Er as (Hr & Hb & Hh & Hl).
  split; [|split; [|split]].
  - intros a d. unfold hold_of at 1. cbn [holds set_pays]. fold (hold_of s1 a d).
    rewrite Hh. unfold pay_req_of. rewrite Ef. unfold pay_req. cbn [fst snd].
    rewrite (Z.eqb_sym a). destruct (fst k =? a); lia.
  - intros a d. rewrite req_pays_adel. rewrite (required_same s s1) by exact Hr.
    unfold pay_req_of. destruct Hr as (_ & _ & _ & Hp). rewrite Hp. lia.
  - exact Hl.
  - destruct Hr as (Ho & Hi & _). split; [cbn [last_id set_pays]; lia|].
    intros id Hin. cbn [orders set_pays] in Hin. left. rewrite <- Ho. exact Hin.
Qed.

Lemma pay_create_eff src ext samt tamt target s s' :
  pay_create src ext samt tamt target s = Some s' ->
  eff s s' (fun a d => if src =? a then amt_of samt d else 0).
Proof.
  unfold pay_create. destruct (_ || _); [discriminate|].
  destruct (afind k2_eqb (src, ext) (pays s)) as [p|] eqn:Ef; [discriminate|].
  intros Ha. apply add_hold_spec in Ha. destruct Ha as (Hr & Hb & Hh & Hl).
  split; [|split; [|split]].
  - intros a d. rewrite Hh. unfold hold_of at 1. cbn [holds set_pays]. fold (hold_of s a d).
    rewrite (Z.eqb_sym a). destruct (src =? a); lia.
  - intros a d. rewrite (required_same _ s') by exact Hr. rewrite req_pays_aset.
    unfold pay_req_of. rewrite Ef. unfold pay_req. cbn [fst snd p_samt]. lia.
  - exact Hl.
  - exact (ids_mono_same _ _ Hr).
Qed.

Lemma pay_accept_eff src ext samt tamt target s s' :
  pay_accept src ext samt tamt target s = Some s' ->
  eff s s' (fun a d => - pay_req_of s (src, ext) a d).
Proof.
  unfold pay_accept. destruct (target =? 0); [discriminate|].
  destruct (afind k2_eqb (src, ext) (pays s)) as [p|] eqn:Ef; cbn [obind]; [|discriminate].
  destruct (negb _); [discriminate|].
  destruct (delete_release (src, ext) s) as [s1|] eqn:E1; cbn [obind]; [|discriminate].
  destruct (send s1 src target (p_samt p)) as [s2|] eqn:E2; cbn [obind]; [|discriminate].
  intros E3. eapply eff_then_bals; [|eapply send_spec, E3].
  eapply eff_then_bals; [|eapply send_spec, E2]. eapply delete_release_eff, E1.
Qed.

Lemma pay_reject_eff target src ext s s' :
  pay_reject target src ext s = Some s' ->
  eff s s' (fun a d => - pay_req_of s (src, ext) a d).
Proof.
  unfold pay_reject. destruct (target =? 0); [discriminate|].
  destruct (afind k2_eqb (src, ext) (pays s)) as [p|] eqn:Ef; cbn [obind]; [|discriminate].
  destruct (_ || _); [discriminate|]. apply delete_release_eff.
Qed.

Lemma pay_retarget_eff src ext newt s s' :
  pay_retarget src ext newt s = Some s' -> eff s s' (fun _ _ => 0).
Proof.
  unfold pay_retarget.
  destruct (afind k2_eqb (src, ext) (pays s)) as [p|] eqn:Ef; cbn [obind]; [|discriminate].
  destruct (p_target p =? newt); [discriminate|]. intros H. injection H as <-.
  split; [|split; [|split]].
  - intros a d. unfold hold_of. cbn [holds set_pays]. lia.
  - intros a d. rewrite req_pays_aset. unfold pay_req_of. rewrite Ef.
    unfold pay_req. cbn [fst snd p_samt]. lia.
  - intros Hle. exact Hle.
  - split; [cbn [last_id set_pays]; lia | intros id Hin; left; exact Hin].
Qed.

Lemma pay_reject_source_pres target src s s' : pay_reject_source target src s = Some s' -> pres s s'.
Proof.
  unfold pay_reject_source. destruct (map fst _) as [|k ks]; [discriminate|].
  apply fold_opt_pres. intros x t t' Hx. eapply eff_pres, delete_release_eff, Hx.
Qed.

Lemma pay_reject_all_pres target srcs s s' : pay_reject_all target srcs s = Some s' -> pres s s'.
Proof.
  unfold pay_reject_all. destruct (target =? 0); [discriminate|].
  destruct srcs as [|x r]; [discriminate|].
  apply fold_opt_pres. apply pay_reject_source_pres.
Qed.

Lemma pay_cancel_pres src exts s s' : pay_cancel src exts s = Some s' -> pres s s'.
Proof.
  unfold pay_cancel. destruct exts as [|x r]; [discriminate|].
  apply fold_opt_pres. intros y t t' Hy. cbn beta in Hy. eapply eff_pres, delete_release_eff, Hy.
Qed.

(** * CloseMarket. *)
Lemma close_market_pres m s s' : close_market m s = Some s' -> pres s s'.
Proof.
  unfold close_market.
  destruct (fold_opt _ _ s) as [s1|] eqn:E1; cbn [obind]; [|discriminate].
  intros E2. eapply pres_trans.
  - eapply fold_opt_pres; [|exact E1]. intros id t t' H. cbn beta in H.
    eapply try_or_skip_pres; [|exact H]. intros u u' Hu. eapply eff_pres, cancel_order_eff, Hu.
  - eapply fold_opt_pres; [|exact E2]. intros a t t' H. cbn beta in H.
    eapply try_or_skip_pres; [|exact H]. intros u u' Hu. eapply release_commitment_pres, Hu.
Qed.

(** * Steps and histories. *)
Lemma cancel_order_by_eff signer priv id s s' :
  cancel_order_by signer priv id s = Some s' -> eff s s' (fun a d => - order_req_of s id a d).
Proof.
  unfold cancel_order_by.
  destruct (afind Z.eqb id (orders s)) as [o|]; cbn [obind]; [|discriminate].
  destruct (_ || _); [|discriminate]. apply cancel_order_eff.
Qed.

Lemma set_ext_id_same id s s' : set_ext_id id s = Some s' -> s' = s.
Proof.
  unfold set_ext_id. destruct (afind Z.eqb id (orders s)); cbn [obind]; [|discriminate].
  intros H. injection H as <-. reflexivity.
Qed.

Lemma op_fun_pres o s s' : op_fun o s = Some s' -> pres s s'.
Proof.
  destruct o; cbn [op_fun].
  - apply create_order_pres.
  - intros H. eapply eff_pres, cancel_order_by_eff, H.
  - apply settle_pres.
  - intros H. eapply eff_pres, commit_funds_eff, H.
  - destruct entries as [|e r]; [discriminate|]. apply release_commitments_pres.
  - apply settle_commitments_pres.
  - intros H. eapply eff_pres, pay_create_eff, H.
  - intros H. eapply eff_pres, pay_accept_eff, H.
  - intros H. eapply eff_pres, pay_reject_eff, H.
  - apply pay_reject_all_pres.
  - apply pay_cancel_pres.
  - intros H. eapply eff_pres, pay_retarget_eff, H.
  - intros H. injection H as <-. apply pres_refl.
  - intros H. apply set_ext_id_same in H. subst s'. apply pres_refl.
  - intros H. eapply only_bals_pres, credit_spec, H.
  - intros H. eapply only_bals_pres, delegate_spec, H.
  - intros H. eapply only_bals_pres, set_time_spec, H.
  - apply close_market_pres.
Qed.

Lemma step_pres s o : pres s (fst (step s o)).
Proof.
  unfold step. destruct (op_adm o); [|apply pres_refl].
  destruct (op_fun o s) as [s'|] eqn:E; cbn [fst]; [|apply pres_refl].
  eapply op_fun_pres, E.
Qed.

Lemma run_pres ops : forall s, pres s (run s ops).
Proof.
  unfold run. induction ops as [|o r IH]; intros s; cbn [fold_left]; [apply pres_refl|].
  eapply pres_trans; [apply step_pres | apply IH].
Qed.

Lemma step_delta s o a d :
  ids_ok s ->
  hold_of (fst (step s o)) a d - hold_of s a d = required (fst (step s o)) a d - required s a d.
Proof. intros Hok. destruct (step_pres s o Hok) as (_ & D & _). specialize (D a d). lia. Qed.

Lemma step_ids_ok s o : ids_ok s -> ids_ok (fst (step s o)).
Proof. intros Hok. exact (proj1 (step_pres s o Hok)). Qed.

Lemma inv_reachable s0 ops :
  ids_ok s0 ->
  (forall a d, hold_of s0 a d = required s0 a d) ->
  (forall a d, hold_of s0 a d <= bal_of s0 a d) ->
  forall a d, hold_of (run s0 ops) a d = required (run s0 ops) a d /\
              hold_of (run s0 ops) a d <= bal_of (run s0 ops) a d.
Proof.
  intros Hok Heq Hle a d. destruct (run_pres ops s0 Hok) as (_ & D & L).
  split; [|exact (L Hle a d)]. specialize (D a d). specialize (Heq a d). lia.
Qed.

Lemma run_ids_ok s0 ops : ids_ok s0 -> ids_ok (run s0 ops).
Proof. intros Hok. exact (proj1 (run_pres ops s0 Hok)). Qed.

Lemma rejected_unchanged s o s' r : step s o = (s', r) -> r <> ROk -> s' = s.
Proof.
  unfold step. destruct (op_adm o).
  - destruct (op_fun o s); intros H; injection H as <- <-; congruence.
  - intros H. injection H as <- <-. reflexivity.
Qed.

(** * Genesis. *)
Lemma zget_nonneg k (l : list (key2 * Z)) : forallb (fun e => 0 <=? snd e) l = true -> 0 <= zget k l.
Proof.
  unfold zget. induction l as [|[k0 v0] r IH]; cbn [forallb afind snd]; intros H; [lia|].
  apply andb_prop in H. destruct H as [H1 H2].
  destruct (k2_eqb k k0); [lia | exact (IH H2)].
Qed.

Lemma required_outside_keys s a d : ~ In (a, d) (genesis_keys s) -> required s a d = 0.
Proof.
  intros Hout. unfold genesis_keys in Hout.
  assert (H1 : sum_by (order_req a d) (orders s) = 0).
  { apply sum_by_zero. intros e He. unfold order_req.
    destruct (Z.eqb_spec (o_owner (snd e)) a) as [E|E]; [|reflexivity].
    apply amt_of_absent. intros c Hc Ec. apply Hout. apply in_or_app. left.
    apply in_flat_map. exists e. split; [exact He|].
    apply in_map_iff. exists c. split; [f_equal; assumption | exact Hc]. }
  assert (H2 : sum_by (commit_req a d) (commits s) = 0).
  { apply sum_by_zero. intros e He. unfold commit_req.
    destruct (Z.eqb_spec (snd (fst e)) a) as [E|E]; [|reflexivity].
    apply amt_of_absent. intros c Hc Ec. apply Hout. apply in_or_app. right. apply in_or_app. left.
    apply in_flat_map. exists e. split; [exact He|].
    apply in_map_iff. exists c. split; [f_equal; assumption | exact Hc]. }
  assert (H3 : sum_by (pay_req a d) (pays s) = 0).
  { apply sum_by_zero. intros e He. unfold pay_req.
    destruct (Z.eqb_spec (fst (fst e)) a) as [E|E]; [|reflexivity].
    apply amt_of_absent. intros c Hc Ec. apply Hout. apply in_or_app. right. apply in_or_app. right.
    apply in_flat_map. exists e. split; [exact He|].
    apply in_map_iff. exists c. split; [f_equal; assumption | exact Hc]. }
  unfold required. lia.
Qed.

Lemma genesis_coverage g s :
  genesis_init g = Some s ->
  s = g /\ (forall a d, required s a d <= hold_of s a d) /\ ids_ok s.
Proof.
  unfold genesis_init. intros H.
  destruct (_ && _) eqn:E in H; [|discriminate]. injection H as <-.
  apply andb_prop in E. destruct E as [E HC]. apply andb_prop in E. destruct E as [HA HB].
  split; [reflexivity|]. split.
  - intros a d. destruct (in_dec key2_eq_dec (a, d) (genesis_keys g)) as [Hin|Hout].
    + rewrite forallb_forall in HC. specialize (HC (a, d) Hin). cbn [fst snd] in HC. lia.
    + rewrite (required_outside_keys g a d Hout). unfold hold_of. apply zget_nonneg. exact HB.
  - intros id Hin. apply in_map_iff in Hin. destruct Hin as (e & <- & He).
    rewrite forallb_forall in HA. specialize (HA e He). lia.
Qed.
