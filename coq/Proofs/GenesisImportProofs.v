(** C13 proofs about Exchange/GenesisImport.v: after InitGenesis of ANY genesis state the exchange
    module accepts (orders under arbitrary pairwise different ids, in any order, with external ids;
    payments in both address spellings) the order and payment indexes are exact, and they stay
    exact along every later history.

    The order part reuses the invariant [IndexProofs.Inv P] ([P] = "the id is a genesis id or was
    handed out later"), the payment part reuses [PaymentProofs.Inv].  An imported order is written
    by [set_order_in_store] under an id that is not open yet (genesis ids are pairwise different),
    which is the situation of [IndexProofs.create_inv] after the counter was bumped; the id counter
    is set to [g_last_order g] AFTER the orders were written, every genesis id is at most that
    value (GenesisState.Validate), so ids created later never collide with an imported order.
    As in IndexProofs, statements that go from [get_order s id] to the number [id] carry
    [id < two64]. *)
From Coq Require Import ZArith NArith List Bool Lia Sorted.
From Coq Require Import ZifyBool ZifyN.
From PV Require Import Exchange.KV Exchange.Index Exchange.Paging Exchange.Commit
  Exchange.GenesisImport Proofs.KVProofs Proofs.IndexProofs Proofs.PaymentProofs.
Import ListNotations.
Open Scope N_scope.

(** ---- the listing theorems of IndexProofs, from the invariant alone ---- *)
Lemma index_consistent_inv : forall P s, IndexProofs.Inv P s ->
  (forall m, m < two32 ->
     StronglySorted N.lt (by_market s m) /\
     forall id, id < two64 ->
       (In id (by_market s m) <-> exists o, get_order s id = Some o /\ o_market o = m)) /\
  (forall a,
     StronglySorted N.lt (by_owner s a) /\
     forall id, id < two64 ->
       (In id (by_owner s a) <-> exists o, get_order s id = Some o /\ o_owner o = a)) /\
  (forall d,
     StronglySorted N.lt (by_asset s d) /\
     forall id, id < two64 ->
       (In id (by_asset s d) <-> exists o, get_order s id = Some o /\ o_asset o = d)) /\
  (StronglySorted N.lt (all_orders s) /\
   forall id, id < two64 -> (In id (all_orders s) <-> exists o, get_order s id = Some o)) /\
  (forall m e id o, m < two32 -> id < two64 ->
     (get_order_by_ext s m e = Some (id, o) <->
      (get_order s id = Some o /\ o_market o = m /\ o_ext o = e /\ e <> []))).
Proof.
  intros P s HI.
  split; [|split; [|split; [|split]]].
  - intros m Hm. unfold by_market.
    apply (listing _ s (p_mkt m) (fun o => o_market o = m) HI).
    + intros r. eapply not_other_hd; [reflexivity|reflexivity|discriminate..].
    + intros r v id o W Hx L. destruct (mkt_entry _ _ _ _ _ Hm W Hx) as [A [B _]]. auto.
    + intros id o W <-. eexists. apply in_all_entries. right. left. split; reflexivity.
  - intros a. unfold by_owner.
    apply (listing _ s (p_addr a) (fun o => o_owner o = a) HI).
    + intros r. eapply not_other_hd; [reflexivity|reflexivity|discriminate..].
    + intros r v id o W Hx L. destruct (addr_entry _ _ _ _ _ Hx) as [A [B _]]. auto.
    + intros id o W <-. eexists. apply in_all_entries. right. right. left. split; reflexivity.
  - intros d. unfold by_asset.
    apply (listing _ s (p_asset d) (fun o => o_asset o = d) HI).
    + intros r. eapply not_other_hd; [reflexivity|reflexivity|discriminate..].
    + intros r v id o W Hx L. destruct (asset_entry _ _ _ _ _ L Hx) as [A [B _]]. auto.
    + intros id o W <-. eexists. apply in_all_entries. right. right. right. left. split; reflexivity.
  - unfold all_orders.
    destruct (listing _ s p_all_orders (fun _ => True) HI) as [A B].
    + intros r. eapply not_other_hd; [reflexivity|reflexivity|discriminate..].
    + intros r v id o W Hx L. destruct (all_entry _ _ _ _ Hx) as [E _]. auto.
    + intros id o W _. eexists. apply in_all_entries. left. split; reflexivity.
    + split; [exact A|]. intros id Hid. rewrite (B id Hid). split.
      * intros [o [G _]]. exists o. exact G.
      * intros [o G]. exists o. auto.
  - intros m e id o Hm Hid. exact (ext_lookup _ s m e id o HI Hm Hid).
Qed.

Lemma external_id_unique_inv : forall P s, IndexProofs.Inv P s ->
  forall id1 o1 id2 o2,
    id1 < two64 -> id2 < two64 ->
    get_order s id1 = Some o1 -> get_order s id2 = Some o2 ->
    o_market o1 = o_market o2 -> o_ext o1 = o_ext o2 -> o_ext o1 <> [] ->
    id1 = id2.
Proof.
  intros P s HI id1 o1 id2 o2 H1 H2 G1 G2 Em Ee Hne.
  apply get_order_some in G1, G2.
  assert (K1 : get s (k_ext (o_market o1) (o_ext o1)) = Some (VBytes (u64be id1))).
  { apply (inv_B _ _ HI _ _ H1 G1). apply in_all_entries. right. right. right. right. auto. }
  assert (K2 : get s (k_ext (o_market o2) (o_ext o2)) = Some (VBytes (u64be id2))).
  { apply (inv_B _ _ HI _ _ H2 G2). apply in_all_entries. right. right. right. right.
    split; [congruence|auto]. }
  rewrite <- Em, <- Ee, K1 in K2.
  assert (E : u64be id1 = u64be id2) by congruence. apply u64be_inj; assumption.
Qed.

(** ---- GenesisState.Validate, the part about orders ---- *)
Lemma nodup_ids_NoDup : forall l, nodup_ids l = true -> NoDup l.
Proof.
  induction l as [|x r IH]; intros H; [constructor|].
  cbn [nodup_ids] in H. apply andb_true_iff in H. destruct H as [H1 H2].
  constructor; [|apply IH; exact H2].
  intros Hin. apply negb_true_iff in H1.
  assert (E : existsb (N.eqb x) r = true).
  { apply existsb_exists. exists x. split; [exact Hin|apply N.eqb_refl]. }
  congruence.
Qed.

Lemma valid_genesis_orders : forall g, valid_genesis g = true ->
  NoDup (map fst (g_orders g)) /\ g_last_order g < two64 /\
  (forall io, In io (g_orders g) ->
     fst io < two64 /\ wf_order (snd io) = true /\ fst io <= g_last_order g).
Proof.
  intros g V. unfold valid_genesis in V. cbv zeta in V. rewrite !andb_true_iff in V.
  destruct V as [[[[[[[[V1 V2] V3] V4] V5] V6] V7] V8] V9].
  split; [apply nodup_ids_NoDup; exact V4|]. split; [apply N.ltb_lt; exact V5|].
  intros io Hin. rewrite forallb_forall in V3. specialize (V3 io Hin).
  rewrite !andb_true_iff in V3. destruct V3 as [[[[A1 A2] A3] A4] A5].
  split; [apply N.ltb_lt; exact A2|]. split; [exact A3|apply N.leb_le; exact A5].
Qed.

(** ---- setOrderInStore under an id that is not open ---- *)
Lemma not_P_none : forall P s id, IndexProofs.Inv P s -> id < two64 -> ~ P id ->
  get s (k_order id) = None.
Proof.
  intros P s id HI Hid HP. destruct (get s (k_order id)) as [v|] eqn:G; [|reflexivity].
  exfalso. destruct (open_value _ _ _ _ HI Hid G) as [o ->].
  apply HP. exact (proj2 (inv_W _ _ HI _ _ Hid G)).
Qed.

Lemma sois_fresh : forall P s id o s',
  IndexProofs.Inv P s -> id < two64 -> wf_order o = true ->
  get s (k_order id) = None ->
  set_order_in_store s id o = Some s' ->
  s' = set_all s (all_entries id o) /\
  IndexProofs.Inv (fun x => P x \/ x = id) s'.
Proof.
  intros P s id o s' HI Hid W Gn E.
  apply sois_spec in E. destruct E as [Hcl E]. unfold has in E. rewrite Gn in E.
  change ((k_order id, VOrder o) :: const_entries id o ++ ext_entry id o)
    with (all_entries id o) in E.
  split; [exact E|]. subst s'.
  apply replace_inv with (s := s) (id := id) (old := None) (new := Some o) (D := []).
  - eapply Inv_mono; [|exact HI]. intros x p. left. exact p.
  - exact Hid.
  - exact Gn.
  - split; [exact W|right; reflexivity].
  - intros k. cbn. tauto.
  - intros k Hin H9. right. cbn [Eo] in Hin. apply in_keys in Hin. destruct Hin as [v0 Hin].
    destruct (entry_hd9 _ _ _ _ Hin H9) as [Hx _].
    destruct (get s k) as [v|] eqn:Gk; [|reflexivity]. exfalso.
    destruct (inv_A _ _ HI _ _ Gk) as [[id2 [o2 [Hid2 [G2 Hin2]]]]|O].
    + destruct (entry_hd9 _ _ _ _ Hin2 H9) as [_ Ev]. subst v.
      assert (Ei : id2 mod two64 = id).
      { apply (Hcl k v0 (u64be id2)); [exact Hx|exact Gk|apply u64_from_bz_u64be]. }
      rewrite N.mod_small in Ei by exact Hid2. subst id2. congruence.
    + destruct O as [O|[O|O]]; rewrite H9 in O; discriminate O.
  - apply sorted_set_all. exact (inv_sorted _ _ HI).
  - intros k v Hin. cbn [Eo] in Hin. apply get_set_all_in; [apply nodup_entries|exact Hin].
  - intros k _ [].
  - intros k ni _. cbn [Eo] in ni. apply get_set_all_out. exact ni.
Qed.

(** ---- the order loop of InitGenesis ---- *)
Lemma import_orders_cons : forall s i o r,
  import_orders s ((i, o) :: r) =
  match set_order_in_store s i o with Some s1 => import_orders s1 r | None => None end.
Proof. reflexivity. Qed.

Lemma import_orders_inv : forall l P s s',
  IndexProofs.Inv P s ->
  (forall x, P x -> ~ In x (map fst l)) ->
  NoDup (map fst l) ->
  (forall io, In io l -> fst io < two64 /\ wf_order (snd io) = true) ->
  import_orders s l = Some s' ->
  IndexProofs.Inv (fun x => P x \/ In x (map fst l)) s' /\
  get s' k_last = get s k_last /\
  (forall id o, In (id, o) l -> get s' (k_order id) = Some (VOrder o)) /\
  (forall id, id < two64 -> ~ In id (map fst l) -> get s' (k_order id) = get s (k_order id)).
Proof.
  induction l as [|[i o] r IH]; intros P s s' HI Hfresh ND Hwf H.
  - cbn in H. injection H as <-. split; [|split; [reflexivity|split]].
    + eapply Inv_mono; [|exact HI]. intros x p. left. exact p.
    + intros id o [].
    + reflexivity.
  - rewrite import_orders_cons in H.
    destruct (set_order_in_store s i o) as [s1|] eqn:E1; [|discriminate].
    cbn [map fst] in ND. inversion ND as [|x xs Hni ND']; subst x xs.
    destruct (Hwf (i, o) (or_introl eq_refl)) as [Hi W]. cbn [fst snd] in Hi, W.
    assert (NPi : ~ P i).
    { intros p. apply (Hfresh i p). left. reflexivity. }
    pose proof (not_P_none _ _ _ HI Hi NPi) as Gn.
    destruct (sois_fresh _ _ _ _ _ HI Hi W Gn E1) as [Es1 HI1].
    destruct (IH (fun x => P x \/ x = i) s1 s' HI1) as [A [B [C D]]].
    + intros x [p| ->]; [|exact Hni]. intros Hin. apply (Hfresh x p). right. exact Hin.
    + exact ND'.
    + intros io Hin. apply Hwf. right. exact Hin.
    + exact H.
    + assert (Gi : get s1 (k_order i) = Some (VOrder o)).
      { subst s1. apply get_set_all_in; [apply nodup_entries|left; reflexivity]. }
      split; [|split; [|split]].
      * eapply Inv_mono; [|exact A]. cbn [map fst In].
        intros x [[p| ->]|Hin]; auto.
      * rewrite B. subst s1. apply get_set_all_out. apply other_notin. exact last_other.
      * intros id o' [Heq|Hin].
        -- injection Heq as <- <-. rewrite (D i Hi Hni). exact Gi.
        -- apply C. exact Hin.
      * intros id Hid Hnin. cbn [map fst In] in Hnin.
        rewrite D by tauto. subst s1. apply get_set_all_out.
        apply korder_notin; [exact Hid|exact Hi|]. intros ->. tauto.
Qed.

Lemma fr_import_orders : forall l s s', import_orders s l = Some s' -> PaymentProofs.fr s s'.
Proof.
  induction l as [|[i o] r IH]; intros s s' H.
  - cbn in H. injection H as <-. apply fr_refl.
  - rewrite import_orders_cons in H.
    destruct (set_order_in_store s i o) as [s1|] eqn:E1; [|discriminate].
    eapply fr_trans; [eapply fr_set_order; exact E1|apply IH; exact H].
Qed.

(** ---- the payment loop of InitGenesis ---- *)
Lemma import_payments_cons : forall s q r,
  import_payments s (q :: r) =
  match create_payment s q with Some s1 => import_payments s1 r | None => None end.
Proof. reflexivity. Qed.

Lemma PF_trans : forall a b c, PF a b -> PF b c -> PF a c.
Proof.
  intros a b c [A1 B1] [A2 B2]. split; [auto|].
  intros k Hk. rewrite B2 by exact Hk. apply B1. exact Hk.
Qed.

Lemma PF_import_payments : forall l s s', import_payments s l = Some s' -> PF s s'.
Proof.
  induction l as [|q r IH]; intros s s' H.
  - cbn in H. injection H as <-. apply PF_refl.
  - rewrite import_payments_cons in H.
    destruct (create_payment s q) as [s1|] eqn:E1; [|discriminate].
    eapply PF_trans; [eapply PF_create_payment; exact E1|apply IH; exact H].
Qed.

Lemma inv_import_payments : forall l s s',
  PaymentProofs.Inv s -> import_payments s l = Some s' -> PaymentProofs.Inv s'.
Proof.
  induction l as [|q r IH]; intros s s' HI H.
  - cbn in H. injection H as <-. exact HI.
  - rewrite import_payments_cons in H.
    destruct (create_payment s q) as [s1|] eqn:E1; [|discriminate].
    apply (IH s1 s'); [|exact H]. eapply inv_create_payment; [exact HI|exact E1].
Qed.

Lemma create_payment_get : forall s q s', create_payment s q = Some s' ->
  get s (kp (p_source q) (p_ext q)) = None /\
  forall r, get s' (112 :: r) =
            if key_eqb (112 :: r) (kp (p_source q) (p_ext q)) then Some (VPay q)
            else get s (112 :: r).
Proof.
  intros s q s' H. unfold create_payment in H.
  destruct (negb (wf_payment q)); [discriminate|].
  destruct (has s (k_pay (p_source q) (p_ext q))) eqn:Hh; [discriminate|].
  injection H as <-. unfold has in Hh. rewrite k_pay_kp in Hh.
  destruct (get s (kp (p_source q) (p_ext q))) as [v|] eqn:G; [discriminate|].
  split; [reflexivity|]. intros r.
  assert (GP : get_payment s (p_source q) (p_ext q) = None).
  { unfold get_payment. rewrite k_pay_kp, G. reflexivity. }
  unfold set_payment_in_store. cbv zeta. rewrite GP. cbv beta iota.
  destruct (p_target q) as [|t0 t].
  - rewrite k_pay_kp. apply get_set.
  - rewrite k_tgt_kt. unfold kt. rewrite get_set_neq by discriminate.
    rewrite k_pay_kp. apply get_set.
Qed.

Lemma import_payments_get : forall l s s', import_payments s l = Some s' ->
  forall p, get s' (kp (p_source p) (p_ext p)) = Some (VPay p) <->
            (In p l \/ get s (kp (p_source p) (p_ext p)) = Some (VPay p)).
Proof.
  induction l as [|q r IH]; intros s s' H p.
  - cbn in H. injection H as <-. cbn [In]. tauto.
  - rewrite import_payments_cons in H.
    destruct (create_payment s q) as [s1|] eqn:E1; [|discriminate].
    rewrite (IH s1 s' H p). destruct (create_payment_get _ _ _ E1) as [Gq Hr].
    pose proof (Hr (len_prefix (p_source p) ++ p_ext p)) as Hp.
    change (112 :: (len_prefix (p_source p) ++ p_ext p)) with (kp (p_source p) (p_ext p)) in Hp.
    rewrite Hp. cbn [In].
    destruct (key_eqb (kp (p_source p) (p_ext p)) (kp (p_source q) (p_ext q))) eqn:Ek.
    + apply key_eqb_eq in Ek. rewrite Ek, Gq. split.
      * intros [Hin|Heq]; [auto|]. left. left. congruence.
      * intros [[Heq|Hin]|Hn]; [right; congruence|left; exact Hin|discriminate].
    + split.
      * intros [Hin|Hg]; auto.
      * intros [[Heq|Hin]|Hg]; auto.
        subst q. rewrite key_eqb_refl in Ek. discriminate.
Qed.

(** ---- the state right after InitGenesis ---- *)
Lemma init_genesis_parts : forall g s0, init_genesis xinit g = Some s0 ->
  valid_genesis g = true /\
  exists s1, import_orders init (g_orders g) = Some s1 /\
             import_payments (set s1 k_last (VBytes (u64be (g_last_order g)))) (g_pays g)
             = Some (fst s0).
Proof.
  intros g s0 H. unfold init_genesis in H.
  destruct (valid_genesis g); cbn [negb] in H; [|discriminate].
  split; [reflexivity|]. cbv zeta in H. change (fst xinit) with init in H.
  destruct (import_orders init (g_orders g)) as [s1|] eqn:E1; [|discriminate].
  destruct (import_payments (set s1 k_last (VBytes (u64be (g_last_order g)))) (g_pays g))
    as [s3|] eqn:E2; [|discriminate].
  injection H as <-. exists s1. split; [reflexivity|exact E2].
Qed.

(** [gids] = the ids of the imported orders, [L] = the imported LastOrderId, [c] = the ids handed
    out since, [n] = a bound on the counter. *)
Definition GT (gids : list N) (L n : N) (c : list N) (s : st) : Prop :=
  IndexProofs.Inv (fun id => In id gids \/ In id c) s /\
  L <= last_order_id s /\ last_order_id s <= n /\
  StronglySorted N.lt c /\
  (forall id, In id gids -> id <= L) /\
  (forall id, In id c -> L < id /\ id <= last_order_id s).

Lemma step_gt : forall gids L n c s o, GT gids L n c s -> n + 1 < two64 ->
  GT gids L (n + 1) (c ++ created_by s o) (fst (step s o)).
Proof.
  intros gids L n c s o [HI [HL0 [HL [HS [HG HB]]]]] Hn.
  assert (Hnc : (forall ord, o <> OCreate ord) ->
                GT gids L (n + 1) (c ++ created_by s o) (fst (step s o))).
  { intros Hnc. destruct (step_noncreate _ s o HI Hnc) as [HI' HL'].
    apply last_eq in HL'.
    replace (created_by s o) with (@nil N)
      by (destruct o; try reflexivity; exfalso; eapply Hnc; reflexivity).
    rewrite app_nil_r. split; [exact HI'|]. rewrite HL'.
    split; [exact HL0|split; [lia|split; [exact HS|split; [exact HG|exact HB]]]]. }
  destruct o; try (apply Hnc; intros ord; discriminate).
  clear Hnc. cbn [step created_by].
  destruct (create_order s o) as [[s' id]|] eqn:E; cbn [fst].
  - destruct (create_inv (fun id => In id gids \/ In id c) s o s' id HI) as [Eid [HL' HI']].
    + lia.
    + intros x [Hx|Hx]; [apply HG in Hx; lia|apply HB in Hx; lia].
    + exact E.
    + split; [|split; [|split; [|split; [|split]]]].
      * eapply Inv_mono; [|exact HI']. intros x [[Hx|Hx]| ->]; [left; exact Hx| |];
          right; apply in_app_iff; [left; exact Hx|right; left; reflexivity].
      * rewrite HL'. lia.
      * rewrite HL'. lia.
      * apply SS_app_single; [exact HS|]. intros y Hy. apply HB in Hy. lia.
      * exact HG.
      * intros x Hx. rewrite HL'. apply in_app_iff in Hx.
        destruct Hx as [Hx|[<-|[]]]; [apply HB in Hx|]; lia.
  - rewrite app_nil_r.
    split; [exact HI|split; [exact HL0|split; [lia|split; [exact HS|split; [exact HG|exact HB]]]]].
Qed.

Lemma run_gt : forall ops gids L n c s, GT gids L n c s ->
  n + N.of_nat (length ops) < u64max ->
  GT gids L (n + N.of_nat (length ops)) (c ++ created_from s ops) (run_from s ops).
Proof.
  induction ops as [|o ops IH]; intros gids L n c s HT Hn.
  - cbn [length created_from run_from fold_left N.of_nat]. rewrite app_nil_r, N.add_0_r. exact HT.
  - rewrite created_from_cons. change (run_from s (o :: ops)) with (run_from (fst (step s o)) ops).
    rewrite app_assoc. cbn [length] in *. rewrite Nat2N.inj_succ in *.
    replace (n + N.succ (N.of_nat (length ops))) with ((n + 1) + N.of_nat (length ops)) by lia.
    apply IH; [|lia]. apply step_gt; [exact HT|]. unfold u64max, two64 in *. lia.
Qed.

Lemma genesis_state : forall g s0, init_genesis xinit g = Some s0 ->
  GT (map fst (g_orders g)) (g_last_order g) (g_last_order g) [] (fst s0) /\
  PaymentProofs.Inv (fst s0) /\
  (forall id o, id < two64 -> (get_order (fst s0) id = Some o <-> In (id, o) (g_orders g))) /\
  (forall p, In p (all_payments (fst s0)) <-> In p (g_pays g)).
Proof.
  intros g s0 H. destruct (init_genesis_parts g s0 H) as [V [s1 [E1 E2]]].
  destruct (valid_genesis_orders g V) as [ND [HL Hord]].
  remember (g_last_order g) as L eqn:EL.
  remember (set s1 k_last (VBytes (u64be L))) as s2 eqn:Es2.
  remember (fst s0) as s3 eqn:Es3.
  remember (g_orders g) as l eqn:El.
  (* orders *)
  destruct (import_orders_inv l (fun _ => False) init s1 (Inv_init _)) as [HI1 [HL1 [HC1 HD1]]].
  { intros x []. }
  { exact ND. }
  { intros io Hin. destruct (Hord io Hin) as [A [B _]]. split; assumption. }
  { exact E1. }
  assert (HI2 : IndexProofs.Inv (fun x => False \/ In x (map fst l)) s2).
  { apply frame_inv with (s := s1); [exact HI1|subst s2; apply sorted_set; exact (inv_sorted _ _ HI1)|].
    intros k NO. subst s2. rewrite get_set. destruct (key_eqb k k_last) eqn:Ek; [|reflexivity].
    apply key_eqb_eq in Ek. subst k. exfalso. exact (NO last_other). }
  assert (L2 : last_order_id s2 = L).
  { unfold last_order_id. subst s2. rewrite get_set, key_eqb_refl, u64_from_bz_u64be.
    apply N.mod_small. exact HL. }
  pose proof (PF_import_payments _ _ _ E2) as HPF.
  destruct (PF_inv _ _ _ HI2 HPF) as [HI3 HL3]. apply last_eq in HL3.
  assert (Gord : forall id, get s3 (k_order id) = get s1 (k_order id)).
  { intros id. rewrite (proj2 HPF) by (intros [O|O]; hdn O; discriminate O).
    subst s2. rewrite get_set. destruct (key_eqb (k_order id) k_last) eqn:Ek; [|reflexivity].
    apply key_eqb_eq in Ek. hd_discr Ek. }
  (* payments *)
  assert (Hfr : PaymentProofs.fr init s2).
  { eapply fr_trans; [apply (fr_import_orders _ _ _ E1)|]. subst s2. apply fr_set. np. }
  assert (HP2 : PaymentProofs.Inv s2).
  { eapply inv_fr; [apply inv_init|exact Hfr]. }
  pose proof (inv_import_payments _ _ _ HP2 E2) as HP3.
  split; [|split; [exact HP3|split]].
  - split; [|split; [|split; [|split; [|split]]]].
    + eapply Inv_mono; [|exact HI3]. intros x [[]|Hx]. left. exact Hx.
    + rewrite HL3, L2. lia.
    + rewrite HL3, L2. lia.
    + constructor.
    + intros id Hin. apply in_map_iff in Hin. destruct Hin as [io [<- Hin]].
      exact (proj2 (proj2 (Hord io Hin))).
    + intros id [].
  - intros id o Hid. rewrite get_order_some, Gord. split.
    + intros G. destruct (in_dec N.eq_dec id (map fst l)) as [i|ni].
      * apply in_map_iff in i. destruct i as [[id' o'] [Eid Hin]]. cbn [fst] in Eid. subst id'.
        rewrite (HC1 id o' Hin) in G. injection G as <-. exact Hin.
      * rewrite (HD1 id Hid ni) in G. cbn in G. discriminate G.
    + intros Hin. exact (HC1 id o Hin).
  - intros p. rewrite (proj2 (all_ok s3 HP3) p), get_payment_iff.
    rewrite (import_payments_get _ _ _ E2 p).
    assert (Gn : get s2 (kp (p_source p) (p_ext p)) = None).
    { unfold kp. rewrite (proj1 (proj2 Hfr)). reflexivity. }
    rewrite Gn. split; [intros [Hin|Hn]; [exact Hin|discriminate]|auto].
Qed.

(** ---- the theorems ---- *)
Lemma genesis_run : forall g s0 ops,
  init_genesis xinit g = Some s0 ->
  g_last_order g + N.of_nat (length ops) < u64max ->
  GT (map fst (g_orders g)) (g_last_order g) (g_last_order g + N.of_nat (length ops))
     (created_from (fst s0) ops) (run_from (fst s0) ops).
Proof.
  intros g s0 ops H Hlen. destruct (genesis_state g s0 H) as [HT _].
  exact (run_gt ops _ _ _ [] _ HT Hlen).
Qed.

Theorem genesis_index_consistent : forall g s0 ops,
  init_genesis xinit g = Some s0 ->
  g_last_order g + N.of_nat (length ops) < u64max ->
  let s := run_from (fst s0) ops in
  (forall m, m < two32 ->
     StronglySorted N.lt (by_market s m) /\
     forall id, id < two64 ->
       (In id (by_market s m) <-> exists o, get_order s id = Some o /\ o_market o = m)) /\
  (forall a,
     StronglySorted N.lt (by_owner s a) /\
     forall id, id < two64 ->
       (In id (by_owner s a) <-> exists o, get_order s id = Some o /\ o_owner o = a)) /\
  (forall d,
     StronglySorted N.lt (by_asset s d) /\
     forall id, id < two64 ->
       (In id (by_asset s d) <-> exists o, get_order s id = Some o /\ o_asset o = d)) /\
  (StronglySorted N.lt (all_orders s) /\
   forall id, id < two64 -> (In id (all_orders s) <-> exists o, get_order s id = Some o)) /\
  (forall m e id o, m < two32 -> id < two64 ->
     (get_order_by_ext s m e = Some (id, o) <->
      (get_order s id = Some o /\ o_market o = m /\ o_ext o = e /\ e <> []))).
Proof.
  intros g s0 ops H Hlen s. destruct (genesis_run g s0 ops H Hlen) as [HI _]. fold s in HI.
  exact (index_consistent_inv _ s HI).
Qed.

Theorem genesis_ids_fresh : forall g s0 ops,
  init_genesis xinit g = Some s0 ->
  g_last_order g + N.of_nat (length ops) < u64max ->
  StronglySorted N.lt (created_from (fst s0) ops) /\
  (forall id, In id (created_from (fst s0) ops) ->
     g_last_order g < id /\ id <= last_order_id (run_from (fst s0) ops)) /\
  (forall id o, id < two64 -> get_order (run_from (fst s0) ops) id = Some o ->
     In id (map fst (g_orders g)) \/ In id (created_from (fst s0) ops)) /\
  (forall id o, id < two64 -> (get_order (fst s0) id = Some o <-> In (id, o) (g_orders g))).
Proof.
  intros g s0 ops H Hlen.
  destruct (genesis_run g s0 ops H Hlen) as [HI [_ [_ [HS [_ HB]]]]].
  destruct (genesis_state g s0 H) as [_ [_ [HO _]]].
  split; [exact HS|split; [exact HB|split; [|exact HO]]].
  intros id o Hid G. apply get_order_some in G. exact (proj2 (inv_W _ _ HI _ _ Hid G)).
Qed.

Theorem genesis_external_id_unique : forall g s0 ops,
  init_genesis xinit g = Some s0 ->
  g_last_order g + N.of_nat (length ops) < u64max ->
  let s := run_from (fst s0) ops in
  forall id1 o1 id2 o2,
    id1 < two64 -> id2 < two64 ->
    get_order s id1 = Some o1 -> get_order s id2 = Some o2 ->
    o_market o1 = o_market o2 -> o_ext o1 = o_ext o2 -> o_ext o1 <> [] ->
    id1 = id2.
Proof.
  intros g s0 ops H Hlen s. destruct (genesis_run g s0 ops H Hlen) as [HI _]. fold s in HI.
  exact (external_id_unique_inv _ s HI).
Qed.

Theorem genesis_payments_consistent : forall g s0 ops,
  init_genesis xinit g = Some s0 ->
  let s := run_from (fst s0) ops in
  ((NoDup (map (fun p => (p_source p, p_ext p)) (all_payments s)) /\
    forall p, In p (all_payments s) <-> get_payment s (p_source p) (p_ext p) = Some p) /\
   (forall src,
      NoDup (map p_ext (payments_of_source s src)) /\
      forall p, In p (payments_of_source s src) <->
                (get_payment s (p_source p) (p_ext p) = Some p /\ p_source p = src)) /\
   (forall t,
      NoDup (map (fun p => (p_source p, p_ext p)) (payments_of_target s t)) /\
      forall p, In p (payments_of_target s t) <->
                (get_payment s (p_source p) (p_ext p) = Some p /\ p_target p = t /\ t <> []))) /\
  (forall p, In p (all_payments (fst s0)) <-> In p (g_pays g)).
Proof.
  intros g s0 ops H s. destruct (genesis_state g s0 H) as [_ [HP [_ HA]]].
  pose proof (inv_run_from ops _ HP : PaymentProofs.Inv s) as HI. clearbody s.
  split; [|exact HA].
  split; [apply all_ok; exact HI|]. split.
  - intros src. apply src_ok. exact HI.
  - intros t. apply tgt_ok. exact HI.
Qed.

(** ---- non-vacuity ---- *)
Example example_genesis_imports :
  exists s0, init_genesis xinit example_genesis = Some s0 /\
    by_asset (fst s0) [65;97;97] = [7] /\ by_asset (fst s0) [97;97;97] = [3] /\
    all_orders (fst s0) = [3;7] /\ last_order_id (fst s0) = 9 /\
    length (payments_of_target (fst s0) [2;2;2]) = 1%nat.
Proof. eexists. split; [vm_compute; reflexivity|]. vm_compute. repeat split. Qed.

(** GenesisState.Validate does not look at external ids: a genesis state with one external id
    twice in one market passes Validate and InitGenesis panics (the chain does not start). *)
Definition clash_genesis : genesis :=
  {| g_markets := [(2, true)];
     g_last_market := 2;
     g_orders :=
       [ (1, {| o_bid := false; o_market := 2; o_owner := [1;1;1]; o_asset := [97;97;97];
                o_amount := 9%Z; o_ext := [120] |});
         (2, {| o_bid := true; o_market := 2; o_owner := [2;2;2]; o_asset := [97;97;97];
                o_amount := 4%Z; o_ext := [120] |}) ];
     g_last_order := 2;
     g_commits := [];
     g_pays := [] |}.

Example duplicate_external_id_refused :
  valid_genesis clash_genesis = true /\ init_genesis xinit clash_genesis = None.
Proof. split; vm_compute; reflexivity. Qed.

Print Assumptions genesis_index_consistent.
Print Assumptions genesis_ids_fresh.
Print Assumptions genesis_external_id_unique.
Print Assumptions genesis_payments_consistent.
Print Assumptions example_genesis_imports.
Print Assumptions duplicate_external_id_refused.
