(** "Each denom in a multi-denom transfer is judged on its own", at full strength (property C04):
    for valid sdk.Coins (positive amounts) the verdict of the marker send restriction is the
    conjunction of the verdicts of the one-coin transfers, and therefore does not depend on the order
    in which the coins are listed.  (Go: Coins.Find is a search over the sorted list, the denom loop
    and the fee-collector loop stop at the first failure; none of this can make one coin's verdict
    depend on another coin or on its position.) *)
From Coq Require Import ZArith PArith List Bool Ascii Permutation.
From PV Require Import Marker.SendRestr Marker.SendRestrSpec Proofs.SendRestrProofs.
Import ListNotations.

Lemma forallb_perm {A} (f : A -> bool) l1 l2 : Permutation l1 l2 -> forallb f l1 = forallb f l2.
Proof.
  induction 1 as [|x l1 l2 _ IH|x y l|l1 l2 l3 _ IH1 _ IH2]; cbn [forallb].
  - reflexivity.
  - rewrite IH. reflexivity.
  - destruct (f x), (f y); reflexivity.
  - rewrite IH1. exact IH2.
Qed.

Lemma existsb_perm {A} (f : A -> bool) l1 l2 : Permutation l1 l2 -> existsb f l1 = existsb f l2.
Proof.
  induction 1 as [|x l1 l2 _ IH|x y l|l1 l2 l3 _ IH1 _ IH2]; cbn [existsb].
  - reflexivity.
  - rewrite IH. reflexivity.
  - destruct (f x), (f y); reflexivity.
  - rewrite IH1. exact IH2.
Qed.

Lemma coins_valid_perm a1 a2 : Permutation a1 a2 -> coins_valid a1 -> coins_valid a2.
Proof.
  unfold coins_valid. intros Hp Hv. rewrite Forall_forall in *.
  intros x Hx. apply Hv. eapply Permutation_in; [apply Permutation_sym; exact Hp | exact Hx].
Qed.

Lemma sender_block_perm c from admins a1 a2 :
  coins_valid a1 -> Permutation a1 a2 ->
  sender_marker_block c from admins a1 = sender_marker_block c from admins a2.
Proof.
  intros Hv Hp. pose proof (coins_valid_perm _ _ Hp Hv) as Hv2.
  unfold sender_marker_block.
  destruct (get_marker_ign c from) as [fm|]; [|reflexivity].
  rewrite (own_coin_check _ _ Hv), (own_coin_check _ _ Hv2).
  unfold amount_has_denom. rewrite (existsb_perm _ _ _ Hp). reflexivity.
Qed.

(** The verdict does not depend on the order of the coins. *)
Lemma allowed_perm c from to a1 a2 :
  coins_valid a1 -> Permutation a1 a2 -> allowed c from to a1 = allowed c from to a2.
Proof.
  intros Hv Hp.
  destruct (cfg_ctx_bypass c || addr_eqb from (cfg_marker_module c) || addr_eqb from (cfg_ibc_module c)) eqn:Hb.
  - unfold allowed, send_restriction. rewrite Hb.
    destruct (addr_eqb to (cfg_fee_collector c)); [|reflexivity].
    rewrite !bypass_loop_forallb, (forallb_perm _ _ _ Hp). reflexivity.
  - rewrite !(allowed_decomposition _ _ _ _ Hb), (sender_block_perm _ _ _ _ _ Hv Hp),
      (forallb_perm _ _ _ Hp). reflexivity.
Qed.

(** The verdict on a non-empty valid amount is the conjunction of the one-coin verdicts.  (On the
    empty amount only the sender/receiver marker blocks remain, which every one-coin verdict repeats.) *)
Lemma allowed_per_coin c from to amt :
  coins_valid amt -> amt <> [] ->
  allowed c from to amt = forallb (fun p => allowed c from to [p]) amt.
Proof.
  intros Hv Hne. induction amt as [|p amt IH]; [contradiction|].
  inversion Hv as [|? ? Hp Hr]; subst.
  destruct amt as [|q amt].
  - cbn [forallb]. rewrite andb_true_r. reflexivity.
  - change (p :: q :: amt) with ([p] ++ q :: amt).
    rewrite per_denom_independent; [| constructor; [exact Hp | constructor] | exact Hr].
    rewrite IH by (exact Hr || discriminate).
    reflexivity.
Qed.

(** Both together: two valid amounts with the same coins in any order and grouping get the verdict
    of their coins. *)
Lemma allowed_perm_per_coin c from to a1 a2 :
  coins_valid a1 -> a1 <> [] -> Permutation a1 a2 ->
  allowed c from to a2 = forallb (fun p => allowed c from to [p]) a1.
Proof.
  intros Hv Hne Hp. rewrite <- (allowed_perm c from to a1 a2 Hv Hp). apply allowed_per_coin; assumption.
Qed.

(** The one-coin verdict does not depend on the (positive) amount of the coin. *)
Lemma allowed_amount_irrelevant c from to d x y :
  (0 < x)%Z -> (0 < y)%Z -> allowed c from to [(d, x)] = allowed c from to [(d, y)].
Proof.
  intros Hx Hy.
  assert (Hvx : coins_valid [(d, x)]) by (constructor; [exact Hx | constructor]).
  assert (Hvy : coins_valid [(d, y)]) by (constructor; [exact Hy | constructor]).
  destruct (cfg_ctx_bypass c || addr_eqb from (cfg_marker_module c) || addr_eqb from (cfg_ibc_module c)) eqn:Hb.
  - unfold allowed, send_restriction. rewrite Hb. reflexivity.
  - rewrite !(allowed_decomposition _ _ _ _ Hb). cbn [forallb fst].
    unfold sender_marker_block.
    destruct (get_marker_ign c from) as [fm|]; [|reflexivity].
    rewrite (own_coin_check _ _ Hvx), (own_coin_check _ _ Hvy). reflexivity.
Qed.

(** The "marker's own denom leaves only an active marker" test of the sender block is subsumed by the
    denom loop whenever marker accounts sit at the address of their denom (types.MarkerAddress): the
    coin of that denom is refused by validateSendDenom for the very same inactive marker.  (So a change
    that weakens only that test — e.g. looking at the first coin only — is not observable.) *)
Definition markers_at_their_address (c : config) : Prop :=
  forall a m, lookup_acct a (cfg_accounts c) = Some (AcctMarker m) -> a = AMarker (m_denom m).

Definition sender_marker_block_no_own (c : config) (from : addr) (admins : list addr) : bool :=
  match get_marker_ign c from with
  | None => true
  | Some fm =>
      if negb (cfg_fee_grant c)
      then if Nat.eqb (length admins) 0 then false else validate_at_least_one fm admins AcWithdraw
      else true
  end.

Lemma coins_find_in d amt a : coins_find d amt = Some a -> In (d, a) amt.
Proof.
  induction amt as [|[d' a'] amt IH]; cbn [coins_find]; [discriminate|].
  destruct (Pos.eqb d d') eqn:E.
  - intros H. injection H as ->. apply Pos.eqb_eq in E. subst. left; reflexivity.
  - intros H. right. apply IH. exact H.
Qed.

Lemma own_denom_check_subsumed c from to amt :
  markers_at_their_address c ->
  cfg_ctx_bypass c || addr_eqb from (cfg_marker_module c) || addr_eqb from (cfg_ibc_module c) = false ->
  allowed c from to amt =
  sender_marker_block_no_own c from (cfg_agents c) &&
  receiver_marker_block c from (cfg_agents c) (get_marker_ign c to) &&
  forallb (fun p => validate_send_denom c from to (cfg_agents c) (fst p) (get_marker_ign c to)) amt.
Proof.
  intros Hwf Hb. rewrite (allowed_decomposition _ _ _ _ Hb).
  unfold sender_marker_block, sender_marker_block_no_own.
  destruct (get_marker_ign c from) as [fm|] eqn:Efm; [|reflexivity].
  destruct (if negb (cfg_fee_grant c) then _ else true); [|reflexivity].
  destruct (negb (is_active (m_status fm))) eqn:Eact; [|reflexivity].
  destruct (coins_find (m_denom fm) amt) as [a|] eqn:Ef; [|reflexivity].
  destruct (negb (Z.eqb a 0)); [|reflexivity].
  cbn [andb].
  (* the own coin is in the amount and is refused by the denom loop *)
  assert (Hfrom : from = AMarker (m_denom fm)).
  { unfold get_marker_ign, get_marker in Efm.
    destruct (lookup_acct from (cfg_accounts c)) as [[|m]|] eqn:El; try discriminate.
    injection Efm as ->. apply Hwf. exact El. }
  assert (Hv : validate_send_denom c from to (cfg_agents c) (m_denom fm) (get_marker_ign c to) = false).
  { unfold validate_send_denom. rewrite <- Hfrom, Efm, Eact. reflexivity. }
  symmetry. rewrite andb_false_iff. right.
  apply coins_find_in in Ef.
  destruct (forallb _ amt) eqn:E; [|reflexivity].
  rewrite forallb_forall in E. specialize (E _ Ef). cbn [fst] in E. congruence.
Qed.
