(** C01: the keeper's settlement step refines a short abstract specification.

    Bank, hold and fee collection of Exchange/Settle.v are reduced to additive per-(address, denom)
    effects; [close_refine] composes them for closeSettlement; [settle_refine] joins that with
    what Proofs/FulfillSums.v says about the built settlement: on success every balance is the
    old balance plus [spec_delta], every hold the old hold minus the hold amounts of the filled
    parts, and the order store loses the fully filled orders and keeps the unfilled remainder. *)
From Coq Require Import ZArith List Bool Lia ZifyBool PArith.
From PV Require Import Exchange.Arith Exchange.Split Exchange.Fulfill Exchange.Settle Exchange.SettleSpec
  Proofs.ArithProofs Proofs.SplitProofs Proofs.FulfillProofs Proofs.FulfillSteps
  Proofs.FulfillShape Proofs.FulfillSums Proofs.SettleProofs.
Import ListNotations.
Open Scope Z_scope.

(** ** Bank: additive effects *)
Lemma aget_aadd m a d z x d' :
  aget (aadd m a d z) x d' = aget m x d' + (if Pos.eqb x a && Pos.eqb d' d then z else 0).
Proof.
  induction m as [|[[a1 d1] z1] r IH]; cbn [aadd aget].
  - destruct (Pos.eqb x a && Pos.eqb d' d); lia.
  - destruct (Pos.eqb a a1 && Pos.eqb d d1) eqn:E; cbn [aget].
    + apply andb_prop in E as [E1 E2]. apply Pos.eqb_eq in E1, E2. subst a1 d1.
      destruct (Pos.eqb x a && Pos.eqb d' d); lia.
    + rewrite IH. destruct (Pos.eqb x a1 && Pos.eqb d' d1) eqn:E2; [|reflexivity].
      apply andb_prop in E2 as [E3 E4]. apply Pos.eqb_eq in E3, E4. subst a1 d1.
      rewrite (Pos.eqb_sym x a), (Pos.eqb_sym d' d), E. lia.
Qed.

Lemma sub_unlocked_at hold a c : forall bal bal' x d,
  sub_unlocked bal hold a c = Ok bal' ->
  aget bal' x d = aget bal x d - (if Pos.eqb x a then raw_sum c d else 0).
Proof.
  induction c as [|[d1 z1] r IH]; intros bal bal' x d H; cbn [sub_unlocked] in H.
  - inversion H; subst. cbn. destruct (Pos.eqb x a); lia.
  - destruct (aget bal a d1 - aget hold a d1 <? z1); [discriminate|].
    rewrite (IH _ _ _ _ H), aget_aadd, raw_sum_cons. destruct (Pos.eqb x a), (Pos.eqb d d1); cbn; lia.
Qed.

Lemma add_coins_at a c : forall bal x d,
  aget (add_coins bal a c) x d = aget bal x d + (if Pos.eqb x a then raw_sum c d else 0).
Proof.
  unfold add_coins. induction c as [|[d1 z1] r IH]; intros bal x d; cbn [fold_left].
  - cbn. destruct (Pos.eqb x a); lia.
  - rewrite IH, aget_aadd, raw_sum_cons. cbn [fst snd]. destruct (Pos.eqb x a), (Pos.eqb d d1); cbn; lia.
Qed.

Lemma send_at bal hold from to c bal' x d :
  send bal hold from to c = Ok bal' ->
  aget bal' x d = aget bal x d - (if Pos.eqb x from then raw_sum c d else 0) + (if Pos.eqb x to then raw_sum c d else 0).
Proof.
  unfold send. intros H. inv_bind H. inversion H; subst.
  rewrite add_coins_at, (sub_unlocked_at _ _ _ _ _ _ _ Hx). reflexivity.
Qed.

Lemma sub_inputs_at hold ins : forall bal bal' x d,
  idx_sorted ins -> sub_inputs bal hold ins = Ok bal' -> aget bal' x d = aget bal x d - idx_at ins x d.
Proof.
  induction ins as [|[a c] r IH]; intros bal bal' x d Hs H; cbn [sub_inputs] in H.
  - inversion H; subst. cbn. lia.
  - inversion Hs as [|? ? Hc Hr]; subst. cbn in Hc. inv_bind H.
    rewrite (IH _ _ _ _ Hr H), (sub_unlocked_at _ _ _ _ _ _ _ Hx), idx_at_cons, (raw_sum_sorted _ Hc). lia.
Qed.

Lemma add_outputs_at outs : forall bal x d,
  idx_sorted outs -> aget (add_outputs bal outs) x d = aget bal x d + idx_at outs x d.
Proof.
  unfold add_outputs. induction outs as [|[a c] r IH]; intros bal x d Hs; cbn [fold_left].
  - cbn. lia.
  - inversion Hs as [|? ? Hc Hr]; subst. cbn in Hc.
    rewrite (IH _ _ _ Hr), add_coins_at, idx_at_cons, (raw_sum_sorted _ Hc). cbn [fst snd]. lia.
Qed.

Lemma input_output_at bal hold ins outs bal' x d :
  idx_sorted ins -> idx_sorted outs -> input_output bal hold ins outs = Ok bal' ->
  aget bal' x d = aget bal x d - idx_at ins x d + idx_at outs x d.
Proof.
  intros Hi Ho H. unfold input_output in H.
  assert (Hcore : (if negb (coins_eqb (idx_total ins) (idx_total outs)) then Err
                   else rbind (sub_inputs bal hold ins) (fun b => Ok (add_outputs b outs))) = Ok bal' ->
                  aget bal' x d = aget bal x d - idx_at ins x d + idx_at outs x d).
  { clear H. intros H. destruct (negb _); [discriminate|]. inv_bind H. inversion H; subst.
    rewrite (add_outputs_at _ _ _ _ Ho), (sub_inputs_at _ _ _ _ _ _ Hi Hx). reflexivity. }
  destruct ins as [|i1 [|i2 ir]]; destruct outs as [|o1 [|o2 or]]; try discriminate; auto.
Qed.

Lemma do_transfer_at bal hold t bal' x d :
  transfer_sorted t -> do_transfer bal hold t = Ok bal' -> aget bal' x d = aget bal x d + transfer_net t x d.
Proof.
  intros [Hi Ho] H. unfold do_transfer in H. unfold transfer_net.
  destruct (t_in t) as [|[fa fc] [|i2 ir]] eqn:Ei; destruct (t_out t) as [|[ta tc] [|o2 or]] eqn:Eo;
    try (rewrite (input_output_at _ _ _ _ _ x d Hi Ho H); lia).
  destruct (coins_eqb fc tc) eqn:E; [|discriminate]. apply coins_eqb_eq in E. subst tc.
  rewrite (send_at _ _ _ _ _ _ x d H). unfold idx_at. cbn.
  inversion Hi as [|? ? Hc _]; subst. cbn in Hc. rewrite (raw_sum_sorted _ Hc). lia.
Qed.

Lemma transfer_all_at hold ts : forall bal bal' x d,
  Forall transfer_sorted ts -> transfer_all bal hold ts = Ok bal' ->
  aget bal' x d = aget bal x d + transfers_net ts x d.
Proof.
  unfold transfers_net. induction ts as [|t r IH]; intros bal bal' x d Hs H; cbn [transfer_all] in H.
  - inversion H; subst. cbn. lia.
  - inversion Hs as [|? ? Ht Hr]; subst. inv_bind H.
    rewrite (IH _ _ _ _ Hr H), (do_transfer_at _ _ _ _ x d Ht Hx), sumz_cons. lia.
Qed.

(** ** Fees *)
Lemma chk_ok x y : chk x = Some y -> y = x.
Proof. unfold chk. destruct (int_ok x); intros H; inversion H; reflexivity. Qed.

Lemma exchange_split_chk_ok z s x : exchange_split_chk z s = Some x -> x = exchange_split z s.
Proof.
  unfold exchange_split_chk, exchange_split. destruct (z =? 0); [intros H; inversion H; reflexivity|].
  destruct (s =? 0); [intros H; inversion H; reflexivity|].
  destruct (chk (z * s)) as [m|] eqn:E; cbn [obind]; [|discriminate]. apply chk_ok in E. subst m.
  apply chk_ok.
Qed.

Lemma exchange_split_zero s : exchange_split 0 s = 0.
Proof. reflexivity. Qed.

Lemma calc_split_spec cfg fee : forall ex,
  sorted fee -> calc_split cfg fee = Ok ex ->
  sorted ex /\ forall d, amount_of ex d = exchange_split (amount_of fee d) (get_split cfg d).
Proof.
  induction fee as [|[d1 z1] r IH]; intros ex Hs H; cbn [calc_split] in H.
  - inversion H; subst. split; [constructor|]. intros d. reflexivity.
  - inv_bind H. inv_bind H. inversion H; subst; clear H.
    destruct (sorted_tail _ _ _ Hs) as [Hs' Hl'].
    destruct (IH _ Hs' Hx0) as [Hs1 Ha1].
    destruct (coins_add1_spec x0 d1 x Hs1) as [Hs2 Ha2]. split; [assumption|].
    intros d. rewrite Ha2, Ha1. cbn [amount_of].
    unfold of_opt in Hx. destruct (exchange_split_chk z1 (get_split cfg d1)) eqn:E; inversion Hx; subst.
    apply exchange_split_chk_ok in E.
    destruct (Pos.eqb_spec d d1) as [->|Hne]; [|lia].
    rewrite (amount_of_below d1 r d1) by (auto; lia). rewrite exchange_split_zero. lia.
Qed.

Lemma coins_is_zero_amount c d : sorted c -> coins_is_zero c = true -> amount_of c d = 0.
Proof. intros Hs Hz. rewrite <- (raw_sum_sorted _ Hs). apply coins_is_zero_raw, Hz. Qed.

Lemma idx_total_amount i : idx_sorted i ->
  sorted (idx_total i) /\ forall d, amount_of (idx_total i) d = idx_amount i d.
Proof.
  intros Hs. destruct (idx_total_spec i [] sorted_nil) as [H1 H2]. split; [exact H1|].
  intros d. unfold idx_total. rewrite H2. cbn [amount_of].
  clear - Hs. induction Hs as [|[a c] r Hc _ IH]; [reflexivity|].
  rewrite idx_raw_cons. cbn in Hc. rewrite (raw_sum_sorted _ Hc). cbn. unfold idx_amount in IH. lia.
Qed.

(** CollectFees: every payer pays its entry, the market keeps the total minus the exchange's
    share, the fee collector gets the share. *)
Lemma one_sorted (a : addr) c : sorted c -> idx_sorted [(a, c)].
Proof. intros H. constructor; [exact H|constructor]. Qed.

Lemma all_pos_nonneg c d : coins_all_pos c = true -> 0 <= amount_of c d.
Proof.
  intros H. assert (Hf : forallb (fun x => 0 <? snd x) c = true) by (destruct c; [discriminate|exact H]).
  clear H. induction c as [|[d1 a1] r IH]; cbn [amount_of]; [lia|].
  cbn in Hf. apply andb_prop in Hf as [H1 H2]. destruct (Pos.eqb d d1); [lia|apply IH, H2].
Qed.

Lemma idx_amount_nonneg i d : idx_pos i -> 0 <= idx_amount i d.
Proof.
  induction 1 as [|[a c] r Hc _ IH]; [cbn; lia|]. cbn in Hc. cbn. fold (idx_amount r d).
  pose proof (all_pos_nonneg c d Hc). lia.
Qed.

Lemma collect_fees_at cfg bal hold inputs bal' x d :
  idx_sorted inputs -> idx_pos inputs -> collect_fees cfg bal hold inputs = Ok bal' ->
  let T := idx_amount inputs d in
  let Sh := exchange_split T (get_split cfg d) in
  aget bal' x d = aget bal x d - idx_at inputs x d
                  + (if Pos.eqb x (c_market cfg) then T - Sh else 0)
                  + (if Pos.eqb x (c_feecol cfg) then Sh else 0).
Proof.
  intros Hs Hpos H. cbn zeta.
  (* the shared tail: [total] has been taken from the payers and given to the market *)
  assert (Htail : forall total ex bal1,
            sorted total -> (forall d, amount_of total d = idx_amount inputs d) ->
            calc_split cfg total = Ok ex ->
            (forall y e, aget bal1 y e = aget bal y e - idx_at inputs y e
                          + (if Pos.eqb y (c_market cfg) then amount_of total e else 0)) ->
            (if coins_is_zero ex then Ok bal1 else send bal1 hold (c_market cfg) (c_feecol cfg) ex) = Ok bal' ->
            aget bal' x d = aget bal x d - idx_at inputs x d
              + (if Pos.eqb x (c_market cfg) then idx_amount inputs d - exchange_split (idx_amount inputs d) (get_split cfg d) else 0)
              + (if Pos.eqb x (c_feecol cfg) then exchange_split (idx_amount inputs d) (get_split cfg d) else 0)).
  { intros total ex bal1 Hst Hta Hex Hb1 Hfin.
    destruct (calc_split_spec _ _ _ Hst Hex) as [Hsx Hax].
    specialize (Hax d). rewrite Hta in Hax.
    destruct (coins_is_zero ex) eqn:Ez.
    - inversion Hfin; subst. rewrite Hb1, Hta.
      rewrite <- Hax, (coins_is_zero_amount _ _ Hsx Ez). destruct (Pos.eqb x (c_market cfg)), (Pos.eqb x (c_feecol cfg)); lia.
    - rewrite (send_at _ _ _ _ _ _ x d Hfin), Hb1, Hta, (raw_sum_sorted _ Hsx), Hax.
      destruct (Pos.eqb x (c_market cfg)), (Pos.eqb x (c_feecol cfg)); lia. }
  unfold collect_fees in H.
  destruct inputs as [|[payer fee] [|i2 ir]].
  - inversion H; subst. cbn. rewrite ?exchange_split_zero.
    destruct (Pos.eqb x (c_market cfg)), (Pos.eqb x (c_feecol cfg)); lia.
  - inversion Hs as [|? ? Hc _]; subst. cbn in Hc. unfold collect_fee in H.
    assert (Hamt : forall e, idx_amount [(payer, fee)] e = amount_of fee e) by (intros e; cbn; lia).
    assert (Hat : forall y e, idx_at [(payer, fee)] y e = if Pos.eqb y payer then amount_of fee e else 0)
      by (intros y e; unfold idx_at; cbn; destruct (Pos.eqb y payer); lia).
    destruct (coins_is_zero fee) eqn:Ez.
    + inversion H; subst. rewrite Hamt, Hat, (coins_is_zero_amount _ _ Hc Ez), exchange_split_zero.
      destruct (Pos.eqb x payer), (Pos.eqb x (c_market cfg)), (Pos.eqb x (c_feecol cfg)); lia.
    + inv_bind H. inv_bind H.
      apply (Htail fee x0 x1 Hc (fun e => eq_sym (Hamt e)) Hx); [|exact H].
      intros y e. rewrite (send_at _ _ _ _ _ _ y e Hx0), Hat, (raw_sum_sorted _ Hc).
      destruct (Pos.eqb y payer); lia.
  - set (inputs := (payer, fee) :: i2 :: ir) in *.
    destruct (idx_total_amount inputs Hs) as [Hst Hta].
    destruct (coins_is_zero (idx_total inputs)) eqn:Ez.
    + (* impossible: every entry is all-positive, so the total is not zero *)
      exfalso. inversion Hpos as [|? ? Hp1 Hp2]; subst. cbn [snd] in Hp1.
      destruct fee as [|[d0 a0] fr]; [discriminate|].
      pose proof (coins_is_zero_amount _ d0 Hst Ez) as Hz. rewrite Hta in Hz.
      pose proof (idx_amount_nonneg _ d0 Hp2) as Hnn.
      change (idx_amount inputs d0) with (amount_of ((d0, a0) :: fr) d0 + idx_amount (i2 :: ir) d0) in Hz.
      cbn [amount_of] in Hz. rewrite Pos.eqb_refl in Hz.
      cbn in Hp1. apply andb_prop in Hp1 as [Hp1 _]. lia.
    + inv_bind H. inv_bind H.
      apply (Htail (idx_total inputs) x0 x1 Hst Hta Hx); [|exact H].
      intros y e. rewrite (input_output_at _ _ _ _ _ y e Hs (one_sorted _ _ Hst) Hx0).
      unfold idx_at at 2. cbn. destruct (Pos.eqb y (c_market cfg)); lia.
Qed.

(** ** Holds *)
Lemma release_hold_at a c : forall hold hold' x d,
  release_hold hold a c = Ok hold' ->
  aget hold' x d = aget hold x d - (if Pos.eqb x a then raw_sum c d else 0).
Proof.
  induction c as [|[d1 z1] r IH]; intros hold hold' x d H; cbn [release_hold] in H.
  - inversion H; subst. cbn. destruct (Pos.eqb x a); lia.
  - destruct (aget hold a d1 - z1 <? 0); [discriminate|].
    rewrite (IH _ _ _ _ H), aget_aadd, raw_sum_cons. destruct (Pos.eqb x a), (Pos.eqb d d1); cbn; lia.
Qed.

Lemma hold_amount_sorted o : sorted (o_fees o) -> sorted (hold_amount o).
Proof.
  intros Hs. unfold hold_amount. destruct (o_ask o).
  - destruct (o_fees o) as [|[fd fa] r]; [apply sorted_one|].
    destruct (Pos.eqb fd (o_pd o)); [apply sorted_one|].
    apply (coins_add1_spec [(o_ad o, o_assets o)] fd fa (sorted_one _ _)).
  - apply (coins_add1_spec _ _ _ Hs).
Qed.

Lemma release_all_at fs : forall hold hold' x d,
  Forall (fun f => sorted (o_fees (fo_order f))) fs ->
  release_all hold fs = Ok hold' -> aget hold' x d = aget hold x d - hold_released fs x d.
Proof.
  unfold hold_released. induction fs as [|f r IH]; intros hold hold' x d Hs H; cbn [release_all] in H.
  - inversion H; subst. cbn. lia.
  - inversion Hs as [|? ? Hf Hr]; subst. inv_bind H.
    rewrite (IH _ _ _ _ Hr H), (release_hold_at _ _ _ _ _ _ Hx), sumz_cons,
      (raw_sum_sorted _ (hold_amount_sorted _ Hf)). lia.
Qed.

(** ** Order store *)
Lemma find_del os i id : find_order (del_order os i) id = if Pos.eqb id i then None else find_order os id.
Proof.
  unfold del_order. induction os as [|o r IH]; cbn [filter find_order]; [destruct (Pos.eqb id i); reflexivity|].
  destruct (Pos.eqb_spec (o_id o) i) as [E|E]; cbn [negb].
  - rewrite IH. destruct (Pos.eqb_spec id i) as [E2|E2]; [reflexivity|].
    destruct (Pos.eqb_spec (o_id o) id); [congruence|reflexivity].
  - cbn [find_order]. rewrite IH. destruct (Pos.eqb_spec (o_id o) id) as [E3|E3]; [|reflexivity].
    destruct (Pos.eqb_spec id i); [congruence|reflexivity].
Qed.

Lemma find_set os o id : find_order (set_order os o) id = if Pos.eqb id (o_id o) then Some o else find_order os id.
Proof.
  induction os as [|x r IH]; cbn [set_order find_order].
  - rewrite (Pos.eqb_sym id). reflexivity.
  - destruct (Pos.eqb_spec (o_id x) (o_id o)) as [E|E]; cbn [find_order].
    + rewrite (Pos.eqb_sym id). destruct (Pos.eqb_spec (o_id o) id) as [E2|E2]; [reflexivity|].
      destruct (Pos.eqb_spec (o_id x) id); [congruence|reflexivity].
    + rewrite IH. destruct (Pos.eqb_spec (o_id x) id) as [E2|E2]; [|reflexivity].
      destruct (Pos.eqb_spec id (o_id o)); [congruence|reflexivity].
Qed.

Lemma find_fold_del (g : filled -> positive) l : forall os id,
  find_order (fold_left (fun os f => del_order os (g f)) l os) id =
  if existsb (Pos.eqb id) (map g l) then None else find_order os id.
Proof.
  induction l as [|f r IH]; intros os id; cbn [fold_left map existsb]; [reflexivity|].
  rewrite IH, find_del. destruct (Pos.eqb id (g f)); cbn [orb]; [destruct (existsb _ _); reflexivity|reflexivity].
Qed.

(** ** closeSettlement *)
Lemma fills_of_eq s : filled_list s = fills_of s.
Proof. unfold filled_list, fills_of. destruct (s_partial s); reflexivity. Qed.

Lemma close_refine cfg st s st' :
  close cfg st s = Ok st' ->
  Forall transfer_sorted (s_transfers s) -> idx_sorted (s_fee_inputs s) -> idx_pos (s_fee_inputs s) ->
  Forall (fun f => sorted (o_fees (fo_order f))) (fills_of s) ->
  (forall x d,
     let T := idx_amount (s_fee_inputs s) d in
     let Sh := exchange_split T (get_split cfg d) in
     aget (st_bal st') x d = aget (st_bal st) x d + transfers_net (s_transfers s) x d
       - idx_at (s_fee_inputs s) x d
       + (if Pos.eqb x (c_market cfg) then T - Sh else 0) + (if Pos.eqb x (c_feecol cfg) then Sh else 0)) /\
  (forall x d, aget (st_hold st') x d = aget (st_hold st) x d - hold_released (fills_of s) x d) /\
  (forall id, find_order (st_orders st') id = orders_after (st_orders st) (s_full s) (s_left s) id).
Proof.
  unfold close. intros H Hts Hfs Hfp Hso. inv_bind H. inv_bind H. inv_bind H. inversion H; subst; clear H.
  cbn [st_bal st_hold st_orders]. rewrite fills_of_eq in Hx. split; [|split].
  - intros y d. cbn zeta.
    rewrite (collect_fees_at _ _ _ _ _ y d Hfs Hfp Hx1), (transfer_all_at _ _ _ _ y d Hts Hx0). lia.
  - intros y d. apply (release_all_at _ _ _ y d Hso Hx).
  - intros id. unfold orders_after. rewrite find_fold_del.
    destruct (existsb _ _); [reflexivity|]. destruct (s_left s) as [l|]; [apply find_set|reflexivity].
Qed.

Definition store_ok (os : list order) : Prop := Forall (fun o => sorted (o_fees o)) os.

Lemma set_order_ok os l : store_ok os -> sorted (o_fees l) -> store_ok (set_order os l).
Proof.
  unfold store_ok. induction 1 as [|x r Hx Hr IH]; intros Hl; cbn [set_order]; [constructor; [assumption|constructor]|].
  destruct (Pos.eqb (o_id x) (o_id l)); constructor; auto.
Qed.

Lemma del_order_ok os i : store_ok os -> store_ok (del_order os i).
Proof.
  unfold store_ok, del_order. intros H. apply Forall_forall. intros o Ho. apply filter_In in Ho as [Ho _].
  rewrite Forall_forall in H. apply H, Ho.
Qed.

Lemma close_orders_ok cfg st s st' :
  close cfg st s = Ok st' -> store_ok (st_orders st) ->
  match s_left s with Some l => sorted (o_fees l) | None => True end -> store_ok (st_orders st').
Proof.
  unfold close. intros H Hok Hl. inv_bind H. inv_bind H. inv_bind H. inversion H; subst; clear H. cbn [st_orders].
  assert (H0 : store_ok (match s_left s with Some l => set_order (st_orders st) l | None => st_orders st end))
    by (destruct (s_left s); [apply set_order_ok; assumption|assumption]).
  revert H0. generalize (match s_left s with Some l => set_order (st_orders st) l | None => st_orders st end).
  induction (s_full s) as [|f r IH]; intros os H0; cbn [fold_left]; [exact H0|]. apply IH, del_order_ok, H0.
Qed.

(** ** The requested orders *)
Lemma find_order_some os id o : find_order os id = Some o -> o_id o = id /\ In o os.
Proof.
  induction os as [|x r IH]; cbn [find_order]; [discriminate|].
  destruct (Pos.eqb_spec (o_id x) id) as [E|E]; intros H.
  - inversion H; subst. split; [reflexivity|left; reflexivity].
  - destruct (IH H) as [H1 H2]. split; [assumption|right; assumption].
Qed.

Lemma get_orders_spec os w excl ids : forall l,
  get_orders os w ids excl = Ok l ->
  map o_id l = ids /\ Forall (fun o => In o os /\ o_ask o = w /\ find_order os (o_id o) = Some o /\
                                      match excl with Some x => o_owner o <> x | None => True end) l.
Proof.
  induction ids as [|id r IH]; intros l H; cbn [get_orders] in H.
  - inversion H; subst. split; [reflexivity|constructor].
  - destruct (find_order os id) as [o|] eqn:Ef; [|discriminate].
    destruct (Bool.eqb (o_ask o) w) eqn:Ew; cbn [negb] in H; [|discriminate].
    destruct (match excl with Some x => Pos.eqb x (o_owner o) | None => false end) eqn:Ex; [discriminate|].
    inv_bind H. inversion H; subst; clear H. destruct (IH _ Hx) as [I1 I2].
    destruct (find_order_some _ _ _ Ef) as [Eid Hin]. split; [cbn [map]; rewrite Eid, I1; reflexivity|].
    constructor; [|exact I2]. split; [exact Hin|]. split; [apply eqb_prop, Ew|]. split; [rewrite Eid; exact Ef|].
    destruct excl as [z|]; [|exact I]. intros E. rewrite E, Pos.eqb_refl in Ex. discriminate.
Qed.

Lemma nodup_ids_NoDup l : nodup_ids l = true -> NoDup l.
Proof.
  induction l as [|x r IH]; cbn [nodup_ids]; intros H; [constructor|].
  apply andb_prop in H as [H1 H2]. constructor; [|apply IH, H2].
  intros Hin. apply negb_true_iff in H1. assert (existsb (Pos.eqb x) r = true); [|congruence].
  apply existsb_exists. exists x. split; [assumption|apply Pos.eqb_refl].
Qed.

Lemma valid_ids_NoDup l : valid_ids l = true -> NoDup l.
Proof. destruct l; [discriminate|apply nodup_ids_NoDup]. Qed.

Lemma disjoint_NoDup a b : NoDup a -> NoDup b -> disjoint_ids a b = true -> NoDup (a ++ b).
Proof.
  unfold disjoint_ids. induction 1 as [|x r Hx Hr IH]; intros Hb Hd; [exact Hb|].
  cbn [forallb] in Hd. apply andb_prop in Hd as [H1 H2]. cbn [app]. constructor; [|apply IH; assumption].
  intros Hin. apply in_app_or in Hin as [Hin|Hin]; [contradiction|].
  apply negb_true_iff in H1. assert (existsb (Pos.eqb x) b = true); [|congruence].
  apply existsb_exists. exists x. split; [assumption|apply Pos.eqb_refl].
Qed.

(** ** Parties and moves *)
Lemma party_delta_fill f x d : party_delta (party_of_fill f) x d = fill_move f x d - fill_fee f x d.
Proof.
  unfold party_delta, party_of_fill, fill_move, fill_fee, at_d.
  destruct (o_ask (fo_order f)); cbn [p_addr p_gets p_gives p_fees amount_of];
    destruct (Pos.eqb x (o_owner (fo_order f))); lia.
Qed.

Lemma fees_total_fills fs d : fees_total (map party_of_fill fs) d = sumz (fun f => amount_of (fo_fees f) d) fs.
Proof.
  unfold fees_total. rewrite sumz_map. apply sumz_ext. intros f _. unfold party_of_fill.
  destruct (o_ask (fo_order f)); reflexivity.
Qed.

(** ** SettleOrders refines the specification *)

Lemma settle_refine cfg st askids bidids e st' :
  store_ok (st_orders st) ->
  settle cfg st askids bidids e = Ok st' ->
  exists asks bids r s,
    (* the stored orders named by the request, and what BuildSettlement reports for them *)
    get_orders (st_orders st) true askids None = Ok asks /\
    get_orders (st_orders st) false bidids None = Ok bids /\
    build asks bids (Ok r) = Ok s /\
    reported_shape asks bids s /\ Forall (fill_ok r) (fills_of s) /\
    (e = true <-> s_partial s <> None) /\
    (* balances, holds, order store *)
    (forall x d, aget (st_bal st') x d = aget (st_bal st) x d + spec_delta cfg (map party_of_fill (fills_of s)) x d) /\
    (forall x d, aget (st_hold st') x d = aget (st_hold st) x d - hold_released (fills_of s) x d) /\
    (forall id, find_order (st_orders st') id = orders_after (st_orders st) (s_full s) (s_left s) id) /\
    (forall d, total (st_bal st') d = total (st_bal st) d) /\
    store_ok (st_orders st').
Proof.
  intros Hok H.
  assert (Hv : valid_ids askids = true /\ valid_ids bidids = true /\ disjoint_ids askids bidids = true).
  { unfold settle in H. destruct (valid_ids askids), (valid_ids bidids), (disjoint_ids askids bidids); try discriminate; auto. }
  destruct Hv as (V1 & V2 & V3).
  destruct (settle_ok_build _ _ _ _ _ _ H) as (asks & bids & s & Ga & Gb & Hb & He & Hc).
  destruct (get_orders_spec _ _ _ _ _ Ga) as [Ia Fa]. destruct (get_orders_spec _ _ _ _ _ Gb) as [Ib Fb].
  assert (Hnd : NoDup (map o_id (asks ++ bids))).
  { rewrite map_app, Ia, Ib. apply disjoint_NoDup; auto using valid_ids_NoDup. }
  assert (Hso : Forall (fun o => sorted (o_fees o)) (asks ++ bids)).
  { unfold store_ok in Hok. rewrite Forall_forall in Hok. apply Forall_app; split; apply Forall_forall; intros o Ho.
    - rewrite Forall_forall in Fa. apply Hok, (Fa o Ho).
    - rewrite Forall_forall in Fb. apply Hok, (Fb o Ho). }
  destruct (build_fills _ _ _ _ Hb Hnd) as (r & Hlk & Hsh & Hfo & _).
  destruct (build_transfers _ _ _ _ Hb Hnd) as (Hts & Hfp & Hnet & Hfees).
  destruct (Hfees Hso) as (Hfs & Hsf & Hsl & Hfat & Hftot).
  assert (Hsfo : Forall (fun f => sorted (o_fees (fo_order f))) (fills_of s)).
  { (* the filled orders are stored orders or the filled part of a split *)
    clear - Hsh Hso Hsl. unfold reported_shape, fills_of in *. apply Forall_app in Hso as [Ha Hb].
    destruct (s_left s) as [unf|].
    - destruct Hsh as (pre & o & p & -> & Hs & Hor). cbn [opt_list].
      assert (Hfull : Forall (fun o => sorted (o_fees o)) (map fo_order (s_full s)) /\ sorted (o_fees o)).
      { destruct Hor as [[-> ->]|[-> ->]].
        - apply Forall_app in Ha as [Ha1 Ha2]. split; [apply Forall_app; split; assumption|apply (Forall_inv Ha2)].
        - apply Forall_app in Hb as [Hb1 Hb2]. split; [apply Forall_app; split; assumption|apply (Forall_inv Hb2)]. }
      destruct Hfull as [Hf1 Hf2]. rewrite Forall_map in Hf1. apply Forall_app; split; [exact Hf1|].
      constructor; [|constructor]. apply (split_sorted _ _ _ _ Hf2 Hs).
    - destruct Hsh as [-> Hm]. cbn [opt_list]. rewrite app_nil_r.
      apply (Forall_map fo_order (fun o => sorted (o_fees o))). rewrite Hm. apply Forall_app; split; assumption. }
  destruct (close_refine _ _ _ _ Hc Hts Hfs Hfp Hsfo) as (Hbal & Hhold & Hord).
  exists asks, bids, r, s. rewrite Hlk in Hb.
  split; [exact Ga|]. split; [exact Gb|]. split; [exact Hb|]. split; [exact Hsh|]. split; [exact Hfo|].
  split; [exact He|]. split; [|split; [exact Hhold|split; [exact Hord|split; [|exact (close_orders_ok _ _ _ _ Hc Hok Hsl)]]]].
  - intros x d. rewrite (Hbal x d). cbn zeta. unfold spec_delta, exchange_share.
    rewrite fees_total_fills, sumz_map, Hnet, Hfat, Hftot.
    rewrite (sumz_ext (fun f => party_delta (party_of_fill f) x d) (fun f => fill_move f x d - fill_fee f x d))
      by (intros; apply party_delta_fill).
    rewrite sumz_minus. lia.
  - intros d. apply (close_total _ _ _ _ _ Hc).
Qed.
