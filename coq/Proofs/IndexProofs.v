(** C13 proofs about Exchange/Index.v: the order records and their byte-level lookup indexes stay
    consistent along every history.

    STATEMENT CORRECTION (reported): [k_order id = 2 :: be 8 (id mod 2^64)], so in the model
    [get_order s (id + 2^64) = get_order s id].  The statements that go from
    "[get_order s id = Some o]" to a fact about the number [id] itself ([index_consistent] right to
    left, third clause of [ids_fresh], [external_id_unique]) are therefore false for
    [id >= 2^64]; they carry the typing hypothesis [id < two64] (order ids are uint64 in the
    code).  See [alias_example] at the end of the file. *)
From Coq Require Import ZArith NArith List Bool Lia Sorted.
From Coq Require Import ZifyBool ZifyN.
From PV Require Import Exchange.KV Exchange.Index Proofs.KVProofs.
Import ListNotations.
Open Scope N_scope.

(** ---- big-endian encoding ---- *)
Lemma pow256_succ : forall n, 256 ^ N.of_nat (S n) = 256 * 256 ^ N.of_nat n.
Proof. intros n. rewrite Nat2N.inj_succ, N.pow_succ_r'. reflexivity. Qed.

Lemma pow256_pos : forall n, 0 < 256 ^ N.of_nat n.
Proof. intros n. apply N.neq_0_lt_0. apply N.pow_nonzero. discriminate. Qed.

Lemma be_compare : forall n x y, x < 256 ^ N.of_nat n -> y < 256 ^ N.of_nat n ->
  key_compare (be n x) (be n y) = N.compare x y.
Proof.
  induction n as [|n IH]; intros x y Hx Hy.
  - cbn in Hx, Hy. assert (Ex : x = 0) by lia. assert (Ey : y = 0) by lia. subst. reflexivity.
  - cbn [be key_compare].
    pose proof (pow256_pos n) as HB.
    remember (256 ^ N.of_nat n) as B eqn:EB.
    pose proof (N.div_mod x B ltac:(lia)) as Dx.
    pose proof (N.mod_lt x B ltac:(lia)) as Mx.
    pose proof (N.div_mod y B ltac:(lia)) as Dy.
    pose proof (N.mod_lt y B ltac:(lia)) as My.
    rewrite (IH (x mod B) (y mod B) Mx My).
    remember (x / B) as qx. remember (x mod B) as rx.
    remember (y / B) as qy. remember (y mod B) as ry.
    destruct (N.compare qx qy) eqn:E.
    + apply N.compare_eq in E. subst qy.
      destruct (N.compare_spec rx ry) as [H|H|H]; symmetry.
      * apply N.compare_eq_iff. lia.
      * apply N.compare_lt_iff. lia.
      * apply N.compare_gt_iff. lia.
    + change (qx < qy) in E. symmetry. apply N.compare_lt_iff.
      assert (H : B * (qx + 1) <= B * qy) by (apply N.mul_le_mono_l; lia). lia.
    + apply N.compare_gt_iff in E. symmetry. apply N.compare_gt_iff.
      assert (H : B * (qy + 1) <= B * qx) by (apply N.mul_le_mono_l; lia). lia.
Qed.

Lemma be_length : forall n x, length (be n x) = n.
Proof. induction n as [|n IH]; intros x; cbn [be length]; [reflexivity|]. rewrite IH. reflexivity. Qed.

Lemma fold_be : forall n x a, x < 256 ^ N.of_nat n ->
  fold_left (fun a b => a * 256 + b) (be n x) a = a * 256 ^ N.of_nat n + x.
Proof.
  induction n as [|n IH]; intros x a Hx.
  - cbn in *. lia.
  - cbn [be fold_left]. rewrite pow256_succ in *.
    pose proof (pow256_pos n) as HB.
    remember (256 ^ N.of_nat n) as B eqn:EB.
    pose proof (N.div_mod x B ltac:(lia)) as Dx.
    pose proof (N.mod_lt x B ltac:(lia)) as Mx.
    rewrite (IH (x mod B) _ Mx).
    remember (x / B) as qx. remember (x mod B) as rx. nia.
Qed.

Lemma be_decode_be : forall n x, x < 256 ^ N.of_nat n -> be_decode (be n x) = x.
Proof. intros n x Hx. unfold be_decode. rewrite fold_be by exact Hx. lia. Qed.

Lemma two64_pow : two64 = 256 ^ N.of_nat 8. Proof. reflexivity. Qed.
Lemma two32_pow : two32 = 256 ^ N.of_nat 4. Proof. reflexivity. Qed.

#[local] Arguments u64be : simpl never.
#[local] Arguments u32be : simpl never.

Lemma u64be_length : forall id, length (u64be id) = 8%nat.
Proof. intros id. unfold u64be. apply be_length. Qed.
Lemma u32be_length : forall m, length (u32be m) = 4%nat.
Proof. intros m. unfold u32be. apply be_length. Qed.

Lemma u64be_mod : forall id, u64be (id mod two64) = u64be id.
Proof. intros id. unfold u64be. rewrite N.mod_mod by discriminate. reflexivity. Qed.

Lemma decode_u64be_mod : forall id, be_decode (u64be id) = id mod two64.
Proof.
  intros id. unfold u64be. apply be_decode_be. rewrite <- two64_pow.
  apply N.mod_lt. discriminate.
Qed.

Lemma decode_u64be : forall id, id < two64 -> be_decode (u64be id) = id.
Proof. intros id H. rewrite decode_u64be_mod. apply N.mod_small. exact H. Qed.

Lemma u64be_inj : forall a b, a < two64 -> b < two64 -> u64be a = u64be b -> a = b.
Proof.
  intros a b Ha Hb E. apply (f_equal be_decode) in E.
  rewrite !decode_u64be in E by assumption. exact E.
Qed.

Lemma u32be_inj : forall a b, a < two32 -> b < two32 -> u32be a = u32be b -> a = b.
Proof.
  intros a b Ha Hb E. unfold u32be in E. rewrite !N.mod_small in E by assumption.
  apply (f_equal be_decode) in E.
  rewrite !be_decode_be in E by (rewrite <- two32_pow; assumption). exact E.
Qed.

Lemma u64_from_bz_u64be : forall id, u64_from_bz (u64be id) = Some (id mod two64).
Proof.
  intros id. unfold u64_from_bz. rewrite u64be_length. cbn [Nat.leb].
  rewrite firstn_all2 by (rewrite u64be_length; apply le_n).
  rewrite decode_u64be_mod. reflexivity.
Qed.

Lemma u64_from_bz_lt : forall b n, u64_from_bz b = Some n -> exists x, n = be_decode x.
Proof.
  intros b n H. unfold u64_from_bz in H. destruct (Nat.leb 8 (length b)); [|discriminate].
  inversion H. eexists; reflexivity.
Qed.

(** ---- list helpers ---- *)
Lemma app_inv_len : forall (A : Type) (l1 l2 r1 r2 : list A),
  length l1 = length l2 -> l1 ++ r1 = l2 ++ r2 -> l1 = l2 /\ r1 = r2.
Proof.
  intros A. induction l1 as [|x l1 IH]; intros [|y l2] r1 r2 HL E; cbn in HL; try discriminate.
  - split; [reflexivity|exact E].
  - cbn in E. inversion E; subst. destruct (IH l2 r1 r2) as [-> ->]; [congruence|assumption|].
    split; reflexivity.
Qed.

Lemma app_inv_len_tail : forall (A : Type) (l1 l2 r1 r2 : list A),
  length r1 = length r2 -> l1 ++ r1 = l2 ++ r2 -> l1 = l2 /\ r1 = r2.
Proof.
  intros A l1 l2 r1 r2 HL E. apply app_inv_len; [|exact E].
  apply (f_equal (@length A)) in E. rewrite !app_length in E. lia.
Qed.

Lemma skipn_suffix : forall (p r : list N), length r = 8%nat ->
  skipn (length (p ++ r) - 8) (p ++ r) = r.
Proof.
  intros p r H. rewrite app_length, H.
  replace (length p + 8 - 8)%nat with (length p) by lia.
  rewrite skipn_app, skipn_all, Nat.sub_diag. reflexivity.
Qed.

Lemma key_dec : forall a b : key, {a = b} + {a <> b}.
Proof. apply list_eq_dec. apply N.eq_dec. Qed.

(** ---- set_all / del_all ---- *)
Definition keys (l : list (key * val)) : list key := map fst l.

Lemma set_all_cons : forall s kv l, set_all s (kv :: l) = set_all (set s (fst kv) (snd kv)) l.
Proof. reflexivity. Qed.
Lemma del_all_cons : forall s kv l, del_all s (kv :: l) = del_all (del s (fst kv)) l.
Proof. reflexivity. Qed.
Lemma set_all_app : forall s a b, set_all s (a ++ b) = set_all (set_all s a) b.
Proof. intros. unfold set_all. apply fold_left_app. Qed.
Lemma del_all_app : forall s a b, del_all s (a ++ b) = del_all (del_all s a) b.
Proof. intros. unfold del_all. apply fold_left_app. Qed.

Lemma sorted_set_all : forall l (s : st), sorted_keys s -> sorted_keys (set_all s l).
Proof.
  induction l as [|kv l IH]; intros s Hs; [exact Hs|].
  rewrite set_all_cons. apply IH. apply sorted_set. exact Hs.
Qed.
Lemma sorted_del_all : forall l (s : st), sorted_keys s -> sorted_keys (del_all s l).
Proof.
  induction l as [|kv l IH]; intros s Hs; [exact Hs|].
  rewrite del_all_cons. apply IH. apply sorted_del. exact Hs.
Qed.

Lemma get_set_all_out : forall l (s : st) k, ~ In k (keys l) -> get (set_all s l) k = get s k.
Proof.
  induction l as [|[k0 v0] l IH]; intros s k H; [reflexivity|].
  rewrite set_all_cons. rewrite IH by (intros H'; apply H; right; exact H').
  cbn [fst snd]. rewrite get_set. destruct (key_eqb k k0) eqn:E; [|reflexivity].
  apply key_eqb_eq in E. subst. exfalso. apply H. left. reflexivity.
Qed.

Lemma get_set_all_in : forall l (s : st) k v, NoDup (keys l) -> In (k, v) l ->
  get (set_all s l) k = Some v.
Proof.
  induction l as [|[k0 v0] l IH]; intros s k v ND Hin; [destruct Hin|].
  rewrite set_all_cons. cbn [keys map fst] in ND. inversion ND as [|x xs Hni ND']; subst.
  destruct Hin as [E|Hin].
  - inversion E; subst. cbn [fst snd]. rewrite get_set_all_out by exact Hni.
    rewrite get_set, key_eqb_refl. reflexivity.
  - apply IH; assumption.
Qed.

Lemma get_del_all_None : forall l (s : st) k, get s k = None -> get (del_all s l) k = None.
Proof.
  induction l as [|[k0 v0] l IH]; intros s k H; [exact H|].
  rewrite del_all_cons. apply IH. rewrite get_del. destruct (key_eqb k (fst (k0, v0))); auto.
Qed.

Lemma get_del_all_in : forall l (s : st) k, In k (keys l) -> get (del_all s l) k = None.
Proof.
  induction l as [|[k0 v0] l IH]; intros s k H; [destruct H|].
  rewrite del_all_cons. destruct H as [E|H].
  - cbn in E. subst k0. apply get_del_all_None. rewrite get_del. cbn [fst].
    rewrite key_eqb_refl. reflexivity.
  - apply IH. exact H.
Qed.

Lemma get_del_all_out : forall l (s : st) k, ~ In k (keys l) -> get (del_all s l) k = get s k.
Proof.
  induction l as [|[k0 v0] l IH]; intros s k H; [reflexivity|].
  rewrite del_all_cons. rewrite IH by (intros H'; apply H; right; exact H').
  cbn [fst]. rewrite get_del. destruct (key_eqb k k0) eqn:E; [|reflexivity].
  apply key_eqb_eq in E. subst. exfalso. apply H. left. reflexivity.
Qed.

(** ---- keys of an order's entries ---- *)
Definition all_entries (id : N) (o : order) : list (key * val) :=
  (k_order id, VOrder o) :: const_entries id o ++ ext_entry id o.

Lemma ext_entry_nil : forall id o, o_ext o = [] -> ext_entry id o = [].
Proof. intros id o H. unfold ext_entry. rewrite H. reflexivity. Qed.

Lemma ext_entry_cons : forall id o, o_ext o <> [] ->
  ext_entry id o = [(k_ext (o_market o) (o_ext o), VBytes (u64be id))].
Proof. intros id o H. unfold ext_entry. destruct (o_ext o); [congruence|reflexivity]. Qed.

Lemma in_ext_entry : forall k v id o, In (k, v) (ext_entry id o) <->
  (o_ext o <> [] /\ k = k_ext (o_market o) (o_ext o) /\ v = VBytes (u64be id)).
Proof.
  intros k v id o. destruct (o_ext o) as [|x e] eqn:E.
  - rewrite ext_entry_nil by exact E. split; [intros []|intros [H _]; congruence].
  - rewrite ext_entry_cons by (rewrite E; discriminate). rewrite E. cbn [In]. split.
    + intros [H|[]]. inversion H; subst. split; [discriminate|split; reflexivity].
    + intros [_ [-> ->]]. left. reflexivity.
Qed.

Lemma in_const_entries : forall k v id o, In (k, v) (const_entries id o) <->
  (k = k_mkt (o_market o) id \/ k = k_addr (o_owner o) id \/ k = k_asset (o_asset o) id) /\
  v = VBytes [ty_byte o].
Proof.
  intros k v id o. unfold const_entries. cbn [In]. split.
  - intros [H|[H|[H|[]]]]; inversion H; subst; auto.
  - intros [[E|[E|E]] Ev]; subst k v; auto.
Qed.

Lemma in_all_entries : forall k v id o, In (k, v) (all_entries id o) <->
  (k = k_order id /\ v = VOrder o) \/
  (k = k_mkt (o_market o) id /\ v = VBytes [ty_byte o]) \/
  (k = k_addr (o_owner o) id /\ v = VBytes [ty_byte o]) \/
  (k = k_asset (o_asset o) id /\ v = VBytes [ty_byte o]) \/
  (o_ext o <> [] /\ k = k_ext (o_market o) (o_ext o) /\ v = VBytes (u64be id)).
Proof.
  intros k v id o. unfold all_entries. cbn [In]. rewrite in_app_iff, in_const_entries, in_ext_entry.
  split.
  - intros [H|[[[H|[H|H]] Hv]|H]]; [inversion H; subst|..]; auto 10.
  - intros [[E Ev]|[[E Ev]|[[E Ev]|[[E Ev]|H]]]]; try subst k v; auto 10.
Qed.

Ltac inv_entry H :=
  apply in_all_entries in H;
  destruct H as [[?Hk ?Hv]|[[?Hk ?Hv]|[[?Hk ?Hv]|[[?Hk ?Hv]|[?Hne [?Hk ?Hv]]]]]].

Ltac hdn H :=
  cbv [hd k_order k_mkt k_addr k_asset k_ext k_last p_mkt p_addr p_asset len_prefix app] in H.
(** [H : X = Y] with keys of different head bytes *)
Ltac hd_discr H := exfalso; apply (f_equal (hd 0)) in H; hdn H; discriminate H.

Definition other_key (k : key) : Prop := hd 0 k = 8 \/ hd 0 k = 112 \/ hd 0 k = 16.

Lemma other_key_dec : forall k, {other_key k} + {~ other_key k}.
Proof.
  intros k. unfold other_key.
  destruct (N.eq_dec (hd 0 k) 8); [left; auto|].
  destruct (N.eq_dec (hd 0 k) 112); [left; auto|].
  destruct (N.eq_dec (hd 0 k) 16); [left; auto|].
  right. intros [H|[H|H]]; contradiction.
Qed.

Lemma entry_not_other : forall k v id o, In (k, v) (all_entries id o) -> ~ other_key k.
Proof.
  intros k v id o H [O|[O|O]]; inv_entry H; subst k; hdn O; discriminate O.
Qed.

Lemma korder_not_other : forall id, ~ other_key (k_order id).
Proof. intros id [O|[O|O]]; hdn O; discriminate O. Qed.

Lemma k_order_inj : forall a b, a < two64 -> b < two64 -> k_order a = k_order b -> a = b.
Proof.
  intros a b Ha Hb E. apply (f_equal (@tl N)) in E. unfold k_order in E. cbn [tl] in E.
  apply u64be_inj; assumption.
Qed.

Lemma entry_korder : forall id2 v id o, In (k_order id2, v) (all_entries id o) ->
  k_order id2 = k_order id /\ v = VOrder o.
Proof.
  intros id2 v id o H. inv_entry H; try (hd_discr Hk). split; assumption.
Qed.

Lemma korder_in : forall id o, In (k_order id) (keys (all_entries id o)).
Proof. intros. left. reflexivity. Qed.

Lemma korder_notin : forall id2 id o, id2 < two64 -> id < two64 -> id2 <> id ->
  ~ In (k_order id2) (keys (all_entries id o)).
Proof.
  intros id2 id o H2 H1 Hne Hin. apply in_map_iff in Hin. destruct Hin as [[k v] [Ek Hin]].
  cbn in Ek. subst k. apply entry_korder in Hin. destruct Hin as [E _].
  apply Hne. apply k_order_inj; assumption.
Qed.

(** the order id an index/order entry belongs to, read back from the entry *)
Definition id_of (k : key) (v : val) : N :=
  if hd 0 k =? 9 then match v with VBytes b => be_decode b | _ => 0 end
  else be_decode (skipn (length k - 8) k).

Lemma id_of_entry : forall k v id o, In (k, v) (all_entries id o) -> id < two64 -> id_of k v = id.
Proof.
  intros k v id o H Hid. unfold id_of.
  inv_entry H; subst k v.
  - change (k_order id) with ([2] ++ u64be id). cbn [hd app N.eqb Pos.eqb].
    change (2 :: u64be id) with ([2] ++ u64be id).
    rewrite skipn_suffix by apply u64be_length. apply decode_u64be; exact Hid.
  - unfold k_mkt at 2. rewrite skipn_suffix by apply u64be_length.
    replace (hd 0 (k_mkt (o_market o) id) =? 9) with false by reflexivity.
    apply decode_u64be; exact Hid.
  - unfold k_addr at 2. rewrite skipn_suffix by apply u64be_length.
    replace (hd 0 (k_addr (o_owner o) id) =? 9) with false by reflexivity.
    apply decode_u64be; exact Hid.
  - unfold k_asset at 2. rewrite skipn_suffix by apply u64be_length.
    replace (hd 0 (k_asset (o_asset o) id) =? 9) with false by reflexivity.
    apply decode_u64be; exact Hid.
  - replace (hd 0 (k_ext (o_market o) (o_ext o)) =? 9) with true by reflexivity.
    apply decode_u64be; exact Hid.
Qed.

Lemma id_of_irrel : forall k v v', hd 0 k <> 9 -> id_of k v = id_of k v'.
Proof.
  intros k v v' H. unfold id_of. destruct (hd 0 k =? 9) eqn:E; [|reflexivity].
  apply N.eqb_eq in E. contradiction.
Qed.

(** ---- the invariant of reachable states ---- *)
Record Inv (P : N -> Prop) (s : st) : Prop := {
  inv_sorted : sorted_keys s;
  inv_A : forall k v, get s k = Some v ->
    (exists id o, id < two64 /\ get s (k_order id) = Some (VOrder o) /\ In (k, v) (all_entries id o))
    \/ other_key k;
  inv_B : forall id o, id < two64 -> get s (k_order id) = Some (VOrder o) ->
    forall k v, In (k, v) (all_entries id o) -> get s k = Some v;
  inv_W : forall id o, id < two64 -> get s (k_order id) = Some (VOrder o) ->
    wf_order o = true /\ P id
}.

Lemma Inv_mono : forall (P Q : N -> Prop) s, (forall x, P x -> Q x) -> Inv P s -> Inv Q s.
Proof.
  intros P Q s H HI. constructor.
  - exact (inv_sorted _ _ HI).
  - exact (inv_A _ _ HI).
  - exact (inv_B _ _ HI).
  - intros id o Hid G. destruct (inv_W _ _ HI _ _ Hid G) as [W p]. split; [exact W|apply H; exact p].
Qed.

Lemma Inv_init : forall P, Inv P init.
Proof. intros P. constructor; cbn; try exact I; intros; discriminate. Qed.

(** whatever sits under an order key is an order *)
Lemma open_value : forall P s id v, Inv P s -> id < two64 -> get s (k_order id) = Some v ->
  exists o, v = VOrder o.
Proof.
  intros P s id v HI Hid G.
  destruct (inv_A _ _ HI _ _ G) as [[id2 [o2 [Hid2 [G2 Hin]]]]|O].
  - apply entry_korder in Hin. destruct Hin as [_ ->]. eexists; reflexivity.
  - exfalso. exact (korder_not_other _ O).
Qed.

(** operations that only touch the counter / payment keys *)
Lemma frame_inv : forall P s s', Inv P s -> sorted_keys s' ->
  (forall k, ~ other_key k -> get s' k = get s k) -> Inv P s'.
Proof.
  intros P s s' HI Hs HF. constructor.
  - exact Hs.
  - intros k v G. destruct (other_key_dec k) as [O|NO]; [right; exact O|].
    rewrite (HF _ NO) in G.
    destruct (inv_A _ _ HI _ _ G) as [[id [o [Hid [G2 Hin]]]]|O]; [|right; exact O].
    left. exists id, o. split; [exact Hid|split; [|exact Hin]].
    rewrite HF by apply korder_not_other. exact G2.
  - intros id o Hid G k v Hin. rewrite HF in G by apply korder_not_other.
    rewrite HF by (eapply entry_not_other; exact Hin).
    exact (inv_B _ _ HI _ _ Hid G _ _ Hin).
  - intros id o Hid G. rewrite HF in G by apply korder_not_other.
    exact (inv_W _ _ HI _ _ Hid G).
Qed.

Definition Eo (id : N) (x : option order) : list (key * val) :=
  match x with Some o => all_entries id o | None => [] end.

Lemma korder_notin_Eo : forall id2 id x, id2 < two64 -> id < two64 -> id2 <> id ->
  ~ In (k_order id2) (keys (Eo id x)).
Proof. intros id2 id [o|] H2 H1 Hne; [apply korder_notin; assumption|intros []]. Qed.

(** The entries of order [id] are replaced: [old] (its state in [s]) by [new]. *)
Lemma replace_inv : forall P s s' id old new D,
  Inv P s -> id < two64 ->
  (match old with
   | Some o => get s (k_order id) = Some (VOrder o)
   | None => get s (k_order id) = None end) ->
  (match new with Some o => wf_order o = true /\ P id | None => True end) ->
  (forall k, In k D <-> In k (keys (Eo id old))) ->
  (forall k, In k (keys (Eo id new)) -> hd 0 k = 9 -> In k D \/ get s k = None) ->
  sorted_keys s' ->
  (forall k v, In (k, v) (Eo id new) -> get s' k = Some v) ->
  (forall k, ~ In k (keys (Eo id new)) -> In k D -> get s' k = None) ->
  (forall k, ~ In k (keys (Eo id new)) -> ~ In k D -> get s' k = get s k) ->
  Inv P s'.
Proof.
  intros P s s' id old new D HI Hid Hold Hnew HD Hfree Hs H1 H2 H3.
  assert (Hko : forall id2, id2 < two64 -> id2 <> id -> get s' (k_order id2) = get s (k_order id2)).
  { intros id2 Hid2 Hne. apply H3.
    - apply korder_notin_Eo; assumption.
    - rewrite HD. apply korder_notin_Eo; assumption. }
  assert (Hkn : forall o2, get s' (k_order id) = Some (VOrder o2) -> new = Some o2).
  { intros o2 G. destruct new as [o'|].
    - rewrite (H1 (k_order id) (VOrder o')) in G by (left; reflexivity). congruence.
    - exfalso. destruct old as [o|].
      + rewrite H2 in G; [discriminate|intros []|apply HD; left; reflexivity].
      + rewrite H3 in G; [congruence|intros []|rewrite HD; intros []]. }
  constructor.
  - exact Hs.
  - intros k v G.
    destruct (in_dec key_dec k (keys (Eo id new))) as [i|ni].
    + left. destruct new as [o'|]; [|destruct i].
      apply in_map_iff in i. destruct i as [[k2 v2] [Ek i]]. cbn in Ek; subst k2.
      rewrite (H1 _ _ i) in G. inversion G; subst v2.
      exists id, o'. split; [exact Hid|split; [|exact i]].
      apply H1. left; reflexivity.
    + destruct (in_dec key_dec k D) as [d|nd]; [rewrite (H2 _ ni d) in G; discriminate|].
      rewrite (H3 _ ni nd) in G.
      destruct (inv_A _ _ HI _ _ G) as [[id2 [o2 [Hid2 [G2 Hin]]]]|Ho]; [|right; exact Ho].
      destruct (N.eq_dec id2 id) as [->|Hne].
      * exfalso. apply nd. apply HD. destruct old as [o|]; [|congruence].
        rewrite G2 in Hold. inversion Hold; subst o2.
        apply in_map_iff. exists (k, v). split; [reflexivity|exact Hin].
      * left. exists id2, o2. split; [exact Hid2|split; [|exact Hin]]. rewrite Hko; assumption.
  - intros id2 o2 Hid2 G k v Hin.
    destruct (N.eq_dec id2 id) as [->|Hne].
    + apply Hkn in G. subst new. apply H1. exact Hin.
    + rewrite Hko in G by assumption.
      pose proof (inv_B _ _ HI _ _ Hid2 G _ _ Hin) as Gk.
      assert (nd : ~ In k D).
      { intros d. apply HD in d. destruct old as [o|]; [|destruct d].
        apply in_map_iff in d. destruct d as [[k2 v2] [Ek d]]. cbn in Ek; subst k2.
        pose proof (inv_B _ _ HI _ _ Hid Hold _ _ d) as Gk2. rewrite Gk in Gk2.
        inversion Gk2; subst v2.
        apply Hne. rewrite <- (id_of_entry _ _ _ _ Hin Hid2). apply (id_of_entry _ _ _ _ d Hid). }
      assert (ni : ~ In k (keys (Eo id new))).
      { intros i. destruct new as [o'|]; [|destruct i].
        pose proof i as i0.
        apply in_map_iff in i. destruct i as [[k2 v2] [Ek i]]. cbn in Ek; subst k2.
        destruct (N.eq_dec (hd 0 k) 9) as [E9|N9].
        - destruct (Hfree k i0 E9) as [d|Gn]; [exact (nd d)|congruence].
        - apply Hne. rewrite <- (id_of_entry _ _ _ _ Hin Hid2).
          rewrite (id_of_irrel k v v2 N9). apply (id_of_entry _ _ _ _ i Hid). }
      rewrite (H3 _ ni nd). exact Gk.
  - intros id2 o2 Hid2 G. destruct (N.eq_dec id2 id) as [->|Hne].
    + apply Hkn in G. subst new. exact Hnew.
    + rewrite Hko in G by assumption. exact (inv_W _ _ HI _ _ Hid2 G).
Qed.

(** ---- more facts about the entries of an order ---- *)
Lemma mod_lt64 : forall id, id mod two64 < two64.
Proof. intros id. apply N.mod_lt. discriminate. Qed.

Lemma k_order_mod : forall id, k_order (id mod two64) = k_order id.
Proof. intros id. unfold k_order. rewrite u64be_mod. reflexivity. Qed.

Lemma ext_entry_mod : forall id o, ext_entry (id mod two64) o = ext_entry id o.
Proof. intros id o. unfold ext_entry. rewrite u64be_mod. reflexivity. Qed.

Lemma all_entries_same : forall a b o, u64be a = u64be b -> all_entries a o = all_entries b o.
Proof.
  intros a b o E. unfold all_entries, const_entries, ext_entry, k_order, k_mkt, k_addr, k_asset.
  rewrite E. reflexivity.
Qed.

Lemma all_entries_mod : forall id o, all_entries (id mod two64) o = all_entries id o.
Proof. intros id o. apply all_entries_same. apply u64be_mod. Qed.

Lemma get_order_some : forall s id o,
  get_order s id = Some o <-> get s (k_order id) = Some (VOrder o).
Proof.
  intros s id o. unfold get_order. destruct (get s (k_order id)) as [[o0|p|b]|]; split; congruence.
Qed.

Lemma keys_all : forall k id o, In k (keys (all_entries id o)) <->
  k_order id = k \/ In k (keys (const_entries id o)) \/ In k (keys (ext_entry id o)).
Proof.
  intros k id o. unfold keys, all_entries. cbn [map fst In]. rewrite map_app, in_app_iff. tauto.
Qed.

Lemma in_keys : forall k (l : list (key * val)), In k (keys l) <-> exists v, In (k, v) l.
Proof.
  intros k l. unfold keys. rewrite in_map_iff. split.
  - intros [[k2 v2] [E H]]. cbn in E. subst. exists v2. exact H.
  - intros [v H]. exists (k, v). split; [reflexivity|exact H].
Qed.

Lemma const_key_hd : forall k id o, In k (keys (const_entries id o)) ->
  hd 0 k = 3 \/ hd 0 k = 4 \/ hd 0 k = 5.
Proof.
  intros k id o H. apply in_keys in H. destruct H as [v H]. apply in_const_entries in H.
  destruct H as [[E|[E|E]] _]; subst k; auto.
Qed.

Lemma ext_key_hd : forall k id o, In k (keys (ext_entry id o)) -> hd 0 k = 9.
Proof.
  intros k id o H. apply in_keys in H. destruct H as [v H]. apply in_ext_entry in H.
  destruct H as [_ [-> _]]. reflexivity.
Qed.

Lemma other_notin : forall k id o, other_key k -> ~ In k (keys (all_entries id o)).
Proof.
  intros k id o O H. apply in_keys in H. destruct H as [v H]. exact (entry_not_other _ _ _ _ H O).
Qed.

Lemma last_other : other_key k_last.
Proof. left. reflexivity. Qed.

Lemma entry_hd9 : forall k v id o, In (k, v) (all_entries id o) -> hd 0 k = 9 ->
  In (k, v) (ext_entry id o) /\ v = VBytes (u64be id).
Proof.
  intros k v id o H H9. inv_entry H; subst k; hdn H9; try discriminate H9.
  split; [apply in_ext_entry; auto|exact Hv].
Qed.

Lemma nodup_entries : forall id o, NoDup (keys (all_entries id o)).
Proof.
  intros id o. apply (NoDup_map_inv (hd 0)).
  unfold all_entries. destruct (o_ext o) as [|x e] eqn:E.
  - rewrite ext_entry_nil by exact E.
    cbv [keys const_entries map fst app hd k_order k_mkt k_addr k_asset k_ext p_mkt p_addr p_asset
         len_prefix].
    repeat constructor; cbn [In]; intuition discriminate.
  - rewrite ext_entry_cons by (rewrite E; discriminate).
    cbv [keys const_entries map fst app hd k_order k_mkt k_addr k_asset k_ext p_mkt p_addr p_asset
         len_prefix].
    repeat constructor; cbn [In]; intuition discriminate.
Qed.

Lemma nodup_update_list : forall id o (v : val),
  NoDup (keys ((k_order id, v) :: ext_entry id o)).
Proof.
  intros id o v. apply (NoDup_map_inv (hd 0)).
  destruct (o_ext o) as [|x e] eqn:E.
  - rewrite ext_entry_nil by exact E. cbv [keys map fst hd k_order].
    repeat constructor; cbn [In]; intuition discriminate.
  - rewrite ext_entry_cons by (rewrite E; discriminate). cbv [keys map fst hd k_order k_ext].
    repeat constructor; cbn [In]; intuition discriminate.
Qed.

Lemma k_ext_inj_e : forall m e e', k_ext m e = k_ext m e' -> e = e'.
Proof.
  intros m e e' H. unfold k_ext in H. apply (f_equal (@tl N)) in H. cbn [tl] in H.
  apply app_inv_head in H. exact H.
Qed.

(** ---- deleteAndDeIndexOrder / CancelOrder ---- *)
Lemma delete_eq : forall s id o, delete_and_deindex s id o = del_all s (all_entries id o).
Proof.
  intros s id o. unfold delete_and_deindex, all_entries. rewrite del_all_cons, del_all_app.
  reflexivity.
Qed.

Lemma delete_inv : forall P s id o o2,
  Inv P s -> id < two64 -> get s (k_order id) = Some (VOrder o2) ->
  keys (all_entries id o) = keys (all_entries id o2) ->
  Inv P (del_all s (all_entries id o)).
Proof.
  intros P s id o o2 HI Hid G K.
  apply replace_inv with (s := s) (id := id) (old := Some o2) (new := None)
                         (D := keys (all_entries id o)).
  - exact HI.
  - exact Hid.
  - exact G.
  - exact I.
  - intros k. rewrite K. cbn [Eo]. tauto.
  - intros k [].
  - apply sorted_del_all. exact (inv_sorted _ _ HI).
  - intros k v [].
  - intros k _ H. apply get_del_all_in. exact H.
  - intros k _ H. apply get_del_all_out. exact H.
Qed.

Lemma cancel_inv : forall P s id s', Inv P s -> cancel_order s id = Some s' ->
  Inv P s' /\ get s' k_last = get s k_last.
Proof.
  intros P s id s' HI H. unfold cancel_order in H.
  destruct (get_order s id) as [o|] eqn:G; [|discriminate].
  apply get_order_some in G. inversion H; subst s'. clear H.
  rewrite delete_eq. rewrite <- all_entries_mod. rewrite <- k_order_mod in G. split.
  - apply delete_inv with (o2 := o); auto using mod_lt64.
  - apply get_del_all_out. apply other_notin. exact last_other.
Qed.

(** ---- setOrderInStore ---- *)
Lemma sois_spec : forall s id o s', set_order_in_store s id o = Some s' ->
  (forall ek v b other, In (ek, v) (ext_entry id o) -> get s ek = Some (VBytes b) ->
     u64_from_bz b = Some other -> other = id) /\
  s' = set_all s ((k_order id, VOrder o) ::
                  (if has s (k_order id) then [] else const_entries id o) ++ ext_entry id o).
Proof.
  intros s id o s'. unfold set_order_in_store.
  destruct (o_ext o) as [|x e] eqn:E.
  - rewrite (ext_entry_nil id o E). intros H. inversion H. split; [intros ? ? ? ? []|].
    rewrite set_all_cons, set_all_app. cbn [fst snd]. destruct (has s (k_order id)); reflexivity.
  - assert (Hne : o_ext o <> []) by (rewrite E; discriminate).
    rewrite (ext_entry_cons id o Hne).
    set (ek := k_ext (o_market o) (o_ext o)). cbv beta iota zeta.
    assert (Hfin : forall s0, Some (set_all (if has s (k_order id)
                                then set s (k_order id) (VOrder o)
                                else set_all (set s (k_order id) (VOrder o)) (const_entries id o))
                               [(ek, VBytes (u64be id))]) = Some s0 ->
       s0 = set_all s ((k_order id, VOrder o) ::
                  (if has s (k_order id) then [] else const_entries id o) ++ [(ek, VBytes (u64be id))])).
    { intros s0 H. inversion H. rewrite set_all_cons, set_all_app. cbn [fst snd].
      destruct (has s (k_order id)); reflexivity. }
    destruct (get s ek) as [[o0|p0|b]|] eqn:G.
    + intros H. split; [|apply Hfin; exact H].
      intros ek' v' b' other' [Hin|[]] G'. inversion Hin; subst. congruence.
    + intros H. split; [|apply Hfin; exact H].
      intros ek' v' b' other' [Hin|[]] G'. inversion Hin; subst. congruence.
    + destruct (u64_from_bz b) as [other|] eqn:U.
      * destruct (other =? id) eqn:Eo; cbn [negb]; [|discriminate].
        apply N.eqb_eq in Eo. intros H. split; [|apply Hfin; exact H].
        intros ek' v' b' other' [Hin|[]] G' U'. inversion Hin; subst. congruence.
      * intros H. split; [|apply Hfin; exact H].
        intros ek' v' b' other' [Hin|[]] G' U'. inversion Hin; subst. congruence.
    + intros H. split; [|apply Hfin; exact H].
      intros ek' v' b' other' [Hin|[]] G'. inversion Hin; subst. congruence.
Qed.

(** ---- the id counter ---- *)
Lemma last_eq : forall s s', get s' k_last = get s k_last -> last_order_id s' = last_order_id s.
Proof. intros s s' H. unfold last_order_id. rewrite H. reflexivity. Qed.

Lemma not_open_above : forall P s l id, Inv P s -> (forall x, P x -> x <= l) ->
  id < two64 -> l < id -> get s (k_order id) = None.
Proof.
  intros P s l id HI HP Hid Hl. destruct (get s (k_order id)) as [v|] eqn:G; [|reflexivity].
  exfalso. destruct (open_value _ _ _ _ HI Hid G) as [o ->].
  destruct (inv_W _ _ HI _ _ Hid G) as [_ p]. apply HP in p. lia.
Qed.

(** ---- CreateAskOrder / CreateBidOrder ---- *)
Lemma create_inv : forall P s o s' id,
  Inv P s -> last_order_id s + 1 < two64 -> (forall x, P x -> x <= last_order_id s) ->
  create_order s o = Some (s', id) ->
  id = last_order_id s + 1 /\ last_order_id s' = id /\ Inv (fun x => P x \/ x = id) s'.
Proof.
  intros P s o s' id HI HL HP H. unfold create_order in H.
  destruct (wf_order o) eqn:W; cbn [negb] in H; [|discriminate].
  unfold next_order_id in H. rewrite (N.mod_small _ _ HL) in H.
  remember (last_order_id s) as l eqn:El. remember (l + 1) as n eqn:En.
  remember (set s k_last (VBytes (u64be n))) as s1 eqn:Es1.
  destruct (set_order_in_store s1 n o) as [s2|] eqn:E; [|discriminate].
  inversion H; subst s2 id. clear H.
  split; [reflexivity|].
  assert (HI1 : Inv P s1).
  { apply frame_inv with (s := s); [exact HI|subst s1; apply sorted_set; exact (inv_sorted _ _ HI)|].
    intros k NO. subst s1. rewrite get_set. destruct (key_eqb k k_last) eqn:Ek; [|reflexivity].
    apply key_eqb_eq in Ek. subst k. exfalso. exact (NO last_other). }
  assert (Gn : get s1 (k_order n) = None).
  { apply not_open_above with (P := P) (l := l); [exact HI1|exact HP|exact HL|lia]. }
  apply sois_spec in E. destruct E as [Hcl E]. unfold has in E. rewrite Gn in E.
  change ((k_order n, VOrder o) :: const_entries n o ++ ext_entry n o) with (all_entries n o) in E.
  subst s'. split.
  - unfold last_order_id. rewrite get_set_all_out by (apply other_notin; exact last_other).
    subst s1. rewrite get_set, key_eqb_refl, u64_from_bz_u64be. rewrite N.mod_small by exact HL.
    reflexivity.
  - apply replace_inv with (s := s1) (id := n) (old := None) (new := Some o) (D := []).
    + eapply Inv_mono; [|exact HI1]. intros x p. left. exact p.
    + exact HL.
    + exact Gn.
    + split; [exact W|right; reflexivity].
    + intros k. cbn. tauto.
    + intros k Hin H9. right. cbn [Eo] in Hin. apply in_keys in Hin. destruct Hin as [v0 Hin].
      destruct (entry_hd9 _ _ _ _ Hin H9) as [Hx _].
      destruct (get s1 k) as [v|] eqn:Gk; [|reflexivity]. exfalso.
      destruct (inv_A _ _ HI1 _ _ Gk) as [[id2 [o2 [Hid2 [G2 Hin2]]]]|O].
      * destruct (entry_hd9 _ _ _ _ Hin2 H9) as [_ Ev]. subst v.
        assert (Ei : id2 mod two64 = n).
        { apply (Hcl k v0 (u64be id2)); [exact Hx|exact Gk|apply u64_from_bz_u64be]. }
        rewrite N.mod_small in Ei by exact Hid2. subst id2. congruence.
      * destruct O as [O|[O|O]]; rewrite H9 in O; discriminate O.
    + apply sorted_set_all. exact (inv_sorted _ _ HI1).
    + intros k v Hin. cbn [Eo] in Hin. apply get_set_all_in; [apply nodup_entries|exact Hin].
    + intros k _ [].
    + intros k ni _. cbn [Eo] in ni. apply get_set_all_out. exact ni.
Qed.

(** ---- updates of an open order that keep market / owner / asset / type ---- *)
Lemma update_inv : forall P s id o o' Dl,
  Inv P s -> id < two64 -> get s (k_order id) = Some (VOrder o) ->
  const_entries id o' = const_entries id o -> wf_order o' = true ->
  ((Dl = [] /\ ext_entry id o' = ext_entry id o) \/ Dl = ext_entry id o) ->
  (forall k, In k (keys (ext_entry id o')) -> In k (keys (ext_entry id o)) \/ get s k = None) ->
  Inv P (set_all (del_all s Dl) ((k_order id, VOrder o') :: ext_entry id o')).
Proof.
  intros P s id o o' Dl HI Hid G Hc W HDl Hfree.
  assert (HDlk : forall k, In k (keys Dl) -> In k (keys (ext_entry id o))).
  { intros k H. destruct HDl as [[-> _]| ->]; [destruct H|exact H]. }
  assert (HLk : forall k, In k (keys ((k_order id, VOrder o') :: ext_entry id o')) <->
                          k_order id = k \/ In k (keys (ext_entry id o'))).
  { intros k. cbn [keys map fst In]. tauto. }
  apply replace_inv with (s := s) (id := id) (old := Some o) (new := Some o')
                         (D := keys (all_entries id o)).
  - exact HI.
  - exact Hid.
  - exact G.
  - split; [exact W|]. exact (proj2 (inv_W _ _ HI _ _ Hid G)).
  - intros k. cbn [Eo]. tauto.
  - intros k Hin H9. cbn [Eo] in Hin. apply keys_all in Hin.
    destruct Hin as [E|[Hin|Hin]].
    + subst k. hdn H9. discriminate H9.
    + apply const_key_hd in Hin. rewrite H9 in Hin. destruct Hin as [?|[?|?]]; discriminate.
    + destruct (Hfree k Hin) as [Hl|Hr]; [left; apply keys_all; auto|right; exact Hr].
  - apply sorted_set_all, sorted_del_all. exact (inv_sorted _ _ HI).
  - intros k v Hin. cbn [Eo] in Hin. unfold all_entries in Hin.
    destruct Hin as [E|Hin]; [|apply in_app_iff in Hin; destruct Hin as [Hin|Hin]].
    + apply get_set_all_in; [apply nodup_update_list|left; exact E].
    + rewrite Hc in Hin.
      assert (Hh : hd 0 k = 3 \/ hd 0 k = 4 \/ hd 0 k = 5).
      { apply (const_key_hd k id o). apply in_keys. exists v. exact Hin. }
      rewrite get_set_all_out.
      * rewrite get_del_all_out.
        -- apply (inv_B _ _ HI _ _ Hid G). unfold all_entries. right. apply in_app_iff. left. exact Hin.
        -- intros Hd. apply HDlk, ext_key_hd in Hd. rewrite Hd in Hh.
           destruct Hh as [?|[?|?]]; discriminate.
      * intros Hd. apply HLk in Hd. destruct Hd as [Hd|Hd].
        -- subst k. hdn Hh. destruct Hh as [?|[?|?]]; discriminate.
        -- apply ext_key_hd in Hd. rewrite Hd in Hh. destruct Hh as [?|[?|?]]; discriminate.
    + apply get_set_all_in; [apply nodup_update_list|right; exact Hin].
  - intros k ni d. cbn [Eo] in ni. rewrite keys_all in ni, d. rewrite Hc in ni.
    assert (Hx : In k (keys (ext_entry id o))) by tauto.
    assert (Hnx : ~ In k (keys (ext_entry id o'))) by tauto.
    destruct HDl as [[_ Ee]| ->]; [rewrite Ee in Hnx; contradiction|].
    rewrite get_set_all_out by (rewrite HLk; tauto).
    apply get_del_all_in. exact Hx.
  - intros k ni nd. cbn [Eo] in ni. rewrite keys_all in ni, nd.
    rewrite get_set_all_out by (rewrite HLk; tauto).
    apply get_del_all_out. intros Hd. apply HDlk in Hd. tauto.
Qed.

Lemma wf_market : forall o, wf_order o = true ->
  o_market o <> 0 /\ o_market o < two32 /\ ext_ok (o_ext o) = true.
Proof.
  intros o W. unfold wf_order in W. rewrite !andb_true_iff in W.
  destruct W as [[[[[W1 W2] _] _] _] W3].
  apply negb_true_iff, N.eqb_neq in W1. apply N.ltb_lt in W2. auto.
Qed.

Lemma wf_with_ext : forall o e, wf_order o = true -> ext_ok e = true -> wf_order (with_ext o e) = true.
Proof.
  intros o e W He. unfold wf_order in *. rewrite !andb_true_iff in *.
  cbn [with_ext o_market o_owner o_asset o_amount o_ext]. tauto.
Qed.

Lemma wf_with_amount : forall o r, wf_order o = true -> (0 < r)%Z -> wf_order (with_amount o r) = true.
Proof.
  intros o r W Hr. unfold wf_order in *. rewrite !andb_true_iff in *.
  cbn [with_amount o_market o_owner o_asset o_amount o_ext].
  assert (Z.ltb 0 r = true) by (apply Z.ltb_lt; exact Hr). tauto.
Qed.

(** ---- SetOrderExternalID ---- *)
Lemma set_ext_inv : forall P s m id e s', Inv P s -> set_order_ext s m id e = Some s' ->
  Inv P s' /\ get s' k_last = get s k_last.
Proof.
  intros P s m id e s' HI H. unfold set_order_ext in H.
  destruct (ext_ok e) eqn:Eok; cbn [negb] in H; [|discriminate].
  destruct (get_order s id) as [o|] eqn:G; [|discriminate]. apply get_order_some in G.
  destruct (o_market o =? m) eqn:Em; cbn [negb] in H; [|discriminate].
  destruct (bytes_eqb (o_ext o) e) eqn:Ee; [discriminate|].
  apply key_eqb_neq in Ee.
  assert (Es1 : (match o_ext o with
                 | [] => s
                 | x :: l => del s (k_ext (o_market o) (x :: l)) end) = del_all s (ext_entry id o)).
  { unfold ext_entry. destruct (o_ext o); reflexivity. }
  rewrite Es1 in H. clear Es1. apply sois_spec in H. destruct H as [Hcl ->].
  assert (Hko : ~ In (k_order id) (keys (ext_entry id o))).
  { intros Hd. apply ext_key_hd in Hd. hdn Hd. discriminate Hd. }
  unfold has. rewrite (get_del_all_out _ _ _ Hko), G. cbn [app].
  split.
  2:{ rewrite get_set_all_out.
      - apply get_del_all_out. intros Hd. apply ext_key_hd in Hd. hdn Hd. discriminate Hd.
      - intros Hd. destruct Hd as [Hd|Hd]; [cbn in Hd; hd_discr Hd|].
        apply ext_key_hd in Hd. hdn Hd. discriminate Hd. }
  rewrite <- (k_order_mod id), <- (ext_entry_mod id o), <- (ext_entry_mod id (with_ext o e)).
  rewrite <- (k_order_mod id) in G.
  pose proof (mod_lt64 id) as Hid.
  destruct (inv_W _ _ HI _ _ Hid G) as [W _].
  apply update_inv with (o := o).
  - exact HI.
  - exact Hid.
  - exact G.
  - reflexivity.
  - apply wf_with_ext; assumption.
  - right. reflexivity.
  - intros k Hin. right. rewrite ext_entry_mod in Hin.
    apply in_keys in Hin. destruct Hin as [v0 Hin].
    pose proof Hin as Hin0. apply in_ext_entry in Hin0.
    cbn [with_ext o_ext o_market] in Hin0. destruct Hin0 as [He [Ek _]].
    assert (Hnk : ~ In k (keys (ext_entry id o))).
    { intros Hd. apply in_keys in Hd. destruct Hd as [v1 Hd]. apply in_ext_entry in Hd.
      destruct Hd as [_ [Ek1 _]]. rewrite Ek in Ek1. apply k_ext_inj_e in Ek1. congruence. }
    destruct (get s k) as [v|] eqn:Gk; [|reflexivity]. exfalso.
    assert (H9 : hd 0 k = 9) by (subst k; reflexivity).
    destruct (inv_A _ _ HI _ _ Gk) as [[id2 [o2 [Hid2 [G2 Hin2]]]]|O].
    + destruct (entry_hd9 _ _ _ _ Hin2 H9) as [Hx2 Ev]. subst v.
      assert (Ei : id2 mod two64 = id).
      { apply (Hcl k v0 (u64be id2)); [exact Hin| |apply u64_from_bz_u64be].
        rewrite (get_del_all_out _ _ _ Hnk). exact Gk. }
      rewrite N.mod_small in Ei by exact Hid2. subst id2.
      rewrite N.mod_small in G by exact Hid2. rewrite G in G2. inversion G2; subst o2.
      apply Hnk. apply in_keys. eexists; exact Hx2.
    + destruct O as [O|[O|O]]; rewrite H9 in O; discriminate O.
Qed.

(** ---- closeSettlement ---- *)
Lemma keys_with_amount : forall id o r,
  keys (all_entries id (with_amount o r)) = keys (all_entries id o).
Proof. intros id o r. reflexivity. Qed.

Lemma set_amount_inv : forall P s id o r s',
  Inv P s -> get s (k_order id) = Some (VOrder o) -> (0 < r)%Z ->
  set_order_in_store s id (with_amount o r) = Some s' ->
  Inv P s' /\ get s' k_last = get s k_last /\
  (forall k, k <> k_order id -> get s' k = get s k) /\
  get s' (k_order id) = Some (VOrder (with_amount o r)).
Proof.
  intros P s id o r s' HI G Hr H.
  apply sois_spec in H. destruct H as [_ ->]. unfold has. rewrite G. cbn [app].
  change (ext_entry id (with_amount o r)) with (ext_entry id o).
  pose proof (mod_lt64 id) as Hid.
  pose proof G as G'. rewrite <- (k_order_mod id) in G'.
  destruct (inv_W _ _ HI _ _ Hid G') as [W _].
  assert (Hfr : forall k, k <> k_order id ->
     get (set_all s ((k_order id, VOrder (with_amount o r)) :: ext_entry id o)) k = get s k).
  { intros k Hk.
    destruct (in_dec key_dec k (keys (ext_entry id o))) as [i|ni].
    - apply in_keys in i. destruct i as [v i].
      rewrite (get_set_all_in _ _ k v (nodup_update_list _ _ _)) by (right; exact i).
      symmetry. apply (inv_B _ _ HI _ _ Hid G'). rewrite all_entries_mod.
      unfold all_entries. right. apply in_app_iff. right. exact i.
    - apply get_set_all_out. intros [Hd|Hd]; [cbn in Hd; congruence|contradiction]. }
  split; [|split; [|split]].
  - rewrite <- (k_order_mod id), <- (ext_entry_mod id o).
    change (ext_entry (id mod two64) o) with (ext_entry (id mod two64) (with_amount o r)).
    change (set_all s) with (set_all (del_all s [])).
    apply update_inv with (o := o).
    + exact HI.
    + exact Hid.
    + exact G'.
    + reflexivity.
    + apply wf_with_amount; assumption.
    + left. split; reflexivity.
    + intros k Hin. left. exact Hin.
  - apply Hfr. intros E. hd_discr E.
  - exact Hfr.
  - apply get_set_all_in; [apply nodup_update_list|left; reflexivity].
Qed.

Definition FillJ (P : N -> Prop) (s s1 : st) : Prop :=
  Inv P s1 /\ get s1 k_last = get s k_last /\
  forall id o, get s (k_order id) = Some (VOrder o) ->
    (exists o2, get s1 (k_order id) = Some (VOrder o2) /\
                keys (all_entries id o2) = keys (all_entries id o)) \/
    (forall k, In k (keys (all_entries id o)) -> get s1 k = None).

Lemma fill_step : forall P s s1 id0, FillJ P s s1 ->
  FillJ P s (match get_order s id0 with Some o => delete_and_deindex s1 id0 o | None => s1 end).
Proof.
  intros P s s1 id0 HJ. destruct (get_order s id0) as [o0|] eqn:G0; [|exact HJ].
  apply get_order_some in G0. rewrite delete_eq.
  destruct HJ as [HI [HL HJ]].
  destruct (HJ id0 o0 G0) as [[o2 [G2 K2]]|N2].
  - (* still open: a real deletion *)
    split; [|split].
    + rewrite <- all_entries_mod. apply delete_inv with (o2 := o2).
      * exact HI.
      * apply mod_lt64.
      * rewrite k_order_mod. exact G2.
      * rewrite !all_entries_mod. symmetry. exact K2.
    + rewrite get_del_all_out by (apply other_notin; exact last_other). exact HL.
    + intros id o G.
      destruct (key_dec (k_order id) (k_order id0)) as [E|NE].
      * right. rewrite E in G. rewrite G0 in G. inversion G; subst o0.
        assert (Eu : u64be id = u64be id0).
        { apply (f_equal (@tl N)) in E. exact E. }
        rewrite (all_entries_same id id0 o Eu). intros k Hk. apply get_del_all_in. exact Hk.
      * destruct (HJ id o G) as [[o3 [G3 K3]]|N3].
        -- left. exists o3. split; [|exact K3].
           rewrite get_del_all_out; [exact G3|].
           intros Hd. apply in_keys in Hd. destruct Hd as [v Hd]. apply entry_korder in Hd.
           destruct Hd as [Hd _]. contradiction.
        -- right. intros k Hk. apply get_del_all_None. apply N3. exact Hk.
  - (* already gone: nothing changes *)
    assert (Hget : forall k, get (del_all s1 (all_entries id0 o0)) k = get s1 k).
    { intros k. destruct (in_dec key_dec k (keys (all_entries id0 o0))) as [i|ni].
      - rewrite (get_del_all_in _ _ _ i). symmetry. apply N2. exact i.
      - apply get_del_all_out. exact ni. }
    split; [|split].
    + apply frame_inv with (s := s1); [exact HI|apply sorted_del_all; exact (inv_sorted _ _ HI)|].
      intros k _. apply Hget.
    + rewrite Hget. exact HL.
    + intros id o G. destruct (HJ id o G) as [[o3 [G3 K3]]|N3].
      * left. exists o3. rewrite Hget. auto.
      * right. intros k Hk. rewrite Hget. apply N3. exact Hk.
Qed.

Lemma fill_fold : forall P s full s1, FillJ P s s1 ->
  FillJ P s (fold_left (fun s' id => match get_order s id with
                                     | Some o => delete_and_deindex s' id o
                                     | None => s' end) full s1).
Proof.
  intros P s full. induction full as [|id0 full IH]; intros s1 HJ; [exact HJ|].
  cbn [fold_left]. apply IH. apply fill_step. exact HJ.
Qed.

Lemma FillJ_refl : forall P s, Inv P s -> FillJ P s s.
Proof.
  intros P s HI. split; [exact HI|split; [reflexivity|]].
  intros id o G. left. exists o. split; [exact G|reflexivity].
Qed.

Lemma fill_inv : forall P s full part s', Inv P s -> fill_orders s full part = Some s' ->
  Inv P s' /\ get s' k_last = get s k_last.
Proof.
  intros P s full part s' HI H. unfold fill_orders in H.
  match type of H with (if ?c then _ else _) = _ => destruct c; [discriminate|] end.
  match type of H with (if ?c then _ else _) = _ => destruct c; [discriminate|] end.
  assert (HJ : forall s1, FillJ P s s1 ->
     Some (fold_left (fun s' id => match get_order s id with
                                   | Some o => delete_and_deindex s' id o
                                   | None => s' end) full s1) = Some s' ->
     Inv P s' /\ get s' k_last = get s k_last).
  { intros s1 HJ E. inversion E. destruct (fill_fold P s full s1 HJ) as [A [B _]]. split; assumption. }
  destruct part as [[idp rest]|].
  - destruct (get_order s idp) as [op|] eqn:Gp; [|discriminate]. apply get_order_some in Gp.
    destruct (Z.leb rest 0) eqn:Er; [discriminate|]. apply Z.leb_gt in Er.
    destruct (set_order_in_store s idp (with_amount op rest)) as [s1|] eqn:E1; [|discriminate].
    apply (HJ s1); [|exact H].
    destruct (set_amount_inv _ _ _ _ _ _ HI Gp Er E1) as [HI1 [HL1 [Hfr Gn]]].
    split; [exact HI1|split; [exact HL1|]].
    intros id o G. left.
    destruct (key_dec (k_order id) (k_order idp)) as [E|NE].
    + rewrite E in G. rewrite Gp in G. inversion G; subst op.
      exists (with_amount o rest). split; [rewrite E; exact Gn|apply keys_with_amount].
    + exists o. split; [rewrite Hfr by exact NE; exact G|reflexivity].
  - apply (HJ s); [apply FillJ_refl; exact HI|exact H].
Qed.

(** ---- CancelAllOrdersForMarket ---- *)
Lemma close_fold : forall P (l : list (N * N)) s, Inv P s ->
  let s' := fold_left (fun s' idt => match cancel_order s' (fst idt) with
                                     | Some s'' => s''
                                     | None => s' end) l s in
  Inv P s' /\ get s' k_last = get s k_last.
Proof.
  intros P l. induction l as [|idt l IH]; intros s HI; cbn zeta; cbn [fold_left].
  - split; [exact HI|reflexivity].
  - destruct (cancel_order s (fst idt)) as [s2|] eqn:E.
    + destruct (cancel_inv _ _ _ _ HI E) as [HI2 HL2].
      destruct (IH s2 HI2) as [A B]. split; [exact A|]. cbn zeta in B. rewrite B. exact HL2.
    + apply IH. exact HI.
Qed.

Lemma close_inv : forall P s m, Inv P s ->
  Inv P (close_market s m) /\ get (close_market s m) k_last = get s k_last.
Proof. intros P s m HI. unfold close_market. apply (close_fold P _ s HI). Qed.

(** ---- payment operations only touch keys starting with 0x70 / 0x10 ---- *)
Definition pay_key (k : key) : Prop := hd 0 k = 112 \/ hd 0 k = 16.

Definition PF (s s' : st) : Prop :=
  (sorted_keys s -> sorted_keys s') /\ forall k, ~ pay_key k -> get s' k = get s k.

Lemma PF_refl : forall s, PF s s.
Proof. intros s. split; auto. Qed.

Lemma PF_set : forall s x k v, PF s x -> pay_key k -> PF s (set x k v).
Proof.
  intros s x k v [A B] Hk. split.
  - intros Hs. apply sorted_set. apply A. exact Hs.
  - intros k' Hk'. rewrite get_set. destruct (key_eqb k' k) eqn:E; [|apply B; exact Hk'].
    apply key_eqb_eq in E. subst. contradiction.
Qed.

Lemma PF_del : forall s x k, PF s x -> pay_key k -> PF s (del x k).
Proof.
  intros s x k [A B] Hk. split.
  - intros Hs. apply sorted_del. apply A. exact Hs.
  - intros k' Hk'. rewrite get_del. destruct (key_eqb k' k) eqn:E; [|apply B; exact Hk'].
    apply key_eqb_eq in E. subst. contradiction.
Qed.

Lemma pay_k_pay : forall src e, pay_key (k_pay src e).
Proof. intros. left. reflexivity. Qed.
Lemma pay_k_tgt : forall t src e, pay_key (k_tgt t src e).
Proof. intros. right. reflexivity. Qed.

Lemma PF_set_payment : forall s x p, PF s x -> PF s (set_payment_in_store x p).
Proof.
  intros s x p H. unfold set_payment_in_store.
  destruct (get_payment x (p_source p) (p_ext p)) as [ex|];
    [destruct (p_target ex) as [|t0 t]; [|destruct (tgt_str_eqb (t0 :: t) (p_tgt_up ex) (p_target p) (p_tgt_up p))]|];
    destruct (p_target p) as [|u0 u];
    repeat first [apply PF_set | apply PF_del | apply pay_k_pay | apply pay_k_tgt | exact H].
Qed.

Lemma PF_delete_payment : forall s x p, PF s x -> PF s (delete_payment x p).
Proof.
  intros s x p H. unfold delete_payment. destruct (p_target p) as [|t0 t];
    repeat first [apply PF_del | apply pay_k_pay | apply pay_k_tgt | exact H].
Qed.

Lemma PF_fold : forall (A : Type) (g : st -> A -> st) (l : list A) s x,
  (forall y a, PF s y -> PF s (g y a)) -> PF s x -> PF s (fold_left g l x).
Proof.
  intros A g l s. induction l as [|a l IH]; intros x Hg H; [exact H|].
  cbn [fold_left]. apply IH; [exact Hg|apply Hg; exact H].
Qed.

Ltac grd H :=
  match type of H with (if ?c then None else _) = Some _ => destruct c; [discriminate H|] end.

Lemma PF_create_payment : forall s p s', create_payment s p = Some s' -> PF s s'.
Proof.
  intros s p s' H. unfold create_payment in H. grd H. grd H.
  inversion H. apply PF_set_payment, PF_refl.
Qed.

Lemma PF_take_payment : forall s t src e s', take_payment s t src e = Some s' -> PF s s'.
Proof.
  intros s t src e s' H. unfold take_payment in H. grd H.
  destruct (get_payment s src e) as [p|]; [|discriminate]. grd H. grd H.
  inversion H. apply PF_delete_payment, PF_refl.
Qed.

Lemma PF_accept_payment : forall s t tup src sup e s',
  accept_payment s t tup src sup e = Some s' -> PF s s'.
Proof.
  intros s t tup src sup e s' H. unfold accept_payment in H. grd H.
  destruct (get_payment s src e) as [p|]; [|discriminate]. grd H. grd H.
  inversion H. apply PF_delete_payment, PF_refl.
Qed.

Lemma PF_cancel_payments : forall s src es s', cancel_payments s src es = Some s' -> PF s s'.
Proof.
  intros s src es s' H. unfold cancel_payments in H. grd H. grd H.
  inversion H. apply PF_fold; [|apply PF_refl].
  intros y a Hy. destruct (get_payment s src a); [apply PF_delete_payment|]; exact Hy.
Qed.

Lemma PF_reject_payments : forall s t srcs s', reject_payments s t srcs = Some s' -> PF s s'.
Proof.
  intros s t srcs s' H. unfold reject_payments in H. grd H. grd H.
  inversion H. apply PF_fold; [|apply PF_refl].
  intros y a Hy. apply PF_delete_payment. exact Hy.
Qed.

Lemma PF_retarget_payment : forall s src e nt s', retarget_payment s src e nt = Some s' -> PF s s'.
Proof.
  intros s src e nt s' H. unfold retarget_payment in H. grd H.
  destruct (get_payment s src e) as [p|]; [|discriminate]. grd H.
  inversion H. apply PF_set_payment, PF_refl.
Qed.

Lemma PF_inv : forall P s s', Inv P s -> PF s s' -> Inv P s' /\ get s' k_last = get s k_last.
Proof.
  intros P s s' HI [A B]. split.
  - apply frame_inv with (s := s); [exact HI|apply A; exact (inv_sorted _ _ HI)|].
    intros k NO. apply B. intros [H|H]; apply NO; [right; left; exact H|right; right; exact H].
  - apply B. intros [H|H]; hdn H; discriminate H.
Qed.

(** ---- one step ---- *)
Definition created_by (s : st) (o : op) : list N :=
  match o with
  | OCreate ord => match create_order s ord with Some (_, id) => [id] | None => [] end
  | _ => []
  end.

Lemma step_noncreate : forall P s o, Inv P s ->
  (forall ord, o <> OCreate ord) ->
  Inv P (fst (step s o)) /\ get (fst (step s o)) k_last = get s k_last.
Proof.
  intros P s o HI Hnc.
  assert (Hlift : forall r : option st,
            (forall s', r = Some s' -> Inv P s' /\ get s' k_last = get s k_last) ->
            Inv P (fst (match r with Some s' => (s', true) | None => (s, false) end)) /\
            get (fst (match r with Some s' => (s', true) | None => (s, false) end)) k_last
            = get s k_last).
  { intros [s'|] H; cbn [fst]; [apply H; reflexivity|split; [exact HI|reflexivity]]. }
  destruct o; cbn [step].
  - exfalso. eapply Hnc. reflexivity.
  - apply Hlift. intros s' E. eapply cancel_inv; eassumption.
  - apply Hlift. intros s' E. eapply set_ext_inv; eassumption.
  - apply Hlift. intros s' E. eapply fill_inv; eassumption.
  - cbn [fst]. apply close_inv. exact HI.
  - apply Hlift. intros s' E. apply PF_inv; [exact HI|]. eapply PF_create_payment; eassumption.
  - apply Hlift. intros s' E. apply PF_inv; [exact HI|]. eapply PF_accept_payment; eassumption.
  - apply Hlift. intros s' E. apply PF_inv; [exact HI|]. eapply PF_take_payment; eassumption.
  - apply Hlift. intros s' E. apply PF_inv; [exact HI|]. eapply PF_cancel_payments; eassumption.
  - apply Hlift. intros s' E. apply PF_inv; [exact HI|]. eapply PF_reject_payments; eassumption.
  - apply Hlift. intros s' E. apply PF_inv; [exact HI|]. eapply PF_retarget_payment; eassumption.
Qed.

(** ---- sortedness needs no bound on the history ---- *)
Lemma sorted_sois : forall s id o s', set_order_in_store s id o = Some s' ->
  sorted_keys s -> sorted_keys s'.
Proof. intros s id o s' H Hs. apply sois_spec in H. destruct H as [_ ->]. apply sorted_set_all. exact Hs. Qed.

Lemma sorted_cancel : forall s id s', cancel_order s id = Some s' -> sorted_keys s -> sorted_keys s'.
Proof.
  intros s id s' H Hs. unfold cancel_order in H. destruct (get_order s id); [|discriminate].
  inversion H. rewrite delete_eq. apply sorted_del_all. exact Hs.
Qed.

Lemma step_sorted : forall s o, sorted_keys s -> sorted_keys (fst (step s o)).
Proof.
  intros s o Hs.
  assert (Hlift : forall r : option st, (forall s', r = Some s' -> sorted_keys s') ->
            sorted_keys (fst (match r with Some s' => (s', true) | None => (s, false) end))).
  { intros [s'|] H; cbn [fst]; [apply H; reflexivity|exact Hs]. }
  destruct o; cbn [step].
  - apply Hlift. intros s' E.
    destruct (create_order s o) as [[s2 id]|] eqn:E2; [|discriminate]. inversion E; subst s2.
    unfold create_order in E2. destruct (negb (wf_order o)); [discriminate|].
    unfold next_order_id in E2. cbv beta iota zeta in E2.
    match type of E2 with match ?x with _ => _ end = _ => destruct x as [s3|] eqn:E3; [|discriminate] end.
    inversion E2; subst s3. eapply sorted_sois; [exact E3|]. apply sorted_set. exact Hs.
  - apply Hlift. intros s' E. eapply sorted_cancel; eassumption.
  - apply Hlift. intros s' E. unfold set_order_ext in E.
    destruct (negb (ext_ok e)); [discriminate|]. destruct (get_order s id) as [o|]; [|discriminate].
    destruct (negb (o_market o =? m)); [discriminate|].
    destruct (bytes_eqb (o_ext o) e); [discriminate|].
    eapply sorted_sois; [exact E|]. destruct (o_ext o); [exact Hs|apply sorted_del; exact Hs].
  - apply Hlift. intros s' E. unfold fill_orders in E.
    match type of E with (if ?c then _ else _) = _ => destruct c; [discriminate|] end.
    match type of E with (if ?c then _ else _) = _ => destruct c; [discriminate|] end.
    match type of E with match ?x with _ => _ end = _ => destruct x as [s1|] eqn:E1; [|discriminate] end.
    injection E as E. subst s'.
    assert (Hs1 : sorted_keys s1).
    { destruct part as [[idp rest]|]; [|inversion E1; subst; exact Hs].
      destruct (get_order s idp); [|discriminate]. destruct (Z.leb rest 0); [discriminate|].
      eapply sorted_sois; eassumption. }
    clear E1. revert s1 Hs1. induction full as [|id0 full IH]; intros s1 Hs1; [exact Hs1|].
    cbn [fold_left]. apply IH. destruct (get_order s id0); [|exact Hs1].
    rewrite delete_eq. apply sorted_del_all. exact Hs1.
  - cbn [fst]. unfold close_market. generalize (index_scan s (p_mkt m)) as l. intros l.
    clear Hlift. revert s Hs. induction l as [|idt l IH]; intros s Hs; [exact Hs|].
    cbn [fold_left]. apply IH. destruct (cancel_order s (fst idt)) eqn:E; [|exact Hs].
    eapply sorted_cancel; eassumption.
  - apply Hlift. intros s' E. apply PF_create_payment in E. apply (proj1 E). exact Hs.
  - apply Hlift. intros s' E. apply PF_accept_payment in E. apply (proj1 E). exact Hs.
  - apply Hlift. intros s' E. apply PF_take_payment in E. apply (proj1 E). exact Hs.
  - apply Hlift. intros s' E. apply PF_cancel_payments in E. apply (proj1 E). exact Hs.
  - apply Hlift. intros s' E. apply PF_reject_payments in E. apply (proj1 E). exact Hs.
  - apply Hlift. intros s' E. apply PF_retarget_payment in E. apply (proj1 E). exact Hs.
Qed.

Lemma run_from_sorted : forall ops s, sorted_keys s -> sorted_keys (run_from s ops).
Proof.
  induction ops as [|o ops IH]; intros s Hs; [exact Hs|].
  change (run_from s (o :: ops)) with (run_from (fst (step s o)) ops).
  apply IH. apply step_sorted. exact Hs.
Qed.

Lemma run_sorted : forall ops, sorted_keys (run ops).
Proof. intros ops. apply run_from_sorted. exact I. Qed.

(** ---- reachable states ---- *)
Definition Top (n : N) (c : list N) (s : st) : Prop :=
  Inv (fun id => In id c) s /\ last_order_id s <= n /\ StronglySorted N.lt c /\
  (forall id, In id c -> 1 <= id <= last_order_id s).

Lemma SS_app_single : forall (c : list N) x, StronglySorted N.lt c ->
  (forall y, In y c -> y < x) -> StronglySorted N.lt (c ++ [x]).
Proof.
  induction c as [|a c IH]; intros x Hs Hlt; cbn [app].
  - repeat constructor.
  - apply StronglySorted_inv in Hs. destruct Hs as [Hs Hf]. constructor.
    + apply IH; [exact Hs|]. intros y Hy. apply Hlt. right. exact Hy.
    + apply Forall_forall. intros y Hy. apply in_app_iff in Hy. destruct Hy as [Hy|[<-|[]]].
      * rewrite Forall_forall in Hf. apply Hf. exact Hy.
      * apply Hlt. left. reflexivity.
Qed.

Lemma step_top : forall n c s o, Top n c s -> n + 1 < two64 ->
  Top (n + 1) (c ++ created_by s o) (fst (step s o)).
Proof.
  intros n c s o [HI [HL [HS HB]]] Hn.
  assert (Hnc : (forall ord, o <> OCreate ord) -> Top (n + 1) (c ++ created_by s o) (fst (step s o))).
  { intros Hnc. destruct (step_noncreate _ s o HI Hnc) as [HI' HL'].
    apply last_eq in HL'.
    replace (created_by s o) with (@nil N) by (destruct o; try reflexivity; exfalso; eapply Hnc; reflexivity).
    rewrite app_nil_r. split; [exact HI'|split; [rewrite HL'; lia|split; [exact HS|]]].
    intros id Hin. rewrite HL'. apply HB. exact Hin. }
  destruct o; try (apply Hnc; intros ord; discriminate).
  clear Hnc. cbn [step created_by].
  destruct (create_order s o) as [[s' id]|] eqn:E; cbn [fst].
  - destruct (create_inv (fun id => In id c) s o s' id HI) as [Eid [HL' HI']].
    + lia.
    + intros x Hx. apply HB. exact Hx.
    + exact E.
    + split; [|split; [|split]].
      * eapply Inv_mono; [|exact HI']. intros x [Hx| ->]; apply in_app_iff; [left; exact Hx|right; left; reflexivity].
      * rewrite HL'. lia.
      * apply SS_app_single; [exact HS|]. intros y Hy. apply HB in Hy. lia.
      * intros x Hx. rewrite HL'. apply in_app_iff in Hx. destruct Hx as [Hx|[<-|[]]]; [apply HB in Hx|]; lia.
  - rewrite app_nil_r. split; [exact HI|split; [lia|split; [exact HS|exact HB]]].
Qed.

Lemma created_from_cons : forall s o r,
  created_from s (o :: r) = created_by s o ++ created_from (fst (step s o)) r.
Proof. reflexivity. Qed.

Lemma run_top : forall ops n c s, Top n c s -> n + N.of_nat (length ops) < u64max ->
  Top (n + N.of_nat (length ops)) (c ++ created_from s ops) (run_from s ops).
Proof.
  induction ops as [|o ops IH]; intros n c s HT Hn.
  - cbn [length created_from run_from fold_left N.of_nat]. rewrite app_nil_r, N.add_0_r. exact HT.
  - rewrite created_from_cons. change (run_from s (o :: ops)) with (run_from (fst (step s o)) ops).
    rewrite app_assoc. cbn [length] in *. rewrite Nat2N.inj_succ in *.
    replace (n + N.succ (N.of_nat (length ops))) with ((n + 1) + N.of_nat (length ops)) by lia.
    apply IH; [|lia]. apply step_top; [exact HT|]. unfold u64max, two64 in *. lia.
Qed.

Lemma Top_init : Top 0 [] init.
Proof.
  split; [apply Inv_init|split; [cbn; lia|split; [constructor|intros id []]]].
Qed.

Lemma reach : forall ops, N.of_nat (length ops) < u64max ->
  Top (N.of_nat (length ops)) (created_from init ops) (run ops).
Proof.
  intros ops H. pose proof (run_top ops 0 [] init Top_init) as R.
  rewrite N.add_0_l in R. cbn [app] in R. apply R. exact H.
Qed.

(** ---- listings ---- *)
Lemma in_ids_under : forall s p id, In id (ids_under s p) <->
  exists r v, In (r, v) (pstore s p) /\ length r = 8%nat /\ be_decode r = id.
Proof.
  intros s p id. unfold ids_under. rewrite in_flat_map. split.
  - intros [[r v] [Hin H]]. cbn [fst] in H.
    destruct (Nat.eqb (length r) 8) eqn:E; [|destruct H]. destruct H as [H|[]].
    apply Nat.eqb_eq in E. exists r, v. auto.
  - intros [r [v [Hin [L D]]]]. exists (r, v). split; [exact Hin|]. cbn [fst]. rewrite L.
    cbn. left. exact D.
Qed.

Lemma ids_sorted_gen : forall (l : list (key * val)), sorted_keys l ->
  (forall r v, In (r, v) l -> length r = 8%nat -> exists x, x < two64 /\ r = u64be x) ->
  StronglySorted N.lt
    (flat_map (fun kv => if Nat.eqb (length (fst kv)) 8 then [be_decode (fst kv)] else []) l).
Proof.
  induction l as [|[k v] l IH]; intros Hs Hf; [constructor|].
  assert (IH' : StronglySorted N.lt
    (flat_map (fun kv => if Nat.eqb (length (fst kv)) 8 then [be_decode (fst kv)] else []) l)).
  { apply IH; [exact (sorted_tail _ _ Hs)|]. intros r v0 Hin. apply (Hf r v0). right. exact Hin. }
  cbn [flat_map fst]. destruct (Nat.eqb (length k) 8) eqn:E; cbn [app]; [|exact IH'].
  constructor; [exact IH'|]. apply Forall_forall. intros y Hy.
  apply in_flat_map in Hy. destruct Hy as [[k' v'] [Hin Hy]]. cbn [fst] in Hy.
  destruct (Nat.eqb (length k') 8) eqn:E'; [|destruct Hy]. destruct Hy as [<-|[]].
  apply Nat.eqb_eq in E, E'.
  pose proof (sorted_head_lt _ _ _ Hs _ _ Hin) as Hlt.
  destruct (Hf k v (or_introl eq_refl) E) as [x [Hx ->]].
  destruct (Hf k' v' (or_intror Hin) E') as [x' [Hx' ->]].
  rewrite !decode_u64be by assumption.
  unfold key_lt, u64be in Hlt. rewrite !N.mod_small in Hlt by assumption.
  rewrite be_compare in Hlt by (rewrite <- two64_pow; assumption). exact Hlt.
Qed.

Lemma scan_sound : forall P s p r v, Inv P s -> In (r, v) (pstore s p) -> ~ other_key (p ++ r) ->
  exists id o, id < two64 /\ get s (k_order id) = Some (VOrder o) /\ wf_order o = true /\
               In (p ++ r, v) (all_entries id o).
Proof.
  intros P s p r v HI Hin NO. apply pstore_In in Hin.
  apply (sorted_In_get _ _ _ (inv_sorted _ _ HI)) in Hin.
  destruct (inv_A _ _ HI _ _ Hin) as [[id [o [Hid [G Hx]]]]|O]; [|contradiction].
  exists id, o. split; [exact Hid|split; [exact G|split; [|exact Hx]]].
  exact (proj1 (inv_W _ _ HI _ _ Hid G)).
Qed.

Lemma listing : forall P s p (sel : order -> Prop), Inv P s ->
  (forall r, ~ other_key (p ++ r)) ->
  (forall r v id o, wf_order o = true -> In (p ++ r, v) (all_entries id o) -> length r = 8%nat ->
     r = u64be id /\ sel o) ->
  (forall id o, wf_order o = true -> sel o -> exists v, In (p ++ u64be id, v) (all_entries id o)) ->
  StronglySorted N.lt (ids_under s p) /\
  forall id, id < two64 -> (In id (ids_under s p) <-> exists o, get_order s id = Some o /\ sel o).
Proof.
  intros P s p sel HI K3 K1 K2.
  assert (Hsound : forall r v, In (r, v) (pstore s p) -> length r = 8%nat ->
            exists id o, id < two64 /\ get s (k_order id) = Some (VOrder o) /\ r = u64be id /\ sel o).
  { intros r v Hin L. destruct (scan_sound _ _ _ _ _ HI Hin (K3 r)) as [id [o [Hid [G [W Hx]]]]].
    destruct (K1 _ _ _ _ W Hx L) as [Er Hsel]. exists id, o. auto. }
  split.
  - unfold ids_under. apply ids_sorted_gen; [apply pstore_sorted; exact (inv_sorted _ _ HI)|].
    intros r v Hin L. destruct (Hsound r v Hin L) as [id [o [Hid [_ [Er _]]]]]. exists id. auto.
  - intros id Hid. rewrite in_ids_under. split.
    + intros [r [v [Hin [L D]]]]. destruct (Hsound r v Hin L) as [id0 [o [Hid0 [G [Er Hsel]]]]].
      subst r. rewrite decode_u64be in D by exact Hid0. subst id0.
      exists o. split; [apply get_order_some; exact G|exact Hsel].
    + intros [o [G Hsel]]. apply get_order_some in G.
      destruct (inv_W _ _ HI _ _ Hid G) as [W _].
      destruct (K2 id o W Hsel) as [v Hx].
      exists (u64be id), v. split; [|split; [apply u64be_length|apply decode_u64be; exact Hid]].
      apply pstore_In. apply get_In. exact (inv_B _ _ HI _ _ Hid G _ _ Hx).
Qed.

(** the four kinds of prefixes *)
Lemma mkt_entry : forall m r v id o, m < two32 -> wf_order o = true ->
  In (p_mkt m ++ r, v) (all_entries id o) ->
  r = u64be id /\ o_market o = m /\ v = VBytes [ty_byte o].
Proof.
  intros m r v id o Hm W H. inv_entry H; try (hd_discr Hk).
  unfold k_mkt, p_mkt in Hk. apply app_inv_len in Hk.
  - destruct Hk as [E1 E2]. apply (f_equal (@tl N)) in E1. cbn [tl] in E1.
    apply u32be_inj in E1; [auto|exact Hm|exact (proj1 (proj2 (wf_market _ W)))].
  - cbn [length]. rewrite !u32be_length. reflexivity.
Qed.

Lemma addr_entry : forall a r v id o,
  In (p_addr a ++ r, v) (all_entries id o) ->
  r = u64be id /\ o_owner o = a /\ v = VBytes [ty_byte o].
Proof.
  intros a r v id o H. inv_entry H; try (hd_discr Hk).
  unfold k_addr, p_addr, len_prefix in Hk. cbn [app] in Hk.
  apply (f_equal (@tl N)) in Hk. cbn [tl] in Hk.
  pose proof (f_equal (hd 0) Hk) as Hl. cbn [hd] in Hl. apply Nat2N.inj in Hl.
  apply (f_equal (@tl N)) in Hk. cbn [tl] in Hk.
  apply app_inv_len in Hk; [|exact Hl]. destruct Hk as [E1 E2]. auto.
Qed.

Lemma asset_entry : forall d r v id o, length r = 8%nat ->
  In (p_asset d ++ r, v) (all_entries id o) ->
  r = u64be id /\ o_asset o = d /\ v = VBytes [ty_byte o].
Proof.
  intros d r v id o L H. inv_entry H; try (hd_discr Hk).
  unfold k_asset, p_asset in Hk. cbn [app] in Hk.
  apply (f_equal (@tl N)) in Hk. cbn [tl] in Hk.
  apply app_inv_len_tail in Hk; [|rewrite u64be_length; exact L]. destruct Hk as [E1 E2]. auto.
Qed.

Lemma all_entry : forall r v id o,
  In (p_all_orders ++ r, v) (all_entries id o) -> r = u64be id /\ v = VOrder o.
Proof.
  intros r v id o H. inv_entry H; try (hd_discr Hk).
  unfold p_all_orders, k_order in Hk. cbn [app] in Hk.
  apply (f_equal (@tl N)) in Hk. cbn [tl] in Hk. auto.
Qed.

Lemma not_other_hd : forall (p : key) x q r c, p = x :: q -> x = c ->
  c <> 8 -> c <> 112 -> c <> 16 -> ~ other_key (p ++ r).
Proof.
  intros p x q r c -> -> H1 H2 H3 [O|[O|O]]; cbn [app hd] in O; contradiction.
Qed.

(** ---- GetOrderByExternalID ---- *)
Lemma ext_lookup : forall P s m e id o, Inv P s -> m < two32 -> id < two64 ->
  (get_order_by_ext s m e = Some (id, o) <->
   (get_order s id = Some o /\ o_market o = m /\ o_ext o = e /\ e <> [])).
Proof.
  intros P s m e id o HI Hm Hid. split.
  - unfold get_order_by_ext. intros H.
    match type of H with (if ?c then _ else _) = _ => destruct c; [discriminate|] end.
    destruct (get s (k_ext m e)) as [[?|?|b]|] eqn:Gk; try discriminate.
    destruct (u64_from_bz b) as [id1|] eqn:U; [|discriminate].
    destruct (get_order s id1) as [o1|] eqn:G1; [|discriminate].
    inversion H; subst id1 o1. clear H.
    assert (H9 : hd 0 (k_ext m e) = 9) by reflexivity.
    destruct (inv_A _ _ HI _ _ Gk) as [[id2 [o2 [Hid2 [G2 Hin]]]]|O].
    + destruct (entry_hd9 _ _ _ _ Hin H9) as [Hx Ev]. inversion Ev; subst b.
      rewrite u64_from_bz_u64be in U. rewrite N.mod_small in U by exact Hid2.
      inversion U; subst id2. apply get_order_some in G1. rewrite G1 in G2.
      inversion G2; subst o2.
      apply in_ext_entry in Hx. destruct Hx as [Hne [Ek _]].
      destruct (inv_W _ _ HI _ _ Hid G1) as [W _].
      unfold k_ext in Ek. apply (f_equal (@tl N)) in Ek. cbn [tl] in Ek.
      apply app_inv_len in Ek; [|rewrite !u32be_length; reflexivity].
      destruct Ek as [E1 E2].
      apply u32be_inj in E1; [|exact Hm|exact (proj1 (proj2 (wf_market _ W)))].
      split; [apply get_order_some; exact G1|]. split; [auto|]. split; [auto|]. congruence.
    + exfalso. destruct O as [O|[O|O]]; rewrite H9 in O; discriminate O.
  - intros [G [Em [Ee Hne]]]. pose proof G as G0. apply get_order_some in G.
    destruct (inv_W _ _ HI _ _ Hid G) as [W _]. destruct (wf_market _ W) as [W1 [W2 W3]].
    unfold get_order_by_ext.
    assert (Eg : ((m =? 0) || Nat.eqb (length e) 0 || negb (ext_ok e)) = false).
    { subst m e. apply N.eqb_neq in W1. rewrite W1, W3. cbn [orb negb].
      destruct (o_ext o); [congruence|reflexivity]. }
    rewrite Eg.
    assert (Gk : get s (k_ext m e) = Some (VBytes (u64be id))).
    { apply (inv_B _ _ HI _ _ Hid G). apply in_all_entries. right. right. right. right.
      subst m e. auto. }
    rewrite Gk, u64_from_bz_u64be, N.mod_small by exact Hid. rewrite G0. reflexivity.
Qed.

(** ---- the theorems ---- *)
Lemma index_consistent : forall ops,
  N.of_nat (length ops) < u64max ->
  let s := run ops in
  (forall m, m < two32 ->
     StronglySorted N.lt (by_market s m) /\
     forall id, id < two64 ->
       (In id (by_market s m) <-> exists o, get_order s id = Some o /\ o_market o = m)) /\
  (forall a,
     StronglySorted N.lt (by_owner s a) /\
     forall id, id < two64 ->
       (In id (by_owner s a) <-> exists o, get_order s id = Some o /\ o_owner o = a)) /\
  (forall d,
     StronglySorted N.lt (by_asset s d) /\
     forall id, id < two64 ->
       (In id (by_asset s d) <-> exists o, get_order s id = Some o /\ o_asset o = d)) /\
  (StronglySorted N.lt (all_orders s) /\
   forall id, id < two64 -> (In id (all_orders s) <-> exists o, get_order s id = Some o)) /\
  (forall m e id o, m < two32 -> id < two64 ->
     (get_order_by_ext s m e = Some (id, o) <->
      (get_order s id = Some o /\ o_market o = m /\ o_ext o = e /\ e <> []))).
Proof.
  intros ops Hlen s. destruct (reach ops Hlen) as [HI _]. fold s in HI.
  split; [|split; [|split; [|split]]].
  - intros m Hm. unfold by_market.
    apply (listing _ s (p_mkt m) (fun o => o_market o = m) HI).
    + intros r. eapply not_other_hd; [reflexivity|reflexivity|discriminate..].
    + intros r v id o W Hx L. destruct (mkt_entry _ _ _ _ _ Hm W Hx) as [A [B _]]. auto.
    + intros id o W <-. eexists. apply in_all_entries. right. left. split; reflexivity.
  - intros a. unfold by_owner.
    apply (listing _ s (p_addr a) (fun o => o_owner o = a) HI).
    + intros r. eapply not_other_hd; [reflexivity|reflexivity|discriminate..].
    + intros r v id o W Hx L. destruct (addr_entry _ _ _ _ _ Hx) as [A [B _]]. auto.
    + intros id o W <-. eexists. apply in_all_entries. right. right. left. split; reflexivity.
  - intros d. unfold by_asset.
    apply (listing _ s (p_asset d) (fun o => o_asset o = d) HI).
    + intros r. eapply not_other_hd; [reflexivity|reflexivity|discriminate..].
    + intros r v id o W Hx L. destruct (asset_entry _ _ _ _ _ L Hx) as [A [B _]]. auto.
    + intros id o W <-. eexists. apply in_all_entries. right. right. right. left. split; reflexivity.
  - unfold all_orders.
    destruct (listing _ s p_all_orders (fun _ => True) HI) as [A B].
    + intros r. eapply not_other_hd; [reflexivity|reflexivity|discriminate..].
    + intros r v id o W Hx L. destruct (all_entry _ _ _ _ Hx) as [E _]. auto.
    + intros id o W _. eexists. apply in_all_entries. left. split; reflexivity.
    + split; [exact A|]. intros id Hid. rewrite (B id Hid). split.
      * intros [o [G _]]. exists o. exact G.
      * intros [o G]. exists o. auto.
  - intros m e id o Hm Hid. exact (ext_lookup _ s m e id o HI Hm Hid).
Qed.

Lemma index_types : forall ops,
  N.of_nat (length ops) < u64max ->
  let s := run ops in
  forall p id t,
    (exists m, m < two32 /\ p = p_mkt m) \/ (exists a, p = p_addr a) \/ (exists d, p = p_asset d) ->
    In (id, t) (index_scan s p) ->
    exists o, get_order s id = Some o /\ ty_byte o = t.
Proof.
  intros ops Hlen s p id t Hp Hin. destruct (reach ops Hlen) as [HI _]. fold s in HI.
  unfold index_scan in Hin. apply in_flat_map in Hin. destruct Hin as [[r v] [Hin H]].
  cbn [fst snd] in H. destruct v as [?|?|[|t0 rest]]; try destruct H.
  destruct (Nat.eqb (length r) 8) eqn:L; [|destruct H]. destruct H as [H|[]].
  apply Nat.eqb_eq in L. inversion H; subst id t0. clear H.
  assert (Hfin : forall id0 o, id0 < two64 -> get s (k_order id0) = Some (VOrder o) ->
            r = u64be id0 -> VBytes (t :: rest) = VBytes [ty_byte o] ->
            exists o0, get_order s (be_decode r) = Some o0 /\ ty_byte o0 = t).
  { intros id0 o Hid0 G Er Ev. subst r. rewrite decode_u64be by exact Hid0.
    exists o. split; [apply get_order_some; exact G|]. inversion Ev. reflexivity. }
  destruct Hp as [[m [Hm ->]]|[[a ->]|[d ->]]].
  - destruct (scan_sound _ _ _ _ _ HI Hin) as [id0 [o [Hid0 [G [W Hx]]]]].
    + eapply not_other_hd; [reflexivity|reflexivity|discriminate..].
    + destruct (mkt_entry _ _ _ _ _ Hm W Hx) as [Er [_ Ev]]. eapply Hfin; eassumption.
  - destruct (scan_sound _ _ _ _ _ HI Hin) as [id0 [o [Hid0 [G [W Hx]]]]].
    + eapply not_other_hd; [reflexivity|reflexivity|discriminate..].
    + destruct (addr_entry _ _ _ _ _ Hx) as [Er [_ Ev]]. eapply Hfin; eassumption.
  - destruct (scan_sound _ _ _ _ _ HI Hin) as [id0 [o [Hid0 [G [W Hx]]]]].
    + eapply not_other_hd; [reflexivity|reflexivity|discriminate..].
    + destruct (asset_entry _ _ _ _ _ L Hx) as [Er [_ Ev]]. eapply Hfin; eassumption.
Qed.

Lemma ids_fresh : forall ops,
  N.of_nat (length ops) < u64max ->
  StronglySorted N.lt (created_from init ops) /\
  (forall id, In id (created_from init ops) -> 1 <= id <= last_order_id (run ops)) /\
  (forall id o, id < two64 -> get_order (run ops) id = Some o -> In id (created_from init ops)).
Proof.
  intros ops Hlen. destruct (reach ops Hlen) as [HI [_ [HS HB]]].
  split; [exact HS|split; [exact HB|]].
  intros id o Hid G. apply get_order_some in G. exact (proj2 (inv_W _ _ HI _ _ Hid G)).
Qed.

Lemma external_id_unique : forall ops,
  N.of_nat (length ops) < u64max ->
  let s := run ops in
  forall id1 o1 id2 o2,
    id1 < two64 -> id2 < two64 ->
    get_order s id1 = Some o1 -> get_order s id2 = Some o2 ->
    o_market o1 = o_market o2 -> o_ext o1 = o_ext o2 -> o_ext o1 <> [] ->
    id1 = id2.
Proof.
  intros ops Hlen s id1 o1 id2 o2 H1 H2 G1 G2 Em Ee Hne.
  destruct (reach ops Hlen) as [HI _]. fold s in HI.
  apply get_order_some in G1, G2.
  assert (K1 : get s (k_ext (o_market o1) (o_ext o1)) = Some (VBytes (u64be id1))).
  { apply (inv_B _ _ HI _ _ H1 G1). apply in_all_entries. right. right. right. right. auto. }
  assert (K2 : get s (k_ext (o_market o2) (o_ext o2)) = Some (VBytes (u64be id2))).
  { apply (inv_B _ _ HI _ _ H2 G2). apply in_all_entries. right. right. right. right.
    split; [congruence|auto]. }
  rewrite <- Em, <- Ee, K1 in K2.
  assert (E : u64be id1 = u64be id2) by congruence. apply u64be_inj; assumption.
Qed.

Lemma by_asset_unfixed_refuted :
  exists ops d id o,
    In id (by_asset_unfixed (run ops) d) /\ get_order (run ops) id = Some o /\ o_asset o <> d.
Proof.
  exists example_history, [97; 97; 97], 2,
    {| o_bid := false; o_market := 1; o_owner := [2; 2; 2]; o_asset := [97; 97; 97; 98];
       o_amount := 5%Z; o_ext := [121] |}.
  split; [|split].
  - vm_compute. auto 10.
  - vm_compute. reflexivity.
  - cbn [o_asset]. discriminate.
Qed.

(** Why the [id < two64] hypotheses are there: ids that differ by a multiple of 2^64 have the
    same store key in the model, so an out-of-range number "opens" the order of its residue. *)
Lemma alias_example :
  (exists o, get_order (run example_history) (1 + two64) = Some o) /\
  ~ In (1 + two64) (all_orders (run example_history)) /\
  ~ In (1 + two64) (created_from init example_history).
Proof.
  split; [|split].
  - vm_compute. eexists. reflexivity.
  - vm_compute. intuition discriminate.
  - vm_compute. intuition discriminate.
Qed.

Print Assumptions be_compare.
Print Assumptions be_length.
Print Assumptions be_decode_be.
Print Assumptions run_sorted.
Print Assumptions index_consistent.
Print Assumptions index_types.
Print Assumptions ids_fresh.
Print Assumptions external_id_unique.
Print Assumptions by_asset_unfixed_refuted.
Print Assumptions alias_example.
