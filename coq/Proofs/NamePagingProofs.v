(** Proofs/NamePagingProofs.v — proofs about Name/NamePaging.v (property C15, deepening).

    1. the length-prefixed address prefix of the by-address index is unambiguous;
    2. an offset page is the window [offset, offset+limit) of the hits;
    3. count_total reports the number of hits;
    4. following next keys visits every hit exactly once, in order;
    5. the same for a client asking for offsets 0, limit, 2*limit, ...;
    6. when every entry is a hit the page sizes are a function of (length l, limit) only.

    Technique: the two loops of FilteredPaginate are characterised by closed forms over
    [hits it] and two suffix functions ([drop_hits it m]: what follows the m-th hit;
    [to_hit it]: drop leading non-hits).  With pairwise different keys the iterator
    "from key k" is the suffix that starts at k, so every key page is the closed form
    applied to a suffix of [l]; the clients are then handled by induction on the fuel. *)
From Coq Require Import Arith NArith List Bool Lia.
From PV Require Import Name.NamePaging.
Import ListNotations.

(** * 1. address index prefix *)

Lemma is_prefix_same_length : forall (a b rest : list N),
  length a = length b -> is_prefix a (b ++ rest) = true -> a = b.
Proof.
  induction a as [|x a IH]; intros [|y b] rest Hlen Hp.
  - reflexivity.
  - cbn in Hlen. discriminate Hlen.
  - cbn in Hlen. discriminate Hlen.
  - cbn [app is_prefix] in Hp. apply andb_true_iff in Hp. destruct Hp as [Hxy Hp].
    apply N.eqb_eq in Hxy. subst y. f_equal.
    apply (IH b rest); [cbn in Hlen; lia | exact Hp].
Qed.

Lemma is_prefix_app_self : forall (a rest : list N), is_prefix a (a ++ rest) = true.
Proof.
  induction a as [|x a IH]; intros rest.
  - reflexivity.
  - cbn [app is_prefix]. rewrite N.eqb_refl, IH. reflexivity.
Qed.

Lemma addr_prefix_unambiguous : forall (a b rest : list N),
  is_prefix (addr_key_prefix a) (addr_key_prefix b ++ rest) = true -> a = b.
Proof.
  intros a b rest Hp. unfold addr_key_prefix in Hp. cbn [app is_prefix] in Hp.
  apply andb_true_iff in Hp. destruct Hp as [_ Hp].
  apply andb_true_iff in Hp. destruct Hp as [Hlen Hp].
  apply N.eqb_eq in Hlen. apply Nat2N.inj in Hlen.
  exact (is_prefix_same_length a b rest Hlen Hp).
Qed.

Lemma addr_prefix_own : forall (a rest : list N),
  is_prefix (addr_key_prefix a) (addr_key_prefix a ++ rest) = true.
Proof. intros a rest. apply is_prefix_app_self. Qed.

(** * list helper *)
Lemma skipn_add : forall (T : Type) (a b : nat) (l : list T),
  skipn (a + b) l = skipn b (skipn a l).
Proof.
  intros T a. induction a as [|a IH]; intros b l.
  - reflexivity.
  - destruct l as [|x l].
    + cbn [Nat.add skipn]. rewrite skipn_nil. reflexivity.
    + cbn [Nat.add skipn]. apply IH.
Qed.

Section PagingFacts.
  Variables K A : Type.
  Variable keqb : K -> K -> bool.
  Hypothesis keqb_spec : forall x y, reflect (x = y) (keqb x y).
  Variable hit : A -> bool.

  Definition hits (l : list (K * A)) : list A := map snd (filter (fun kv => hit (snd kv)) l).

  Lemma hits_nil : hits [] = [].
  Proof. reflexivity. Qed.

  Lemma hits_cons : forall k v r, hits ((k, v) :: r) = if hit v then v :: hits r else hits r.
  Proof. intros k v r. unfold hits. cbn [filter snd]. destruct (hit v); reflexivity. Qed.

  Lemma hits_length_le : forall l, length (hits l) <= length l.
  Proof.
    induction l as [|[k v] r IH]; [cbn; lia|].
    rewrite hits_cons. destruct (hit v); cbn [length]; lia.
  Qed.

  (** ** suffix functions *)
  Definition head_key (it : list (K * A)) : option K :=
    match it with [] => None | (k, _) :: _ => Some k end.

  (** what follows the [m]-th hit of [it] *)
  Fixpoint drop_hits (it : list (K * A)) (m : nat) : list (K * A) :=
    match it with
    | [] => []
    | (k, v) :: r =>
        match m with
        | O => (k, v) :: r
        | S m' => if hit v then drop_hits r m' else drop_hits r (S m')
        end
    end.

  (** drop leading non-hits *)
  Fixpoint to_hit (it : list (K * A)) : list (K * A) :=
    match it with
    | [] => []
    | (k, v) :: r => if hit v then (k, v) :: r else to_hit r
    end.

  Lemma drop_hits_0 : forall it, drop_hits it 0 = it.
  Proof. intros [|[k v] r]; reflexivity. Qed.

  Lemma hits_drop_hits : forall it m, hits (drop_hits it m) = skipn m (hits it).
  Proof.
    induction it as [|[k v] r IH]; intros m.
    - cbn [drop_hits]. rewrite hits_nil, skipn_nil. reflexivity.
    - destruct m as [|m].
      + reflexivity.
      + cbn [drop_hits]. rewrite hits_cons. destruct (hit v); rewrite IH; reflexivity.
  Qed.

  Lemma drop_hits_suffix : forall it m, exists pre, it = pre ++ drop_hits it m.
  Proof.
    induction it as [|[k v] r IH]; intros m.
    - exists []. reflexivity.
    - destruct m as [|m].
      + exists []. reflexivity.
      + cbn [drop_hits]. destruct (hit v).
        * destruct (IH m) as [pre Hpre]. exists ((k, v) :: pre). cbn [app]. f_equal. exact Hpre.
        * destruct (IH (S m)) as [pre Hpre]. exists ((k, v) :: pre). cbn [app]. f_equal. exact Hpre.
  Qed.

  Lemma drop_hits_length_le : forall it m, length (drop_hits it m) <= length it.
  Proof.
    intros it m. destruct (drop_hits_suffix it m) as [pre Hpre].
    rewrite Hpre at 2. rewrite app_length. lia.
  Qed.

  Lemma drop_hits_length_lt : forall it m, 1 <= m -> length (drop_hits it m) <= length it - 1.
  Proof.
    intros [|[k v] r] m Hm.
    - cbn. lia.
    - destruct m as [|m]; [lia|]. cbn [drop_hits length].
      destruct (hit v).
      + pose proof (drop_hits_length_le r m) as Hle. lia.
      + pose proof (drop_hits_length_le r (S m)) as Hle. lia.
  Qed.

  Lemma hits_to_hit : forall it, hits (to_hit it) = hits it.
  Proof.
    induction it as [|[k v] r IH]; [reflexivity|].
    cbn [to_hit]. destruct (hit v) eqn:Hv.
    - reflexivity.
    - rewrite IH, hits_cons, Hv. reflexivity.
  Qed.

  Lemma to_hit_suffix : forall it, exists pre, it = pre ++ to_hit it.
  Proof.
    induction it as [|[k v] r IH].
    - exists []. reflexivity.
    - cbn [to_hit]. destruct (hit v).
      + exists []. reflexivity.
      + destruct IH as [pre Hpre]. exists ((k, v) :: pre). cbn [app]. f_equal. exact Hpre.
  Qed.

  Lemma to_hit_length_le : forall it, length (to_hit it) <= length it.
  Proof.
    intros it. destruct (to_hit_suffix it) as [pre Hpre].
    rewrite Hpre at 2. rewrite app_length. lia.
  Qed.

  Lemma to_hit_cons_hit : forall it (k : K) (v : A) r, to_hit it = (k, v) :: r -> hit v = true.
  Proof.
    induction it as [|[k0 v0] r0 IH]; intros k v r Hto.
    - discriminate Hto.
    - cbn [to_hit] in Hto. destruct (hit v0) eqn:Hv0.
      + injection Hto as Hk Hv Hr. subst. exact Hv0.
      + exact (IH k v r Hto).
  Qed.

  (** ** the iterator from a key *)
  Lemma from_key_suffix : forall (pre : list (K * A)) (k : K) (v : A) (r : list (K * A)),
    NoDup (map fst (pre ++ (k, v) :: r)) -> from_key keqb (pre ++ (k, v) :: r) k = (k, v) :: r.
  Proof.
    induction pre as [|[k' v'] pre IH]; intros k v r Hnd.
    - cbn [app from_key]. destruct (keqb_spec k k) as [_|Hne]; [reflexivity|congruence].
    - cbn [app from_key]. cbn [app map fst] in Hnd.
      inversion Hnd as [|x xs Hnotin Hnd' [Hx Hxs]]. subst x xs.
      destruct (keqb_spec k' k) as [Heq|Hne].
      + exfalso. apply Hnotin. subst k'. rewrite map_app. apply in_or_app. right.
        cbn [map fst]. left. reflexivity.
      + apply IH. exact Hnd'.
  Qed.

  (** ** closed form of the key loop *)
  Lemma fp_key_loop_spec : forall it n limit, n <= limit ->
    fp_key_loop hit it n limit
    = (firstn (limit - n) (hits it), head_key (drop_hits it (limit - n))).
  Proof.
    induction it as [|[k v] r IH]; intros n limit Hle.
    - cbn [fp_key_loop drop_hits head_key]. rewrite hits_nil, firstn_nil. reflexivity.
    - cbn [fp_key_loop]. destruct (Nat.eqb_spec n limit) as [Heq|Hne].
      + subst n. rewrite Nat.sub_diag. reflexivity.
      + rewrite hits_cons. replace (limit - n) with (S (limit - S n)) by lia.
        cbn [drop_hits]. destruct (hit v).
        * rewrite IH by lia. reflexivity.
        * rewrite IH by lia. replace (limit - n) with (S (limit - S n)) by lia. reflexivity.
  Qed.

  (** ** closed forms of the offset loop *)
  Lemma window_cons : forall (v : A) h offset n e,
    (if Nat.leb offset n && Nat.ltb n e then [v] else [])
      ++ skipn (offset - S n) (firstn (e - S n) h)
    = skipn (offset - n) (firstn (e - n) (v :: h)).
  Proof.
    intros v h offset n e.
    destruct (Nat.leb_spec offset n) as [Hon|Hon]; destruct (Nat.ltb_spec n e) as [Hne|Hne];
      cbn [andb app].
    - replace (e - n) with (S (e - S n)) by lia.
      replace (offset - n) with 0 by lia. replace (offset - S n) with 0 by lia. reflexivity.
    - replace (e - n) with 0 by lia. replace (e - S n) with 0 by lia.
      cbn [firstn]. rewrite !skipn_nil. reflexivity.
    - replace (e - n) with (S (e - S n)) by lia.
      replace (offset - n) with (S (offset - S n)) by lia. reflexivity.
    - replace (e - n) with 0 by lia. replace (e - S n) with 0 by lia.
      cbn [firstn]. rewrite !skipn_nil. reflexivity.
  Qed.

  Lemma fp_off_items : forall it n offset e ct next,
    fst (fst (fp_off_loop hit it n offset e ct next))
    = skipn (offset - n) (firstn (e - n) (hits it)).
  Proof.
    induction it as [|[k v] r IH]; intros n offset e ct next.
    - cbn [fp_off_loop fst]. rewrite hits_nil, firstn_nil, skipn_nil. reflexivity.
    - cbn [fp_off_loop]. rewrite hits_cons. destruct (hit v) eqn:Hv; cbn [andb].
      + rewrite <- window_cons.
        destruct (Nat.eqb_spec (S n) (S e)) as [Heq|Hne].
        * destruct ct.
          -- match goal with |- context [fp_off_loop hit r ?a ?b ?c ?d ?x] =>
               specialize (IH a b c d x); destruct (fp_off_loop hit r a b c d x) as [[acc nk] m] end.
             cbn [fst] in *. rewrite IH. reflexivity.
          -- cbn [fst]. replace (e - S n) with 0 by lia. cbn [firstn].
             rewrite skipn_nil, app_nil_r. reflexivity.
        * match goal with |- context [fp_off_loop hit r ?a ?b ?c ?d ?x] =>
            specialize (IH a b c d x); destruct (fp_off_loop hit r a b c d x) as [[acc nk] m] end.
          cbn [fst] in *. rewrite IH. reflexivity.
      + destruct (Nat.eqb_spec n (S e)) as [Heq|Hne].
        * destruct ct.
          -- match goal with |- context [fp_off_loop hit r ?a ?b ?c ?d ?x] =>
               specialize (IH a b c d x); destruct (fp_off_loop hit r a b c d x) as [[acc nk] m] end.
             cbn [fst app] in *. exact IH.
          -- cbn [fst].
             (* n = S e: nothing is accumulated any more *)
             replace (e - n) with 0 by lia. cbn [firstn]. rewrite skipn_nil. reflexivity.
        * match goal with |- context [fp_off_loop hit r ?a ?b ?c ?d ?x] =>
            specialize (IH a b c d x); destruct (fp_off_loop hit r a b c d x) as [[acc nk] m] end.
          cbn [fst app] in *. exact IH.
  Qed.

  Lemma fp_off_total : forall it n offset e next,
    snd (fp_off_loop hit it n offset e true next) = n + length (hits it).
  Proof.
    induction it as [|[k v] r IH]; intros n offset e next.
    - cbn [fp_off_loop snd]. rewrite hits_nil. cbn [length]. lia.
    - cbn [fp_off_loop]. rewrite hits_cons. destruct (hit v) eqn:Hv.
      + destruct (Nat.eqb (S n) (S e));
          match goal with |- context [fp_off_loop hit r ?a ?b ?c ?d ?x] =>
            specialize (IH a b c x); destruct (fp_off_loop hit r a b c d x) as [[acc nk] m] end;
          cbn [snd length] in *; lia.
      + destruct (Nat.eqb n (S e));
          match goal with |- context [fp_off_loop hit r ?a ?b ?c ?d ?x] =>
            specialize (IH a b c x); destruct (fp_off_loop hit r a b c d x) as [[acc nk] m] end;
          cbn [snd] in *; lia.
  Qed.

  (** without count_total the next key is the key of hit number [e] (0-based) *)
  Lemma fp_off_next : forall it n offset e, n <= e ->
    snd (fst (fp_off_loop hit it n offset e false None))
    = head_key (to_hit (drop_hits it (e - n))).
  Proof.
    induction it as [|[k v] r IH]; intros n offset e Hle.
    - reflexivity.
    - cbn [fp_off_loop]. destruct (hit v) eqn:Hv.
      + destruct (Nat.eqb_spec (S n) (S e)) as [Heq|Hne].
        * cbn [fst snd]. replace (e - n) with 0 by lia.
          cbn [drop_hits to_hit]. rewrite Hv. reflexivity.
        * specialize (IH (S n) offset e ltac:(lia)).
          destruct (fp_off_loop hit r (S n) offset e false None) as [[acc nk] m].
          cbn [fst snd] in *. rewrite IH.
          replace (e - n) with (S (e - S n)) by lia. cbn [drop_hits]. rewrite Hv. reflexivity.
      + destruct (Nat.eqb_spec n (S e)) as [Heq|Hne]; [lia|].
        specialize (IH n offset e Hle).
        destruct (fp_off_loop hit r n offset e false None) as [[acc nk] m].
        cbn [fst snd] in *. rewrite IH.
        destruct (e - n) as [|d].
        * rewrite drop_hits_0. cbn [drop_hits to_hit]. rewrite Hv. reflexivity.
        * cbn [drop_hits]. rewrite Hv. reflexivity.
  Qed.

  (** ** pages in closed form *)
  Lemma page_key : forall l pre k v r offset limit ct,
    NoDup (map fst l) -> l = pre ++ (k, v) :: r ->
    filtered_paginate keqb hit l (Some k) offset limit ct
    = {| pg_items := firstn limit (hits ((k, v) :: r));
         pg_next := head_key (drop_hits ((k, v) :: r) limit);
         pg_total := 0 |}.
  Proof.
    intros l pre k v r offset limit ct Hnd Hl. subst l. unfold filtered_paginate.
    rewrite from_key_suffix by exact Hnd.
    rewrite fp_key_loop_spec by lia. rewrite Nat.sub_0_r. reflexivity.
  Qed.

  Lemma page_off : forall l offset limit,
    filtered_paginate keqb hit l None offset limit false
    = {| pg_items := firstn limit (skipn offset (hits l));
         pg_next := head_key (to_hit (drop_hits l (offset + limit)));
         pg_total := 0 |}.
  Proof.
    intros l offset limit. unfold filtered_paginate.
    pose proof (fp_off_items l 0 offset (offset + limit) false None) as Hi.
    pose proof (fp_off_next l 0 offset (offset + limit) ltac:(lia)) as Hn.
    destruct (fp_off_loop hit l 0 offset (offset + limit) false None) as [[acc nk] m].
    cbn [fst snd] in *. rewrite !Nat.sub_0_r in *. subst acc nk.
    rewrite firstn_skipn_comm. reflexivity.
  Qed.

  (** ** 2. offset page = window of the hits *)
  Lemma offset_page_window : forall (l : list (K * A)) offset limit ct,
    pg_items (filtered_paginate keqb hit l None offset limit ct)
    = firstn limit (skipn offset (hits l)).
  Proof.
    intros l offset limit ct. unfold filtered_paginate.
    pose proof (fp_off_items l 0 offset (offset + limit) ct None) as Hi.
    destruct (fp_off_loop hit l 0 offset (offset + limit) ct None) as [[acc nk] m].
    cbn [fst pg_items] in *. rewrite !Nat.sub_0_r in Hi. subst acc.
    rewrite firstn_skipn_comm. reflexivity.
  Qed.

  (** ** 3. count_total *)
  Lemma count_total_exact : forall (l : list (K * A)) offset limit,
    pg_total (filtered_paginate keqb hit l None offset limit true) = length (hits l).
  Proof.
    intros l offset limit. unfold filtered_paginate.
    pose proof (fp_off_total l 0 offset (offset + limit) None) as Ht.
    destruct (fp_off_loop hit l 0 offset (offset + limit) true None) as [[acc nk] m].
    cbn [snd pg_total] in *. lia.
  Qed.

  (** in offset mode there is a next key iff there are more than offset+limit hits *)
  Lemma off_next_cases : forall l m,
    (length (hits l) <= m /\ head_key (to_hit (drop_hits l m)) = None) \/
    (m < length (hits l) /\ exists k, head_key (to_hit (drop_hits l m)) = Some k).
  Proof.
    intros l m.
    pose proof (hits_to_hit (drop_hits l m)) as Hh. rewrite hits_drop_hits in Hh.
    pose proof (skipn_length m (hits l)) as Hlen. rewrite <- Hh in Hlen.
    destruct (to_hit (drop_hits l m)) as [|[k v] r] eqn:Hd.
    - left. rewrite hits_nil in Hlen. cbn [length] in Hlen. split; [lia|reflexivity].
    - right. pose proof (to_hit_cons_hit _ _ _ _ Hd) as Hv.
      rewrite hits_cons, Hv in Hlen. cbn [length] in Hlen. split; [lia|].
      exists k. reflexivity.
  Qed.

  Lemma pg_next_offset_iff : forall l offset limit,
    pg_next (filtered_paginate keqb hit l None offset limit false) = None
    <-> length (hits l) <= offset + limit.
  Proof.
    intros l offset limit. rewrite page_off. cbn [pg_next].
    destruct (off_next_cases l (offset + limit)) as [[Hle Hn]|[Hgt [k Hn]]]; rewrite Hn.
    - split; [intros _; exact Hle | reflexivity].
    - split; [discriminate | lia].
  Qed.

  (** ** the clients, one step *)
  Definition continue_keys (items : list A) (nk : option K) (f : nat) (l : list (K * A)) (limit : nat)
    : option (list (list A)) :=
    match nk with
    | None => Some [items]
    | Some k => option_map (cons items) (follow_keys keqb hit f l (Some k) limit)
    end.

  Lemma follow_keys_S : forall f l key limit,
    follow_keys keqb hit (S f) l key limit
    = continue_keys (pg_items (filtered_paginate keqb hit l key 0 limit false))
                    (pg_next (filtered_paginate keqb hit l key 0 limit false)) f l limit.
  Proof. reflexivity. Qed.

  (** ** 4. following next keys *)
  Definition keys_ok (l : list (K * A)) (limit f : nat) : Prop :=
    forall pre k v r, l = pre ++ (k, v) :: r -> length ((k, v) :: r) < f ->
      exists pages, follow_keys keqb hit f l (Some k) limit = Some pages /\
        concat pages = hits ((k, v) :: r) /\ Forall (fun pg => length pg <= limit) pages.

  Lemma keys_tail : forall l limit f it pre pre' nxt,
    keys_ok l limit f -> l = pre ++ it -> it = pre' ++ nxt ->
    length nxt <= length it - 1 -> length it < S f ->
    hits nxt = skipn limit (hits it) ->
    exists pages, continue_keys (firstn limit (hits it)) (head_key nxt) f l limit = Some pages /\
      concat pages = hits it /\ Forall (fun pg => length pg <= limit) pages.
  Proof.
    intros l limit f it pre pre' nxt Hok Hl Hit Hlen Hfuel Hh.
    destruct nxt as [|[k' v'] r'].
    - cbn [head_key continue_keys]. exists [firstn limit (hits it)].
      split; [reflexivity|]. split.
      + cbn [concat]. rewrite app_nil_r. rewrite hits_nil in Hh.
        rewrite <- (firstn_skipn limit (hits it)) at 2. rewrite <- Hh, app_nil_r. reflexivity.
      + constructor; [apply firstn_le_length | constructor].
    - cbn [head_key continue_keys].
      destruct (Hok (pre ++ pre') k' v' r') as [pages [Hf [Hc Hall]]].
      + rewrite Hl, Hit, app_assoc. reflexivity.
      + cbn [length] in *. lia.
      + rewrite Hf. cbn [option_map]. exists (firstn limit (hits it) :: pages).
        split; [reflexivity|]. split.
        * cbn [concat]. rewrite Hc, Hh. apply firstn_skipn.
        * constructor; [apply firstn_le_length | exact Hall].
  Qed.

  Lemma follow_keys_suffix : forall l limit, NoDup (map fst l) -> 1 <= limit ->
    forall f, keys_ok l limit f.
  Proof.
    intros l limit Hnd Hlim. induction f as [|f IH]; intros pre k v r Hl Hlen; [lia|].
    rewrite follow_keys_S, (page_key l pre k v r 0 limit false Hnd Hl). cbn [pg_items pg_next].
    destruct (drop_hits_suffix ((k, v) :: r) limit) as [pre' Hpre'].
    apply (keys_tail l limit f ((k, v) :: r) pre pre' (drop_hits ((k, v) :: r) limit)).
    - exact IH.
    - exact Hl.
    - exact Hpre'.
    - apply drop_hits_length_lt. exact Hlim.
    - exact Hlen.
    - apply hits_drop_hits.
  Qed.

  Theorem follow_keys_complete : forall (l : list (K * A)) limit fuel,
    NoDup (map fst l) -> (1 <= limit)%nat -> (length l < fuel)%nat ->
    exists pages, follow_keys keqb hit fuel l None limit = Some pages /\
      concat pages = hits l /\ Forall (fun pg => (length pg <= limit)%nat) pages.
  Proof.
    intros l limit fuel Hnd Hlim Hfuel. destruct fuel as [|f]; [lia|].
    rewrite follow_keys_S, page_off. cbn [pg_items pg_next Nat.add skipn].
    destruct (drop_hits_suffix l limit) as [pre1 Hpre1].
    destruct (to_hit_suffix (drop_hits l limit)) as [pre2 Hpre2].
    apply (keys_tail l limit f l [] (pre1 ++ pre2) (to_hit (drop_hits l limit))).
    - apply follow_keys_suffix; assumption.
    - reflexivity.
    - rewrite <- app_assoc, <- Hpre2. exact Hpre1.
    - pose proof (to_hit_length_le (drop_hits l limit)) as H1.
      pose proof (drop_hits_length_lt l limit Hlim) as H2. lia.
    - exact Hfuel.
    - rewrite hits_to_hit. apply hits_drop_hits.
  Qed.

  (** ** 5. following offsets (with the page sizes, which only depend on the number of hits) *)
  Fixpoint chunk_sizes (n limit fuel : nat) : list nat :=
    match fuel with
    | O => []
    | S f => if Nat.leb n limit then [n] else limit :: chunk_sizes (n - limit) limit f
    end.

  Lemma follow_offsets_gen : forall l limit, 1 <= limit -> forall fuel offset,
    length (hits l) - offset < fuel ->
    exists pages, follow_offsets keqb hit fuel l offset limit = Some pages /\
      concat pages = skipn offset (hits l) /\
      Forall (fun pg => length pg <= limit) pages /\
      map (@length A) pages = chunk_sizes (length (hits l) - offset) limit fuel.
  Proof.
    intros l limit Hlim. induction fuel as [|f IH]; intros offset Hlt; [lia|].
    cbn [follow_offsets]. rewrite page_off. cbn [pg_items pg_next].
    destruct (off_next_cases l (offset + limit)) as [[Hle Hn]|[Hgt [k Hn]]]; rewrite Hn.
    - exists [firstn limit (skipn offset (hits l))]. split; [reflexivity|].
      split; [|split].
      + cbn [concat]. rewrite app_nil_r. apply firstn_all2. rewrite skipn_length. lia.
      + constructor; [apply firstn_le_length | constructor].
      + cbn [map chunk_sizes].
        destruct (Nat.leb_spec (length (hits l) - offset) limit) as [Hc|Hc]; [|lia].
        f_equal. rewrite firstn_length, skipn_length. lia.
    - destruct (IH (offset + limit)) as [pages [Hf [Hc [Hall Hs]]]]; [lia|].
      rewrite Hf. cbn [option_map].
      exists (firstn limit (skipn offset (hits l)) :: pages). split; [reflexivity|].
      split; [|split].
      + cbn [concat]. rewrite Hc, skipn_add. apply firstn_skipn.
      + constructor; [apply firstn_le_length | exact Hall].
      + cbn [map chunk_sizes].
        destruct (Nat.leb_spec (length (hits l) - offset) limit) as [Hc'|Hc']; [lia|].
        f_equal.
        * rewrite firstn_length, skipn_length. lia.
        * rewrite Hs. f_equal. lia.
  Qed.

  Theorem follow_offsets_complete : forall (l : list (K * A)) limit fuel,
    (1 <= limit)%nat -> (length l < fuel)%nat ->
    exists pages, follow_offsets keqb hit fuel l 0 limit = Some pages /\
      concat pages = hits l /\ Forall (fun pg => (length pg <= limit)%nat) pages.
  Proof.
    intros l limit fuel Hlim Hfuel.
    pose proof (hits_length_le l) as Hle.
    destruct (follow_offsets_gen l limit Hlim fuel 0 ltac:(lia)) as [pages [Hf [Hc [Hall _]]]].
    exists pages. split; [exact Hf|]. split; [exact Hc | exact Hall].
  Qed.

  (** the page sizes of the offset client depend on (number of hits, limit) only *)
  Theorem follow_offsets_sizes : forall (l : list (K * A)) limit fuel,
    (1 <= limit)%nat -> (length l < fuel)%nat ->
    option_map (map (@length A)) (follow_offsets keqb hit fuel l 0 limit)
    = Some (chunk_sizes (length (hits l)) limit fuel).
  Proof.
    intros l limit fuel Hlim Hfuel.
    pose proof (hits_length_le l) as Hle.
    destruct (follow_offsets_gen l limit Hlim fuel 0 ltac:(lia)) as [pages [Hf [_ [_ Hs]]]].
    rewrite Hf. cbn [option_map]. rewrite Hs, Nat.sub_0_r. reflexivity.
  Qed.

  (** ** 6. every entry a hit *)
  Definition all_hit (it : list (K * A)) : Prop := forall kv, In kv it -> hit (snd kv) = true.

  Lemma all_hit_cons : forall kv it, all_hit (kv :: it) -> hit (snd kv) = true /\ all_hit it.
  Proof.
    intros kv it Hall. split.
    - apply Hall. left. reflexivity.
    - intros kv' Hin. apply Hall. right. exact Hin.
  Qed.

  Lemma all_hit_app_r : forall pre it, all_hit (pre ++ it) -> all_hit it.
  Proof. intros pre it Hall kv Hin. apply Hall. apply in_or_app. right. exact Hin. Qed.

  Lemma hits_all : forall it, all_hit it -> hits it = map snd it.
  Proof.
    induction it as [|[k v] r IH]; intros Hall; [reflexivity|].
    apply all_hit_cons in Hall. destruct Hall as [Hv Hr]. cbn [snd] in Hv.
    rewrite hits_cons, Hv, (IH Hr). reflexivity.
  Qed.

  Lemma hits_all_length : forall it, all_hit it -> length (hits it) = length it.
  Proof. intros it Hall. rewrite (hits_all it Hall). apply map_length. Qed.

  Lemma drop_hits_all : forall it m, all_hit it -> drop_hits it m = skipn m it.
  Proof.
    induction it as [|[k v] r IH]; intros m Hall.
    - cbn [drop_hits]. rewrite skipn_nil. reflexivity.
    - apply all_hit_cons in Hall. destruct Hall as [Hv Hr]. cbn [snd] in Hv.
      destruct m as [|m]; [reflexivity|].
      cbn [drop_hits skipn]. rewrite Hv. apply IH. exact Hr.
  Qed.

  Lemma to_hit_all : forall it, all_hit it -> to_hit it = it.
  Proof.
    intros [|[k v] r] Hall; [reflexivity|].
    apply all_hit_cons in Hall. destruct Hall as [Hv _]. cbn [snd] in Hv.
    cbn [to_hit]. rewrite Hv. reflexivity.
  Qed.

  Lemma all_hit_skipn : forall it m, all_hit it -> all_hit (skipn m it).
  Proof.
    intros it m Hall. apply (all_hit_app_r (firstn m it)). rewrite firstn_skipn. exact Hall.
  Qed.

  Definition keys_sizes_ok (l : list (K * A)) (limit f : nat) : Prop :=
    forall pre k v r, l = pre ++ (k, v) :: r -> length ((k, v) :: r) < f ->
      option_map (map (@length A)) (follow_keys keqb hit f l (Some k) limit)
      = Some (chunk_sizes (length ((k, v) :: r)) limit f).

  Lemma keys_sizes_tail : forall l limit f it pre,
    1 <= limit -> keys_sizes_ok l limit f -> all_hit it -> l = pre ++ it -> length it < S f ->
    option_map (map (@length A))
      (continue_keys (firstn limit (hits it)) (head_key (skipn limit it)) f l limit)
    = Some (chunk_sizes (length it) limit (S f)).
  Proof.
    intros l limit f it pre Hlim Hok Hall Hl Hfuel.
    pose proof (hits_all_length it Hall) as Hhl.
    cbn [chunk_sizes]. destruct (Nat.leb_spec (length it) limit) as [Hc|Hc].
    - rewrite skipn_all2 by exact Hc. cbn [head_key continue_keys option_map map].
      do 2 f_equal. rewrite firstn_length. lia.
    - pose proof (skipn_length limit it) as Hsl.
      pose proof (firstn_skipn limit it) as Hfs.
      destruct (skipn limit it) as [|[k' v'] r'] eqn:Hs.
      + cbn [length] in Hsl. lia.
      + cbn [head_key continue_keys].
        specialize (Hok (pre ++ firstn limit it) k' v' r').
        rewrite Hsl in Hok.
        assert (Hl' : l = (pre ++ firstn limit it) ++ (k', v') :: r').
        { rewrite <- app_assoc, Hfs. exact Hl. }
        specialize (Hok Hl' ltac:(lia)).
        destruct (follow_keys keqb hit f l (Some k') limit) as [pages|];
          cbn [option_map] in Hok |- *; [|discriminate Hok].
        injection Hok as Hok. cbn [map]. rewrite Hok. do 2 f_equal.
        rewrite firstn_length. lia.
  Qed.

  Lemma follow_keys_sizes_suffix : forall l limit, NoDup (map fst l) -> 1 <= limit -> all_hit l ->
    forall f, keys_sizes_ok l limit f.
  Proof.
    intros l limit Hnd Hlim Hall. induction f as [|f IH]; intros pre k v r Hl Hlen; [lia|].
    assert (Hall' : all_hit ((k, v) :: r)).
    { apply (all_hit_app_r pre). rewrite <- Hl. exact Hall. }
    rewrite follow_keys_S, (page_key l pre k v r 0 limit false Hnd Hl). cbn [pg_items pg_next].
    rewrite (drop_hits_all _ limit Hall').
    apply (keys_sizes_tail l limit f ((k, v) :: r) pre); assumption.
  Qed.

  Theorem follow_keys_sizes_all_hits : forall (l : list (K * A)) limit fuel,
    NoDup (map fst l) -> (1 <= limit)%nat -> (length l < fuel)%nat ->
    (forall kv, In kv l -> hit (snd kv) = true) ->
    option_map (map (@length A)) (follow_keys keqb hit fuel l None limit)
    = Some (chunk_sizes (length l) limit fuel).
  Proof.
    intros l limit fuel Hnd Hlim Hfuel Hall. destruct fuel as [|f]; [lia|].
    rewrite follow_keys_S, page_off. cbn [pg_items pg_next Nat.add skipn].
    rewrite (drop_hits_all l limit Hall).
    rewrite (to_hit_all _ (all_hit_skipn l limit Hall)).
    apply (keys_sizes_tail l limit f l []).
    - exact Hlim.
    - apply follow_keys_sizes_suffix; assumption.
    - exact Hall.
    - reflexivity.
    - exact Hfuel.
  Qed.

  Theorem follow_offsets_sizes_all_hits : forall (l : list (K * A)) limit fuel,
    (1 <= limit)%nat -> (length l < fuel)%nat ->
    (forall kv, In kv l -> hit (snd kv) = true) ->
    option_map (map (@length A)) (follow_offsets keqb hit fuel l 0 limit)
    = Some (chunk_sizes (length l) limit fuel).
  Proof.
    intros l limit fuel Hlim Hfuel Hall.
    rewrite (follow_offsets_sizes l limit fuel Hlim Hfuel).
    rewrite (hits_all_length l Hall). reflexivity.
  Qed.

End PagingFacts.

Arguments hits {K A}.

(** * Examples (keys 1..5, values 10..50) *)
Definition ex_hit (v : nat) : bool := negb (Nat.eqb v 30).
Definition ex_l : list (nat * nat) := [(1, 10); (2, 20); (3, 30); (4, 40); (5, 50)].

(** one non-hit entry in the middle: it is skipped, the next key of the first page is the key of
    the third hit (entry 4) *)
Example follow_keys_example :
  follow_keys Nat.eqb ex_hit 6 ex_l None 2 = Some [[10; 20]; [40; 50]].
Proof. vm_compute. reflexivity. Qed.

Example follow_offsets_example :
  follow_offsets Nat.eqb ex_hit 6 ex_l 0 2 = Some [[10; 20]; [40; 50]].
Proof. vm_compute. reflexivity. Qed.

(** a non-hit entry after a full last page: the key client gets a trailing empty page *)
Example follow_keys_trailing_empty :
  follow_keys Nat.eqb (fun v => negb (Nat.eqb v 50)) 6 ex_l None 2 = Some [[10; 20]; [30; 40]; []].
Proof. vm_compute. reflexivity. Qed.

(** page sizes with every entry a hit: 0, 2, 4, 5 entries with limit 2 *)
Example sizes_examples :
  option_map (map (@length nat)) (follow_keys Nat.eqb (fun _ => true) 6 (firstn 0 ex_l) None 2) = Some (chunk_sizes 0 2 6) /\
  option_map (map (@length nat)) (follow_keys Nat.eqb (fun _ => true) 6 (firstn 2 ex_l) None 2) = Some [2] /\
  option_map (map (@length nat)) (follow_keys Nat.eqb (fun _ => true) 6 (firstn 4 ex_l) None 2) = Some [2; 2] /\
  option_map (map (@length nat)) (follow_keys Nat.eqb (fun _ => true) 6 ex_l None 2) = Some [2; 2; 1] /\
  chunk_sizes 0 2 6 = [0] /\ chunk_sizes 2 2 6 = [2] /\ chunk_sizes 4 2 6 = [2; 2] /\ chunk_sizes 5 2 6 = [2; 2; 1].
Proof. vm_compute. repeat split; reflexivity. Qed.
