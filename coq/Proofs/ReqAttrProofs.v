(** Required attributes with OVERLAPS (property C04): findMissingAttributes judges every requirement on
    its own — a requirement is satisfied when SOME attribute of the receiver matches it, no matter
    which other requirements that same attribute also matches.  One attribute may satisfy several
    requirements ("*.investor.pb" and "accredited.investor.pb" by the one name
    "accredited.investor.pb"; nested wildcards "*.pb" and "*.investor.pb"), several attributes may
    satisfy one requirement, duplicates change nothing. *)
From Coq Require Import ZArith PArith List Bool Ascii Permutation.
From PV Require Import Marker.SendRestr Marker.SendRestrSpec Proofs.SendRestrProofs.
Import ListNotations.

Definition req_satisfied (req : name) (attrs : list name) : Prop :=
  exists a, In a attrs /\ match_attribute req a = true.

Lemma find_missing_nil_iff required attrs :
  find_missing_attributes required attrs = [] <-> forall r, In r required -> req_satisfied r attrs.
Proof.
  unfold find_missing_attributes, req_satisfied. split.
  - intros H r Hr.
    destruct (existsb (match_attribute r) attrs) eqn:E.
    + apply existsb_exists in E. exact E.
    + assert (Hin : In r (filter (fun q => negb (existsb (match_attribute q) attrs)) required)).
      { apply filter_In. split; [exact Hr | rewrite E; reflexivity]. }
      rewrite H in Hin. destruct Hin.
  - intros H. induction required as [|r rs IH]; [reflexivity|]. cbn [filter].
    assert (E : existsb (match_attribute r) attrs = true).
    { apply existsb_exists. apply H. left; reflexivity. }
    rewrite E. cbn [negb]. apply IH. intros q Hq. apply H. right; exact Hq.
Qed.

(** What is reported missing is exactly the requirements no attribute matches, in order. *)
Lemma find_missing_in required attrs r :
  In r (find_missing_attributes required attrs) <-> In r required /\ ~ req_satisfied r attrs.
Proof.
  unfold find_missing_attributes, req_satisfied. rewrite filter_In. split.
  - intros [Hr Hn]. split; [exact Hr|]. intros Hex. apply existsb_exists in Hex. rewrite Hex in Hn. discriminate.
  - intros [Hr Hn]. split; [exact Hr|].
    destruct (existsb (match_attribute r) attrs) eqn:E; [|reflexivity].
    exfalso. apply Hn. apply existsb_exists in E. exact E.
Qed.

(** Requirements are independent of each other: the verdict on a list is the conjunction of the
    verdicts on its requirements taken alone (so on any split, permutation or duplication of it). *)
Lemma find_missing_app r1 r2 attrs :
  find_missing_attributes (r1 ++ r2) attrs = find_missing_attributes r1 attrs ++ find_missing_attributes r2 attrs.
Proof. unfold find_missing_attributes. apply filter_app. Qed.

Lemma find_missing_singletons required attrs :
  find_missing_attributes required attrs = [] <->
  forall r, In r required -> find_missing_attributes [r] attrs = [].
Proof.
  rewrite find_missing_nil_iff. split.
  - intros H r Hr. apply find_missing_nil_iff. intros q [<-|[]]. apply H. exact Hr.
  - intros H r Hr. specialize (H r Hr). rewrite find_missing_nil_iff in H. apply H. left; reflexivity.
Qed.

Lemma find_missing_same_requirements r1 r2 attrs :
  (forall r, In r r1 <-> In r r2) ->
  (find_missing_attributes r1 attrs = [] <-> find_missing_attributes r2 attrs = []).
Proof.
  intros H. rewrite !find_missing_nil_iff. split; intros Hs r Hr; apply Hs; apply H; exact Hr.
Qed.

(** One attribute that matches every requirement satisfies them all. *)
Lemma one_attribute_may_satisfy_all required a attrs :
  In a attrs -> (forall r, In r required -> match_attribute r a = true) ->
  find_missing_attributes required attrs = [].
Proof.
  intros Ha H. apply find_missing_nil_iff. intros r Hr. exists a. split; [exact Ha | apply H; exact Hr].
Qed.

(** More attributes never hurt, and only the set of attribute names matters. *)
Lemma find_missing_attrs_monotone required a1 a2 :
  (forall a, In a a1 -> In a a2) ->
  find_missing_attributes required a1 = [] -> find_missing_attributes required a2 = [].
Proof.
  intros Hsub. rewrite !find_missing_nil_iff. intros H r Hr.
  destruct (H r Hr) as (a & Ha & Hm). exists a. split; [apply Hsub; exact Ha | exact Hm].
Qed.

(** The documented reading: "the receiver has the required attributes" = every requirement has some
    attribute matching it by the level-wise rule of 01_state.md. *)
Lemma existsb_match_eq_doc r attrs : existsb (match_attribute r) attrs = existsb (doc_match r) attrs.
Proof.
  induction attrs as [|x l IHl]; cbn [existsb]; [reflexivity|].
  rewrite IHl, match_attribute_eq_doc. reflexivity.
Qed.

Lemma find_missing_eq_documented required attrs :
  match find_missing_attributes required attrs with [] => true | _ => false end =
  forallb (fun r => existsb (doc_match r) attrs) required.
Proof.
  rewrite find_missing_eq. induction required as [|r rs IH]; cbn [forallb]; [reflexivity|].
  rewrite IH, existsb_match_eq_doc. reflexivity.
Qed.

(** ** The one-pass "tick requirements off" algorithm is NOT this rule.
    Transcription of a tempting rewrite: one pass over the attributes, each attribute ticks off the
    FIRST still-unsatisfied requirement it matches and stops. *)
Fixpoint tick_first (a : name) (required : list name) (found : list bool) : list bool :=
  match required, found with
  | r :: rs, f :: fs =>
      if negb f && match_attribute r a then true :: fs else f :: tick_first a rs fs
  | _, _ => found
  end.

Definition one_pass_missing (required attrs : list name) : list name :=
  let found := fold_left (fun fnd a => tick_first a required fnd) attrs (map (fun _ => false) required) in
  map fst (filter (fun p => negb (snd p)) (combine required found)).

Definition s (x : String.string) : name := String.list_ascii_of_string x.
Import String.
Open Scope string_scope.

Lemma one_pass_refuted :
  exists required attrs,
    find_missing_attributes required attrs = [] /\ one_pass_missing required attrs <> [].
Proof.
  exists [s "*.investor.pb"; s "accredited.investor.pb"], [s "accredited.investor.pb"].
  split; [vm_compute; reflexivity | vm_compute; discriminate].
Qed.

Close Scope string_scope.

(** In the attribute-decided situation the code's verdict on a one-coin send IS the independent
    per-requirement rule, evaluated on the marker's requirement list and the receiver's attribute names. *)
Lemma attribute_decided_verdict c from to d a m :
  (0 < a)%Z -> attribute_decided c from to d = true -> marker_for_denom c d = Some m ->
  allowed c from to [(d, a)] = each_requirement_matched (m_req_attrs m) (attributes_of c to).
Proof.
  intros Ha Hd Hm.
  assert (Hv : coins_valid [(d, a)]) by (constructor; [exact Ha | constructor]).
  rewrite (code_eq_doc c from to _ Hv).
  unfold attribute_decided in Hd. rewrite Hm in Hd.
  repeat match goal with H : _ && _ = true |- _ => apply andb_true_iff in H as [? ?] end.
  repeat match goal with H : negb _ = true |- _ => apply negb_true_iff in H end.
  unfold doc_send_allowed.
  match goal with H : cfg_ctx_bypass c || _ || _ = false |- _ => rewrite H end.
  unfold check_sender_marker, check_receiver_marker.
  destruct (marker_at c from); [discriminate|].
  destruct (marker_at c to) eqn:Eto; [discriminate|].
  cbn [forallb fst]. rewrite andb_true_r.
  unfold doc_validate_send_denom. rewrite Hm, Eto.
  match goal with H : marker_active m = true |- _ => rewrite H end.
  match goal with H : restricted_coin c d = true |- _ => rewrite H end.
  match goal with H : addr_eqb to _ = false |- _ => rewrite H end.
  match goal with H : some_agent_has m _ _ = false |- _ => rewrite H end.
  match goal with H : on_deny_list c d from = false |- _ => rewrite H end.
  match goal with H : has_role m from _ = false |- _ => rewrite H end.
  match goal with H : bypass_account c to = false |- _ => rewrite H end.
  cbn [negb].
  destruct (m_req_attrs m) as [|r0 rs] eqn:Er; [discriminate|].
  unfold has_required_attributes, each_requirement_matched. rewrite Er. reflexivity.
Qed.

Lemma required_attributes_independent required attrs :
  (find_missing_attributes required attrs = [] <->
   forall r, In r required -> exists a, In a attrs /\ match_attribute r a = true) /\
  (forall r1 r2, find_missing_attributes (r1 ++ r2) attrs =
                 find_missing_attributes r1 attrs ++ find_missing_attributes r2 attrs) /\
  (forall required', (forall r, In r required <-> In r required') ->
     (find_missing_attributes required attrs = [] <-> find_missing_attributes required' attrs = [])) /\
  (forall a, In a attrs -> (forall r, In r required -> match_attribute r a = true) ->
     find_missing_attributes required attrs = []) /\
  (forall attrs', (forall a, In a attrs -> In a attrs') ->
     find_missing_attributes required attrs = [] -> find_missing_attributes required attrs' = []) /\
  match find_missing_attributes required attrs with [] => true | _ => false end =
  each_requirement_matched required attrs.
Proof.
  split; [apply find_missing_nil_iff|].
  split; [intros r1 r2; apply find_missing_app|].
  split; [intros r' H; apply find_missing_same_requirements; exact H|].
  split; [intros a Ha H; eapply one_attribute_may_satisfy_all; eassumption|].
  split; [intros a' H; apply find_missing_attrs_monotone; exact H|].
  apply find_missing_eq_documented.
Qed.
