(** The store-prefix audit (property C18): the table regenerated from the Go source
    (Gen/GenStorePrefixes.v) agrees with the reviewed one (Genesis/StorePrefixDoc.v). *)
From Coq Require Import NArith List String Bool.
From PV Require Import Gen.GenStorePrefixes Genesis.StorePrefixDoc.
Import ListNotations.

Lemma store_prefixes_reviewed :
  prefix_audit gen_store_prefixes reviewed_store_prefixes = [] /\
  genesis_functions_audit gen_genesis_functions = [].
Proof. split; vm_compute; reflexivity. Qed.

(** non-vacuity: the audit does flag a prefix that loses its export *)
Lemma prefix_audit_flags_lost_export :
  prefix_audit [("marker", "MarkerStoreKeyPrefix", 2%N, false, true)]
               [("marker", "MarkerStoreKeyPrefix", 2%N, Exported)] <> [].
Proof. vm_compute. discriminate. Qed.
