(** Exact (iff) characterisations of who gets through (property C11): market endpoints, CancelOrder,
    and every payment operation, for the models of Exchange/Perms.v.  The "only if" halves are the
    property; the "if" halves say the model refuses nobody else, so that the behavioural matrix of the
    harness pins the implementation from both sides. *)
From Coq Require Import List String Bool NArith Lia.
From PV Require Import Exchange.Perms Exchange.GovGuards Gen.GenExchangePerms Proofs.PermsProofs.
Import ListNotations.
Open Scope string_scope.

(* ------------------------------------------------------------------ market endpoints *)

Lemma req_matches_holds_iff : forall d g auth st m c,
  req_matches d g = true ->
  (requirement_allows g auth st m c = true <-> req_holds d auth st m c).
Proof.
  intros d g auth st m c Hm. split; [apply req_matches_holds; exact Hm |].
  destruct d as [p | | | a | ], g as [p' | | | b | ]; cbn in Hm; try discriminate Hm; cbn; intro H.
  - apply perm_eqb_eq in Hm. subst. apply has_permission_complete. exact H.
  - unfold is_authority. apply N.eqb_eq. exact H.
  - destruct H.
  - reflexivity.
Qed.

Lemma endpoint_allowed_iff : forall row, In row gen_endpoints ->
  forall auth st market caller,
    endpoint_allowed (ep_name row) auth st market caller = true <->
    req_holds (documented_requirement (ep_name row)) auth st market caller.
Proof.
  intros row Hin auth st market caller.
  pose proof generated_rows_match_documented as Hf. rewrite forallb_forall in Hf.
  exact (req_matches_holds_iff _ _ auth st market caller (Hf row Hin)).
Qed.

Lemma item_changed_iff : forall row, In row gen_endpoints ->
  forall auth st req_market item_market caller,
    item_changed (ep_name row) auth st req_market item_market caller = true <->
    req_market = item_market /\
    req_holds (documented_requirement (ep_name row)) auth st item_market caller.
Proof.
  intros row Hin auth st rm im caller. unfold item_changed. rewrite andb_true_iff.
  rewrite (endpoint_allowed_iff row Hin). rewrite N.eqb_eq. split.
  - intros [H He]. subst im. split; [reflexivity | exact H].
  - intros [He H]. subst im. split; [exact H | reflexivity].
Qed.

(* ------------------------------------------------------------------ CancelOrder *)

Lemma cancel_endpoint_open : forall auth st m c, endpoint_allowed "CancelOrder" auth st m c = true.
Proof.
  intros. unfold endpoint_allowed.
  assert (H : endpoint_requirement "CancelOrder" = RDelegated "Keeper.CancelOrder") by (vm_compute; reflexivity).
  rewrite H. reflexivity.
Qed.

Lemma cancel_allowed_iff : forall auth st o signer,
  cancel_allowed auth st o signer = true <->
  signer = o_owner o \/ signer = auth \/ In (o_market o, signer, PCancel) st.
Proof.
  intros auth st o signer. split; [apply cancel_allowed_sound |].
  intro H. unfold cancel_allowed. rewrite cancel_order_perm_is_cancel. apply orb_true_iff.
  destruct H as [H | H]; [left; apply N.eqb_eq; exact H | right; apply has_permission_complete; exact H].
Qed.

Definition ids_unique (orders : list order) : Prop := NoDup (map o_id orders).

Lemma find_order_unique : forall orders oid o, ids_unique orders ->
  (find (fun o' => N.eqb (o_id o') oid) orders = Some o <-> In o orders /\ o_id o = oid).
Proof.
  intros orders oid o Hu. split.
  - intro F. apply find_some in F as [Hin Hid]. apply N.eqb_eq in Hid. split; assumption.
  - intros [Hin Hid]. induction orders as [| x r IH]; [destruct Hin |].
    cbn [find]. unfold ids_unique in Hu. cbn [map] in Hu. inversion Hu as [| ? ? Hnot Hr]; subst.
    destruct Hin as [Hx | Hin].
    + subst x. rewrite N.eqb_refl. reflexivity.
    + destruct (N.eqb (o_id x) (o_id o)) eqn:E; [| exact (IH Hr Hin)].
      apply N.eqb_eq in E. exfalso. apply Hnot. rewrite E. apply in_map. exact Hin.
Qed.

Lemma cancel_order_iff : forall auth st orders oid signer, ids_unique orders ->
  (snd (cancel_order auth st orders oid signer) = true <->
   exists o, In o orders /\ o_id o = oid /\
     (signer = o_owner o \/ signer = auth \/ In (o_market o, signer, PCancel) st)).
Proof.
  intros auth st orders oid signer Hu. split.
  - intro H. destruct (cancel_order auth st orders oid signer) as [os ok] eqn:C. cbn [snd] in H. subst ok.
    destruct (cancel_order_success _ _ _ _ _ _ C) as [o [Hin [Hid [Hr _]]]]. exists o. auto.
  - intros [o [Hin [Hid Hr]]]. unfold cancel_order.
    assert (F : find (fun o' => N.eqb (o_id o') oid) orders = Some o) by (apply find_order_unique; auto).
    rewrite F. rewrite cancel_endpoint_open. cbn [andb].
    assert (A : cancel_allowed auth st o signer = true) by (apply cancel_allowed_iff; exact Hr).
    rewrite A. reflexivity.
Qed.

(* ------------------------------------------------------------------ payments *)

Definition pkey (p : payment) : N * N := (p_source p, p_ext p).
Definition keys_unique (st : list payment) : Prop := NoDup (map pkey st).

Lemma find_key_unique : forall (f : payment -> bool) src ext st,
  (forall p, f p = true <-> p_source p = src /\ p_ext p = ext) -> keys_unique st ->
  forall e, find f st = Some e <-> In e st /\ p_source e = src /\ p_ext e = ext.
Proof.
  intros f src ext st Hf Hu e. split.
  - intro F. apply find_some in F as [Hin Hk]. apply Hf in Hk. tauto.
  - intros [Hin [Hs He]]. induction st as [| x r IH]; [destruct Hin |].
    cbn [find]. unfold keys_unique in Hu. cbn [map] in Hu. inversion Hu as [| ? ? Hnot Hr]; subst.
    destruct Hin as [Hx | Hin].
    + subst x. assert (T : f e = true) by (apply Hf; auto). rewrite T. reflexivity.
    + destruct (f x) eqn:E; [| exact (IH Hr Hin)].
      apply Hf in E as [E1 E2]. exfalso. apply Hnot.
      replace (pkey x) with (pkey e) by (unfold pkey; rewrite E1, E2; reflexivity).
      apply in_map. exact Hin.
Qed.

Lemma pay_key_spec : forall src ext p, pay_key src ext p = true <-> p_source p = src /\ p_ext p = ext.
Proof.
  intros. unfold pay_key. rewrite andb_true_iff, !N.eqb_eq. tauto.
Qed.

Lemma create_iff : forall st s ext tgt,
  snd (pay_step st (PyCreate s ext tgt)) = true <-> ~ exists p, In p st /\ p_source p = s /\ p_ext p = ext.
Proof.
  intros st s ext tgt. destruct payment_tables as [_ [_ [_ [_ [_ [_ T7]]]]]].
  cbn [pay_step]. rewrite T7. destruct (existsb (pay_key s ext) st) eqn:E; cbn [snd]; split; intro H.
  - discriminate H.
  - exfalso. apply H. apply existsb_exists in E as [p [Hin Hk]]. apply pay_key_spec in Hk. exists p. tauto.
  - intros [p [Hin [H1 H2]]].
    assert (T : existsb (pay_key s ext) st = true).
    { apply existsb_exists. exists p. split; [exact Hin | apply pay_key_spec; auto]. }
    rewrite T in E. discriminate E.
  - reflexivity.
Qed.

Lemma accept_iff : forall st s src ext, keys_unique st ->
  (snd (pay_step st (PyAccept s src ext)) = true <->
   exists e, In e st /\ p_source e = src /\ p_ext e = ext /\ p_target e = Some s).
Proof.
  intros st s src ext Hu. destruct payment_tables as [T1 [_ [_ [_ [_ [T6 _]]]]]]. split.
  - intro H. destruct (pay_step st (PyAccept s src ext)) as [st' ok] eqn:P. cbn [snd] in H. subst ok.
    exact (pay_step_accept_reject_by_target st s src ext st' (or_introl P)).
  - intros [e [Hin [Hs [He Ht]]]]. cbn [pay_step].
    assert (F : find (pay_key src ext) st = Some e).
    { apply (find_key_unique _ src ext st (pay_key_spec src ext) Hu). auto. }
    rewrite F, T1, T6. cbn [andb]. rewrite Ht.
    assert (E : opt_N_eqb (Some s) (Some s) = true) by (apply opt_N_eqb_eq; reflexivity).
    rewrite E. reflexivity.
Qed.

Lemma reject_iff : forall st s src ext, keys_unique st ->
  (snd (pay_step st (PyReject s src ext)) = true <->
   exists e, In e st /\ p_source e = src /\ p_ext e = ext /\ p_target e = Some s).
Proof.
  intros st s src ext Hu. destruct payment_tables as [_ [T2 _]]. split.
  - intro H. destruct (pay_step st (PyReject s src ext)) as [st' ok] eqn:P. cbn [snd] in H. subst ok.
    exact (pay_step_accept_reject_by_target st s src ext st' (or_intror P)).
  - intros [e [Hin [Hs [He Ht]]]]. cbn [pay_step].
    assert (F : find (pay_key src ext) st = Some e).
    { apply (find_key_unique _ src ext st (pay_key_spec src ext) Hu). auto. }
    rewrite F, Ht, T2.
    assert (E : opt_N_eqb (Some s) (Some s) = true) by (apply opt_N_eqb_eq; reflexivity).
    rewrite E. reflexivity.
Qed.

Lemma reject_all_iff : forall st s srcs,
  snd (pay_step st (PyRejectAll s srcs)) = true <->
  srcs <> [] /\ nodup_N srcs = true /\
  forall src, In src srcs -> exists p, In p st /\ p_source p = src /\ p_target p = Some s.
Proof.
  intros st s srcs. destruct payment_tables as [_ [_ [T3 _]]]. cbn [pay_step]. rewrite T3.
  destruct srcs as [| s0 srcs]; [cbn [snd]; split; [intro H; discriminate H | intros [H _]; exfalso; apply H; reflexivity] |].
  set (l := s0 :: srcs).
  destruct (nodup_N l) eqn:Nd; cbn [negb].
  - destruct (forallb _ l) eqn:F; cbn [snd].
    + split; [intros _ | reflexivity]. split; [discriminate | split; [reflexivity |]].
      intros src Hin. rewrite forallb_forall in F. specialize (F src Hin).
      apply existsb_exists in F as [p [Hp Hk]]. apply andb_true_iff in Hk as [H1 H2].
      apply N.eqb_eq in H1. apply opt_N_eqb_eq in H2. exists p. auto.
    + split; [intro H; discriminate H |]. intros [_ [_ Hall]]. exfalso.
      assert (T : forallb (fun src => existsb (fun p => N.eqb (p_source p) src && opt_N_eqb (p_target p) (Some s)) st) l = true).
      { apply forallb_forall. intros src Hin. destruct (Hall src Hin) as [p [Hp [H1 H2]]].
        apply existsb_exists. exists p. split; [exact Hp |].
        apply andb_true_iff. split; [apply N.eqb_eq; exact H1 | apply opt_N_eqb_eq; exact H2]. }
      rewrite T in F. discriminate F.
  - cbn [snd]. split; [intro H; discriminate H | intros [_ [H _]]; discriminate H].
Qed.

Lemma cancel_iff : forall st s exts,
  snd (pay_step st (PyCancel s exts)) = true <->
  exts <> [] /\ nodup_N exts = true /\
  forall ext, In ext exts -> exists p, In p st /\ p_ext p = ext /\ p_source p = s.
Proof.
  intros st s exts. destruct payment_tables as [_ [_ [_ [T4 _]]]]. cbn [pay_step]. rewrite T4.
  destruct exts as [| e0 exts]; [cbn [snd]; split; [intro H; discriminate H | intros [H _]; exfalso; apply H; reflexivity] |].
  set (l := e0 :: exts).
  destruct (nodup_N l) eqn:Nd; cbn [negb].
  - destruct (forallb _ l) eqn:F; cbn [snd].
    + split; [intros _ | reflexivity]. split; [discriminate | split; [reflexivity |]].
      intros ext Hin. rewrite forallb_forall in F. specialize (F ext Hin).
      apply existsb_exists in F as [p [Hp Hk]]. apply andb_true_iff in Hk as [H1 H2].
      apply N.eqb_eq in H1, H2. exists p. auto.
    + split; [intro H; discriminate H |]. intros [_ [_ Hall]]. exfalso.
      assert (T : forallb (fun ext => existsb (fun p => N.eqb (p_ext p) ext && N.eqb (p_source p) s) st) l = true).
      { apply forallb_forall. intros ext Hin. destruct (Hall ext Hin) as [p [Hp [H1 H2]]].
        apply existsb_exists. exists p. split; [exact Hp |].
        apply andb_true_iff. split; apply N.eqb_eq; assumption. }
      rewrite T in F. discriminate F.
  - cbn [snd]. split; [intro H; discriminate H | intros [_ [H _]]; discriminate H].
Qed.

Lemma retarget_iff : forall st s ext nt, keys_unique st ->
  (snd (pay_step st (PyRetarget s ext nt)) = true <->
   exists e, In e st /\ p_source e = s /\ p_ext e = ext /\ p_target e <> nt).
Proof.
  intros st s ext nt Hu. destruct payment_tables as [_ [_ [_ [_ [T5 _]]]]]. cbn [pay_step]. rewrite T5.
  set (key := fun p : payment => N.eqb (p_ext p) ext && N.eqb (p_source p) s).
  assert (Hk : forall p, key p = true <-> p_source p = s /\ p_ext p = ext).
  { intro p. unfold key. rewrite andb_true_iff, !N.eqb_eq. tauto. }
  pose proof (find_key_unique key s ext st Hk Hu) as Hf.
  destruct (find key st) as [e |] eqn:F.
  - destruct (proj1 (Hf e) eq_refl) as [Hin [Hs He]].
    destruct (opt_N_eqb (p_target e) nt) eqn:E; cbn [snd]; split; intro H.
    + discriminate H.
    + destruct H as [e' [Hin' [Hs' [He' Hne]]]].
      assert (F' : Some e = Some e') by (apply Hf; auto). inversion F'; subst e'.
      apply opt_N_eqb_eq in E. contradiction.
    + exists e. split; [exact Hin |]. split; [exact Hs |]. split; [exact He |].
      intro Hc. apply opt_N_eqb_eq in Hc. rewrite Hc in E. discriminate E.
    + reflexivity.
  - cbn [snd]. split; [intro H; discriminate H |].
    intros [e [Hin [Hs [He _]]]]. assert (F' : None = Some e) by (apply Hf; auto). discriminate F'.
Qed.

(** Unique (source, external id) keys are an invariant of every history. *)
Lemma NoDup_map_filter : forall {A B} (g : A -> B) (f : A -> bool) l, NoDup (map g l) -> NoDup (map g (filter f l)).
Proof.
  intros A B g f. induction l as [| x r IH]; intro H; [exact H |].
  cbn [map] in H. inversion H as [| ? ? Hnot Hr]; subst. cbn [filter].
  destruct (f x); [| exact (IH Hr)].
  cbn [map]. constructor; [| exact (IH Hr)].
  intro Hc. apply Hnot. apply in_map_iff in Hc as [y [Hy Hin]]. apply filter_In in Hin as [Hin _].
  rewrite <- Hy. apply in_map. exact Hin.
Qed.

Lemma pay_step_keys_unique : forall st op, keys_unique st -> keys_unique (fst (pay_step st op)).
Proof.
  intros st op Hu. destruct payment_tables as [T1 [T2 [_ [_ [_ [T6 T7]]]]]].
  destruct op as [s ext tgt | s src ext | s src ext | s srcs | s exts | s ext nt]; cbn [pay_step].
  - rewrite T7. destruct (existsb (pay_key s ext) st) eqn:E; cbn [fst]; [exact Hu |].
    unfold keys_unique. cbn [map]. constructor; [| exact Hu].
    intro Hc. apply in_map_iff in Hc as [p [Hk Hin]]. unfold pkey in Hk. cbn in Hk. inversion Hk as [[H1 H2]].
    assert (T : existsb (pay_key s ext) st = true).
    { apply existsb_exists. exists p. split; [exact Hin | apply pay_key_spec; auto]. }
    rewrite T in E. discriminate E.
  - destruct (find _ st) as [e |]; cbn [fst]; [| exact Hu].
    rewrite T1, T6. cbn [andb].
    destruct (opt_N_eqb _ _); cbn [fst]; [apply NoDup_map_filter; exact Hu | exact Hu].
  - destruct (find _ st) as [e |]; cbn [fst]; [| exact Hu].
    destruct (p_target e); cbn [fst]; [| exact Hu].
    rewrite T2.
    destruct (opt_N_eqb _ _); cbn [fst]; [apply NoDup_map_filter; exact Hu | exact Hu].
  - destruct srcs; cbn [fst]; [exact Hu |].
    destruct (negb _); cbn [fst]; [exact Hu |].
    destruct (forallb _ _); cbn [fst]; [apply NoDup_map_filter; exact Hu | exact Hu].
  - destruct exts; cbn [fst]; [exact Hu |].
    destruct (negb _); cbn [fst]; [exact Hu |].
    destruct (forallb _ _); cbn [fst]; [apply NoDup_map_filter; exact Hu | exact Hu].
  - destruct (find _ st) as [e |]; cbn [fst]; [| exact Hu].
    destruct (opt_N_eqb _ _); cbn [fst]; [exact Hu |].
    unfold keys_unique. rewrite map_map.
    rewrite (map_ext _ pkey); [exact Hu |].
    intro p. destruct (_ && _); reflexivity.
Qed.

Lemma run_payments_keys_unique : forall ops st, keys_unique st -> keys_unique (run_payments st ops).
Proof.
  unfold run_payments. induction ops as [| op ops IH]; intros st Hu; cbn [fold_left]; [exact Hu |].
  apply IH. apply pay_step_keys_unique. exact Hu.
Qed.
