(** C13, SDK side, the maximum page limit (limit = 2^64-1, key = nil) with the SDK's own uint64
    arithmetic (no clamp): [end := offset + limit] and [end + 1] wrap.

      - query.Paginate, offset 0: end = 2^64-1, every count in 1..len is <= end, everything is
        accumulated in one page and no next key is set          (sdk_paginate_max_limit_one_page);
      - query.FilteredPaginate, offset 0, EVERY entry a hit: same (sdk_filtered_max_limit_one_page);
      - query.FilteredPaginate, offset 0, a leading non-hit entry: end + 1 wraps to 0 = numHits, the
        next key is set at the first entry and the loop stops with an empty page
                                                                (sdk_filtered_max_limit_refuted);
      - query.Paginate, offset >= 1: end wraps to offset - 1 < offset, nothing is ever accumulated
                                                                (sdk_paginate_max_limit_offset_empty). *)
From Coq Require Import ZArith NArith List Bool Lia.
From PV Require Import Exchange.KV Exchange.Index Exchange.Paging Proofs.KVProofs
  Proofs.PagingProofs Proofs.PagingSdkProofs.
Import ListNotations.
Open Scope N_scope.

(** ---- uint64 arithmetic of the maximum limit ---- *)
Lemma wrap64_max : wrap64 (0 + u64max) = u64max.
Proof. reflexivity. Qed.

Lemma wrap64_max_succ : wrap64 (u64max + 1) = 0.
Proof. reflexivity. Qed.

Lemma wrap64_offset_max : forall o, 1 <= o -> o < two64 -> wrap64 (o + u64max) = o - 1.
Proof.
  intros o H1 Ho. unfold wrap64.
  assert (E1 : o + u64max = (o - 1) + 1 * two64) by (rewrite u64_succ; lia).
  assert (E2 : two64 <> 0) by (rewrite u64_succ; lia).
  rewrite E1, (N.mod_add _ _ _ E2). apply N.mod_small. lia.
Qed.

(** ---- the iterator of a first page ---- *)
Lemma sdk_get_iterator_first : forall V (l : list (key * V)) reverse,
  sdk_get_iterator l [] reverse = Some (if reverse then rev l else l).
Proof.
  intros V l reverse. rewrite sdk_get_iterator_eq, goi_first, itlist0_eq. reflexivity.
Qed.

Lemma it_length : forall V (l : list (key * V)) (reverse : bool),
  length (if reverse then rev l else l) = length l.
Proof. intros V l reverse. destruct reverse; [apply rev_length|reflexivity]. Qed.

(** ---- (1) query.Paginate ---- *)
Section PaginateLoop.
  Variable V : Type.
  Notation view := (list (key * V)).

  (** Past the offset and never reaching the end bound: everything is accumulated. *)
  Lemma sdk_p_offset_loop_all : forall (it : view) c o e ct next acc,
    o <= c -> c + N.of_nat (length it) <= e ->
    sdk_p_offset_loop V it c o e ct next acc = (rev acc ++ it, next, c + N.of_nat (length it)).
  Proof.
    induction it as [|[k v] r IH]; intros c o e ct next acc Ho He.
    - cbn [sdk_p_offset_loop length]. rewrite app_nil_r. f_equal. change (N.of_nat 0) with 0. lia.
    - cbn [sdk_p_offset_loop]. cbn [length] in He.
      assert (E1 : (c + 1 <=? o) = false) by (apply N.leb_gt; lia).
      assert (E2 : (c + 1 <=? e) = true) by (apply N.leb_le; lia).
      rewrite E1, E2. rewrite IH by lia.
      cbn [rev length]. rewrite <- app_assoc. cbn [app]. f_equal. lia.
  Qed.

  (** The end bound below the offset and [end + 1] = offset: nothing is accumulated, no next key. *)
  Lemma sdk_p_offset_loop_none : forall (it : view) c o e ct next acc,
    e < o -> wrap64 (e + 1) = o ->
    sdk_p_offset_loop V it c o e ct next acc = (rev acc, next, c + N.of_nat (length it)).
  Proof.
    induction it as [|[k v] r IH]; intros c o e ct next acc He Hw.
    - cbn [sdk_p_offset_loop length]. f_equal. change (N.of_nat 0) with 0. lia.
    - cbn [sdk_p_offset_loop]. rewrite Hw. cbn [length].
      destruct (c + 1 <=? o) eqn:E1.
      + rewrite IH by assumption. f_equal. lia.
      + apply N.leb_gt in E1.
        assert (E2 : (c + 1 <=? e) = false) by (apply N.leb_gt; lia).
        assert (E3 : (c + 1 =? o) = false) by (apply N.eqb_neq; lia).
        rewrite E2, E3. rewrite IH by assumption. f_equal. lia.
  Qed.
End PaginateLoop.

Lemma sdk_paginate_max_limit_one_page : forall V (l : list (key * V)) (ct reverse : bool),
  N.of_nat (length l) < u64max ->
  sdk_paginate l (max_limit_req 0 ct reverse)
  = Some ((if reverse then rev l else l),
          {| ps_next := []; ps_total := if ct then N.of_nat (length l) else 0 |}).
Proof.
  intros V l ct reverse Hl. unfold max_limit_req, sdk_paginate.
  cbn [pr_key pr_offset pr_limit pr_count_total pr_reverse is_nil negb].
  rewrite andb_false_r. change (u64max =? 0) with false. cbv iota.
  rewrite sdk_get_iterator_first, wrap64_max.
  assert (H0 : 0 <= 0) by lia.
  assert (He : 0 + N.of_nat (length (if reverse then rev l else l)) <= u64max)
    by (rewrite it_length; lia).
  rewrite (sdk_p_offset_loop_all V _ 0 0 u64max ct None [] H0 He).
  rewrite it_length. cbn [rev app opt_key]. rewrite N.add_0_l. reflexivity.
Qed.

(** ---- (2) query.FilteredPaginate, every entry a hit ---- *)
Section FilteredLoop.
  Variable V : Type.
  Variable hit : key -> V -> bool.
  Notation view := (list (key * V)).

  (** offset 0, end = 2^64-1 (so [end + 1] wraps to 0), all hits, fewer than 2^64-1 entries left:
      every entry is accumulated and the next key is never set. *)
  Lemma offset_loop_max_all_hits : forall (it : view) n ct next acc,
    (forall k v, In (k, v) it -> hit k v = true) ->
    n + N.of_nat (length it) < u64max ->
    offset_loop V hit it n 0 u64max ct next acc
    = (rev acc ++ it, next, n + N.of_nat (length it)).
  Proof.
    induction it as [|[k v] r IH]; intros n ct next acc Hh Hn.
    - cbn [offset_loop length]. rewrite app_nil_r. f_equal. change (N.of_nat 0) with 0. lia.
    - cbn [offset_loop]. cbn [length] in Hn.
      rewrite (Hh k v (or_introl eq_refl)). rewrite wrap64_max_succ.
      assert (E1 : (0 <=? n) = true) by (apply N.leb_le; lia).
      assert (E2 : (n <? u64max) = true) by (apply N.ltb_lt; lia).
      assert (E3 : (n + 1 =? 0) = false) by (apply N.eqb_neq; lia).
      rewrite E1, E2, E3. cbn [andb].
      rewrite IH.
      + cbn [rev length]. rewrite <- app_assoc. cbn [app]. f_equal. lia.
      + intros k' v' Hin. apply Hh. right. exact Hin.
      + lia.
  Qed.
End FilteredLoop.

Lemma sdk_filtered_max_limit_one_page : forall V (hit : key -> V -> bool) (l : list (key * V))
    (ct reverse : bool),
  N.of_nat (length l) < u64max ->
  (forall k v, In (k, v) l -> hit k v = true) ->
  sdk_filtered_paginate hit l (max_limit_req 0 ct reverse)
  = Some ((if reverse then rev l else l),
          {| ps_next := []; ps_total := if ct then N.of_nat (length l) else 0 |}).
Proof.
  intros V hit l ct reverse Hl Hh. unfold max_limit_req, sdk_filtered_paginate.
  cbn [pr_key pr_offset pr_limit pr_count_total pr_reverse is_nil negb].
  rewrite andb_false_r. change (u64max =? 0) with false. cbv iota.
  rewrite sdk_get_iterator_first, wrap64_max.
  assert (Hh' : forall k v, In (k, v) (if reverse then rev l else l) -> hit k v = true).
  { intros k v Hin. apply Hh. destruct reverse; [apply in_rev in Hin|]; exact Hin. }
  assert (Hn : 0 + N.of_nat (length (if reverse then rev l else l)) < u64max)
    by (rewrite it_length; lia).
  rewrite (offset_loop_max_all_hits V hit _ 0 ct None [] Hh' Hn).
  rewrite it_length. cbn [rev app opt_key]. rewrite N.add_0_l. reflexivity.
Qed.

(** ---- (3) ... and not without the all-hits hypothesis ---- *)
Lemma sdk_filtered_max_limit_refuted :
  exists (hit : key -> unit -> bool) (l : list (key * unit)),
    sorted_keys l /\ matching hit l false 0 <> [] /\
    exists next, next <> [] /\
      sdk_filtered_paginate hit l (max_limit_req 0 false false)
      = Some ([], {| ps_next := next; ps_total := 0 |}).
Proof.
  exists (fun k _ => key_eqb k [2]), [([1], tt); ([2], tt)].
  split; [|split].
  - cbn [sorted_keys]. split; [reflexivity|exact I].
  - vm_compute. discriminate.
  - exists [1]. split; [discriminate|]. vm_compute. reflexivity.
Qed.

(** ---- (4) offsets >= 1 with the maximum limit: an empty page ---- *)
Lemma sdk_paginate_max_limit_offset_empty : forall V (l : list (key * V)) (offset : N)
    (reverse : bool),
  1 <= offset -> offset < two64 -> N.of_nat (length l) < u64max ->
  exists next,
    sdk_paginate l (max_limit_req offset false reverse)
    = Some ([], {| ps_next := next; ps_total := 0 |}).
Proof.
  intros V l offset reverse H1 Ho _. exists []. unfold max_limit_req, sdk_paginate.
  cbn [pr_key pr_offset pr_limit pr_count_total pr_reverse is_nil negb].
  rewrite andb_false_r. change (u64max =? 0) with false. cbv iota.
  rewrite sdk_get_iterator_first, wrap64_offset_max by assumption.
  assert (He : offset - 1 < offset) by lia.
  assert (Hw : wrap64 (offset - 1 + 1) = offset).
  { unfold wrap64. replace (offset - 1 + 1) with offset by lia. apply N.mod_small. exact Ho. }
  rewrite (sdk_p_offset_loop_none V _ 0 offset (offset - 1) false None [] He Hw).
  reflexivity.
Qed.

Print Assumptions sdk_paginate_max_limit_one_page.
Print Assumptions sdk_filtered_max_limit_one_page.
Print Assumptions sdk_filtered_max_limit_refuted.
Print Assumptions sdk_paginate_max_limit_offset_empty.
