(** Lemmas about the MetadataAddress model (Metadata/Address.v). *)
From Coq Require Import String Ascii.
From Coq Require Import Arith NArith List Bool Lia.
From PV Require Import Metadata.Address.
Import ListNotations.
Open Scope N_scope.

Lemma firstn_app_exact : forall (A : Type) (n : nat) (u q : list A),
  length u = n -> firstn n (u ++ q) = u.
Proof.
  intros A n u q Hl. rewrite firstn_app, Hl, Nat.sub_diag. cbn [firstn].
  rewrite <- Hl, firstn_all, app_nil_r. reflexivity.
Qed.

Lemma skipn_app_exact : forall (A : Type) (n : nat) (u q : list A),
  length u = n -> skipn n (u ++ q) = q.
Proof.
  intros A n u q Hl. rewrite skipn_app, Hl, Nat.sub_diag. cbn [skipn].
  rewrite <- Hl, skipn_all. reflexivity.
Qed.

Lemma firstn_exact : forall (A : Type) (n : nat) (u : list A), length u = n -> firstn n u = u.
Proof. intros A n u Hl. rewrite <- Hl. apply firstn_all. Qed.

(** the byte slices of a one-part and of a two-part address *)
Lemma b117_one : forall t u, length u = 16%nat -> bytes_1_17 (t :: u) = u.
Proof. intros t u Hl. unfold bytes_1_17. cbn [skipn]. apply firstn_exact, Hl. Qed.

Lemma b117_two : forall t p q, length p = 16%nat -> bytes_1_17 (t :: p ++ q) = p.
Proof. intros t p q Hl. unfold bytes_1_17. cbn [skipn]. apply firstn_app_exact, Hl. Qed.

Lemma b1733_two : forall t p q, length p = 16%nat -> length q = 16%nat ->
  bytes_17_33 (t :: p ++ q) = q.
Proof.
  intros t p q Hp Hq. unfold bytes_17_33.
  change (skipn 17 (t :: p ++ q)) with (skipn 16 (p ++ q)).
  rewrite skipn_app_exact by exact Hp. apply firstn_exact, Hq.
Qed.

Lemma len_one : forall (t : N) u, length u = 16%nat -> length (t :: u) = 17%nat.
Proof. intros t u Hl. cbn [length]. rewrite Hl. reflexivity. Qed.

Lemma len_two : forall (t : N) p q, length p = 16%nat -> length q = 16%nat ->
  length (t :: p ++ q) = 33%nat.
Proof. intros t p q Hp Hq. cbn [length]. rewrite app_length, Hp, Hq. reflexivity. Qed.

Lemma verify_bytes : forall a, maddr_wf a -> verify_format (maddr_bytes a) = Some (maddr_type a).
Proof.
  intros a Hwf. destruct a; cbn [maddr_wf] in Hwf; cbn [maddr_bytes maddr_type type_byte];
    unfold verify_format; cbn [type_of_byte required_len];
    first [ rewrite len_one by exact Hwf | destruct Hwf as [Hp Hq]; rewrite len_two by assumption ];
    reflexivity.
Qed.

Lemma parse_bytes : forall a, maddr_wf a -> parse (maddr_bytes a) = Some a.
Proof.
  intros a Hwf. unfold parse. rewrite verify_bytes by exact Hwf.
  destruct a; cbn [maddr_wf] in Hwf; cbn [maddr_bytes maddr_type type_byte];
    first [ rewrite b117_one by exact Hwf; reflexivity
          | destruct Hwf as [Hp Hq]; rewrite b117_two by exact Hp;
            rewrite b1733_two by assumption; reflexivity ].
Qed.

(** Every byte string the format check accepts is the bytes of exactly one well-formed address. *)
Lemma firstn_skipn_len : forall (A : Type) (l : list A) (a b : nat),
  length l = (a + b)%nat -> length (firstn b (skipn a l)) = b.
Proof. intros A l a b Hl. rewrite firstn_length, skipn_length. lia. Qed.

Lemma split_17 : forall (bz : list N), length bz = 17%nat ->
  bz = hd 0 bz :: bytes_1_17 bz.
Proof.
  intros bz Hl. destruct bz as [|b r]; [discriminate|]. cbn [hd]. unfold bytes_1_17. cbn [skipn].
  rewrite firstn_exact; [reflexivity|]. cbn [length] in Hl. lia.
Qed.

Lemma split_33 : forall (bz : list N), length bz = 33%nat ->
  bz = hd 0 bz :: bytes_1_17 bz ++ bytes_17_33 bz.
Proof.
  intros bz Hl. destruct bz as [|b r]; [discriminate|]. cbn [hd]. unfold bytes_1_17, bytes_17_33.
  change (skipn 17 (b :: r)) with (skipn 16 r). change (skipn 1 (b :: r)) with r.
  assert (Hr : length r = 32%nat) by (cbn [length] in Hl; lia).
  rewrite (firstn_exact _ 16 (skipn 16 r)) by (rewrite skipn_length; lia).
  rewrite firstn_skipn. reflexivity.
Qed.

Lemma type_of_byte_inv : forall b t, type_of_byte b = Some t -> b = type_byte t.
Proof.
  intros b t Ht. unfold type_of_byte in Ht.
  destruct b as [|[[[p|p|]|[p|p|]|]|[[p|p|]|[p|p|]|]|]]; try discriminate;
    injection Ht as Ht; subst t; reflexivity.
Qed.

Lemma parse_sound : forall bz a, parse bz = Some a -> maddr_bytes a = bz /\ maddr_wf a.
Proof.
  intros bz a Hp. unfold parse in Hp. destruct (verify_format bz) as [t|] eqn:Hv; [|discriminate].
  unfold verify_format in Hv. destruct bz as [|b r] eqn:Ebz; [discriminate|]. rewrite <- Ebz in *.
  assert (Hb : hd 0 bz = b) by (rewrite Ebz; reflexivity).
  destruct (type_of_byte b) as [t'|] eqn:Ht; [|discriminate].
  destruct (Nat.eqb (length bz) (required_len t')) eqn:Hlen; [|discriminate].
  apply Nat.eqb_eq in Hlen. injection Hv as Hv. subst t'.
  assert (Htb : b = type_byte t).
  { apply type_of_byte_inv, Ht. }
  destruct t; cbn [required_len] in Hlen; injection Hp as Hp; subst a;
    cbn [maddr_bytes maddr_type maddr_wf]; rewrite <- Htb, <- Hb.
  all: first
    [ split; [symmetry; apply split_17, Hlen
             | unfold bytes_1_17; rewrite firstn_length, skipn_length; lia]
    | split; [symmetry; apply split_33, Hlen
             | split; unfold bytes_1_17, bytes_17_33; rewrite firstn_length, skipn_length; lia] ].
Qed.

Section WithHash.
  Variable name_hash : list byte -> list byte.
  Hypothesis name_hash_len : forall n, length (name_hash n) = 16%nat.

  (** constructors build the bytes of the corresponding structured address *)
  Lemma record_addr_spec : forall su name bz,
    record_addr name_hash su name = Some bz ->
    normalize_name name <> [] /\ bz = maddr_bytes (ARecord su (name_hash (normalize_name name))).
  Proof.
    intros su name bz H. unfold record_addr in H.
    destruct (normalize_name name) as [|c r] eqn:En; [discriminate|].
    injection H as H. subst bz. split; [discriminate|reflexivity].
  Qed.

  Lemma record_spec_addr_spec : forall cu name bz,
    record_spec_addr name_hash cu name = Some bz ->
    normalize_name name <> [] /\ bz = maddr_bytes (ARecordSpec cu (name_hash (normalize_name name))).
  Proof.
    intros cu name bz H. unfold record_spec_addr in H.
    destruct (normalize_name name) as [|c r] eqn:En; [discriminate|].
    injection H as H. subst bz. split; [discriminate|reflexivity].
  Qed.

  Lemma record_addr_total : forall su name, normalize_name name <> [] ->
    record_addr name_hash su name =
      Some (maddr_bytes (ARecord su (name_hash (normalize_name name)))).
  Proof.
    intros su name Hn. unfold record_addr. destruct (normalize_name name); [congruence|reflexivity].
  Qed.

  Lemma record_spec_addr_total : forall cu name, normalize_name name <> [] ->
    record_spec_addr name_hash cu name =
      Some (maddr_bytes (ARecordSpec cu (name_hash (normalize_name name)))).
  Proof.
    intros cu name Hn. unfold record_spec_addr.
    destruct (normalize_name name); [congruence|reflexivity].
  Qed.

  (** derived addresses match the parent *)
  Lemma scope_uuid_of : forall a su, maddr_wf a -> maddr_parent a = Some (AScope su) \/ a = AScope su ->
    scope_uuid (maddr_bytes a) = Some su.
  Proof.
    intros a su Hwf [Hp|Hp].
    - destruct a; cbn [maddr_parent] in Hp; try discriminate; injection Hp as Hp; subst;
        cbn [maddr_wf] in Hwf; destruct Hwf as [H1 H2];
        unfold scope_uuid, primary_uuid; cbn [maddr_bytes maddr_type type_byte];
        rewrite len_two by assumption; cbn -[bytes_1_17]; rewrite b117_two by assumption; reflexivity.
    - subst a. cbn [maddr_wf] in Hwf. unfold scope_uuid, primary_uuid.
      cbn [maddr_bytes maddr_type type_byte]. rewrite len_one by assumption. cbn -[bytes_1_17].
      rewrite b117_one by assumption. reflexivity.
  Qed.

  Lemma cspec_uuid_of : forall a cu, maddr_wf a ->
    maddr_parent a = Some (AContractSpec cu) \/ a = AContractSpec cu ->
    contract_spec_uuid (maddr_bytes a) = Some cu.
  Proof.
    intros a cu Hwf [Hp|Hp].
    - destruct a; cbn [maddr_parent] in Hp; try discriminate; injection Hp as Hp; subst;
        cbn [maddr_wf] in Hwf; destruct Hwf as [H1 H2];
        unfold contract_spec_uuid, primary_uuid; cbn [maddr_bytes maddr_type type_byte];
        rewrite len_two by assumption; cbn -[bytes_1_17]; rewrite b117_two by assumption; reflexivity.
    - subst a. cbn [maddr_wf] in Hwf. unfold contract_spec_uuid, primary_uuid.
      cbn [maddr_bytes maddr_type type_byte]. rewrite len_one by assumption. cbn -[bytes_1_17].
      rewrite b117_one by assumption. reflexivity.
  Qed.

  Lemma parent_matches : forall a p, maddr_wf a -> maddr_parent a = Some p ->
    match p with
    | AScope _ => as_scope_address (maddr_bytes a) = Some (maddr_bytes p)
    | AContractSpec _ => as_contract_spec_address (maddr_bytes a) = Some (maddr_bytes p)
    | _ => False
    end /\ maddr_wf p.
  Proof.
    intros a p Hwf Hp. destruct a; cbn [maddr_parent] in Hp; try discriminate;
      injection Hp as Hp; subst p; cbn [maddr_wf] in *; destruct Hwf as [H1 H2].
    - split; [|exact H1]. unfold as_scope_address.
      rewrite (scope_uuid_of (ASession su ss) su); [reflexivity|split; assumption|left; reflexivity].
    - split; [|exact H1]. unfold as_scope_address.
      rewrite (scope_uuid_of (ARecord su nh) su); [reflexivity|split; assumption|left; reflexivity].
    - split; [|exact H1]. unfold as_contract_spec_address.
      rewrite (cspec_uuid_of (ARecordSpec cu nh) cu); [reflexivity|split; assumption|left; reflexivity].
  Qed.

  (** the whole statement of C14_address_roundtrip *)
  Lemma address_roundtrip : forall a, maddr_wf a ->
    parse (maddr_bytes a) = Some a /\
    verify_format (maddr_bytes a) = Some (maddr_type a) /\
    (forall p, maddr_parent a = Some p ->
       maddr_wf p /\ parse (maddr_bytes p) = Some p /\
       match p with
       | AScope _ => as_scope_address (maddr_bytes a) = Some (maddr_bytes p)
       | AContractSpec _ => as_contract_spec_address (maddr_bytes a) = Some (maddr_bytes p)
       | _ => False
       end).
  Proof.
    intros a Hwf. split; [apply parse_bytes, Hwf|]. split; [apply verify_bytes, Hwf|].
    intros p Hp. destruct (parent_matches a p Hwf Hp) as [Hm Hwp].
    split; [exact Hwp|]. split; [apply parse_bytes, Hwp|exact Hm].
  Qed.

  (** constructors: every address built from 16 byte UUIDs and a non-blank name is well formed,
      is the bytes of the expected structured address, and child constructors from a parent
      address agree with the direct constructors. *)
  Lemma constructors_wf : forall u1 u2 name,
    length u1 = 16%nat -> length u2 = 16%nat -> normalize_name name <> [] ->
    let nh := name_hash (normalize_name name) in
    scope_addr u1 = maddr_bytes (AScope u1) /\
    session_addr u1 u2 = maddr_bytes (ASession u1 u2) /\
    record_addr name_hash u1 name = Some (maddr_bytes (ARecord u1 nh)) /\
    scope_spec_addr u1 = maddr_bytes (AScopeSpec u1) /\
    contract_spec_addr u1 = maddr_bytes (AContractSpec u1) /\
    record_spec_addr name_hash u1 name = Some (maddr_bytes (ARecordSpec u1 nh)) /\
    maddr_wf (ASession u1 u2) /\ maddr_wf (ARecord u1 nh) /\ maddr_wf (ARecordSpec u1 nh) /\
    as_session_address (scope_addr u1) u2 = Some (session_addr u1 u2) /\
    as_record_address name_hash (session_addr u1 u2) name = record_addr name_hash u1 name /\
    as_record_spec_address name_hash (contract_spec_addr u1) name = record_spec_addr name_hash u1 name.
  Proof.
    intros u1 u2 name H1 H2 Hn nh.
    repeat (split; try reflexivity); try assumption; try apply name_hash_len;
      try apply record_addr_total; try apply record_spec_addr_total; try assumption.
    - unfold as_session_address. change (scope_addr u1) with (maddr_bytes (AScope u1)).
      rewrite (scope_uuid_of (AScope u1) u1); [reflexivity|exact H1|right; reflexivity].
    - unfold as_record_address.
      change (session_addr u1 u2) with (maddr_bytes (ASession u1 u2)).
      rewrite (scope_uuid_of (ASession u1 u2) u1); [|split; assumption|left; reflexivity].
      destruct name as [|c r]; [exfalso; apply Hn; reflexivity|reflexivity].
    - unfold as_record_spec_address.
      change (contract_spec_addr u1) with (maddr_bytes (AContractSpec u1)).
      rewrite (cspec_uuid_of (AContractSpec u1) u1); [reflexivity|exact H1|right; reflexivity].
  Qed.
End WithHash.
