(** Proofs about Genesis/NameParams.v (property C18): name stores reached through histories whose
    parameter changes only loosen the limits are rebuilt by their own export; a tightening change
    under an existing name leaves a reachable state whose export is rejected. *)
From Coq Require Import ZArith NArith List Bool Lia Sorted.
From PV Require Import Genesis.RoundTrip Genesis.NameParams Proofs.RoundTripProofs.
Import ListNotations.
Open Scope N_scope.

Lemma talter_forall : forall (R : Type) (P : key * R -> Prop) (f : option R -> option (option R))
    (k : key) (t u : table R),
  Forall P t -> (forall old v, f old = Some (Some v) -> P (k, v)) -> talter f k t = Some u -> Forall P u.
Proof.
  intros R P f k t. induction t as [|[k' r'] t IH]; intros u Ht Hf Hu; simpl in Hu.
  - destruct (f None) as [[v|]|] eqn:E; inversion Hu; subst; repeat constructor. eapply Hf; eauto.
  - inversion Ht as [|? ? Hx Ht']; subst. destruct (kcmp k k').
    + destruct (f (Some r')) as [[v|]|] eqn:E; inversion Hu; subst; [|exact Ht'].
      constructor; [eapply Hf; eauto | exact Ht'].
    + destruct (f None) as [[v|]|] eqn:E; inversion Hu; subst; [|exact Ht].
      constructor; [eapply Hf; eauto | exact Ht].
    + destruct (talter f k t) as [u0|] eqn:E; inversion Hu; subst.
      constructor; [exact Hx | apply IH; [exact Ht' | exact Hf | reflexivity]].
Qed.

Lemma seg_ok_mono : forall p q s, loosens p q -> seg_ok p s = true -> seg_ok q s = true.
Proof.
  intros p q s (H1 & H2 & _) H. unfold seg_ok in *. apply andb_prop in H. destruct H as [A B].
  apply N.leb_le in A. apply N.leb_le in B. apply andb_true_intro. split; apply N.leb_le; lia.
Qed.

Lemma norm_len_some : forall p n n', norm_len p n = Some n' -> n' = n.
Proof. intros p n n' H. unfold norm_len in H. destruct (_ && _); inversion H; reflexivity. Qed.

Lemma norm_len_mono : forall p q n, loosens p q -> norm_len p n = Some n -> norm_len q n = Some n.
Proof.
  intros p q n L H. unfold norm_len in *.
  destruct (forallb (seg_ok p) (split_dot n) && (N.of_nat (length (split_dot n)) <=? np_max_levels p)) eqn:E; [|discriminate].
  apply andb_prop in E. destruct E as [A B].
  assert (A' : forallb (seg_ok q) (split_dot n) = true).
  { rewrite forallb_forall in *. intros x Hx. eapply seg_ok_mono; eauto. }
  assert (B' : (N.of_nat (length (split_dot n)) <=? np_max_levels q) = true).
  { apply N.leb_le in B. apply N.leb_le. destruct L as (_ & _ & L3). lia. }
  rewrite A', B'. reflexivity.
Qed.

Section NameHistory.
  Variable name_key : key -> key.
  Variable addr_valid : key -> bool.
  Notation wf := (name_wf name_key norm_len addr_valid).

  Lemma nstep_bind_wf : forall s r, wf s -> wf (nstep name_key addr_valid s (NBind r)).
  Proof.
    intros [p t] r [Hs Hf]. cbn [ns_params ns_records] in *. cbn [nstep ns_params ns_records].
    unfold name_rec_key.
    destruct (norm_len p (nr_name r)) as [n|] eqn:En; [|split; assumption].
    destruct (addr_valid (nr_addr r)) eqn:Ea; [|split; assumption].
    destruct (talter (name_upd norm_len p r) (name_key n) t) as [u|] eqn:Eu; [|split; assumption].
    split; cbn [ns_params ns_records].
    - eapply talter_sorted; eauto.
    - eapply talter_forall; [exact Hf| |exact Eu].
      intros old v Hv. unfold name_upd in Hv. rewrite En in Hv.
      destruct old; [discriminate|]. inversion Hv; subst v. cbn [fst snd nr_name nr_addr].
      pose proof (norm_len_some _ _ _ En) as ->. repeat split; auto.
  Qed.

  Lemma nstep_params_wf : forall s q, wf s -> loosens (ns_params s) q ->
    wf (nstep name_key addr_valid s (NSetParams q)).
  Proof.
    intros [p t] q [Hs Hf] L. cbn [ns_params ns_records] in *. split; cbn [nstep ns_params ns_records]; [exact Hs|].
    eapply Forall_impl; [|exact Hf]. intros [k r] (H1 & H2 & H3). cbn [fst snd] in *.
    repeat split; auto. eapply norm_len_mono; eauto.
  Qed.

  Lemma nstep_params : forall s r, ns_params (nstep name_key addr_valid s (NBind r)) = ns_params s.
  Proof.
    intros s r. cbn [nstep]. destruct (name_rec_key _ _ _ _ _); [|reflexivity].
    destruct (talter _ _ _); reflexivity.
  Qed.

  Lemma nrun_wf : forall ops s, wf s -> loosening (ns_params s) ops -> wf (nrun name_key addr_valid ops s).
  Proof.
    induction ops as [|op ops IH]; intros s Hw Hl; [exact Hw|].
    cbn [nrun fold_left]. destruct op as [r|q].
    - apply IH; [apply nstep_bind_wf; exact Hw|]. rewrite nstep_params. exact Hl.
    - destruct Hl as [L Hl]. apply IH; [apply nstep_params_wf; assumption|]. exact Hl.
  Qed.

  (** Every name store reached from a well-formed one by binding names and by parameter changes
      that only loosen the limits is rebuilt exactly by InitGenesis from its own export. *)
  Theorem name_roundtrip_under_loosening : forall s0 ops,
    wf s0 -> loosening (ns_params s0) ops ->
    let s := nrun name_key addr_valid ops s0 in
    name_import name_key norm_len addr_valid (name_export s) = Some s.
  Proof. intros s0 ops Hw Hl s. apply name_import_export. apply nrun_wf; assumption. Qed.
End NameHistory.

(** REFUTED for arbitrary governance histories: bind the two-character name "n1" under the default
    limits (minimum segment length 2), then raise the minimum to 3 by MsgUpdateParams: the state
    is reachable, its export is rejected by InitGenesis (SetNameRecord: segment too short). *)
Definition np_default : name_params :=
  {| np_max_seg := 32; np_min_seg := 2; np_max_levels := 16; np_allow_unrestricted := true |}.
Definition np_tight : name_params :=
  {| np_max_seg := 32; np_min_seg := 3; np_max_levels := 16; np_allow_unrestricted := true |}.
Definition tighten_ops : list nop :=
  [NBind {| nr_name := [110; 49]; nr_addr := [1]; nr_restricted := false |}; NSetParams np_tight].

Theorem name_params_tightened_export_rejected :
  let s0 := {| ns_params := np_default; ns_records := [] |} in
  let s := nrun (fun k => k) (fun _ => true) tighten_ops s0 in
  name_wf (fun k => k) norm_len (fun _ => true) s0 /\
  ns_records s <> [] /\
  name_import (fun k => k) norm_len (fun _ => true) (name_export s) = None.
Proof.
  cbv zeta. split; [split; constructor|]. split; vm_compute; [discriminate|reflexivity].
Qed.
