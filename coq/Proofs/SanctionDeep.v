(** Deepening of property C06: the explicit resolutions of the governance EndBlocker, message
    order inside one proposal, funding of temporary entries, exactness of clean-up.
    Lemmas about the model Sanction/Sanction.v; the theorems are restated in Properties/C06.v. *)
From Coq Require Import ZArith NArith List Bool Lia.
From PV Require Import Sanction.Sanction Proofs.SanctionProofs.
Import ListNotations.
Open Scope Z_scope.

(** * Look-ups through the list operations of the keeper *)

Lemma lookup_del_prop : forall a q pid l,
  temp_lookup a q (del_prop_temps pid l) = if N.eqb q pid then None else temp_lookup a q l.
Proof.
  intros a q pid l; induction l as [|[[a' p'] b'] r IH]; cbn [del_prop_temps filter temp_lookup].
  - destruct (N.eqb q pid); reflexivity.
  - fold (del_prop_temps pid r). destruct (N.eqb p' pid) eqn:Ep; cbn [negb].
    + rewrite IH. apply N.eqb_eq in Ep; subst p'.
      destruct (N.eqb q pid) eqn:Eq; [reflexivity|].
      rewrite andb_false_r; reflexivity.
    + cbn [temp_lookup]. rewrite IH.
      destruct (N.eqb a a' && N.eqb q p') eqn:E; [|reflexivity].
      apply andb_true_iff in E; destruct E as [_ E]; apply N.eqb_eq in E; subst p'. rewrite Ep; reflexivity.
Qed.

Lemma lookup_del_addr : forall a q addrs l,
  temp_lookup a q (del_addr_temps addrs l) = if memN a addrs then None else temp_lookup a q l.
Proof.
  intros a q addrs l; induction l as [|[[a' p'] b'] r IH]; cbn [del_addr_temps filter temp_lookup].
  - destruct (memN a addrs); reflexivity.
  - fold (del_addr_temps addrs r). destruct (memN a' addrs) eqn:Em; cbn [negb].
    + rewrite IH. destruct (memN a addrs) eqn:Ea; [reflexivity|].
      destruct (N.eqb a a') eqn:E; [apply N.eqb_eq in E; subst; congruence | reflexivity].
    + cbn [temp_lookup]. rewrite IH.
      destruct (N.eqb a a' && N.eqb q p') eqn:E; [|reflexivity].
      apply andb_true_iff in E; destruct E as [E _]; apply N.eqb_eq in E; subst a'. rewrite Em; reflexivity.
Qed.

Lemma del_addr_app : forall l1 l2 t, del_addr_temps l2 (del_addr_temps l1 t) = del_addr_temps (l1 ++ l2) t.
Proof.
  intros l1 l2 t; induction t as [|[[a p] b] r IH]; [reflexivity|].
  cbn [del_addr_temps filter]. fold (del_addr_temps l1 r) (del_addr_temps (l1 ++ l2) r).
  assert (Hm : memN a (l1 ++ l2) = memN a l1 || memN a l2) by (unfold memN; apply existsb_app).
  rewrite Hm. destruct (memN a l1); cbn [negb orb].
  - exact IH.
  - cbn [del_addr_temps filter]. fold (del_addr_temps l2 (del_addr_temps l1 r)). rewrite IH.
    destruct (memN a l2); reflexivity.
Qed.

Lemma add_temps_lookup : forall c b pid addrs l l' a q,
  add_temps c b pid addrs l = Some l' ->
  temp_lookup a q l' = if N.eqb q pid && memN a addrs then Some b else temp_lookup a q l.
Proof.
  intros c b pid addrs l l' a q H; unfold add_temps in H.
  destruct (b && existsb (unsanct c) addrs); [discriminate|]. inversion H; subst l'; clear H.
  revert l; induction addrs as [|x r IH]; intros l; cbn [fold_left memN existsb].
  - rewrite andb_false_r; reflexivity.
  - rewrite IH. cbn [temp_lookup]. fold (memN a r).
    destruct (N.eqb q pid) eqn:Eq; cbn [andb]; [|rewrite andb_false_r; reflexivity].
    destruct (memN a r); cbn [orb andb]; [rewrite orb_true_r; reflexivity|].
    rewrite orb_false_r. rewrite andb_true_r. reflexivity.
Qed.

Lemma add_temps_none : forall c b pid addrs l,
  add_temps c b pid addrs l = None <-> b = true /\ existsb (unsanct c) addrs = true.
Proof.
  intros c b pid addrs l; unfold add_temps.
  destruct b; cbn [andb]; [destruct (existsb (unsanct c) addrs)|]; split; intros H; try discriminate; auto; destruct H; discriminate.
Qed.

(** * Which message of a proposal decides *)

(** The hook acts on a message only when the proposal's deposit covers the non-zero immediate
    minimum of the message's kind. *)
Definition msg_active (s : state) (pr : proposal) (m : msg) : bool :=
  match m with
  | MSanction _ => negb (zero2 (smin s)) && le2 (smin s) (total_deposit pr)
  | MUnsanction _ => negb (zero2 (umin s)) && le2 (umin s) (total_deposit pr)
  | MParams _ _ => false
  end.

Definition msg_dir (a : N) (m : msg) : option bool :=
  match m with
  | MSanction l => if memN a l then Some true else None
  | MUnsanction l => if memN a l then Some false else None
  | MParams _ _ => None
  end.

(** Direction (true = sanction) of the LAST message of the list that names [a]. *)
Fixpoint last_dir (a : N) (ms : list msg) : option bool :=
  match ms with
  | [] => None
  | m :: r => match last_dir a r with
              | Some b => Some b
              | None => msg_dir a m
              end
  end.

Definition bad_sanction (c : config) (m : msg) : bool :=
  match m with MSanction l => existsb (unsanct c) l | _ => false end.

Lemma hook_msg_lookup : forall c s pr l m l' a q,
  hook_msg c s pr (Some l) m = Some l' ->
  temp_lookup a q l' =
  match (if msg_active s pr m then msg_dir a m else None) with
  | Some b => if N.eqb q (p_id pr) then Some b else temp_lookup a q l
  | None => temp_lookup a q l
  end.
Proof.
  intros c s pr l m l' a q H; cbn [hook_msg] in H; destruct m as [addrs|addrs|x y]; cbn [msg_active msg_dir].
  - destruct (negb (zero2 (smin s)) && le2 (smin s) (total_deposit pr)).
    + rewrite (add_temps_lookup _ _ _ _ _ _ a q H). destruct (memN a addrs); [|rewrite andb_false_r; reflexivity].
      rewrite andb_true_r; reflexivity.
    + inversion H; reflexivity.
  - destruct (negb (zero2 (umin s)) && le2 (umin s) (total_deposit pr)).
    + rewrite (add_temps_lookup _ _ _ _ _ _ a q H). destruct (memN a addrs); [|rewrite andb_false_r; reflexivity].
      rewrite andb_true_r; reflexivity.
    + inversion H; reflexivity.
  - inversion H; reflexivity.
Qed.

Lemma hook_fold_none : forall c s pr ms, fold_left (hook_msg c s pr) ms None = None.
Proof. intros c s pr ms; induction ms as [|m r IH]; [reflexivity | exact IH]. Qed.

Lemma last_dir_filter_cons : forall a (f : msg -> bool) m r,
  last_dir a (filter f (m :: r)) =
  match last_dir a (filter f r) with Some b => Some b | None => if f m then msg_dir a m else None end.
Proof.
  intros a f m r; cbn [filter]; destruct (f m); cbn [last_dir]; [reflexivity|].
  destruct (last_dir a (filter f r)); reflexivity.
Qed.

Lemma hook_fold_lookup : forall c s pr ms l l' a q,
  fold_left (hook_msg c s pr) ms (Some l) = Some l' ->
  temp_lookup a q l' =
  match last_dir a (filter (msg_active s pr) ms) with
  | Some b => if N.eqb q (p_id pr) then Some b else temp_lookup a q l
  | None => temp_lookup a q l
  end.
Proof.
  intros c s pr; induction ms as [|m r IH]; intros l l' a q H; cbn [fold_left] in H.
  - inversion H; reflexivity.
  - destruct (hook_msg c s pr (Some l) m) as [l1|] eqn:Em; [|rewrite hook_fold_none in H; discriminate].
    rewrite (IH _ _ a q H), last_dir_filter_cons, (hook_msg_lookup _ _ _ _ _ _ a q Em).
    destruct (last_dir a (filter (msg_active s pr) r)) as [b|].
    + destruct (if msg_active s pr m then msg_dir a m else None); destruct (N.eqb q (p_id pr)); reflexivity.
    + reflexivity.
Qed.

(** The hook: after it ran for proposal [pr], the entry of (a, its id) is what the LAST active
    message naming [a] says; everything else is untouched. *)
Lemma run_hook_lookup : forall c s pr s' a q, run_hook c s pr = Some s' ->
  temp_entry s' a q =
  match last_dir a (filter (msg_active s pr) (p_msgs pr)) with
  | Some b => if N.eqb q (p_id pr) then Some b else temp_entry s a q
  | None => temp_entry s a q
  end.
Proof.
  intros c s pr s' a q H; unfold run_hook in H.
  destruct (fold_left (hook_msg c s pr) (p_msgs pr) (Some (temps s))) as [l|] eqn:E; [|discriminate].
  inversion H; subst; clear H. unfold temp_entry; cbn [temps set_temps]. apply (hook_fold_lookup _ _ _ _ _ _ a q E).
Qed.

(** The hook fails exactly when an active sanction message names a protected address. *)
Lemma hook_fold_fails : forall c s pr ms l,
  fold_left (hook_msg c s pr) ms (Some l) = None <->
  existsb (fun m => msg_active s pr m && bad_sanction c m) ms = true.
Proof.
  intros c s pr; induction ms as [|m r IH]; intros l; cbn [fold_left existsb].
  - split; discriminate.
  - destruct (hook_msg c s pr (Some l) m) as [l1|] eqn:Em.
    + rewrite IH. assert (Hm : msg_active s pr m && bad_sanction c m = false).
      { cbn [hook_msg] in Em; destruct m as [addrs|addrs|x y]; cbn [msg_active bad_sanction]; try apply andb_false_r.
        destruct (negb (zero2 (smin s)) && le2 (smin s) (total_deposit pr)); [|reflexivity].
        destruct (existsb (unsanct c) addrs) eqn:Eu; [|reflexivity].
        assert (add_temps c true (p_id pr) addrs l = None) by (apply add_temps_none; auto). congruence. }
      rewrite Hm; reflexivity.
    + rewrite hook_fold_none. split; [intros _|reflexivity].
      cbn [hook_msg] in Em; destruct m as [addrs|addrs|x y]; cbn [msg_active bad_sanction].
      * destruct (negb (zero2 (smin s)) && le2 (smin s) (total_deposit pr)); [|discriminate].
        apply add_temps_none in Em; destruct Em as [_ Em]; rewrite Em; reflexivity.
      * destruct (negb (zero2 (umin s)) && le2 (umin s) (total_deposit pr)); [|discriminate].
        apply add_temps_none in Em; destruct Em; discriminate.
      * discriminate.
Qed.

Lemma run_hook_fails : forall c s pr,
  run_hook c s pr = None <-> existsb (fun m => msg_active s pr m && bad_sanction c m) (p_msgs pr) = true.
Proof.
  intros c s pr; unfold run_hook.
  destruct (fold_left (hook_msg c s pr) (p_msgs pr) (Some (temps s))) as [l|] eqn:E.
  - split; [discriminate|]. intros H. apply (proj2 (hook_fold_fails c s pr (p_msgs pr) (temps s))) in H. congruence.
  - split; [intros _; apply (proj1 (hook_fold_fails c s pr (p_msgs pr) (temps s))); exact E | reflexivity].
Qed.

(** * Execution of a passed proposal's messages *)

Definition bad_msg (c : config) (m : msg) : bool :=
  match m with
  | MSanction l => existsb (unsanct c) l
  | MUnsanction _ => false
  | MParams a b => negb (nonneg2 a && nonneg2 b)
  end.

(** Whether a message fails does not depend on the state. *)
Lemma exec_msg_none : forall c s m, exec_msg c s m = None <-> bad_msg c m = true.
Proof.
  intros c s m; destruct m as [l|l|a b]; cbn [exec_msg bad_msg]; unfold sanction_addrs.
  - destruct (existsb (unsanct c) l); split; intros; try discriminate; reflexivity.
  - split; discriminate.
  - destruct (nonneg2 a && nonneg2 b); cbn [negb]; split; intros; try discriminate; reflexivity.
Qed.

Lemma exec_msgs_none : forall c ms s, exec_msgs c s ms = None <-> existsb (bad_msg c) ms = true.
Proof.
  intros c; induction ms as [|m r IH]; intros s; cbn [exec_msgs existsb].
  - split; discriminate.
  - destruct (exec_msg c s m) as [s1|] eqn:E.
    + rewrite IH. assert (bad_msg c m = false).
      { destruct (bad_msg c m) eqn:B; [|reflexivity]. apply (exec_msg_none c s) in B; congruence. }
      rewrite H; reflexivity.
    + apply exec_msg_none in E; rewrite E; split; reflexivity.
Qed.

Lemma memN_app : forall a l1 l2, memN a (l1 ++ l2) = memN a l1 || memN a l2.
Proof. intros; unfold memN; apply existsb_app. Qed.

Lemma memN_filter_not : forall a l addrs,
  memN a (filter (fun x => negb (memN x addrs)) l) = memN a l && negb (memN a addrs).
Proof.
  intros a l addrs; induction l as [|x r IH]; [reflexivity|].
  cbn [filter]. destruct (memN x addrs) eqn:Ex; cbn [negb].
  - rewrite IH. cbn [memN existsb]; fold (memN a r).
    destruct (N.eqb a x) eqn:E; cbn [orb]; [|reflexivity].
    apply N.eqb_eq in E; subst x; rewrite Ex; cbn [negb]. rewrite !andb_false_r; reflexivity.
  - cbn [memN existsb]; fold (memN a r) (memN a (filter (fun x0 => negb (memN x0 addrs)) r)). rewrite IH.
    destruct (N.eqb a x) eqn:E; cbn [orb]; [|reflexivity].
    apply N.eqb_eq in E; subst x; rewrite Ex; reflexivity.
Qed.

Lemma exec_msg_perm : forall c s m s' a, exec_msg c s m = Some s' ->
  memN a (perm s') = match msg_dir a m with Some b => b | None => memN a (perm s) end.
Proof.
  intros c s m s' a H; destruct m as [l|l|x y]; cbn [exec_msg msg_dir] in *.
  - unfold sanction_addrs in H; destruct (existsb (unsanct c) l); [discriminate|]. inversion H; subst; clear H.
    cbn [perm set_temps set_perm]. rewrite memN_app. destruct (memN a l); reflexivity.
  - inversion H; subst; clear H. unfold unsanction_addrs; cbn [perm set_temps set_perm].
    rewrite memN_filter_not. destruct (memN a l); cbn [negb]; [apply andb_false_r | apply andb_true_r].
  - destruct (nonneg2 x && nonneg2 y); [|discriminate]. inversion H; subst; reflexivity.
Qed.

(** When a proposal passes, the permanent status of an address is decided by the LAST message
    naming it (message order). *)
Lemma exec_msgs_perm : forall c ms s s' a, exec_msgs c s ms = Some s' ->
  memN a (perm s') = match last_dir a ms with Some b => b | None => memN a (perm s) end.
Proof.
  intros c; induction ms as [|m r IH]; intros s s' a H; cbn [exec_msgs last_dir] in *.
  - inversion H; reflexivity.
  - destruct (exec_msg c s m) as [s1|] eqn:E; [|discriminate].
    rewrite (IH _ _ a H), (exec_msg_perm _ _ _ _ a E). destruct (last_dir a r); reflexivity.
Qed.

Lemma msg_addrs_cons : forall m r, msg_addrs (m :: r) = msg_addrs [m] ++ msg_addrs r.
Proof. intros; unfold msg_addrs; cbn [flat_map]; rewrite app_nil_r; reflexivity. Qed.

Lemma exec_msg_temps : forall c s m s', exec_msg c s m = Some s' ->
  temps s' = del_addr_temps (msg_addrs [m]) (temps s).
Proof.
  intros c s m s' H; destruct m as [l|l|x y]; cbn [exec_msg] in H; unfold msg_addrs; cbn [flat_map]; rewrite ?app_nil_r.
  - unfold sanction_addrs in H; destruct (existsb (unsanct c) l); [discriminate|]. inversion H; reflexivity.
  - inversion H; reflexivity.
  - destruct (nonneg2 x && nonneg2 y); [|discriminate]. inversion H; subst; cbn [temps set_params].
    unfold del_addr_temps. induction (temps s) as [|[[a p] b] r IH]; [reflexivity|]. cbn [filter memN existsb negb]. f_equal; exact IH.
Qed.

(** ... and every temporary entry (of ANY proposal) of every address it names is deleted; no
    other entry is. *)
Lemma exec_msgs_temps : forall c ms s s', exec_msgs c s ms = Some s' ->
  temps s' = del_addr_temps (msg_addrs ms) (temps s).
Proof.
  intros c; induction ms as [|m r IH]; intros s s' H; cbn [exec_msgs] in H.
  - inversion H; subst. unfold msg_addrs; cbn [flat_map]. unfold del_addr_temps.
    induction (temps s') as [|[[a p] b] t IHt]; [reflexivity|]. cbn [filter memN existsb negb]. f_equal; exact IHt.
  - destruct (exec_msg c s m) as [s1|] eqn:E; [|discriminate].
    rewrite (IH _ _ H), (exec_msg_temps _ _ _ _ E), del_addr_app, <- msg_addrs_cons; reflexivity.
Qed.

(** * The resolutions of the EndBlocker, one by one *)

Lemma refund_all_core' : forall deps s, perm (refund_all s deps) = perm s /\ temps (refund_all s deps) = temps s /\
  props (refund_all s deps) = props s /\ smin (refund_all s deps) = smin s /\ umin (refund_all s deps) = umin s /\
  next_id (refund_all s deps) = next_id s /\ now (refund_all s deps) = now s.
Proof.
  induction deps as [|d r IH]; intros s; [repeat split|].
  change (refund_all s (d :: r)) with (refund_all (credit s (fst d) (snd d)) r).
  destruct (IH (credit s (fst d) (snd d))) as [A [B [C [D [E [F G]]]]]]. repeat split; assumption.
Qed.

Lemma refund_all_temps : forall deps s, temps (refund_all s deps) = temps s.
Proof. intros deps s; destruct (refund_all_core' deps s) as [_ [B _]]; exact B. Qed.

(** Expired in the deposit period (minimum deposit not reached at the deadline). *)
Lemma expire_one_exact : forall c s pid pr, get_prop pid (props s) = Some pr ->
  let s' := expire_one c s pid in
  temps s' = del_prop_temps pid (temps s) /\ perm s' = perm s /\ is_live s' pid = false /\
  smin s' = smin s /\ umin s' = umin s /\ (forall q, q <> pid -> is_live s' q = is_live s q).
Proof.
  intros c s pid pr Eg; unfold expire_one; rewrite Eg.
  set (s1 := set_props s (remove_prop pid (props s))).
  assert (H : forall s2, s2 = (if c_burn_prevote c then s1 else refund_all s1 (p_deps pr)) ->
              perm s2 = perm s /\ temps s2 = temps s /\ props s2 = remove_prop pid (props s) /\ smin s2 = smin s /\ umin s2 = umin s).
  { intros s2 ->; destruct (c_burn_prevote c); [repeat split|].
    destruct (refund_all_core' (p_deps pr) s1) as [A [B [C [D [E _]]]]]; rewrite A, B, C, D, E; repeat split. }
  destruct (H _ eq_refl) as [A [B [C [D E]]]]. cbn zeta.
  cbn [temps perm smin umin set_temps]. rewrite A, B, D, E. repeat split.
  - unfold is_live; cbn [props set_temps]; rewrite C, get_prop_remove_same; reflexivity.
  - intros q Hq; unfold is_live; cbn [props set_temps]; rewrite C, (get_prop_remove_other pid q _ Hq); reflexivity.
Qed.

(** What is common to "rejected" (quorum not reached, everybody abstains, veto, threshold not
    reached) and "passed but a message failed": exactly the proposal's own temporary entries are
    deleted, the permanent set and the params are as before (all changes made by the messages
    executed before the failing one are rolled back, including their deletion of other proposals'
    temporary entries), the proposal is gone, no balance goes down. *)
Definition cleaned_only_own (s s' : state) (pid : N) : Prop :=
  temps s' = del_prop_temps pid (temps s) /\ perm s' = perm s /\ is_live s' pid = false /\
  smin s' = smin s /\ umin s' = umin s /\ (forall q, q <> pid -> is_live s' q = is_live s q).

Lemma tally_closing : forall (burn : bool) s pr pid,
  let s1 := if burn then s else refund_all s (p_deps pr) in
  let s2 := set_props s1 (remove_prop pid (props s1)) in
  perm s2 = perm s /\ temps s2 = temps s /\ props s2 = remove_prop pid (props s) /\ smin s2 = smin s /\ umin s2 = umin s.
Proof.
  intros burn s pr pid; destruct burn; cbn zeta; cbn [perm temps props smin umin set_props]; [repeat split|].
  destruct (refund_all_core' (p_deps pr) s) as [A [B [C [D [E _]]]]]; rewrite A, B, C, D, E; repeat split.
Qed.

Lemma tally_one_rejected : forall c vp s pid pr burn,
  get_prop pid (props s) = Some pr -> p_expedited pr = false ->
  tally c false (p_vote pr) = (false, burn) ->
  cleaned_only_own s (tally_one c vp s pid) pid.
Proof.
  intros c vp s pid pr burn Eg Ex Ht; unfold tally_one; rewrite Eg, Ex, Ht; cbn [andb].
  destruct (tally_closing burn s pr pid) as [A [B [C [D E]]]]. cbn zeta in *.
  unfold cleaned_only_own; cbn [temps perm smin umin set_temps]. rewrite A, B, D, E. repeat split.
  - unfold is_live; cbn [props set_temps]; rewrite C, get_prop_remove_same; reflexivity.
  - intros q Hq; unfold is_live; cbn [props set_temps]; rewrite C, (get_prop_remove_other pid q _ Hq); reflexivity.
Qed.

Lemma tally_one_failed : forall c vp s pid pr burn,
  get_prop pid (props s) = Some pr ->
  tally c (p_expedited pr) (p_vote pr) = (true, burn) ->
  existsb (bad_msg c) (p_msgs pr) = true ->
  cleaned_only_own s (tally_one c vp s pid) pid.
Proof.
  intros c vp s pid pr burn Eg Ht Hbad; unfold tally_one; rewrite Eg, Ht; cbn [negb]; rewrite andb_false_r.
  destruct (tally_closing burn s pr pid) as [A [B [C [D E]]]]. cbn zeta in *.
  match goal with |- context [exec_msgs c ?x _] => assert (Hx : exec_msgs c x (p_msgs pr) = None) by (apply exec_msgs_none; exact Hbad) end.
  rewrite Hx. unfold cleaned_only_own; cbn [temps perm smin umin set_temps]. rewrite A, B, D, E. repeat split.
  - unfold is_live; cbn [props set_temps]; rewrite C, get_prop_remove_same; reflexivity.
  - intros q Hq; unfold is_live; cbn [props set_temps]; rewrite C, (get_prop_remove_other pid q _ Hq); reflexivity.
Qed.

(** Passed and every message executed. *)
Lemma tally_one_passed : forall c vp s pid pr burn,
  get_prop pid (props s) = Some pr ->
  tally c (p_expedited pr) (p_vote pr) = (true, burn) ->
  existsb (bad_msg c) (p_msgs pr) = false ->
  let s' := tally_one c vp s pid in
  temps s' = del_addr_temps (msg_addrs (p_msgs pr)) (temps s) /\
  (forall a, memN a (perm s') = match last_dir a (p_msgs pr) with Some b => b | None => memN a (perm s) end) /\
  is_live s' pid = false /\ (forall q, q <> pid -> is_live s' q = is_live s q).
Proof.
  intros c vp s pid pr burn Eg Ht Hbad; unfold tally_one; rewrite Eg, Ht; cbn [negb]; rewrite andb_false_r.
  destruct (tally_closing burn s pr pid) as [A [B [C [D E]]]]. cbn zeta in *.
  match goal with |- context [exec_msgs c ?x _] => set (s2 := x) in * end.
  destruct (exec_msgs c s2 (p_msgs pr)) as [s3|] eqn:Ex.
  - destruct (exec_msgs_spec _ _ _ _ Ex) as [B1 _].
    rewrite (exec_msgs_temps _ _ _ _ Ex), B. split; [reflexivity|]. split.
    + intros a; rewrite (exec_msgs_perm _ _ _ _ a Ex), A; reflexivity.
    + split.
      * unfold is_live; rewrite B1, C, get_prop_remove_same; reflexivity.
      * intros q Hq; unfold is_live; rewrite B1, C, (get_prop_remove_other pid q _ Hq); reflexivity.
  - apply exec_msgs_none in Ex; congruence.
Qed.

(** An expedited proposal that does not pass is converted: it stays live as a regular proposal
    without votes, deposits kept, and the sanction hook runs once more on it (the second time the
    hook sees it with status "voting period"); when the hook fails nothing is written. *)
Lemma tally_one_converted : forall c vp s pid pr burn,
  get_prop pid (props s) = Some pr -> p_expedited pr = true ->
  tally c true (p_vote pr) = (false, burn) ->
  let s' := tally_one c vp s pid in
  let s1 := set_props s (put_prop (converted pr vp) (props s)) in
  s' = match run_hook c s1 (converted pr vp) with Some s2 => s2 | None => s1 end /\
  perm s' = perm s /\ bal s' = bal s /\ balb s' = balb s /\ is_live s' pid = true /\
  (existsb (fun m => msg_active s pr m && bad_sanction c m) (p_msgs pr) = true -> temps s' = temps s) /\
  (existsb (fun m => msg_active s pr m && bad_sanction c m) (p_msgs pr) = false ->
   forall a q, temp_entry s' a q =
     match last_dir a (filter (msg_active s pr) (p_msgs pr)) with
     | Some b => if N.eqb q pid then Some b else temp_entry s a q
     | None => temp_entry s a q
     end).
Proof.
  intros c vp s pid pr burn Eg Ex Ht; unfold tally_one; rewrite Eg, Ex, Ht; cbn [andb negb]. cbn zeta.
  set (pr' := converted pr vp). set (s1 := set_props s (put_prop pr' (props s))).
  destruct (get_prop_In _ _ _ Eg) as [Hpr Hpid].
  assert (Hact : forall m, msg_active s1 pr' m = msg_active s pr m) by (intros m; destruct m; reflexivity).
  assert (Hex : existsb (fun m => msg_active s1 pr' m && bad_sanction c m) (p_msgs pr') =
                existsb (fun m => msg_active s pr m && bad_sanction c m) (p_msgs pr)).
  { cbn [p_msgs pr' converted]. induction (p_msgs pr) as [|m r IH]; [reflexivity|]. cbn [existsb]; rewrite Hact, IH; reflexivity. }
  assert (Hfil : filter (msg_active s1 pr') (p_msgs pr') = filter (msg_active s pr) (p_msgs pr)).
  { cbn [p_msgs pr' converted]. apply filter_ext; exact Hact. }
  assert (Hl1 : is_live s1 pid = true).
  { unfold is_live; subst s1; cbn [props set_props]. rewrite get_prop_put, Eg; reflexivity. }
  split; [reflexivity|].
  destruct (run_hook c s1 pr') as [s2|] eqn:Eh.
  - destruct (run_hook_spec _ _ _ _ Eh) as [Hp [Hr [Hn [Hb [Hbb _]]]]].
    rewrite Hp, Hb, Hbb. repeat split.
    + unfold is_live; rewrite Hr; exact Hl1.
    + intros Hbad; rewrite <- Hex in Hbad. apply run_hook_fails in Hbad; congruence.
    + intros _ a q. rewrite (run_hook_lookup _ _ _ _ a q Eh), Hfil. cbn [p_id pr' converted]. rewrite Hpid. reflexivity.
  - repeat split.
    + exact Hl1.
    + intros Hbad a q. apply run_hook_fails in Eh. rewrite Hex in Eh; congruence.
Qed.

(** * New temporary entries are funded *)

(** The proposal is live and its total deposit covers the whole non-empty immediate minimum of
    the entry's kind. *)
Definition funded (s : state) (p : N) (b : bool) : Prop :=
  exists pr, get_prop p (props s) = Some pr /\
    let thr := if b then smin s else umin s in
    zero2 thr = false /\ le2 thr (total_deposit pr) = true.

Lemma last_dir_some : forall a ms b, last_dir a ms = Some b -> exists m, In m ms /\ msg_dir a m = Some b.
Proof.
  intros a; induction ms as [|m r IH]; intros b H; cbn [last_dir] in H; [discriminate|].
  destruct (last_dir a r) as [b'|] eqn:E.
  - inversion H; subst. destruct (IH _ eq_refl) as [m' [Hin Hd]]. exists m'; split; [right; exact Hin | exact Hd].
  - exists m; split; [left; reflexivity | exact H].
Qed.

Lemma active_dir_funded : forall s pr a m b, msg_active s pr m = true -> msg_dir a m = Some b ->
  let thr := if b then smin s else umin s in zero2 thr = false /\ le2 thr (total_deposit pr) = true.
Proof.
  intros s pr a m b Ha Hd; destruct m as [l|l|x y]; cbn [msg_active msg_dir] in *; try discriminate.
  - destruct (memN a l); [|discriminate]. inversion Hd; subst. apply andb_true_iff in Ha; destruct Ha as [H1 H2].
    apply negb_true_iff in H1; split; assumption.
  - destruct (memN a l); [|discriminate]. inversion Hd; subst. apply andb_true_iff in Ha; destruct Ha as [H1 H2].
    apply negb_true_iff in H1; split; assumption.
Qed.

(** In terms of what a reader of the store sees (look-ups): an entry whose value is [b] after
    the hook and was not [b] before belongs to the hook's proposal and is funded. *)
Lemma run_hook_funded : forall c s pr s', run_hook c s pr = Some s' -> get_prop (p_id pr) (props s) = Some pr ->
  forall a p b, temp_entry s' a p = Some b -> temp_entry s a p = Some b \/ (p = p_id pr /\ funded s' p b).
Proof.
  intros c s pr s' H Hg a p b Hl. rewrite (run_hook_lookup _ _ _ _ a p H) in Hl.
  destruct (last_dir a (filter (msg_active s pr) (p_msgs pr))) as [d|] eqn:Ed; [|left; exact Hl].
  destruct (N.eqb p (p_id pr)) eqn:Ep; [|left; exact Hl].
  apply N.eqb_eq in Ep. inversion Hl; subst d. right; split; [exact Ep|].
  destruct (last_dir_some _ _ _ Ed) as [m [Hin Hd]]. apply filter_In in Hin; destruct Hin as [_ Ha].
  destruct (run_hook_spec _ _ _ _ H) as [_ [Hr [_ [_ [_ [Hs [Hu _]]]]]]].
  exists pr. subst p. rewrite Hr. split; [exact Hg|]. rewrite Hs, Hu. eapply active_dir_funded; eauto.
Qed.

Lemma get_prop_put_same : forall pr l y, get_prop (p_id pr) l = Some y -> get_prop (p_id pr) (put_prop pr l) = Some pr.
Proof.
  intros pr l; induction l as [|x r IH]; intros y H; cbn [get_prop put_prop map] in *; [discriminate|].
  destruct (N.eqb (p_id x) (p_id pr)) eqn:E.
  - rewrite N.eqb_refl; reflexivity.
  - rewrite E. eapply IH; exact H.
Qed.

Lemma add_deposit_funded : forall c s pid who amt vp s', add_deposit c s pid who amt vp = Some s' ->
  forall a p b, temp_entry s' a p = Some b -> temp_entry s a p = Some b \/ (p = pid /\ funded s' p b).
Proof.
  intros c s pid who amt vp s' H a p b Hl; unfold add_deposit in H.
  destruct (get_prop pid (props s)) as [pr|] eqn:Eg; [|discriminate].
  destruct (negb (denoms_ok c amt)); [discriminate|].
  destruct (debit c s who amt) as [s1|] eqn:Ed; [|discriminate].
  destruct (get_prop_In _ _ _ Eg) as [Hpr Hpid].
  destruct (debit_spec _ _ _ _ _ Ed) as [Hc1 _]. unfold core in Hc1; inversion Hc1 as [[Hp1 Ht1 Hr1 Hn1 Hs1 Hu1]].
  match type of H with run_hook c ?x ?y = _ => set (pr2 := y) in *; set (s2 := x) in * end.
  assert (Hid : p_id pr2 = pid).
  { subst pr2; destruct (p_status pr); [destruct (le2 (min_deposit c pr) _)|]; cbn; exact Hpid. }
  assert (Hg2 : get_prop (p_id pr2) (props s2) = Some pr2).
  { subst s2; cbn [props set_props]; rewrite Hr1. eapply get_prop_put_same. rewrite Hid; exact Eg. }
  assert (Hte : temp_entry s2 a p = temp_entry s a p).
  { unfold temp_entry; subst s2; cbn [temps set_props]. first [rewrite Ht1; reflexivity | rewrite <- Ht1; reflexivity | reflexivity]. }
  destruct (run_hook_funded _ _ _ _ H Hg2 _ _ _ Hl) as [Ho|[E1 E2]].
  - left; rewrite <- Hte; exact Ho.
  - right; split; [congruence | exact E2].
Qed.

(** "Expedited and live", as a function of the state. *)
Definition exped (s : state) (p : N) : bool :=
  match get_prop p (props s) with Some pr => p_expedited pr | None => false end.

(** Resolution steps create (or change) entries only for a proposal they convert. *)
Definition conv_only (s s' : state) : Prop :=
  (forall p, exped s' p = true -> exped s p = true) /\
  (forall a p b, temp_entry s' a p = Some b -> temp_entry s a p = Some b \/
                 (exped s p = true /\ exped s' p = false /\ is_live s' p = true)).

Lemma conv_only_refl : forall s, conv_only s s.
Proof. intros s; split; [auto | intros; left; assumption]. Qed.

Lemma conv_only_trans : forall c s s1 s2, good_res c s s1 -> good_res c s1 s2 ->
  conv_only s s1 -> conv_only s1 s2 -> conv_only s s2.
Proof.
  intros c s s1 s2 G1 G2 [A1 A2] [B1 B2]; split; [auto|].
  intros a p b Hl. destruct (B2 _ _ _ Hl) as [H1|[H1 [H2 H3]]].
  - destruct (A2 _ _ _ H1) as [H0|[H0 [H0' H0'']]]; [left; exact H0|].
    right; split; [exact H0|]. split.
    + destruct (exped s2 p) eqn:E; [apply B1 in E; congruence | reflexivity].
    + destruct (is_live s2 p) eqn:E; [reflexivity|].
      destruct G2 as [_ [_ [_ [_ G5]]]]. exfalso; eapply (G5 p H0'' E). eapply lookup_In; exact Hl.
  - right; split; [apply A1; exact H1 | split; assumption].
Qed.

Lemma exped_remove : forall s s' pid p, props s' = remove_prop pid (props s) -> exped s' p = true -> exped s p = true.
Proof.
  intros s s' pid p Hr H; unfold exped in *; rewrite Hr in H.
  destruct (N.eq_dec p pid) as [E|E].
  - subst; rewrite get_prop_remove_same in H; discriminate.
  - rewrite (get_prop_remove_other pid p _ E) in H; exact H.
Qed.

Lemma expire_one_conv : forall c s pid, conv_only s (expire_one c s pid).
Proof.
  intros c s pid. destruct (get_prop pid (props s)) as [pr|] eqn:Eg.
  - destruct (expire_one_exact c s pid pr Eg) as [A _]. cbn zeta in A.
    assert (Hr : props (expire_one c s pid) = remove_prop pid (props s)).
    { unfold expire_one; rewrite Eg. cbn [props set_temps]. destruct (c_burn_prevote c); [reflexivity|].
      destruct (refund_all_core' (p_deps pr) (set_props s (remove_prop pid (props s)))) as [_ [_ [C _]]]; rewrite C; reflexivity. }
    split.
    + intros p; eapply exped_remove; exact Hr.
    + intros a p b Hl; left. unfold temp_entry in *; rewrite A, lookup_del_prop in Hl.
      destruct (N.eqb p pid); [discriminate | exact Hl].
  - unfold expire_one; rewrite Eg; apply conv_only_refl.
Qed.

Lemma get_prop_put_other : forall pr l q, q <> p_id pr -> get_prop q (put_prop pr l) = get_prop q l.
Proof.
  intros pr l q Hq; induction l as [|x r IH]; cbn [get_prop put_prop map]; [reflexivity|].
  destruct (N.eqb (p_id x) (p_id pr)) eqn:E.
  - apply N.eqb_eq in E. destruct (N.eqb (p_id pr) q) eqn:E1; [apply N.eqb_eq in E1; congruence|].
    destruct (N.eqb (p_id x) q) eqn:E2; [apply N.eqb_eq in E2; congruence|]. exact IH.
  - destruct (N.eqb (p_id x) q); [reflexivity | exact IH].
Qed.

Lemma tally_one_conv : forall c vp s pid, conv_only s (tally_one c vp s pid).
Proof.
  intros c vp s pid. destruct (get_prop pid (props s)) as [pr|] eqn:Eg; [|unfold tally_one; rewrite Eg; apply conv_only_refl].
  destruct (get_prop_In _ _ _ Eg) as [Hpr Hpid].
  destruct (tally c (p_expedited pr) (p_vote pr)) as [passes burn] eqn:Ht.
  destruct (p_expedited pr && negb passes) eqn:Econv.
  - (* conversion *)
    apply andb_true_iff in Econv; destruct Econv as [Ex Hp]; apply negb_true_iff in Hp; subst passes.
    rewrite Ex in Ht. destruct (tally_one_converted c vp s pid pr burn Eg Ex Ht) as [Hs' _]. cbn zeta in Hs'.
    set (pr' := converted pr vp) in *. set (s1 := set_props s (put_prop pr' (props s))) in *.
    assert (Hg1 : get_prop (p_id pr') (props s1) = Some pr').
    { subst s1; cbn [props set_props]. eapply get_prop_put_same. cbn [p_id pr' converted]; rewrite Hpid; exact Eg. }
    assert (He1 : forall p, exped s1 p = if N.eqb p pid then false else exped s p).
    { intros p; unfold exped; subst s1; cbn [props set_props]. destruct (N.eqb p pid) eqn:E.
      - apply N.eqb_eq in E; subst p. replace pid with (p_id pr') at 1 by (cbn; exact Hpid).
        rewrite (get_prop_put_same pr' (props s) pr); [reflexivity | cbn [p_id pr' converted]; rewrite Hpid; exact Eg].
      - apply N.eqb_neq in E. rewrite get_prop_put_other; [reflexivity | cbn [p_id pr' converted]; congruence]. }
    assert (Hl1 : is_live s1 pid = true).
    { unfold is_live; subst s1; cbn [props set_props]. rewrite get_prop_put, Eg; reflexivity. }
    assert (Hes : exped s pid = true) by (unfold exped; rewrite Eg; exact Ex).
    rewrite Hs'. destruct (run_hook c s1 pr') as [s2|] eqn:Eh.
    + destruct (run_hook_spec _ _ _ _ Eh) as [_ [Hr _]].
      assert (He2 : forall p, exped s2 p = exped s1 p) by (intros p; unfold exped; rewrite Hr; reflexivity).
      split.
      * intros p H; rewrite He2, He1 in H. destruct (N.eqb p pid); [discriminate | exact H].
      * intros a p b Hl. destruct (run_hook_funded _ _ _ _ Eh Hg1 _ _ _ Hl) as [Ho|[E1 _]]; [left; exact Ho|].
        right. cbn [p_id pr' converted] in E1. rewrite Hpid in E1; subst p. split; [exact Hes|]. split.
        -- rewrite He2, He1, N.eqb_refl; reflexivity.
        -- unfold is_live; rewrite Hr; exact Hl1.
    + split.
      * intros p H; rewrite He1 in H. destruct (N.eqb p pid); [discriminate | exact H].
      * intros a p b Hl; left; exact Hl.
  - (* final resolution: the proposal is removed, entries only disappear *)
    assert (G : props (tally_one c vp s pid) = remove_prop pid (props s) /\
                forall a p b, temp_entry (tally_one c vp s pid) a p = Some b -> temp_entry s a p = Some b).
    { unfold tally_one; rewrite Eg, Ht, Econv.
      destruct (tally_closing burn s pr pid) as [A [B [C [D E]]]]. cbn zeta in *.
      match goal with |- context [exec_msgs c ?x _] => set (s2 := x) in * end.
      assert (Hdel : props (set_temps s2 (del_prop_temps pid (temps s2))) = remove_prop pid (props s) /\
                     forall a p b, temp_entry (set_temps s2 (del_prop_temps pid (temps s2))) a p = Some b -> temp_entry s a p = Some b).
      { cbn [props set_temps]; split; [exact C|]. intros a p b Hl. unfold temp_entry in *; cbn [temps set_temps] in Hl.
        rewrite B, lookup_del_prop in Hl. destruct (N.eqb p pid); [discriminate | exact Hl]. }
      destruct passes; [|exact Hdel].
      destruct (exec_msgs c s2 (p_msgs pr)) as [s3|] eqn:Exm; [|exact Hdel].
      destruct (exec_msgs_spec _ _ _ _ Exm) as [B1 _].
      split; [rewrite B1; exact C|]. intros a p b Hl. unfold temp_entry in *.
      rewrite (exec_msgs_temps _ _ _ _ Exm), B, lookup_del_addr in Hl. destruct (memN a (msg_addrs (p_msgs pr))); [discriminate | exact Hl]. }
    destruct G as [Gr Gt]. split.
    + intros p; eapply exped_remove; exact Gr.
    + intros a p b Hl; left; apply Gt; exact Hl.
Qed.

Lemma conv_fold : forall c (f : state -> N -> state),
  (forall s q, Inv c s -> good_res c s (f s q)) -> (forall s q, conv_only s (f s q)) ->
  forall pids s, Inv c s -> conv_only s (fold_left f pids s).
Proof.
  intros c f Hg Hc; induction pids as [|q r IH]; intros s HI; cbn [fold_left]; [apply conv_only_refl|].
  pose proof (Hg s q HI) as G1. assert (HI1 : Inv c (f s q)) by (destruct G1 as [G1 _]; exact G1).
  eapply (conv_only_trans c); [exact G1 | apply good_res_fold; [exact Hg | exact HI1] | apply Hc | apply IH; exact HI1].
Qed.

Lemma end_block_conv : forall c vp s, Inv c s -> conv_only s (end_block c vp s).
Proof.
  intros c vp s HI; unfold end_block.
  match goal with |- conv_only s (fold_left (tally_one c vp) ?l2 (fold_left (expire_one c) ?l1 s)) =>
    set (s1 := fold_left (expire_one c) l1 s);
    assert (G1 : good_res c s s1) by (apply (good_res_fold c (expire_one c) (expire_one_good c)); exact HI);
    assert (HI1 : Inv c s1) by (destruct G1 as [G1 _]; exact G1);
    eapply (conv_only_trans c s s1);
      [ exact G1
      | apply good_res_fold; [apply tally_one_good | exact HI1]
      | apply (conv_fold c (expire_one c) (expire_one_good c) (expire_one_conv c)); exact HI
      | apply (conv_fold c (tally_one c vp) (tally_one_good c vp) (tally_one_conv c vp)); exact HI1 ]
  end.
Qed.

Lemma core_temp_entry : forall s s' a p, core s' = core s -> temp_entry s' a p = temp_entry s a p.
Proof. intros s s' a p H; unfold core in H; inversion H as [[Hp Ht Hr Hn Hs Hu]]; unfold temp_entry; rewrite Ht; reflexivity. Qed.

(** The statement over single steps from a state satisfying the invariant: where a temporary
    entry that a reader of the store did not see before (or saw with the other value) can come
    from. *)
Lemma new_entries_origin : forall c s o s' a p b, Inv c s -> step_opt c s o = Some s' ->
  temp_entry s' a p = Some b -> temp_entry s a p <> Some b ->
  match o with
  | OSubmit _ _ _ _ _ _ => p = next_id s /\ funded s' p b
  | ODeposit _ pid _ _ => p = pid /\ funded s' p b
  | ONewBlock _ _ => exped s p = true /\ exped s' p = false /\ is_live s' p = true
  | _ => False
  end.
Proof.
  intros c s o s' a p b HI H Hl Hnot; destruct o; cbn [step_opt] in H.
  - destruct (negb (nonneg2 dep)); [discriminate|]. unfold submit in H.
    match type of H with match run_hook c ?x ?y with _ => _ end = _ => set (s1 := x) in *; set (pr := y) in * end.
    assert (Hh : run_hook c s1 pr = Some (set_temps s1 (temps s1))).
    { unfold run_hook. rewrite hook_no_deposit; [reflexivity | reflexivity | |]; destruct (inv_params_nonneg c s HI); assumption. }
    rewrite Hh in H. destruct (add_deposit_funded _ _ _ _ _ _ _ H _ _ _ Hl) as [Ho|Hn]; [|exact Hn].
    exfalso; apply Hnot; exact Ho.
  - destruct (negb (nonneg2 amt) || zero2 amt); [discriminate|].
    destruct (add_deposit_funded _ _ _ _ _ _ _ H _ _ _ Hl) as [Ho|Hn]; [exfalso; apply Hnot; exact Ho | exact Hn].
  - unfold vote in H. destruct (negb (ballot_ok v)); [discriminate|].
    destruct (get_prop pid (props s)) as [pr|]; [|discriminate]. destruct (p_status pr); [discriminate|].
    inversion H; subst; apply Hnot; exact Hl.
  - unfold cancel in H. destruct (get_prop pid (props s)) as [pr|]; [|discriminate].
    destruct (negb (N.eqb (p_proposer pr) who)); [discriminate|].
    destruct (match p_status pr with PVoting => p_vote_end pr <? now s | PDeposit => false end)%Z; [discriminate|].
    inversion H; subst; clear H. unfold temp_entry in Hl; cbn [temps set_props] in Hl. rewrite refund_all_temps in Hl.
    apply Hnot; exact Hl.
  - inversion H; subst; clear H. change (temp_entry (end_block c vp s) a p = Some b) in Hl.
    destruct (end_block_conv c vp s HI) as [_ C2]. destruct (C2 _ _ _ Hl) as [Ho|[E1 [E2 E3]]]; [exfalso; apply Hnot; exact Ho|].
    split; [exact E1|]. split; [exact E2 | exact E3].
  - destruct authority_ok; [|discriminate]. unfold temp_entry in *. rewrite (exec_msg_temps _ _ _ _ H), lookup_del_addr in Hl.
    destruct (memN a (msg_addrs [m])); [discriminate | apply Hnot; exact Hl].
  - unfold send in H. destruct (amt <=? 0)%Z; [discriminate|]. destruct (debit c s from (amt, 0%Z)) as [s1|] eqn:Ed; [|discriminate].
    inversion H; subst; clear H. destruct (debit_spec _ _ _ _ _ Ed) as [Hc _].
    apply Hnot. rewrite <- (core_temp_entry s s1 a p Hc). exact Hl.
  - unfold multi_send in H. destruct outs as [|o r]; [discriminate|]. destruct (negb (all_pos (o :: r))); [discriminate|].
    destruct (debit c s from (sum_amts (o :: r), 0%Z)) as [s1|] eqn:Ed; [|discriminate]. inversion H; subst; clear H.
    destruct (debit_spec _ _ _ _ _ Ed) as [Hc _]. apply Hnot. rewrite <- (core_temp_entry s s1 a p Hc).
    unfold temp_entry in *. rewrite refund_all_temps in Hl. exact Hl.
  - unfold many_to_one in H. destruct ins as [|o r]; [discriminate|]. destruct (negb (all_pos (o :: r))); [discriminate|].
    destruct (debit_all c s (o :: r)) as [s1|] eqn:Ed; [|discriminate]. inversion H; subst; clear H.
    destruct (debit_all_spec _ _ _ _ Ed) as [Hc _]. apply Hnot. rewrite <- (core_temp_entry s s1 a p Hc). exact Hl.
  - unfold to_module in H. destruct (amt <=? 0)%Z; [discriminate|].
    destruct (debit_spec _ _ _ _ _ H) as [Hc _]. apply Hnot. rewrite <- (core_temp_entry s s' a p Hc). exact Hl.
  - unfold to_module in H. destruct (amt <=? 0)%Z; [discriminate|].
    destruct (debit_spec _ _ _ _ _ H) as [Hc _]. apply Hnot. rewrite <- (core_temp_entry s s' a p Hc). exact Hl.
  - destruct (amt <? 0)%Z; [discriminate|]. inversion H; subst; apply Hnot; exact Hl.
Qed.

(** A deposit that makes the total cover the immediate minimum creates the entries at that
    moment (for every address of every active message, the last message deciding). *)
Lemma add_deposit_entries : forall c s pid who amt vp s', add_deposit c s pid who amt vp = Some s' ->
  exists pr', get_prop pid (props s') = Some pr' /\
    forall a q, temp_entry s' a q =
      match last_dir a (filter (msg_active s' pr') (p_msgs pr')) with
      | Some b => if N.eqb q pid then Some b else temp_entry s a q
      | None => temp_entry s a q
      end.
Proof.
  intros c s pid who amt vp s' H; unfold add_deposit in H.
  destruct (get_prop pid (props s)) as [pr|] eqn:Eg; [|discriminate].
  destruct (negb (denoms_ok c amt)); [discriminate|].
  destruct (debit c s who amt) as [s1|] eqn:Ed; [|discriminate].
  destruct (get_prop_In _ _ _ Eg) as [Hpr Hpid].
  destruct (debit_spec _ _ _ _ _ Ed) as [Hc1 _]. unfold core in Hc1; inversion Hc1 as [[Hp1 Ht1 Hr1 Hn1 Hs1 Hu1]].
  match type of H with run_hook c ?x ?y = _ => set (pr2 := y) in *; set (s2 := x) in * end.
  assert (Hid : p_id pr2 = pid).
  { subst pr2; destruct (p_status pr); [destruct (le2 (min_deposit c pr) _)|]; cbn; exact Hpid. }
  destruct (run_hook_spec _ _ _ _ H) as [_ [Hr [_ [_ [_ [Hs [Hu _]]]]]]].
  exists pr2. split.
  - rewrite Hr; subst s2; cbn [props set_props]; rewrite Hr1, <- Hid. eapply get_prop_put_same. rewrite Hid; exact Eg.
  - intros a q. rewrite (run_hook_lookup _ _ _ _ a q H), Hid.
    assert (Hact : forall m, msg_active s' pr2 m = msg_active s2 pr2 m) by (intros m; destruct m; cbn [msg_active]; rewrite ?Hs, ?Hu; reflexivity).
    rewrite (filter_ext _ _ Hact).
    assert (Hte : temp_entry s2 a q = temp_entry s a q) by (unfold temp_entry; subst s2; cbn [temps set_props]; rewrite Ht1; reflexivity).
    change (set_props s1 (put_prop pr2 (props s1))) with s2.
    destruct (last_dir a (filter (msg_active s2 pr2) (p_msgs pr2))); [destruct (N.eqb q pid); [reflexivity|]|]; exact Hte.
Qed.

(** * A resolution cleans exactly its own entries *)

Definition prop_msgs (s : state) (p : N) : option (list msg) :=
  match get_prop p (props s) with Some pr => Some (p_msgs pr) | None => None end.

(** An address keeps its entry for a proposal that stays live, unless a proposal that names the
    address was resolved on the way (a passed proposal deletes all entries of its addresses). *)
Definition keeps (s s' : state) : Prop :=
  (forall p, is_live s' p = true -> is_live s p = true) /\
  (forall p ms, prop_msgs s' p = Some ms -> prop_msgs s p = Some ms) /\
  (forall a q b, temp_entry s a q = Some b -> is_live s' q = true ->
     temp_entry s' a q <> None \/
     exists p ms, prop_msgs s p = Some ms /\ is_live s' p = false /\ In a (msg_addrs ms)).

Lemma keeps_refl : forall s, keeps s s.
Proof. intros s; split; [auto|]. split; [auto|]. intros a q b H _; left; congruence. Qed.

Lemma keeps_trans : forall s s1 s2, keeps s s1 -> keeps s1 s2 -> keeps s s2.
Proof.
  intros s s1 s2 [A1 [A2 A3]] [B1 [B2 B3]]; split; [auto|]. split; [auto|].
  intros a q b H Hl. destruct (A3 a q b H (B1 _ Hl)) as [H1|[p [ms [E1 [E2 E3]]]]].
  - destruct (temp_entry s1 a q) as [b1|] eqn:E1; [|congruence].
    destruct (B3 a q b1 E1 Hl) as [H2|[p [ms [F1 [F2 F3]]]]]; [left; exact H2|].
    right; exists p, ms. split; [apply A2; exact F1 | split; assumption].
  - right; exists p, ms. split; [exact E1|]. split; [|exact E3].
    destruct (is_live s2 p) eqn:E; [apply B1 in E; congruence | reflexivity].
Qed.

Lemma keeps_fold : forall (f : state -> N -> state), (forall s q, keeps s (f s q)) ->
  forall pids s, keeps s (fold_left f pids s).
Proof.
  intros f Hf; induction pids as [|q r IH]; intros s; cbn [fold_left]; [apply keeps_refl|].
  eapply keeps_trans; [apply Hf | apply IH].
Qed.

Lemma prop_msgs_remove : forall s s' pid p ms, props s' = remove_prop pid (props s) ->
  prop_msgs s' p = Some ms -> prop_msgs s p = Some ms.
Proof.
  intros s s' pid p ms Hr H; unfold prop_msgs in *; rewrite Hr in H.
  destruct (N.eq_dec p pid) as [E|E].
  - subst; rewrite get_prop_remove_same in H; discriminate.
  - rewrite (get_prop_remove_other pid p _ E) in H; exact H.
Qed.

Lemma In_msg_addrs_memN : forall a ms, memN a (msg_addrs ms) = true -> In a (msg_addrs ms).
Proof. intros a ms H; apply memN_In; exact H. Qed.

Lemma expire_one_keeps : forall c s pid, keeps s (expire_one c s pid).
Proof.
  intros c s pid. destruct (get_prop pid (props s)) as [pr|] eqn:Eg; [|unfold expire_one; rewrite Eg; apply keeps_refl].
  destruct (expire_one_exact c s pid pr Eg) as [A [_ [C [_ [_ D]]]]]. cbn zeta in *.
  assert (Hr : props (expire_one c s pid) = remove_prop pid (props s)).
  { unfold expire_one; rewrite Eg. cbn [props set_temps]. destruct (c_burn_prevote c); [reflexivity|].
    destruct (refund_all_core' (p_deps pr) (set_props s (remove_prop pid (props s)))) as [_ [_ [C' _]]]; rewrite C'; reflexivity. }
  split; [intros p; eapply is_live_remove_mono; exact Hr|]. split; [intros p ms; eapply prop_msgs_remove; exact Hr|].
  intros a q b H Hl; left. unfold temp_entry in *; rewrite A, lookup_del_prop.
  destruct (N.eqb q pid) eqn:E; [apply N.eqb_eq in E; subst; congruence | congruence].
Qed.

Lemma tally_one_keeps : forall c vp s pid, keeps s (tally_one c vp s pid).
Proof.
  intros c vp s pid. destruct (get_prop pid (props s)) as [pr|] eqn:Eg; [|unfold tally_one; rewrite Eg; apply keeps_refl].
  destruct (get_prop_In _ _ _ Eg) as [Hpr Hpid].
  destruct (tally c (p_expedited pr) (p_vote pr)) as [passes burn] eqn:Ht.
  destruct (p_expedited pr && negb passes) eqn:Econv.
  - apply andb_true_iff in Econv; destruct Econv as [Ex Hp]; apply negb_true_iff in Hp; subst passes. rewrite Ex in Ht.
    destruct (tally_one_converted c vp s pid pr burn Eg Ex Ht) as [Hs' _]. cbn zeta in Hs'.
    set (pr' := converted pr vp) in *. set (s1 := set_props s (put_prop pr' (props s))) in *.
    assert (Hm1 : forall p, prop_msgs s1 p = prop_msgs s p).
    { intros p; unfold prop_msgs; subst s1; cbn [props set_props]. destruct (N.eq_dec p pid) as [E|E].
      - subst p. replace pid with (p_id pr') at 1 by (cbn; exact Hpid).
        rewrite (get_prop_put_same pr' (props s) pr); [rewrite Eg; reflexivity | cbn [p_id pr' converted]; rewrite Hpid; exact Eg].
      - rewrite get_prop_put_other; [reflexivity | cbn [p_id pr' converted]; congruence]. }
    assert (Hl1 : forall p, is_live s1 p = is_live s p).
    { intros p; unfold is_live; subst s1; cbn [props set_props]; apply get_prop_put. }
    rewrite Hs'. destruct (run_hook c s1 pr') as [s2|] eqn:Eh.
    + destruct (run_hook_spec _ _ _ _ Eh) as [_ [Hr [_ [_ [_ [_ [_ [Hinc _]]]]]]]].
      split; [intros p H; rewrite <- Hl1; unfold is_live in *; rewrite <- Hr; exact H|].
      split; [intros p ms H; rewrite <- Hm1; unfold prop_msgs in *; rewrite <- Hr; exact H|].
      intros a q b H _; left. unfold temp_entry in *. apply lookup_In in H.
      eapply In_lookup. apply Hinc. subst s1; cbn [temps set_props]. exact H.
    + split; [intros p H; rewrite <- Hl1; exact H|]. split; [intros p ms H; rewrite <- Hm1; exact H|].
      intros a q b H _; left. unfold temp_entry in *; subst s1; cbn [temps set_props]; congruence.
  - unfold tally_one; rewrite Eg, Ht, Econv.
    destruct (tally_closing burn s pr pid) as [A [B [C [D E]]]]. cbn zeta in *.
    match goal with |- context [exec_msgs c ?x _] => set (s2 := x) in * end.
    assert (Hdel : keeps s (set_temps s2 (del_prop_temps pid (temps s2)))).
    { split; [intros p; eapply is_live_remove_mono; cbn [props set_temps]; exact C|].
      split; [intros p ms; eapply prop_msgs_remove; cbn [props set_temps]; exact C|].
      intros a q b H Hl; left. unfold temp_entry in *; cbn [temps set_temps]; rewrite B, lookup_del_prop.
      destruct (N.eqb q pid) eqn:Eq; [|congruence]. apply N.eqb_eq in Eq; subst q.
      unfold is_live in Hl; cbn [props set_temps] in Hl; rewrite C, get_prop_remove_same in Hl; discriminate. }
    destruct passes; [|exact Hdel].
    destruct (exec_msgs c s2 (p_msgs pr)) as [s3|] eqn:Exm; [|exact Hdel].
    destruct (exec_msgs_spec _ _ _ _ Exm) as [B1 _].
    split; [intros p; eapply is_live_remove_mono; rewrite B1; exact C|].
    split; [intros p ms; eapply prop_msgs_remove; rewrite B1; exact C|].
    intros a q b H Hl. unfold temp_entry in *. rewrite (exec_msgs_temps _ _ _ _ Exm), B, lookup_del_addr.
    destruct (memN a (msg_addrs (p_msgs pr))) eqn:Em; [|left; congruence].
    right; exists pid, (p_msgs pr). split; [unfold prop_msgs; rewrite Eg; reflexivity|]. split.
    + unfold is_live; rewrite B1, C, get_prop_remove_same; reflexivity.
    + apply memN_In; exact Em.
Qed.

Lemma end_block_keeps : forall c vp s, keeps s (end_block c vp s).
Proof.
  intros c vp s; unfold end_block. eapply keeps_trans; [apply keeps_fold; apply expire_one_keeps | apply keeps_fold; apply tally_one_keeps].
Qed.

(** * Status follows the highest-numbered proposal *)
Lemma status_follows_highest : forall c s a p b,
  temp_entry s a p = Some b -> (forall q x, temp_entry s a q = Some x -> (q <= p)%N) ->
  is_sanctioned c s a = if unsanct c a then false else b.
Proof.
  intros c s a p b Hl Hmax; unfold is_sanctioned, temp_entry in *.
  destruct (unsanct c a); [reflexivity|].
  rewrite (latest_temp_of_max _ _ _ _ Hl Hmax). destruct b; reflexivity.
Qed.

(** * The EndBlocker never fails *)
Lemma new_block_accepted : forall c s t vp, snd (step c s (ONewBlock t vp)) = true.
Proof. reflexivity. Qed.

(** * Forms used by Properties/C06.v *)
Lemma new_block_keeps : forall c s t vp a q b,
  let s' := fst (step c s (ONewBlock t vp)) in
  temp_entry s a q = Some b -> is_live s' q = true ->
  temp_entry s' a q <> None \/
  exists p ms, prop_msgs s p = Some ms /\ is_live s' p = false /\ In a (msg_addrs ms).
Proof.
  intros c s t vp a q b; cbn zeta. change (fst (step c s (ONewBlock t vp))) with (set_now (end_block c vp s) t).
  destruct (end_block_keeps c vp s) as [_ [_ K]]. intros H Hl. exact (K a q b H Hl).
Qed.

Lemma new_entries_step : forall c s o a p b, Inv c s ->
  let s' := fst (step c s o) in
  temp_entry s' a p = Some b -> temp_entry s a p <> Some b ->
  snd (step c s o) = true /\
  match o with
  | OSubmit _ _ _ _ _ _ | ODeposit _ _ _ _ =>
      exists pr, get_prop p (props s') = Some pr /\
        let thr := if b then smin s' else umin s' in
        zero2 thr = false /\ (fst thr <= fst (total_deposit pr) /\ snd thr <= snd (total_deposit pr))%Z
  | ONewBlock _ _ => exped s p = true /\ exped s' p = false /\ is_live s' p = true
  | _ => False
  end.
Proof.
  intros c s o a p b HI; cbn zeta.
  destruct (step_cases c s o) as [[s' [H1 H2]]|[H1 H2]]; rewrite H2; cbn [fst snd]; intros Hl Hn; [|congruence].
  split; [reflexivity|].
  pose proof (new_entries_origin c s o s' a p b HI H1 Hl Hn) as G.
  assert (F : funded s' p b -> exists pr, get_prop p (props s') = Some pr /\
        let thr := if b then smin s' else umin s' in
        zero2 thr = false /\ (fst thr <= fst (total_deposit pr) /\ snd thr <= snd (total_deposit pr))%Z).
  { intros [pr [Hg [Hz Hle]]]; exists pr; split; [exact Hg|]. cbn zeta in *. split; [exact Hz|].
    unfold le2 in Hle; apply andb_true_iff in Hle; destruct Hle as [L1 L2]; apply Z.leb_le in L1, L2; split; assumption. }
  destruct o; try exact G; destruct G as [_ G]; apply F; exact G.
Qed.

Lemma tally_outcomes : forall c expedited y a n w,
  tally c expedited None = (false, c_burn_quorum c) /\
  (y + n + w = 0 -> tally c expedited (Some (y, a, n, w)) = (false, false)) /\
  (y + n + w <> 0 -> c_veto c * (y + a + n + w) < w * 1000 ->
     tally c expedited (Some (y, a, n, w)) = (false, c_burn_veto c)) /\
  (y + n + w <> 0 -> w * 1000 <= c_veto c * (y + a + n + w) ->
     tally c expedited (Some (y, a, n, w)) =
       ((if expedited then c_exp_thr c else c_thr c) * (y + n + w) <? y * 1000, false)).
Proof.
  intros c expedited y a n w. unfold tally.
  assert (E : y + a + n + w - a = y + n + w) by lia. rewrite E.
  repeat split.
  - intros H. rewrite H; reflexivity.
  - intros H1 H2. apply Z.eqb_neq in H1; rewrite H1. apply Z.ltb_lt in H2; rewrite H2; reflexivity.
  - intros H1 H2. apply Z.eqb_neq in H1; rewrite H1.
    assert (H3 : (c_veto c * (y + a + n + w) <? w * 1000) = false) by (apply Z.ltb_ge; exact H2). rewrite H3.
    destruct ((if expedited then c_exp_thr c else c_thr c) * (y + n + w) <? y * 1000); reflexivity.
Qed.
