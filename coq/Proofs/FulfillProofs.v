(** Proofs about [PV.Exchange.Fulfill] (property C01): what a successful BuildSettlement
    guarantees, the shape of the partial order, conservation of every transfer, and that the
    fuel of the asset allocation and first price pass is never exhausted. *)
From Coq Require Import ZArith List Bool Lia ZifyBool PArith.
From PV Require Import Exchange.Arith Exchange.Split Exchange.Fulfill Proofs.ArithProofs Proofs.SplitProofs.
Import ListNotations.
Open Scope Z_scope.
Ltac Zify.zify_post_hook ::= Z.div_mod_to_equations.

Ltac inv_bind H :=
  let x := fresh "x" in let Hx := fresh "Hx" in
  apply rbind_ok in H as (x & Hx & H).

(** ** Indexed amounts *)
Definition idx_amount (i : indexed) (d : denom) : Z :=
  fold_right (fun e acc => amount_of (snd e) d + acc) 0 i.
Definition idx_sorted (i : indexed) : Prop := Forall (fun e => sorted (snd e)) i.
Definition balanced (t : transfer) : Prop := forall d, idx_amount (t_in t) d = idx_amount (t_out t) d.

Lemma idx_amount_app i j d : idx_amount (i ++ j) d = idx_amount i d + idx_amount j d.
Proof. induction i as [|e r IH]; cbn; [reflexivity|]. fold (idx_amount (r ++ j) d). fold (idx_amount r d). lia. Qed.

Lemma coins_is_zero_raw c d : coins_is_zero c = true -> raw_sum c d = 0.
Proof.
  induction c as [|[d1 a1] r IH]; intros H; [reflexivity|]. rewrite raw_sum_cons.
  cbn in H. apply andb_prop in H as [H1 H2]. rewrite (IH H2). destruct (Pos.eqb d d1); lia.
Qed.

Lemma idx_add_known_spec i a c : forall i', idx_sorted i -> idx_add_known i a c = Some i' ->
  idx_sorted i' /\ forall d, idx_amount i' d = idx_amount i d + raw_sum c d.
Proof.
  induction i as [|[a1 c1] r IH]; intros i' Hs H; cbn in H; [discriminate|].
  inversion Hs as [|? ? Hc1 Hr]; subst. cbn in Hc1.
  destruct (Pos.eqb a a1).
  - inversion H; subst. destruct (coins_add_spec c c1 Hc1) as [Hs1 Ha1]. split.
    + constructor; assumption.
    + intros d. cbn. rewrite Ha1. fold (idx_amount r d). lia.
  - destruct (idx_add_known r a c) as [r'|] eqn:E; [|discriminate]. inversion H; subst.
    destruct (IH _ Hr eq_refl) as [Hs' Ha']. split.
    + constructor; assumption.
    + intros d. cbn. fold (idx_amount r' d). fold (idx_amount r d). rewrite Ha'. lia.
Qed.

Lemma idx_add_spec i a c : idx_sorted i -> sorted c ->
  idx_sorted (idx_add i a c) /\ forall d, idx_amount (idx_add i a c) d = idx_amount i d + raw_sum c d.
Proof.
  intros Hs Hc. unfold idx_add. destruct (coins_is_zero c) eqn:Hz.
  - split; [assumption|]. intros d. rewrite (coins_is_zero_raw _ _ Hz). lia.
  - destruct (idx_add_known i a c) as [i'|] eqn:E.
    + apply (idx_add_known_spec _ _ _ _ Hs E).
    + split.
      * apply Forall_app; split; [assumption|]. constructor; [assumption|constructor].
      * intros d. rewrite idx_amount_app. cbn. rewrite (raw_sum_sorted _ Hc). lia.
Qed.

Lemma idx_get_ok i io : idx_get i = Ok io -> io = i.
Proof. unfold idx_get. destruct (forallb _ i); intros H; inversion H; reflexivity. Qed.

Lemma index_dists_spec d dists : forall idx sum idx' sum',
  idx_sorted idx -> index_dists d dists idx sum = Ok (idx', sum') ->
  idx_sorted idx' /\
  forall d', idx_amount idx' d' = idx_amount idx d' + (if Pos.eqb d' d then sum' - sum else 0).
Proof.
  induction dists as [|[a amt] r IH]; intros idx sum idx' sum' Hs H; cbn [index_dists] in H.
  - inversion H; subst. split; [assumption|]. intros d'; destruct (Pos.eqb d' d); lia.
  - destruct (Z.leb_spec amt 0); [discriminate|].
    destruct (idx_add_spec idx a [(d, amt)] Hs (sorted_one d amt)) as [Hs1 Ha1].
    destruct (IH _ _ _ _ Hs1 H) as [Hs2 Ha2]. split; [assumption|].
    intros d'. rewrite Ha2, Ha1, raw_sum_cons. cbn. destruct (Pos.eqb d' d); lia.
Qed.

Lemma single_amount o c d x : idx_amount [(o, [(c, x)])] d = if Pos.eqb d c then x else 0.
Proof. cbn. destruct (Pos.eqb d c); lia. Qed.

(** getAssetTransfer / getPriceTransfer produce balanced transfers. *)
Lemma asset_transfer_balanced f t : get_asset_transfer f = Ok t -> balanced t.
Proof.
  unfold get_asset_transfer. intros H.
  destruct (f_afilled f <=? 0); [discriminate|].
  inv_bind H. destruct x as [idx sum].
  destruct (Z.eqb_spec sum (f_afilled f)) as [Hsum|]; cbn [negb] in H; [|discriminate].
  inv_bind H. apply idx_get_ok in Hx0. subst x.
  destruct (index_dists_spec _ _ _ _ _ _ (Forall_nil _) Hx) as [_ Ha].
  intros d. destruct (o_ask (f_order f)); inversion H; subst; cbn [t_in t_out];
    rewrite single_amount, Ha; cbn; destruct (Pos.eqb d (o_ad (f_order f))); lia.
Qed.

Lemma price_transfer_balanced f t : get_price_transfer f = Ok t -> balanced t.
Proof.
  unfold get_price_transfer. intros H.
  destruct (f_papplied f <=? 0); [discriminate|].
  inv_bind H. destruct x as [idx sum].
  destruct (Z.eqb_spec sum (f_papplied f)) as [Hsum|]; cbn [negb] in H; [|discriminate].
  inv_bind H. apply idx_get_ok in Hx0. subst x.
  destruct (index_dists_spec _ _ _ _ _ _ (Forall_nil _) Hx) as [_ Ha].
  intros d. destruct (o_ask (f_order f)); inversion H; subst; cbn [t_in t_out];
    rewrite single_amount, Ha; cbn; destruct (Pos.eqb d (o_pd (f_order f))); lia.
Qed.

Lemma record_all_in getter fs : forall fees ts fees',
  record_all getter fs fees = Ok (ts, fees') ->
  forall t, In t ts -> exists f, In f fs /\ getter f = Ok t.
Proof.
  induction fs as [|f r IH]; intros fees ts fees' H t Hin; cbn [record_all] in H.
  - inversion H; subst. contradiction.
  - inv_bind H. inv_bind H. inv_bind H. destruct x1 as [ts1 fees1]. inversion H; subst.
    destruct Hin as [<-|Hin].
    + exists f; split; [left; reflexivity|assumption].
    + destruct (IH _ _ _ Hx1 _ Hin) as (f' & Hf' & Hg). exists f'; split; [right|]; assumption.
Qed.

(** ** populateFilled only reports fulfillments it was given. *)
Definition opt_list {A} (o : option A) : list A := match o with Some x => [x] | None => [] end.

Lemma populate_in fs lft : forall full part full' part',
  populate fs lft full part = (full', part') ->
  forall x, In x (full' ++ opt_list part') ->
    In x (full ++ opt_list part) \/ exists f, In f fs /\ x = as_filled f.
Proof.
  unfold populate. induction fs as [|f r IH]; intros full part full' part' H x Hin; cbn [fold_left] in H.
  - inversion H; subst. left; assumption.
  - assert (Hstep : forall full1 part1,
      (forall y, In y (full1 ++ opt_list part1) -> In y (full ++ opt_list part) \/ y = as_filled f) ->
      fold_left (fun (st : list filled * option filled) f0 =>
         let '(full0, part0) := st in
         match lft with
         | Some l => if Pos.eqb (o_id l) (o_id (f_order f0)) then (full0, Some (as_filled f0))
                     else (full0 ++ [as_filled f0], part0)
         | None => (full0 ++ [as_filled f0], part0)
         end) r (full1, part1) = (full', part') ->
      In x (full ++ opt_list part) \/ exists f0, In f0 (f :: r) /\ x = as_filled f0).
    { intros full1 part1 Hsub Hf. destruct (IH _ _ _ _ Hf x Hin) as [H1|(f0 & Hf0 & ->)].
      - destruct (Hsub _ H1) as [H2| ->]; [left; assumption|right; exists f; split; [left|]; reflexivity].
      - right; exists f0; split; [right; assumption|reflexivity]. }
    destruct lft as [l|].
    + destruct (Pos.eqb (o_id l) (o_id (f_order f))).
      * refine (Hstep _ _ _ H). intros y Hy. apply in_app_or in Hy as [Hy|Hy].
        -- left; apply in_or_app; left; assumption.
        -- cbn in Hy; destruct Hy as [<-|[]]; right; reflexivity.
      * refine (Hstep _ _ _ H). intros y Hy. rewrite <- app_assoc in Hy. apply in_app_or in Hy as [Hy|Hy].
        -- left; apply in_or_app; left; assumption.
        -- cbn in Hy; destruct Hy as [<-|Hy]; [right; reflexivity|left; apply in_or_app; right; assumption].
    + refine (Hstep _ _ _ H). intros y Hy. rewrite <- app_assoc in Hy. apply in_app_or in Hy as [Hy|Hy].
      * left; apply in_or_app; left; assumption.
      * cbn in Hy; destruct Hy as [<-|Hy]; [right; reflexivity|left; apply in_or_app; right; assumption].
Qed.

(** set_ask_fees / set_bid_fees keep everything but the fees. *)
Lemma set_ask_fees_in asks r : forall asks',
  set_ask_fees asks r = Ok asks' ->
  forall f', In f' asks' -> exists f fees, In f asks /\ f' = set_fee f fees.
Proof.
  induction asks as [|a ar IH]; intros asks' H f' Hin; cbn [set_ask_fees] in H.
  - inversion H; subst. contradiction.
  - inv_bind H. inv_bind H. inversion H; subst. destruct Hin as [<-|Hin].
    + destruct r as [rt|].
      * inv_bind Hx. destruct x1 as [d amt]. inversion Hx; subst. eexists _, _; split; [left; reflexivity|reflexivity].
      * inversion Hx; subst. eexists _, _; split; [left; reflexivity|reflexivity].
    + destruct (IH _ Hx0 _ Hin) as (f & fees & Hf & ->). exists f, fees; split; [right; assumption|reflexivity].
Qed.

Definition filled_ok (x : filled) : Prop :=
  let o := fo_order x in
  (o_ask o = true -> o_price o <= fo_price x) /\
  (o_ask o = false -> fo_price x = o_price o).

Lemma validate_filled_ok f : validate_ofl f = true -> filled_ok (as_filled f).
Proof.
  unfold validate_ofl, filled_ok, as_filled; cbn. intros H. apply andb_prop in H as [H1 _].
  destruct (o_ask (f_order f)); split; intros; try discriminate; lia.
Qed.

(** ** What a successful BuildSettlement guarantees. *)
Lemma build_sound asks bids lk s :
  build asks bids lk = Ok s ->
  (* every ask is paid at least its price, every bid pays exactly its price *)
  (forall x, In x (s_full s ++ opt_list (s_partial s)) -> filled_ok x) /\
  (* every transfer takes out exactly what it hands over, denom by denom *)
  (forall t, In t (s_transfers s) -> balanced t) /\
  (* there is a partially filled order iff something is left over *)
  (s_left s = None -> s_partial s = None).
Proof.
  unfold build. intros H.
  destruct (validate_can_settle asks bids); cbn [negb] in H; [|discriminate].
  inv_bind H. destruct x as [a1 b1]. inv_bind H. destruct x as [[a2 b2] lft].
  inv_bind H. destruct x as [a3 b3]. inv_bind H. inv_bind H. rename x0 into a4.
  destruct (forallb validate_ofl a4 && forallb validate_ofl (set_bid_fees b3)) eqn:Hval; cbn [negb] in H; [|discriminate].
  apply andb_prop in Hval as [Hva Hvb].
  inv_bind H. destruct x0 as [ts1 fees1]. inv_bind H. destruct x0 as [ts2 fees2]. inv_bind H.
  destruct (populate a4 lft [] None) as [full1 part1] eqn:Hp1.
  destruct (populate (set_bid_fees b3) lft full1 part1) as [full2 part2] eqn:Hp2.
  inversion H; subst s; clear H. cbn [s_full s_partial s_transfers s_left].
  rewrite forallb_forall in Hva, Hvb.
  split; [|split].
  - intros y Hy. destruct (populate_in _ _ _ _ _ _ Hp2 _ Hy) as [Hy1|(f & Hf & ->)].
    + destruct (populate_in _ _ _ _ _ _ Hp1 _ Hy1) as [[]|(f & Hf & ->)].
      apply validate_filled_ok, Hva, Hf.
    + apply validate_filled_ok, Hvb, Hf.
  - intros t Ht. apply in_app_or in Ht as [Ht|Ht].
    + destruct (record_all_in _ _ _ _ _ Hx4 _ Ht) as (f & _ & Hg). apply (asset_transfer_balanced _ _ Hg).
    + destruct (record_all_in _ _ _ _ _ Hx5 _ Ht) as (f & _ & Hg). apply (price_transfer_balanced _ _ Hg).
  - intros ->. unfold populate in Hp1, Hp2.
    assert (Hnone : forall fs full part full' part',
      fold_left (fun (st : list filled * option filled) f =>
         let '(full0, part0) := st in (full0 ++ [as_filled f], part0)) fs (full, part) = (full', part') ->
      part' = part).
    { induction fs as [|f r IH]; intros full part full' part' Hf; cbn in Hf; [inversion Hf; reflexivity|].
      apply (IH _ _ _ _ Hf). }
    apply Hnone in Hp1. subst part1. apply Hnone in Hp2. assumption.
Qed.

(** ** The partial order: last of its list, allows partial fills, exact proportions. *)
Lemma split_fs_shape fs : forall lft fs' lft',
  split_fs fs lft = Ok (fs', lft') ->
  lft' = lft \/
  (lft = None /\ exists pre f f' unf,
     fs = pre ++ [f] /\ fs' = pre ++ [f'] /\ lft' = Some unf /\
     split (f_order f) (f_afilled f) = Ok (f_order f', unf)).
Proof.
  induction fs as [|f r IH]; intros lft fs' lft' H; cbn [split_fs] in H.
  - inversion H; subst. left; reflexivity.
  - destruct (f_afilled f =? 0); [discriminate|].
    destruct (f_aunfilled f =? 0); cbn [negb] in H.
    + inv_bind H. destruct x as [r' l']. inversion H; subst.
      destruct (IH _ _ _ Hx) as [->|(-> & pre & f0 & f0' & unf & -> & -> & -> & Hs)]; [left; reflexivity|].
      right; split; [reflexivity|]. exists (f :: pre), f0, f0', unf. repeat split; assumption.
    + destruct r; [|discriminate]. destruct lft; [discriminate|].
      inv_bind H. destruct x as [f' unf]. inversion H; subst.
      unfold split_ofl in Hx. inv_bind Hx. destruct x as [fil unf']. inversion Hx; subst.
      right; split; [reflexivity|]. eexists [], f, _, unf. cbn. repeat split. exact Hx0.
Qed.

Lemma split_fs_same fs : forall l fs' l', split_fs fs l = Ok (fs', l') -> l' = l -> fs' = fs.
Proof.
  induction fs as [|f r IH]; intros l fs' l' H Heq; cbn [split_fs] in H.
  - inversion H; reflexivity.
  - destruct (f_afilled f =? 0); [discriminate|]. destruct (f_aunfilled f =? 0); cbn [negb] in H.
    + inv_bind H. destruct x as [r' l1]. inversion H; subst. f_equal. apply (IH _ _ _ Hx eq_refl).
    + destruct r; [|discriminate]. destruct l; [discriminate|].
      inv_bind H. destruct x as [f' unf]. inversion H; subst. discriminate.
Qed.

(** At most one order is partially filled; it is the last of the asks or the last of the bids
    (as allocated), it allows partial fills, and the split is exact. *)
Lemma split_partial_shape asks bids asks' bids' lft :
  split_partial asks bids = Ok (asks', bids', lft) ->
  match lft with
  | None => True
  | Some unf =>
      exists pre f f',
        ((asks = pre ++ [f] /\ asks' = pre ++ [f'] /\ bids' = bids) \/
         (bids = pre ++ [f] /\ bids' = pre ++ [f'] /\ asks' = asks)) /\
        split (f_order f) (f_afilled f) = Ok (f_order f', unf)
  end.
Proof.
  unfold split_partial. intros H. inv_bind H. destruct x as [a1 l1]. inv_bind H. destruct x as [b1 l2].
  assert (Ea : asks' = a1) by (inversion H; reflexivity).
  assert (Eb : bids' = b1) by (inversion H; reflexivity).
  assert (El : lft = l2) by (inversion H; reflexivity). clear H. subst asks' bids' lft.
  destruct (split_fs_shape _ _ _ _ Hx) as [E1|(_ & pre & f & f' & unf & E1 & E2 & E3 & Hs)].
  - pose proof (split_fs_same _ _ _ _ Hx E1) as Ha. subst l1 a1.
    destruct (split_fs_shape _ _ _ _ Hx0) as [->|(_ & pre & f & f' & unf & E1 & E2 & E3 & Hs)]; [exact I|].
    subst l2. exists pre, f, f'. split; [right; repeat split; assumption|assumption].
  - subst l1. destruct (split_fs_shape _ _ _ _ Hx0) as [E4|(Hnone & _)]; [|discriminate].
    pose proof (split_fs_same _ _ _ _ Hx0 E4) as Hb. subst l2 b1.
    exists pre, f, f'. split; [left; repeat split; assumption|assumption].
Qed.

(** ** Fuel: the asset allocation never runs out. *)
Lemma dist_assets2_not_fuel a b amt : dist_assets2 a b amt <> OutOfFuel.
Proof.
  unfold dist_assets2, dist_assets. destruct (f_aunfilled a <? amt); cbn; [discriminate|].
  destruct (f_aunfilled b <? amt); cbn; discriminate.
Qed.

Lemma alloc_assets_fuel fuel : forall adone asks bdone bids,
  (length asks + length bids < fuel)%nat ->
  alloc_assets fuel adone asks bdone bids <> OutOfFuel.
Proof.
  induction fuel as [|fuel IH]; intros adone asks bdone bids Hlen; [lia|].
  destruct asks as [|a ar]; [cbn; discriminate|]. destruct bids as [|b br]; [cbn; discriminate|].
  cbn [alloc_assets].
  destruct ((f_aunfilled a <=? 0) || (f_aunfilled b <=? 0)); [discriminate|].
  destruct (dist_assets2 a b (Z.min (f_aunfilled a) (f_aunfilled b))) as [[a' b']| |] eqn:E; cbn [rbind];
    [|discriminate|exfalso; apply (dist_assets2_not_fuel _ _ _ E)].
  destruct (f_aunfilled a' =? 0) eqn:Ea, (f_aunfilled b' =? 0) eqn:Eb; cbn [negb andb];
    try discriminate; apply IH; cbn [length] in *; lia.
Qed.

Lemma allocate_assets_fuel asks bids : allocate_assets asks bids <> OutOfFuel.
Proof. unfold allocate_assets. apply alloc_assets_fuel. lia. Qed.

(** Fuel: the inner loop of the first price pass never runs out. *)
Lemma dist_price2_not_fuel a b amt : dist_price2 a b amt <> OutOfFuel.
Proof.
  unfold dist_price2, dist_price.
  destruct ((f_pleft a <? amt) && negb (o_ask (f_order a))); cbn; [discriminate|].
  destruct ((f_pleft b <? amt) && negb (o_ask (f_order b))); cbn; discriminate.
Qed.

Lemma dist_price2_pleft a b amt a' b' :
  dist_price2 a b amt = Ok (a', b') -> f_pleft a' = f_pleft a - amt /\ f_pleft b' = f_pleft b - amt.
Proof.
  unfold dist_price2, dist_price. intros H.
  destruct ((f_pleft a <? amt) && negb (o_ask (f_order a))); cbn in H; [discriminate|].
  destruct ((f_pleft b <? amt) && negb (o_ask (f_order b))); cbn in H; [discriminate|].
  inversion H; subst; cbn; split; reflexivity.
Qed.

Lemma fp_inner_fuel fuel : forall a bdone brest tot,
  (length brest + (if Z.leb (f_pleft a) 0 then 0 else 1) <= fuel)%nat ->
  fp_inner fuel a bdone brest tot <> OutOfFuel.
Proof.
  induction fuel as [|fuel IH]; intros a bdone brest tot Hlen.
  - destruct brest as [|b br]; cbn in *; destruct (f_pleft a <=? 0); try discriminate; lia.
  - cbn [fp_inner]. destruct (Z.leb_spec (f_pleft a) 0) as [Ha|Ha]; [discriminate|].
    destruct brest as [|b br]; [discriminate|].
    destruct (Z.leb_spec (f_pleft b) 0) as [Hb|Hb]; [discriminate|].
    destruct (dist_price2 a b (Z.min (f_pleft a) (f_pleft b))) as [[a' b']| |] eqn:E; cbn [rbind];
      [|discriminate|exfalso; apply (dist_price2_not_fuel _ _ _ E)].
    destruct (dist_price2_pleft _ _ _ _ _ E) as [Ha' Hb'].
    destruct (Z.leb_spec (f_pleft b') 0) as [Hb2|Hb2]; apply IH; cbn [length] in *.
    + destruct (f_pleft a' <=? 0); lia.
    + replace (f_pleft a' <=? 0) with true by lia. lia.
Qed.

(** ** Fuel: the price allocation never runs out. *)
Definition SP (l : list ofl) : Z := fold_right (fun f acc => f_pleft f + acc) 0 l.
Definition SA (l : list ofl) : Z := fold_right (fun f acc => f_afilled f + acc) 0 l.
Definition pos_bids (l : list ofl) : Prop := Forall (fun b => 0 < f_pleft b) l.
Definition zero_bids (l : list ofl) : Prop := Forall (fun b => f_pleft b = 0) l.
Definition nonneg_af (l : list ofl) : Prop := Forall (fun a => 0 <= f_afilled a) l.

Lemma SP_cons f r : SP (f :: r) = f_pleft f + SP r. Proof. reflexivity. Qed.
Lemma SA_cons f r : SA (f :: r) = f_afilled f + SA r. Proof. reflexivity. Qed.
Lemma SA_app l1 l2 : SA (l1 ++ l2) = SA l1 + SA l2.
Proof. induction l1 as [|f r IH]; [reflexivity|]. cbn [app]. rewrite !SA_cons, IH. lia. Qed.
Lemma SA_rev l : SA (rev l) = SA l.
Proof. induction l as [|f r IH]; [reflexivity|]. cbn [rev]. rewrite SA_app, !SA_cons, IH. cbn. lia. Qed.
Lemma SP_nonneg l : pos_bids l -> 0 <= SP l.
Proof. induction 1 as [|f r Hf Hr IH]; [cbn; lia|]. rewrite SP_cons. lia. Qed.

Lemma fold_left_add_pleft l : forall z, fold_left (fun acc f => acc + f_pleft f) l z = z + SP l.
Proof. induction l as [|f r IH]; intros z; cbn [fold_left]; [cbn; lia|]. rewrite IH, SP_cons. lia. Qed.
Lemma fold_left_add_afilled l : forall z, fold_left (fun acc f => acc + f_afilled f) l z = z + SA l.
Proof. induction l as [|f r IH]; intros z; cbn [fold_left]; [cbn; lia|]. rewrite IH, SA_cons. lia. Qed.

Lemma dist_price2_spec a b amt a' b' :
  dist_price2 a b amt = Ok (a', b') ->
  f_pleft a' = f_pleft a - amt /\ f_pleft b' = f_pleft b - amt /\
  f_afilled a' = f_afilled a /\ f_afilled b' = f_afilled b.
Proof.
  unfold dist_price2, dist_price. intros H.
  destruct ((f_pleft a <? amt) && negb (o_ask (f_order a))); cbn in H; [discriminate|].
  destruct ((f_pleft b <? amt) && negb (o_ask (f_order b))); cbn in H; [discriminate|].
  inversion H; subst; cbn; repeat split; reflexivity.
Qed.

(** The inner loop of the first pass keeps: bids before the index are used up, bids from the
    index on still have price left, nothing is lost. *)
Lemma fp_inner_spec fuel : forall a bdone brest tot a' bd' br' tot',
  fp_inner fuel a bdone brest tot = Ok (a', bd', br', tot') ->
  pos_bids brest -> zero_bids bdone ->
  pos_bids br' /\ zero_bids bd' /\ tot' + SP br' = tot + SP brest /\ f_afilled a' = f_afilled a.
Proof.
  induction fuel as [|fuel IH]; intros a bdone brest tot a' bd' br' tot' H Hp Hz.
  - cbn [fp_inner] in H. destruct (f_pleft a <=? 0); [inversion H; subst; auto|].
    destruct brest as [|b br]; [discriminate|]. destruct (f_pleft b <=? 0); [inversion H; subst; auto|discriminate].
  - cbn [fp_inner] in H. destruct (Z.leb_spec (f_pleft a) 0) as [Ha|Ha]; [inversion H; subst; auto|].
    destruct brest as [|b br]; [discriminate|].
    destruct (Z.leb_spec (f_pleft b) 0) as [Hb|Hb]; [inversion H; subst; auto|].
    inv_bind H. destruct x as [a1 b1]. destruct (dist_price2_spec _ _ _ _ _ Hx) as (Ha1 & Hb1 & Hf1 & _).
    inversion Hp as [|? ? Hpb Hpr]; subst.
    destruct (Z.leb_spec (f_pleft b1) 0) as [Hb2|Hb2].
    + destruct (IH _ _ _ _ _ _ _ _ H Hpr ltac:(constructor; [lia|assumption])) as (H1 & H2 & H3 & H4).
      repeat split; try assumption; rewrite ?SP_cons in *; lia.
    + destruct (IH _ _ _ _ _ _ _ _ H ltac:(constructor; [lia|assumption]) Hz) as (H1 & H2 & H3 & H4).
      repeat split; try assumption; rewrite ?SP_cons in *; lia.
Qed.

Lemma first_pass_spec asks : forall bdone brest tot asks' bd' br' tot',
  first_pass asks bdone brest tot = Ok (asks', bd', br', tot') ->
  pos_bids brest -> zero_bids bdone -> nonneg_af asks ->
  pos_bids br' /\ zero_bids bd' /\ tot' + SP br' = tot + SP brest /\
  SA asks' = SA asks /\ nonneg_af asks' /\ length asks' = length asks.
Proof.
  induction asks as [|a ar IH]; intros bdone brest tot asks' bd' br' tot' H Hp Hz Hn; cbn [first_pass] in H.
  - inversion H; subst. repeat split; auto.
  - inv_bind H. destruct x as [[[a1 bd1] br1] t1]. inv_bind H. destruct x as [[[ar1 bd2] br2] t2].
    inversion H; subst; clear H.
    destruct (fp_inner_spec _ _ _ _ _ _ _ _ _ Hx Hp Hz) as (H1 & H2 & H3 & H4).
    inversion Hn as [|? ? Hna Hnr]; subst.
    destruct (IH _ _ _ _ _ _ _ Hx0 H1 H2 Hnr) as (G1 & G2 & G3 & G4 & G5 & G6).
    repeat split; try assumption.
    + lia.
    + rewrite !SA_cons. lia.
    + constructor; [lia|assumption].
    + cbn [length]. lia.
Qed.

Lemma first_pass_fuel asks : forall bdone brest tot, first_pass asks bdone brest tot <> OutOfFuel.
Proof.
  induction asks as [|a ar IH]; intros bdone brest tot; cbn [first_pass]; [discriminate|].
  destruct (fp_inner (S (length brest)) a bdone brest tot) as [[[[a1 bd1] br1] t1]| |] eqn:E; cbn [rbind];
    [|discriminate|].
  - destruct (first_pass ar bd1 br1 t1) as [[[[ar1 bd2] br2] t2]| |] eqn:E2; cbn [rbind]; try discriminate.
    exfalso. apply (IH _ _ _ E2).
  - exfalso. revert E. apply fp_inner_fuel. destruct (f_pleft a <=? 0); lia.
Qed.

(** [consume]: hands out whole bids while they fit. *)
Lemma consume_spec brest : forall a add lft bdone,
  pos_bids brest -> lft = SP brest -> 0 <= add <= lft ->
  match consume a add lft bdone brest with
  | Ok (a', add', lft', bdone', brest') =>
      pos_bids brest' /\ lft' = SP brest' /\ 0 <= add' <= lft' /\ lft - add = lft' - add' /\
      f_afilled a' = f_afilled a /\
      (add' <> 0 -> match brest' with b :: _ => add' < f_pleft b | [] => False end)
  | Err => True
  | OutOfFuel => False
  end.
Proof.
  induction brest as [|b br IH]; intros a add lft bdone Hp Hl Ha; cbn [consume].
  - cbn in Hl. repeat split; auto; try lia.
  - destruct (Z.eqb_spec add 0) as [->|Hne].
    + repeat split; auto; try lia.
    + destruct (Z.ltb_spec add (f_pleft b)) as [Hlt|Hge].
      * repeat split; auto; lia.
      * destruct (dist_price2 a b (f_pleft b)) as [[a1 b1]| |] eqn:E; cbn [rbind]; [|exact I|].
        -- destruct (dist_price2_spec _ _ _ _ _ E) as (Ha1 & Hb1 & Hf1 & _).
           inversion Hp as [|? ? Hpb Hpr]; subst. rewrite SP_cons in *.
           specialize (IH a1 (add - f_pleft b) (SP br) (b1 :: bdone) Hpr eq_refl ltac:(lia)).
           replace (f_pleft b + SP br - f_pleft b) with (SP br) by lia.
           destruct (consume a1 (add - f_pleft b) (SP br) (b1 :: bdone) br) as [[[[[a2 add2] l2] bd2] br2]| |];
             [|exact I|exact IH].
           destruct IH as (I1 & I2 & I3 & I4 & I5 & I6). repeat split; try assumption; lia.
        -- apply (dist_price2_not_fuel _ _ _ E).
Qed.

(** One iteration of the leftover loop. *)
Lemma lo_step_spec L TA a first1 lft bdone brest :
  0 < L -> 0 < TA -> 0 <= f_afilled a -> pos_bids brest -> lft = SP brest -> 0 < lft ->
  match lo_step L TA a first1 lft bdone brest with
  | Ok (a', lft', bdone', brest') =>
      pos_bids brest' /\ lft' = SP brest' /\ f_afilled a' = f_afilled a /\
      (let q := Z.quot (L * f_afilled a) TA in
       if (q =? 0) && first1 then lft' = lft else lft' = lft - Z.min (if q =? 0 then 1 else q) lft)
  | Err => True
  | OutOfFuel => False
  end.
Proof.
  intros HL HA Haf Hp Hl Hpos. unfold lo_step.
  destruct brest as [|b0 br0] eqn:Eb; [exact I|]. rewrite <- Eb in *. clear Eb b0 br0.
  destruct (mulchk L (f_afilled a)) as [m| |] eqn:Em; cbn [rbind]; [|exact I|].
  2:{ unfold mulchk, of_opt in Em. destruct (chk (L * f_afilled a)); discriminate. }
  apply mulchk_ok in Em. subst m.
  destruct (Z.eqb_spec TA 0); [exact I|].
  set (q := Z.quot (L * f_afilled a) TA).
  assert (Hq : 0 <= q) by (apply Z.quot_pos; nia).
  destruct ((q =? 0) && first1) eqn:Eskip.
  - repeat split; auto.
  - set (add2 := Z.min (if q =? 0 then 1 else q) lft).
    assert (Hadd : 1 <= add2 <= lft) by (unfold add2; destruct (Z.eqb_spec q 0); lia).
    pose proof (consume_spec brest a add2 lft bdone Hp Hl ltac:(lia)) as Hc.
    destruct (consume a add2 lft bdone brest) as [[[[[a1 add3] l1] bd1] br1]| |]; cbn [rbind]; [|exact I|exact Hc].
    destruct Hc as (C1 & C2 & C3 & C4 & C5 & C6).
    destruct (Z.eqb_spec add3 0) as [->|Hne].
    + repeat split; try assumption. lia.
    + specialize (C6 Hne). destruct br1 as [|b br]; [contradiction|].
      destruct (dist_price2 a1 b add3) as [[a2 b2]| |] eqn:E; cbn [rbind]; [|exact I|].
      * destruct (dist_price2_spec _ _ _ _ _ E) as (Ha2 & Hb2 & Hf2 & _).
        inversion C1 as [|? ? Hpb Hpr]; subst. rewrite SP_cons in *.
        destruct (Z.eqb_spec (f_pleft b2) 0) as [Hz|Hnz]; [lia|].
        repeat split; try lia.
        -- constructor; [lia|assumption].
        -- rewrite SP_cons. lia.
      * apply (dist_price2_not_fuel _ _ _ E).
Qed.

Lemma leftover_zero fuel L TA adone arest first bdone brest :
  leftover_loop fuel L TA adone arest first 0 bdone brest <> OutOfFuel.
Proof. destruct fuel; cbn; discriminate. Qed.

(** Second and later passes: every iteration hands out at least one unit. *)
Lemma leftover_phase2 fuel L TA : forall adone arest lft bdone brest,
  0 < L -> 0 < TA -> nonneg_af adone -> nonneg_af arest ->
  pos_bids brest -> lft = SP brest -> lft <= Z.of_nat fuel ->
  leftover_loop fuel L TA adone arest false lft bdone brest <> OutOfFuel.
Proof.
  induction fuel as [|fuel IH]; intros adone arest lft bdone brest HL HA Hn1 Hn2 Hp Hl Hf.
  - assert (lft = 0) by (pose proof (SP_nonneg _ Hp); lia). subst lft. rewrite H. apply leftover_zero.
  - cbn [leftover_loop]. destruct (Z.eqb_spec lft 0); [discriminate|].
    assert (Hpos : 0 < lft) by (pose proof (SP_nonneg _ Hp); lia).
    assert (Hgo : forall a ar ad1, 0 <= f_afilled a -> nonneg_af ar -> nonneg_af ad1 ->
      rbind (lo_step L TA a false lft bdone brest)
        (fun '(a', lft', bdone', brest') => leftover_loop fuel L TA (a' :: ad1) ar false lft' bdone' brest') <> OutOfFuel).
    { intros a ar ad1 Ha Har Had.
      pose proof (lo_step_spec L TA a false lft bdone brest HL HA Ha Hp Hl Hpos) as Hs.
      destruct (lo_step L TA a false lft bdone brest) as [[[[a' l'] bd'] br']| |]; cbn [rbind]; [|discriminate|contradiction].
      destruct Hs as (S1 & S2 & S3 & S4). cbn zeta in S4. rewrite andb_false_r in S4.
      apply IH; try assumption.
      - constructor; [lia|assumption].
      - assert (0 <= Z.quot (L * f_afilled a) TA) by (apply Z.quot_pos; nia).
        destruct (Z.eqb_spec (Z.quot (L * f_afilled a) TA) 0); lia. }
    destruct arest as [|a ar].
    + destruct (rev adone) as [|a ar] eqn:Er; [discriminate|].
      assert (Hrev : nonneg_af (a :: ar)) by (rewrite <- Er; apply Forall_rev; assumption).
      inversion Hrev; subst. apply Hgo; auto; try constructor.
    + inversion Hn2; subst. apply Hgo; auto.
Qed.

(** First pass over the asks: the budget [TA*lft <= L*(TA - SA adone) + |adone|*TA] is kept, so
    at the wrap-around at most |asks| units are left. *)
Lemma leftover_phase1 fuel L TA : forall adone arest lft bdone brest,
  0 < L -> 0 < TA -> nonneg_af adone -> nonneg_af arest ->
  SA adone + SA arest = TA ->
  pos_bids brest -> lft = SP brest ->
  TA * lft <= L * (TA - SA adone) + Z.of_nat (length adone) * TA ->
  (length arest + (length adone + length arest) < fuel)%nat ->
  leftover_loop fuel L TA adone arest true lft bdone brest <> OutOfFuel.
Proof.
  induction fuel as [|fuel IH]; intros adone arest lft bdone brest HL HA Hn1 Hn2 HS Hp Hl Hb Hf; [lia|].
  cbn [leftover_loop]. destruct (Z.eqb_spec lft 0); [discriminate|].
  assert (Hpos : 0 < lft) by (pose proof (SP_nonneg _ Hp); lia).
  destruct arest as [|a ar].
  - (* wrap-around: at most |asks| units are left, one per iteration from now on *)
    cbn [SA fold_right length] in *.
    assert (Hle : lft <= Z.of_nat (length adone)) by nia.
    pose proof (leftover_phase2 (S fuel) L TA adone [] lft bdone brest HL HA Hn1 Hn2 Hp Hl ltac:(lia)) as H2.
    cbn [leftover_loop] in H2. destruct (Z.eqb_spec lft 0); [lia|]. exact H2.
  - pose proof (Forall_inv Hn2) as Ha. pose proof (Forall_inv_tail Hn2) as Har. cbn beta in Ha.
    pose proof (lo_step_spec L TA a true lft bdone brest HL HA Ha Hp Hl Hpos) as Hs.
    destruct (lo_step L TA a true lft bdone brest) as [[[[a' l'] bd'] br']| |]; cbn [rbind]; [|discriminate|contradiction].
    destruct Hs as (S1 & S2 & S3 & S4). cbn zeta in S4. rewrite andb_true_r in S4.
    destruct (Z.eqb_spec l' 0) as [->|Hl'].
    + rewrite S2. rewrite <- S2. apply leftover_zero.
    + rewrite SA_cons in HS.
      assert (Hq : 0 <= Z.quot (L * f_afilled a) TA) by (apply Z.quot_pos; nia).
      pose proof (Z.quot_rem' (L * f_afilled a) TA) as Hqr.
      pose proof (Z.rem_bound_pos (L * f_afilled a) TA ltac:(nia) HA) as Hrb.
      apply IH; try assumption.
      * constructor; [lia|assumption].
      * rewrite SA_cons. lia.
      * rewrite SA_cons. cbn [length]. rewrite Nat2Z.inj_succ.
        destruct (Z.eqb_spec (Z.quot (L * f_afilled a) TA) 0) as [Hz|Hz]; nia.
      * cbn [length] in *. lia.
Qed.

(** allocatePrice never runs out of fuel when every bid has price left and no ask has negative
    assets filled (what BuildSettlement hands it for valid orders). *)
Lemma allocate_price_fuel asks bids :
  pos_bids bids -> nonneg_af asks -> allocate_price asks bids <> OutOfFuel.
Proof.
  intros Hp Hn. unfold allocate_price.
  destruct (sum_pleft bids <? sum_pleft asks); [discriminate|].
  pose proof (first_pass_fuel asks [] bids 0) as Hfp.
  destruct (first_pass asks [] bids 0) as [[[[asks1 bd] br] tot]| |] eqn:E; cbn [rbind]; [|discriminate|contradiction].
  destruct (first_pass_spec _ _ _ _ _ _ _ _ E Hp (Forall_nil _) Hn) as (F1 & F2 & F3 & F4 & F5 & F6).
  unfold sum_pleft, sum_afilled. rewrite !fold_left_add_pleft, fold_left_add_afilled.
  destruct (Z.eqb_spec tot (0 + SP bids)); [discriminate|].
  pose proof (SP_nonneg _ F1) as Hnn.
  destruct (Z.eq_dec (0 + SA asks1) 0) as [Hz|Hz].
  - (* no assets at all: the first iteration errors (division by zero) or the list is empty *)
    destruct asks1 as [|a ar]; cbn [length Nat.mul leftover_loop].
    + destruct (0 + SP bids - tot =? 0); discriminate.
    + destruct (0 + SP bids - tot =? 0); [discriminate|]. unfold lo_step.
      destruct br; cbn [rbind]; [discriminate|].
      destruct (mulchk (0 + SP bids - tot) (f_afilled a)) eqn:Em; cbn [rbind]; try discriminate.
      * rewrite Hz. cbn. discriminate.
      * unfold mulchk, of_opt in Em. destruct (chk _); discriminate.
  - assert (HA : 0 < 0 + SA asks1).
    { assert (0 <= SA asks1); [|lia]. clear - F5. induction F5; [cbn; lia|rewrite SA_cons; lia]. }
    apply leftover_phase1; try assumption; try lia.
    + constructor.
    + cbn. lia.
    + cbn [SA fold_right length]. nia.
    + cbn [length]. lia.
Qed.

(** ** BuildSettlement's model never runs out of fuel on valid orders. *)
Definition valid_order (o : order) : Prop := 0 < o_assets o /\ 0 < o_price o.

(** What every fulfillment satisfies between allocateAssets and allocatePrice. *)
Definition J (f : ofl) : Prop :=
  0 <= f_afilled f /\ f_papplied f = 0 /\ f_pleft f = o_price (f_order f) /\
  0 < o_price (f_order f) /\ 0 < o_assets (f_order f).

Lemma J_new o : valid_order o -> J (new_ofl o).
Proof. intros [H1 H2]. unfold J, new_ofl; cbn. repeat split; lia. Qed.

Lemma dist_assets_J f other amt f' : 0 <= amt -> J f -> dist_assets f other amt = Ok f' -> J f'.
Proof.
  unfold dist_assets. intros Hamt (J1 & J2 & J3 & J4 & J5) H.
  destruct (f_aunfilled f <? amt); [discriminate|]. inversion H; subst. unfold J; cbn. repeat split; try assumption; lia.
Qed.

Lemma alloc_assets_J fuel : forall adone asks bdone bids a1 b1,
  Forall J adone -> Forall J asks -> Forall J bdone -> Forall J bids ->
  alloc_assets fuel adone asks bdone bids = Ok (a1, b1) -> Forall J a1 /\ Forall J b1.
Proof.
  induction fuel as [|fuel IH]; intros adone asks bdone bids a1 b1 H1 H2 H3 H4 H.
  - destruct asks as [|a ar]; [|destruct bids as [|b br]]; cbn in H; try discriminate;
      inversion H; subst; split; apply Forall_app; split; auto using Forall_rev.
  - destruct asks as [|a ar]; [|destruct bids as [|b br]]; cbn [alloc_assets] in H;
      try (inversion H; subst; split; apply Forall_app; split; auto using Forall_rev; fail).
    destruct (Z.leb_spec (f_aunfilled a) 0); cbn [orb] in H; [discriminate|].
    destruct (Z.leb_spec (f_aunfilled b) 0); cbn [orb] in H; [discriminate|].
    inv_bind H. destruct x as [a' b']. unfold dist_assets2 in Hx. inv_bind Hx. inv_bind Hx. inversion Hx; subst.
    pose proof (Forall_inv H2) as Ja. pose proof (Forall_inv_tail H2) as Jar.
    pose proof (Forall_inv H4) as Jb. pose proof (Forall_inv_tail H4) as Jbr.
    assert (Ja' : J a') by (eapply dist_assets_J; [|exact Ja|exact Hx0]; lia).
    assert (Jb' : J b') by (eapply dist_assets_J; [|exact Jb|exact Hx1]; lia).
    destruct (negb (f_aunfilled a' =? 0) && negb (f_aunfilled b' =? 0)); [discriminate|].
    apply (IH _ _ _ _ _ _) in H; [assumption| | | |];
      destruct (f_aunfilled a' =? 0), (f_aunfilled b' =? 0); auto.
Qed.

Lemma split_not_fuel o k : split o k <> OutOfFuel.
Proof.
  unfold split.
  destruct (k <=? 0); [discriminate|]. destruct (k =? o_assets o); [discriminate|].
  destruct (o_assets o <? k); [discriminate|]. destruct (negb (o_partial o)); [discriminate|].
  assert (Hm : forall a b, mulchk a b <> OutOfFuel) by (intros; unfold mulchk, of_opt; destruct (chk _); discriminate).
  destruct (mulchk (o_price o) k) eqn:Em; cbn [rbind]; [|discriminate|exfalso; apply (Hm _ _ Em)].
  unfold quo_rem. destruct (negb (Z.rem a (o_assets o) =? 0)); [discriminate|].
  assert (Hsf : forall fees acc, split_fees fees k (o_assets o) acc <> OutOfFuel).
  { induction fees as [|[d f] r IH]; intros acc; cbn [split_fees]; [discriminate|].
    destruct (mulchk f k) eqn:Ef; cbn [rbind]; [|discriminate|exfalso; apply (Hm _ _ Ef)].
    unfold quo_rem. destruct (negb _); [discriminate|]. destruct (_ <? 0); [discriminate|]. apply IH. }
  destruct (coins_is_zero (o_fees o)); cbn [rbind]; [discriminate|].
  destruct (split_fees (o_fees o) k (o_assets o) []) eqn:Es; cbn [rbind]; [|discriminate|exfalso; apply (Hsf _ _ Es)].
  destruct (coins_any_neg _); cbn [rbind]; discriminate.
Qed.

Lemma split_fs_J fs : forall lft fs' lft',
  Forall J fs -> split_fs fs lft = Ok (fs', lft') -> Forall J fs'.
Proof.
  induction fs as [|f r IH]; intros lft fs' lft' HJ H; cbn [split_fs] in H.
  - inversion H; subst. constructor.
  - pose proof (Forall_inv HJ) as Jf. pose proof (Forall_inv_tail HJ) as Jr.
    destruct (f_afilled f =? 0); [discriminate|]. destruct (f_aunfilled f =? 0); cbn [negb] in H.
    + inv_bind H. destruct x as [r' l']. inversion H; subst. constructor; [assumption|]. apply (IH _ _ _ Jr Hx).
    + destruct r; [|discriminate]. destruct lft; [discriminate|].
      inv_bind H. destruct x as [f' unf]. inversion H; subst. constructor; [|constructor].
      unfold split_ofl in Hx. inv_bind Hx. destruct x as [fil unf']. inversion Hx; subst.
      destruct Jf as (J1 & J2 & J3 & J4 & J5).
      destruct (split_sound _ _ _ _ Hx0) as (Hk & _ & _ & _ & Haf & _ & _ & Hpf & _).
      unfold J; cbn. repeat split; try lia; try nia.
Qed.

Lemma split_fs_not_fuel fs : forall lft, split_fs fs lft <> OutOfFuel.
Proof.
  induction fs as [|f r IH]; intros lft; cbn [split_fs]; [discriminate|].
  destruct (f_afilled f =? 0); [discriminate|]. destruct (negb (f_aunfilled f =? 0)).
  - destruct r; [|discriminate]. destruct lft; [discriminate|]. unfold split_ofl.
    destruct (split (f_order f) (f_afilled f)) as [[fil unf]| |] eqn:E; cbn [rbind]; try discriminate.
    exfalso; apply (split_not_fuel _ _ E).
  - destruct (split_fs r lft) as [[r' l']| |] eqn:E; cbn [rbind]; try discriminate. exfalso; apply (IH _ E).
Qed.

Lemma idx_get_not_fuel i : idx_get i <> OutOfFuel.
Proof. unfold idx_get. destruct (forallb _ i); discriminate. Qed.

Lemma index_dists_not_fuel d dists : forall idx sum, index_dists d dists idx sum <> OutOfFuel.
Proof.
  induction dists as [|[a amt] r IH]; intros idx sum; cbn [index_dists]; [discriminate|].
  destruct (amt <=? 0); [discriminate|apply IH].
Qed.

Lemma transfer_not_fuel f : get_asset_transfer f <> OutOfFuel /\ get_price_transfer f <> OutOfFuel.
Proof.
  unfold get_asset_transfer, get_price_transfer. split.
  - destruct (f_afilled f <=? 0); [discriminate|].
    destruct (index_dists _ _ [] 0) as [[idx sum]| |] eqn:E; cbn [rbind]; [|discriminate|exfalso; apply (index_dists_not_fuel _ _ _ _ E)].
    destruct (negb _); [discriminate|].
    destruct (idx_get idx) eqn:E2; cbn [rbind]; [discriminate|discriminate|exfalso; apply (idx_get_not_fuel _ E2)].
  - destruct (f_papplied f <=? 0); [discriminate|].
    destruct (index_dists _ _ [] 0) as [[idx sum]| |] eqn:E; cbn [rbind]; [|discriminate|exfalso; apply (index_dists_not_fuel _ _ _ _ E)].
    destruct (negb _); [discriminate|].
    destruct (idx_get idx) eqn:E2; cbn [rbind]; [discriminate|discriminate|exfalso; apply (idx_get_not_fuel _ E2)].
Qed.

Lemma record_all_not_fuel getter fs : (forall f, getter f <> OutOfFuel) ->
  forall fees, record_all getter fs fees <> OutOfFuel.
Proof.
  intros Hg. induction fs as [|f r IH]; intros fees; cbn [record_all]; [discriminate|].
  destruct (getter f) eqn:E; cbn [rbind]; [|discriminate|exfalso; apply (Hg _ E)].
  destruct (coins_is_zero (f_fees f)); cbn [rbind].
  - destruct (record_all getter r fees) as [[ts f2]| |] eqn:E2; cbn [rbind]; try discriminate. exfalso; apply (IH _ E2).
  - destruct (coins_any_neg (f_fees f)); cbn [rbind]; [discriminate|].
    destruct (record_all getter r _) as [[ts f2]| |] eqn:E2; cbn [rbind]; try discriminate. exfalso; apply (IH _ E2).
Qed.

Lemma set_ask_fees_not_fuel asks r : set_ask_fees asks r <> OutOfFuel.
Proof.
  induction asks as [|a ar IH]; cbn [set_ask_fees]; [discriminate|].
  assert (Ha : match r with
               | None => Ok (set_fee a (o_fees (f_order a)))
               | Some rt => rbind (ratio_fee rt (o_pd (f_order a)) (f_papplied a))
                              (fun '(d, amt) => Ok (set_fee a (coins_add1 (o_fees (f_order a)) d amt)))
               end <> OutOfFuel).
  { destruct r as [rt|]; [|discriminate]. unfold ratio_fee.
    destruct (negb _); cbn [rbind]; [discriminate|].
    destruct (apply_loosely_chk _ _ _) as [[[amt b]|]|]; cbn [rbind]; discriminate. }
  destruct (match r with None => _ | Some rt => _ end) eqn:E; cbn [rbind]; [|discriminate|exfalso; apply Ha; reflexivity].
  destruct (set_ask_fees ar r) eqn:E2; cbn [rbind]; [discriminate|discriminate|exfalso; apply IH; reflexivity].
Qed.

(** BuildSettlement's model never reports fuel exhaustion on valid orders. *)
Lemma build_fuel asks bids lk :
  Forall valid_order asks -> Forall valid_order bids -> lk <> OutOfFuel ->
  build asks bids lk <> OutOfFuel.
Proof.
  intros Va Vb Hlk. unfold build.
  destruct (negb (validate_can_settle asks bids)); [discriminate|].
  destruct (allocate_assets (map new_ofl asks) (map new_ofl bids)) as [[a1 b1]| |] eqn:E1; cbn [rbind];
    [|discriminate|exfalso; apply (allocate_assets_fuel _ _ E1)].
  assert (HJ0 : forall l, Forall valid_order l -> Forall J (map new_ofl l)).
  { induction 1; cbn; constructor; auto using J_new. }
  unfold allocate_assets in E1.
  destruct (alloc_assets_J _ _ _ _ _ _ _ (Forall_nil _) (HJ0 _ Va) (Forall_nil _) (HJ0 _ Vb) E1) as [Ja1 Jb1].
  unfold split_partial.
  destruct (split_fs a1 None) as [[a2 l1]| |] eqn:E2; cbn [rbind]; [|discriminate|exfalso; apply (split_fs_not_fuel _ _ E2)].
  destruct (split_fs b1 l1) as [[b2 l2]| |] eqn:E3; cbn [rbind]; [|discriminate|exfalso; apply (split_fs_not_fuel _ _ E3)].
  pose proof (split_fs_J _ _ _ _ Ja1 E2) as Ja2. pose proof (split_fs_J _ _ _ _ Jb1 E3) as Jb2.
  destruct (allocate_price a2 b2) as [[a3 b3]| |] eqn:E4; cbn [rbind]; [|discriminate|].
  2:{ exfalso. revert E4. apply allocate_price_fuel.
      - eapply Forall_impl; [|exact Jb2]. intros f (J1 & J2 & J3 & J4 & J5). lia.
      - eapply Forall_impl; [|exact Ja2]. intros f (J1 & _). exact J1. }
  destruct lk as [r| |]; cbn [rbind]; [|discriminate|contradiction].
  destruct (set_ask_fees a3 r) as [a4| |] eqn:E5; cbn [rbind]; [|discriminate|exfalso; apply (set_ask_fees_not_fuel _ _ E5)].
  destruct (negb _); [discriminate|].
  destruct (record_all get_asset_transfer a4 []) as [[ts1 fees1]| |] eqn:E6; cbn [rbind]; [|discriminate|].
  2:{ exfalso. revert E6. apply record_all_not_fuel. intros f. apply transfer_not_fuel. }
  destruct (record_all get_price_transfer (set_bid_fees b3) fees1) as [[ts2 fees2]| |] eqn:E7; cbn [rbind]; [|discriminate|].
  2:{ exfalso. revert E7. apply record_all_not_fuel. intros f. apply transfer_not_fuel. }
  destruct fees2 as [|e fr]; cbn [rbind].
  - destruct (populate a4 l2 [] None) as [full1 part1]. destruct (populate (set_bid_fees b3) l2 full1 part1). discriminate.
  - destruct (idx_get (e :: fr)) eqn:E8; cbn [rbind]; [|discriminate|exfalso; apply (idx_get_not_fuel _ E8)].
    destruct (populate a4 l2 [] None) as [full1 part1]. destruct (populate (set_bid_fees b3) l2 full1 part1). discriminate.
Qed.
