(** Lemmas about the permission model Exchange/Perms.v and the governance tables
    Exchange/GovGuards.v (property C11).  The finite facts about the GENERATED tables are proved
    by [vm_compute]: when the Go source changes so that a guard disappears or names another
    permission, the regenerated table makes exactly those lemmas fail to compile. *)
From Coq Require Import List String Bool NArith Lia.
From PV Require Import Exchange.Perms Exchange.GovGuards Gen.GenExchangePerms Gen.GenGovEndpoints.
Import ListNotations.
Open Scope string_scope.

(* ------------------------------------------------------------------ equality tests *)

Lemma perm_eqb_eq : forall a b, perm_eqb a b = true <-> a = b.
Proof.
  intros a b; split.
  - destruct a, b; vm_compute; intro H; try reflexivity; discriminate H.
  - intros ->; destruct b; reflexivity.
Qed.

Lemma grant_eqb_eq : forall a b, grant_eqb a b = true <-> a = b.
Proof.
  intros [[m1 a1] p1] [[m2 a2] p2]; unfold grant_eqb; split.
  - intro H. apply andb_true_iff in H as [H Hp]. apply andb_true_iff in H as [Hm Ha].
    apply N.eqb_eq in Hm. apply N.eqb_eq in Ha. apply perm_eqb_eq in Hp. subst. reflexivity.
  - intro H. inversion H; subst. rewrite !N.eqb_refl. cbn [andb].
    apply perm_eqb_eq. reflexivity.
Qed.

Lemma store_has_In : forall st m a p, store_has st m a p = true <-> In (m, a, p) st.
Proof.
  intros st m a p. unfold store_has. rewrite existsb_exists. split.
  - intros [g [Hin Heq]]. apply grant_eqb_eq in Heq. subst. exact Hin.
  - intro Hin. exists (m, a, p). split; [exact Hin | apply grant_eqb_eq; reflexivity].
Qed.

Lemma has_permission_sound : forall auth st m a p,
  has_permission auth st m a p = true -> a = auth \/ In (m, a, p) st.
Proof.
  intros auth st m a p H. unfold has_permission, is_authority in H.
  destruct (N.eqb a auth) eqn:E.
  - left. apply N.eqb_eq. exact E.
  - right. apply store_has_In. exact H.
Qed.

Lemma has_permission_complete : forall auth st m a p,
  a = auth \/ In (m, a, p) st -> has_permission auth st m a p = true.
Proof.
  intros auth st m a p [H | H]; unfold has_permission, is_authority.
  - subst. rewrite N.eqb_refl. reflexivity.
  - destruct (N.eqb a auth); [reflexivity | apply store_has_In; exact H].
Qed.

(* ------------------------------------------------------------------ endpoints *)

Definition req_holds (q : requirement) (auth : N) (st : store) (market caller : N) : Prop :=
  match q with
  | RPerm p => caller = auth \/ In (market, caller, p) st
  | RAuthority => caller = auth
  | RRejectAll => False
  | RDelegated _ => True
  | RUnknown => False
  end.

(** Finite computation over the generated endpoint list. *)
Lemma generated_rows_match_documented :
  forallb (fun row => req_matches (documented_requirement (ep_name row)) (endpoint_requirement (ep_name row)))
          gen_endpoints = true.
Proof. vm_compute. reflexivity. Qed.

Lemma req_matches_holds : forall d g auth st m c,
  req_matches d g = true ->
  requirement_allows g auth st m c = true ->
  req_holds d auth st m c.
Proof.
  intros d g auth st m c Hm Ha.
  destruct d as [p | | | a | ], g as [p' | | | b | ]; cbn in Hm; try discriminate Hm; cbn in *.
  - apply perm_eqb_eq in Hm. subst. apply has_permission_sound. exact Ha.
  - unfold is_authority in Ha. apply N.eqb_eq. exact Ha.
  - discriminate Ha.
  - exact I.
Qed.

Lemma endpoint_needs_its_permission :
  forall row, In row gen_endpoints ->
  forall auth st market caller,
    endpoint_allowed (ep_name row) auth st market caller = true ->
    match documented_requirement (ep_name row) with
    | RPerm p => caller = auth \/ In (market, caller, p) st
    | RAuthority => caller = auth
    | RRejectAll => False
    | RDelegated _ => True
    | RUnknown => False
    end.
Proof.
  intros row Hin auth st market caller Hall.
  pose proof generated_rows_match_documented as Hf.
  rewrite forallb_forall in Hf. specialize (Hf row Hin).
  unfold endpoint_allowed in Hall.
  exact (req_matches_holds _ _ auth st market caller Hf Hall).
Qed.

Lemma cross_market_items :
  forall row, In row gen_endpoints ->
  forall auth st req_market item_market caller,
    item_changed (ep_name row) auth st req_market item_market caller = true ->
    match documented_requirement (ep_name row) with
    | RPerm p => caller = auth \/ In (item_market, caller, p) st
    | RAuthority => caller = auth
    | RRejectAll => False
    | RDelegated _ => True
    | RUnknown => False
    end.
Proof.
  intros row Hin auth st rm im caller H. unfold item_changed in H.
  apply andb_true_iff in H as [Ha He]. apply N.eqb_eq in He. subst im.
  exact (endpoint_needs_its_permission row Hin auth st rm caller Ha).
Qed.

Lemma generated_equals_documented :
  tables_match documented_endpoints generated_requirements = true
  /\ nodup_strings (map ep_name gen_endpoints) = true
  /\ has_permission_shape_ok = true.
Proof. vm_compute. repeat split. Qed.

(** Every privileged endpoint's permission, as one readable list computed from the generated
    tables. *)
Lemma generated_market_permissions :
  map (fun n => (n, endpoint_requirement n))
      ["MarketSettle"; "MarketCommitmentSettle"; "MarketReleaseCommitments"; "MarketSetOrderExternalID";
       "MarketWithdraw"; "MarketUpdateDetails"; "MarketUpdateEnabled"; "MarketUpdateAcceptingOrders";
       "MarketUpdateUserSettle"; "MarketUpdateAcceptingCommitments"; "MarketUpdateIntermediaryDenom";
       "MarketManagePermissions"; "MarketManageReqAttrs"; "GovUpdateParams"]
  = [("MarketSettle", RPerm PSettle); ("MarketCommitmentSettle", RPerm PSettle);
     ("MarketReleaseCommitments", RPerm PCancel); ("MarketSetOrderExternalID", RPerm PSetIds);
     ("MarketWithdraw", RPerm PWithdraw); ("MarketUpdateDetails", RPerm PUpdate);
     ("MarketUpdateEnabled", RRejectAll); ("MarketUpdateAcceptingOrders", RPerm PUpdate);
     ("MarketUpdateUserSettle", RPerm PUpdate); ("MarketUpdateAcceptingCommitments", RPerm PUpdate);
     ("MarketUpdateIntermediaryDenom", RPerm PUpdate); ("MarketManagePermissions", RPerm PPermissions);
     ("MarketManageReqAttrs", RPerm PAttributes); ("GovUpdateParams", RRejectAll)].
Proof. vm_compute. reflexivity. Qed.

(* ------------------------------------------------------------------ governance endpoints *)

Lemma gov_table_checks : gov_table_ok = true.
Proof. vm_compute. reflexivity. Qed.

Lemma gov_only :
  forall r, In r gen_gov_endpoints ->
    match exception_of r with
    | None =>
        (* governance-only: an authority comparison (or an unconditional rejection) is the first
           statement that touches the keeper *)
        (exists via, gv_guard r = GvAuthority via /\ via_ok (gv_module r) via = true) \/ gv_guard r = GvReject
    | Some g => gv_guard r = g
    end /\
    match exception_of r with
    | None => gv_precalls r = []
    | Some (GvNone _) => True
    | Some _ => gv_pre_write r = false
    end.
Proof.
  intros r Hin.
  pose proof gov_table_checks as H. unfold gov_table_ok in H.
  apply andb_true_iff in H as [H _]. rewrite forallb_forall in H. specialize (H r Hin).
  unfold gov_row_ok in H.
  destruct (exception_of r) as [g |].
  - apply andb_true_iff in H as [Hg Hw]. split.
    + destruct (gv_guard r), g; cbn in Hg; try discriminate Hg; f_equal;
        try (apply String.eqb_eq; exact Hg); reflexivity.
    + destruct g; try exact I; apply negb_true_iff; exact Hw.
  - apply andb_true_iff in H as [H Hv]. apply andb_true_iff in H as [Hg Hp]. split.
    + destruct (gv_guard r) as [via | | | | | ]; cbn in Hg; try discriminate Hg.
      * left. exists via. split; [reflexivity | exact Hv].
      * right. reflexivity.
    + unfold no_precalls in Hp. destruct (gv_precalls r); [reflexivity | discriminate Hp].
Qed.

(* ------------------------------------------------------------------ UpdatePermissions frame *)

Lemma existsb_false_forall : forall {A} (f : A -> bool) l,
  existsb f l = false -> forall x, In x l -> f x = false.
Proof.
  intros A f l H x Hin. destruct (f x) eqn:E; [| reflexivity].
  assert (existsb f l = true) as Ht by (apply existsb_exists; exists x; split; assumption).
  rewrite Ht in H. discriminate H.
Qed.

Lemma revoke_user_frame : forall st m a g,
  grant_of_user m a g = false -> (In g (revoke_user st m a) <-> In g st).
Proof.
  intros st m a g Hn. unfold revoke_user. rewrite filter_In. rewrite Hn. cbn. tauto.
Qed.

Lemma revoke_perms_frame : forall st m a ps g,
  existsb (fun p => grant_eqb (m, a, p) g) ps = false -> (In g (revoke_perms st m a ps) <-> In g st).
Proof.
  intros st m a ps g Hn. unfold revoke_perms. rewrite filter_In. rewrite Hn. cbn. tauto.
Qed.

Lemma grant_perms_frame : forall ps st m a g,
  existsb (fun p => grant_eqb (m, a, p) g) ps = false -> (In g (grant_perms st m a ps) <-> In g st).
Proof.
  induction ps as [| p ps IH]; intros st m a g Hn; unfold grant_perms; cbn [fold_left].
  - tauto.
  - cbn [existsb] in Hn. apply orb_false_iff in Hn as [Hp Hps].
    fold (grant_perms (if store_has st m a p then st else (m, a, p) :: st) m a ps).
    rewrite (IH _ m a g Hps).
    destruct (store_has st m a p); [tauto |].
    cbn [In]. split; [| tauto].
    intros [Heq | Hin]; [| exact Hin].
    assert (grant_eqb (m, a, p) g = true) as Ht by (apply grant_eqb_eq; exact Heq).
    rewrite Ht in Hp. discriminate Hp.
Qed.

(** The per-request condition, split by loop. *)
Definition unnamed_in_revoke_all (m : N) (l : list N) (g : grant) : Prop :=
  forall a, In a l -> grant_of_user m a g = false.
Definition unnamed_in_grants (m : N) (l : list (N * list perm)) (g : grant) : Prop :=
  forall ag, In ag l -> existsb (fun p => grant_eqb (m, fst ag, p) g) (snd ag) = false.

Lemma fold_revoke_all_frame : forall m l acc g,
  unnamed_in_revoke_all m l g ->
  (In g (fst (fold_left (step_revoke_all m) l acc)) <-> In g (fst acc)).
Proof.
  induction l as [| a l IH]; intros acc g Hn; cbn [fold_left]; [tauto |].
  rewrite IH by (intros a' Ha'; apply Hn; right; exact Ha').
  destruct acc as [st failed]. unfold step_revoke_all. cbn [fst].
  destruct (failed || _); cbn [fst]; [tauto |].
  apply revoke_user_frame. apply Hn. left. reflexivity.
Qed.

Lemma fold_to_revoke_frame : forall m l acc g,
  unnamed_in_grants m l g ->
  (In g (fst (fold_left (step_to_revoke m) l acc)) <-> In g (fst acc)).
Proof.
  induction l as [| ag l IH]; intros acc g Hn; cbn [fold_left]; [tauto |].
  rewrite IH by (intros a' Ha'; apply Hn; right; exact Ha').
  destruct acc as [st failed]. destruct ag as [a ps]. unfold step_to_revoke. cbn [fst].
  destruct (failed || _); cbn [fst]; [tauto |].
  apply revoke_perms_frame. apply (Hn (a, ps)). left. reflexivity.
Qed.

Lemma fold_to_grant_frame : forall m l acc g,
  unnamed_in_grants m l g ->
  (In g (fst (fold_left (step_to_grant m) l acc)) <-> In g (fst acc)).
Proof.
  induction l as [| ag l IH]; intros acc g Hn; cbn [fold_left]; [tauto |].
  rewrite IH by (intros a' Ha'; apply Hn; right; exact Ha').
  destruct acc as [st failed]. destruct ag as [a ps]. unfold step_to_grant. cbn [fst].
  destruct (failed || _); cbn [fst]; [tauto |].
  apply grant_perms_frame. apply (Hn (a, ps)). left. reflexivity.
Qed.

Lemma names_grant_false_split : forall r g,
  names_grant r g = false ->
  unnamed_in_revoke_all (u_market r) (u_revoke_all r) g /\
  unnamed_in_grants (u_market r) (u_to_revoke r) g /\
  unnamed_in_grants (u_market r) (u_to_grant r) g.
Proof.
  intros r [[gm ga] gp] H. unfold names_grant in H.
  assert (forall l, (N.eqb gm (u_market r) = false \/
                     existsb (fun ag : N * list perm => N.eqb ga (fst ag) && existsb (perm_eqb gp) (snd ag)) l = false) ->
                    unnamed_in_grants (u_market r) l (gm, ga, gp)) as Hgr.
  { intros l Hc ag Hin. destruct (existsb _ (snd ag)) eqn:E; [| reflexivity]. exfalso.
    apply existsb_exists in E as [p [Hp Heq]]. apply grant_eqb_eq in Heq.
    inversion Heq as [[Em Ea Ep]].
    destruct Hc as [Hc | Hc].
    - rewrite <- Em in Hc. rewrite N.eqb_refl in Hc. discriminate Hc.
    - pose proof (existsb_false_forall _ _ Hc ag Hin) as Hf. cbn beta in Hf.
      rewrite <- Ea in Hf. rewrite N.eqb_refl in Hf. cbn [andb] in Hf.
      pose proof (existsb_false_forall _ _ Hf p Hp) as Hq.
      assert (perm_eqb gp p = true) as Ht by (apply perm_eqb_eq; symmetry; exact Ep).
      rewrite Ht in Hq. discriminate Hq. }
  apply andb_false_iff in H. destruct H as [Hm | Hrest].
  - split; [| split].
    + intros a _. unfold grant_of_user. rewrite Hm. reflexivity.
    + apply Hgr. left. exact Hm.
    + apply Hgr. left. exact Hm.
  - apply orb_false_iff in Hrest as [Hrest H3]. apply orb_false_iff in Hrest as [H1 H2].
    split; [| split].
    + intros a Hin. unfold grant_of_user.
      pose proof (existsb_false_forall _ _ H1 a Hin) as Hf. cbn in Hf.
      rewrite Hf. apply andb_false_r.
    + apply Hgr. right. exact H2.
    + apply Hgr. right. exact H3.
Qed.

Lemma update_permissions_raw_frame : forall st r g,
  names_grant r g = false -> (In g (fst (update_permissions_raw st r)) <-> In g st).
Proof.
  intros st r g Hn. apply names_grant_false_split in Hn as [H1 [H2 H3]].
  unfold update_permissions_raw.
  rewrite fold_to_grant_frame by exact H3.
  rewrite fold_to_revoke_frame by exact H2.
  rewrite fold_revoke_all_frame by exact H1.
  cbn [fst]. tauto.
Qed.

Lemma update_permissions_frame : forall st r g,
  names_grant r g = false -> (In g (fst (update_permissions st r)) <-> In g st).
Proof.
  intros st r g Hn. unfold update_permissions.
  pose proof (update_permissions_raw_frame st r g Hn) as H.
  destruct (update_permissions_raw st r) as [st' failed]. cbn [fst] in H.
  destruct failed; cbn [fst]; tauto.
Qed.

Lemma manage_permissions_frame : forall auth st admin r g,
  names_grant r g = false -> (In g (fst (manage_permissions auth st admin r)) <-> In g st).
Proof.
  intros auth st admin r g Hn. unfold manage_permissions.
  destruct (endpoint_allowed _ _ _ _ _); [apply update_permissions_frame; exact Hn | cbn [fst]; tauto].
Qed.

Lemma grant_frame : forall auth reqs st g,
  (forall ar, In ar reqs -> names_grant (snd ar) g = false) ->
  (In g (run_manage auth st reqs) <-> In g st) /\
  (let '(m, a, p) := g in
   store_has (run_manage auth st reqs) m a p = store_has st m a p /\
   has_permission auth (run_manage auth st reqs) m a p = has_permission auth st m a p).
Proof.
  intros auth reqs st g Hn.
  assert (In g (run_manage auth st reqs) <-> In g st) as Hiff.
  { revert st. unfold run_manage. induction reqs as [| ar reqs IH]; intro st; cbn [fold_left]; [tauto |].
    rewrite IH by (intros ar' Hin; apply Hn; right; exact Hin).
    apply manage_permissions_frame. apply Hn. left. reflexivity. }
  split; [exact Hiff |].
  destruct g as [[m a] p].
  assert (store_has (run_manage auth st reqs) m a p = store_has st m a p) as Hs.
  { destruct (store_has st m a p) eqn:E.
    - apply store_has_In. apply Hiff. apply store_has_In. exact E.
    - destruct (store_has (run_manage auth st reqs) m a p) eqn:E2; [| reflexivity].
      apply store_has_In in E2. apply Hiff in E2. apply store_has_In in E2.
      rewrite E2 in E. discriminate E. }
  split; [exact Hs |]. unfold has_permission. rewrite Hs. reflexivity.
Qed.

(** A failed request changes nothing at all (rollback), and a request that fails the guard too. *)
Lemma manage_permissions_rejected_unchanged : forall auth st admin r st',
  manage_permissions auth st admin r = (st', false) -> st' = st.
Proof.
  intros auth st admin r st' H. unfold manage_permissions, update_permissions in H.
  destruct (endpoint_allowed _ _ _ _ _).
  - destruct (update_permissions_raw st r) as [s f]. destruct f; inversion H; reflexivity.
  - inversion H; reflexivity.
Qed.

(* ------------------------------------------------------------------ CancelOrder *)

Lemma cancel_order_perm_is_cancel : cancel_order_perm = Some PCancel.
Proof. vm_compute. reflexivity. Qed.

Lemma order_eqb_eq : forall a b, order_eqb a b = true <-> a = b.
Proof.
  intros [i1 m1 w1] [i2 m2 w2]. unfold order_eqb. cbn. split.
  - intro H. apply andb_true_iff in H as [H H3]. apply andb_true_iff in H as [H1 H2].
    apply N.eqb_eq in H1, H2, H3. subst. reflexivity.
  - intro H. inversion H; subst. rewrite !N.eqb_refl. reflexivity.
Qed.

Lemma cancel_allowed_sound : forall auth st o signer,
  cancel_allowed auth st o signer = true ->
  signer = o_owner o \/ signer = auth \/ In (o_market o, signer, PCancel) st.
Proof.
  intros auth st o signer H. unfold cancel_allowed in H. rewrite cancel_order_perm_is_cancel in H.
  apply orb_true_iff in H as [H | H].
  - left. apply N.eqb_eq. exact H.
  - right. apply has_permission_sound. exact H.
Qed.

Lemma cancel_order_success : forall auth st orders oid signer orders',
  cancel_order auth st orders oid signer = (orders', true) ->
  exists o, In o orders /\ o_id o = oid /\
    (signer = o_owner o \/ signer = auth \/ In (o_market o, signer, PCancel) st) /\
    (forall o', In o' orders -> o' <> o -> In o' orders').
Proof.
  intros auth st orders oid signer orders' H. unfold cancel_order in H.
  destruct (find _ orders) as [o |] eqn:F; [| inversion H].
  apply find_some in F as [Hin Hid]. apply N.eqb_eq in Hid.
  destruct (endpoint_allowed _ _ _ _ _ && cancel_allowed auth st o signer) eqn:A; inversion H; subst.
  apply andb_true_iff in A as [_ A].
  exists o. split; [exact Hin |]. split; [reflexivity |]. split; [apply cancel_allowed_sound; exact A |].
  intros o' Hin' Hne. apply filter_In. split; [exact Hin' |].
  apply negb_true_iff. destruct (order_eqb o' o) eqn:E; [| reflexivity].
  apply order_eqb_eq in E. contradiction.
Qed.

Lemma cancel_order_keeps : forall auth st orders oid signer o,
  In o orders ->
  signer <> o_owner o -> signer <> auth -> ~ In (o_market o, signer, PCancel) st ->
  In o (fst (cancel_order auth st orders oid signer)).
Proof.
  intros auth st orders oid signer o Hin Hno Hna Hnp.
  destruct (cancel_order auth st orders oid signer) as [orders' ok] eqn:C.
  destruct ok.
  - apply cancel_order_success in C as [o2 [Hin2 [_ [Hent Hkeep]]]]. cbn [fst].
    apply Hkeep; [exact Hin |]. intro Heq. subst o2.
    destruct Hent as [H | [H | H]]; contradiction.
  - unfold cancel_order in C. destruct (find _ orders) as [o2 |].
    + destruct (_ && _); inversion C; subst; exact Hin.
    + inversion C; subst. exact Hin.
Qed.

Lemma own_orders_only : forall auth st ops orders o,
  In o orders ->
  (forall op, In op ops -> snd op <> o_owner o /\ snd op <> auth /\ ~ In (o_market o, snd op, PCancel) st) ->
  In o (run_cancels auth st orders ops).
Proof.
  intros auth st ops. unfold run_cancels.
  induction ops as [| op ops IH]; intros orders o Hin Hops; cbn [fold_left]; [exact Hin |].
  apply IH.
  - destruct (Hops op (or_introl eq_refl)) as [H1 [H2 H3]].
    apply cancel_order_keeps; assumption.
  - intros op' Hin'. apply Hops. right. exact Hin'.
Qed.

(* ------------------------------------------------------------------ payments *)

Lemma payment_tables : accept_checks_target = true /\ reject_checks_target = true /\
  reject_all_by_target = true /\ cancel_by_source = true /\ retarget_by_source = true /\
  accept_signer_is_target = true /\ create_signer_is_source = true.
Proof. vm_compute. repeat split. Qed.

Lemma opt_N_eqb_eq : forall a b, opt_N_eqb a b = true <-> a = b.
Proof.
  intros [x |] [y |]; cbn; split; intro H; try discriminate H; try reflexivity.
  - apply N.eqb_eq in H. subst. reflexivity.
  - inversion H; subst. apply N.eqb_refl.
Qed.

Lemma payment_eqb_eq : forall a b, payment_eqb a b = true <-> a = b.
Proof.
  intros [s1 e1 t1] [s2 e2 t2]. unfold payment_eqb. cbn. split.
  - intro H. apply andb_true_iff in H as [H H3]. apply andb_true_iff in H as [H1 H2].
    apply N.eqb_eq in H1, H2. apply opt_N_eqb_eq in H3. subst. reflexivity.
  - intro H. inversion H; subst. rewrite !N.eqb_refl. cbn. apply opt_N_eqb_eq. reflexivity.
Qed.

Definition role_of (op : pay_op) (p : payment) : Prop :=
  match op with
  | PyAccept s _ _ | PyReject s _ _ | PyRejectAll s _ => p_target p = Some s
  | PyCancel s _ | PyRetarget s _ _ => p_source p = s
  | PyCreate _ _ _ => False
  end.

Lemma filter_keeps : forall {A} (f : A -> bool) l x, In x l -> f x = true -> In x (filter f l).
Proof. intros A f l x H1 H2. apply filter_In. split; assumption. Qed.

(** A payment that the operation's signer has no role in is still there afterwards, unchanged. *)
Lemma pay_step_keeps : forall st op p,
  In p st -> ~ role_of op p -> In p (fst (pay_step st op)).
Proof.
  intros st op p Hin Hrole.
  destruct payment_tables as [T1 [T2 [T3 [T4 [T5 [T6 T7]]]]]].
  destruct op as [s ext tgt | s src ext | s src ext | s srcs | s exts | s ext nt];
    cbn [pay_step role_of] in *.
  - rewrite T7. destruct (existsb _ st); cbn [fst]; [exact Hin | right; exact Hin].
  - destruct (find _ st) as [e |] eqn:F; cbn [fst]; [| exact Hin].
    rewrite T1, T6. cbn [andb].
    destruct (opt_N_eqb (p_target e) (Some s)) eqn:E; cbn [fst]; [| exact Hin].
    apply filter_keeps; [exact Hin |]. apply negb_true_iff.
    destruct (payment_eqb p e) eqn:E2; [| reflexivity].
    apply payment_eqb_eq in E2. subst e. apply opt_N_eqb_eq in E. contradiction.
  - destruct (find _ st) as [e |] eqn:F; cbn [fst]; [| exact Hin].
    destruct (p_target e) as [t |] eqn:Te; cbn [fst]; [| exact Hin].
    rewrite T2.
    destruct (opt_N_eqb (Some t) (Some s)) eqn:E; cbn [fst]; [| exact Hin].
    apply filter_keeps; [exact Hin |]. apply negb_true_iff.
    destruct (payment_eqb p e) eqn:E2; [| reflexivity].
    apply payment_eqb_eq in E2. subst e. apply opt_N_eqb_eq in E. rewrite Te in Hrole. contradiction.
  - destruct srcs as [| s0 srcs]; cbn [fst]; [exact Hin |].
    destruct (negb (nodup_N _)); cbn [fst]; [exact Hin |].
    destruct (forallb _ _); cbn [fst]; [| exact Hin].
    apply filter_keeps; [exact Hin |]. apply negb_true_iff. rewrite T3.
    destruct (opt_N_eqb (p_target p) (Some s)) eqn:E.
    + apply opt_N_eqb_eq in E. contradiction.
    + apply andb_false_r.
  - destruct exts as [| e0 exts]; cbn [fst]; [exact Hin |].
    destruct (negb (nodup_N _)); cbn [fst]; [exact Hin |].
    destruct (forallb _ _); cbn [fst]; [| exact Hin].
    apply filter_keeps; [exact Hin |]. apply negb_true_iff. rewrite T4.
    destruct (N.eqb (p_source p) s) eqn:E.
    + apply N.eqb_eq in E. contradiction.
    + apply andb_false_r.
  - destruct (find _ st) as [e |] eqn:F; cbn [fst]; [| exact Hin].
    destruct (opt_N_eqb (p_target e) nt); cbn [fst]; [exact Hin |].
    apply in_map_iff. exists p. split; [| exact Hin]. rewrite T5.
    destruct (N.eqb (p_source p) s) eqn:E.
    + apply N.eqb_eq in E. contradiction.
    + rewrite andb_false_r. reflexivity.
Qed.

(** Success of accept / reject means the signer is the target of the payment acted on. *)
Lemma pay_step_accept_reject_by_target : forall st s src ext st',
  (pay_step st (PyAccept s src ext) = (st', true) \/ pay_step st (PyReject s src ext) = (st', true)) ->
  exists e, In e st /\ p_source e = src /\ p_ext e = ext /\ p_target e = Some s.
Proof.
  intros st s src ext st' H.
  destruct payment_tables as [T1 [T2 [_ [_ [_ [T6 _]]]]]].
  assert (forall e, find (pay_key src ext) st = Some e -> In e st /\ p_source e = src /\ p_ext e = ext) as Hf.
  { intros e F. apply find_some in F as [Hin Hk]. unfold pay_key in Hk.
    apply andb_true_iff in Hk as [H1 H2]. apply N.eqb_eq in H1, H2. auto. }
  destruct H as [H | H]; cbn [pay_step] in H; destruct (find _ st) as [e |] eqn:F; try (inversion H; fail).
  - rewrite T1, T6 in H. cbn [andb] in H.
    destruct (opt_N_eqb (p_target e) (Some s)) eqn:E; inversion H.
    exists e. destruct (Hf e eq_refl) as [A [B C]]. apply opt_N_eqb_eq in E. auto.
  - destruct (p_target e) as [t |] eqn:Te; [| inversion H]. rewrite T2 in H.
    destruct (opt_N_eqb (Some t) (Some s)) eqn:E; inversion H.
    exists e. destruct (Hf e eq_refl) as [A [B C]]. apply opt_N_eqb_eq in E. rewrite Te. auto.
Qed.

Lemma payment_roles_history : forall ops st p,
  In p st ->
  (forall op, In op ops -> op_signer op <> p_source p /\ Some (op_signer op) <> p_target p) ->
  In p (run_payments st ops).
Proof.
  unfold run_payments. induction ops as [| op ops IH]; intros st p Hin Hops; cbn [fold_left]; [exact Hin |].
  apply IH.
  - apply pay_step_keeps; [exact Hin |].
    destruct (Hops op (or_introl eq_refl)) as [H1 H2].
    destruct op; cbn [role_of op_signer] in *; intro Hr; try contradiction;
      try (apply H2; symmetry; exact Hr); try (apply H1; symmetry; exact Hr).
  - intros op' Hin'. apply Hops. right. exact Hin'.
Qed.
