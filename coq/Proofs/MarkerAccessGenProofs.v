(** The guards the extractor finds in the Go source are the documented ones (property C12). *)
From Coq Require Import List String Bool.
From PV Require Import Marker.Access Marker.AccessTable Gen.GenMarkerAccess.
Import ListNotations.

Lemma generated_table_is_documented : generated_access_table = documented_access_table.
Proof. vm_compute. reflexivity. Qed.

Lemma generated_table_has_no_unknown_shape :
  forallb (fun r => forallb (fun u => existsb (String.eqb u)
     ["types.NewAccessGrant(escrowAccount, []types.Access{types.Access_Transfer})"%string])
     (row_unrecognised r)) generated_access_table = true.
Proof. vm_compute. reflexivity. Qed.
