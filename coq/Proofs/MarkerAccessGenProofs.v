(** The guards the extractor finds in the Go source are the documented ones (property C12). *)
From Coq Require Import List String Bool.
From PV Require Import Marker.Access Marker.AccessTable Gen.GenMarkerAccess.
Import ListNotations.

Lemma generated_table_is_documented : generated_access_table = documented_access_table.
Proof. vm_compute. reflexivity. Qed.

Lemma generated_table_has_no_unknown_shape :
  forallb (fun r => forallb (fun u => existsb (String.eqb u)
     ["types.NewAccessGrant(escrowAccount, []types.Access{types.Access_Transfer})"%string])
     (row_unrecognised r)) generated_access_table = true.
Proof. vm_compute. reflexivity. Qed.

(** The rpcs of `service Msg` in the proto file, and the exported methods of msgServer with the guard
    rows in front of each, are the documented endpoints: a new rpc (or handler) without an entry in
    [documented_endpoints], or one whose handler reaches a different guarded keeper method, breaks
    this. *)
Lemma generated_rpcs_are_documented :
  generated_marker_rpcs = map ep_rpc documented_endpoints.
Proof. vm_compute. reflexivity. Qed.

Lemma generated_endpoints_are_documented :
  generated_marker_endpoints = map (fun e => (ep_rpc e, ep_guards e)) documented_endpoints.
Proof. vm_compute. reflexivity. Qed.

Lemma endpoints_well_placed :
  forallb (endpoint_ok generated_access_table) documented_endpoints = true /\
  endpoints_cover_ops = true /\ rows_all_reachable generated_access_table = true.
Proof. vm_compute. repeat split. Qed.

Lemma every_endpoint_has_a_row :
  generated_marker_rpcs = map ep_rpc documented_endpoints /\
  generated_marker_endpoints = map (fun e => (ep_rpc e, ep_guards e)) documented_endpoints /\
  forallb (endpoint_ok generated_access_table) documented_endpoints = true /\
  endpoints_cover_ops = true /\ rows_all_reachable generated_access_table = true.
Proof.
  split; [exact generated_rpcs_are_documented|]. split; [exact generated_endpoints_are_documented|].
  exact endpoints_well_placed.
Qed.
