(** Proofs about [PV.Exchange.Arith] (property C19). *)
From Coq Require Import ZArith List Bool Lia ZifyBool.
From PV Require Import Exchange.Arith.
Import ListNotations.
Open Scope Z_scope.
Ltac Zify.zify_post_hook ::= Z.div_mod_to_equations.

Lemma quot_rem_nonneg a b : 0 <= a -> 0 < b -> Z.quot a b = a / b /\ Z.rem a b = a mod b.
Proof. intros Ha Hb; split; [apply Z.quot_div_nonneg | apply Z.rem_mod_nonneg]; lia. Qed.

(** QuoIntRoundUp is the ceiling on nonnegative operands. *)
Lemma quo_round_up_ceiling a b :
  0 <= a -> 0 < b ->
  let x := quo_round_up a b in b * (x - 1) < a <= b * x /\ 0 <= x.
Proof.
  intros Ha Hb. unfold quo_round_up, quo_rem.
  destruct (quot_rem_nonneg a b Ha Hb) as [-> ->].
  destruct (Z.eqb_spec (a mod b) 0) as [E|E]; cbn zeta.
  - lia.
  - assert (0 <= a / b) by (apply Z.div_pos; lia).
    assert (Hs : 0 <= Z.sgn a * Z.sgn b) by (destruct a, b; simpl; lia).
    replace (a / b <? 0) with false by lia.
    replace ((a / b =? 0) && (Z.sgn a * Z.sgn b <? 0)) with false
      by (destruct (a / b =? 0); simpl; lia).
    simpl orb. cbv iota. lia.
Qed.

Lemma quo_round_up_eq_div a b :
  0 <= a -> 0 < b -> quo_round_up a b = (a + b - 1) / b.
Proof.
  intros Ha Hb. pose proof (quo_round_up_ceiling a b Ha Hb) as H; cbn zeta in H.
  set (x := quo_round_up a b) in *. clearbody x. nia.
Qed.

(** General sign behaviour: exact when divisible, otherwise one away from zero. *)
Lemma quo_round_up_exact a b : b <> 0 -> Z.rem a b = 0 -> quo_round_up a b = Z.quot a b.
Proof. intros _ H. unfold quo_round_up, quo_rem. rewrite H. reflexivity. Qed.

Lemma quo_round_up_away a b :
  b <> 0 -> Z.rem a b <> 0 ->
  Z.abs (quo_round_up a b) = Z.abs (Z.quot a b) + 1 /\
  Z.sgn (quo_round_up a b) = Z.sgn a * Z.sgn b.
Proof.
  intros Hb Hr. unfold quo_round_up, quo_rem.
  destruct (Z.eqb_spec (Z.rem a b) 0) as [E|_]; [contradiction|].
  assert (Ha : a <> 0) by (intros ->; rewrite Z.rem_0_l in Hr; auto).
  pose proof (Z.quot_rem' a b) as Hqr.
  pose proof (Z.rem_bound_abs a b Hb) as Hrb.
  assert (Hsq : Z.quot a b = 0 \/ Z.sgn (Z.quot a b) = Z.sgn a * Z.sgn b).
  { destruct (Z.eq_dec (Z.quot a b) 0) as [|N]; [left; assumption|right].
    pose proof (Z.quot_abs a b Hb) as Hab.
    assert (Z.abs b <= Z.abs a).
    { destruct (Z_le_gt_dec (Z.abs b) (Z.abs a)); [assumption|].
      exfalso. apply N. apply Z.abs_0_iff. rewrite <- Hab. apply Z.quot_small. lia. }
    pose proof (Z.quot_opp_l a b Hb). pose proof (Z.quot_opp_r a b Hb).
    pose proof (Z.quot_opp_opp a b Hb).
    destruct (Z_lt_le_dec a 0), (Z_lt_le_dec b 0).
    - assert (0 < Z.quot a b).
      { rewrite <- H2. apply Z.quot_str_pos; lia. } lia.
    - assert (0 < Z.quot (-a) b) by (apply Z.quot_str_pos; lia). lia.
    - assert (0 < Z.quot a (-b)) by (apply Z.quot_str_pos; lia). lia.
    - assert (0 < Z.quot a b) by (apply Z.quot_str_pos; lia). lia. }
  destruct (Z.ltb_spec (Z.quot a b) 0) as [Hn|Hn]; simpl orb; cbv iota.
  - lia.
  - destruct (Z.eqb_spec (Z.quot a b) 0) as [Hz|Hz]; simpl andb.
    + destruct (Z.ltb_spec (Z.sgn a * Z.sgn b) 0); rewrite Hz; simpl; lia.
    + simpl. lia.
Qed.

(** applyLooselyTo: the ceiling of price*fee/ratio-price. *)
Lemma apply_loosely_ceiling rp rf p :
  0 < rp -> 0 <= rf -> 0 <= p ->
  exists x r, apply_loosely rp rf p = Some (x, r) /\
    rp * (x - 1) < p * rf <= rp * x /\ 0 <= x /\
    (r = false <-> rp * x = p * rf).
Proof.
  intros Hrp Hrf Hp. unfold apply_loosely, quo_rem.
  replace (rp =? 0) with false by lia.
  assert (Hm : 0 <= p * rf) by nia.
  destruct (quot_rem_nonneg (p * rf) rp Hm Hrp) as [-> ->].
  destruct (Z.eqb_spec ((p * rf) mod rp) 0) as [E|E]; simpl negb; cbv iota;
    eexists; eexists; (split; [reflexivity|]).
  - repeat split; intros; lia.
  - assert (0 <= (p * rf) / rp) by (apply Z.div_pos; lia).
    repeat split; intros; try discriminate; lia.
Qed.

Lemma apply_to_exact rp rf p x :
  0 < rp -> 0 <= rf -> 0 <= p -> apply_to rp rf p = Some x -> rp * x = p * rf.
Proof.
  intros Hrp Hrf Hp. unfold apply_to.
  destruct (apply_loosely_ceiling rp rf p Hrp Hrf Hp) as (y & r & -> & _ & _ & Hr).
  destruct r; [discriminate|]. intros [= <-]. apply Hr; reflexivity.
Qed.

Lemma apply_to_loosely_some rp rf p :
  0 < rp -> 0 <= rf -> 0 <= p ->
  exists x, apply_to_loosely rp rf p = Some x /\ rp * (x - 1) < p * rf <= rp * x /\ 0 <= x.
Proof.
  intros Hrp Hrf Hp. unfold apply_to_loosely.
  destruct (apply_loosely_ceiling rp rf p Hrp Hrf Hp) as (y & r & -> & H1 & H2 & _).
  exists y; auto.
Qed.

(** The exchange's share of a fee coin: ceiling of amt*split/10000, never more than the coin. *)
Lemma exchange_split_ceiling amt split :
  0 <= amt -> 0 <= split <= 10000 ->
  let x := exchange_split amt split in
  10000 * (x - 1) < amt * split <= 10000 * x /\ 0 <= x <= amt.
Proof.
  intros Ha Hs. unfold exchange_split, ten_k.
  destruct (Z.eqb_spec amt 0) as [->|Hz]; [cbn zeta; lia|].
  destruct (Z.eqb_spec split 0) as [->|Hz2]; [cbn zeta; lia|].
  assert (Hm : 0 <= amt * split) by nia.
  pose proof (quo_round_up_ceiling (amt * split) 10000 Hm ltac:(lia)) as H; cbn zeta in *.
  set (x := quo_round_up (amt * split) 10000) in *. clearbody x. nia.
Qed.

(** SplitCoinByBips. *)
Lemma dec_one_val : dec_one = 1000000000000000000.
Proof. reflexivity. Qed.

Lemma chop_round_exact k : 0 <= k -> chop_round (k * dec_one) = k.
Proof.
  intros Hk. unfold chop_round. rewrite dec_one_val.
  rewrite Z.quot_mul by lia. rewrite Z.rem_mul by lia.
  change (0 <? 1000000000000000000 / 2) with true. reflexivity.
Qed.

Lemma bips_percentage bips :
  0 <= bips -> dec_quo (dec_of_int bips) (dec_of_int ten_k) = bips * 10 ^ 14.
Proof.
  intros Hb. unfold dec_quo, dec_of_int, ten_k. rewrite dec_one_val.
  replace (bips * 1000000000000000000 * (1000000000000000000 * 1000000000000000000))
    with ((bips * 10 ^ 14 * 1000000000000000000) * (10000 * 1000000000000000000)) by
      (change (10 ^ 14) with 100000000000000; ring).
  rewrite Z.quot_mul by lia. rewrite <- dec_one_val. apply chop_round_exact.
  change (10 ^ 14) with 100000000000000. lia.
Qed.

Lemma split_by_bips_spec amt bips :
  0 <= amt -> 0 <= bips <= 10000 ->
  exists r rest, split_by_bips amt bips = Some (r, rest) /\
    r = amt * bips / 10000 /\ r + rest = amt /\ 0 <= r /\ 0 <= rest.
Proof.
  intros Ha Hb. unfold split_by_bips, ten_k.
  replace (10000 <? bips) with false by lia.
  destruct (Z.eqb_spec bips 10000) as [->|Hne].
  - exists amt, 0. repeat split; try lia; rewrite Z.div_mul; lia.
  - fold ten_k. rewrite bips_percentage by lia.
    unfold dec_mul, dec_of_int.
    replace (amt * dec_one * (bips * 10 ^ 14)) with ((amt * bips * 10 ^ 14) * dec_one) by ring.
    rewrite chop_round_exact by (change (10 ^ 14) with 100000000000000; nia).
    unfold dec_truncate_int. rewrite dec_one_val. change (10 ^ 14) with 100000000000000.
    assert (Hq : Z.quot (amt * bips * 100000000000000) 1000000000000000000 = amt * bips / 10000).
    { rewrite Z.quot_div_nonneg by nia.
      replace 1000000000000000000 with (100000000000000 * 10000) by reflexivity.
      rewrite (Z.mul_comm 100000000000000 10000).
      rewrite Z.div_mul_cancel_r by lia. reflexivity. }
    rewrite Hq. eexists; eexists; split; [reflexivity|].
    assert (0 <= amt * bips) by nia.
    repeat split; try lia. nia.
Qed.

Lemma split_by_bips_rejects amt bips : 10000 < bips -> split_by_bips amt bips = None.
Proof. intros H. unfold split_by_bips, ten_k. replace (10000 <? bips) with true by lia. reflexivity. Qed.

(** Commitment settlement charge. *)
Lemma other_dec_floor amt np na :
  0 <= amt -> 0 <= np -> 0 < na ->
  other_dec (amt, np, na) = (amt * np * dec_one) / na /\ 0 <= other_dec (amt, np, na).
Proof.
  intros H1 H2 H3. unfold other_dec, dec_quo_int, dec_of_int.
  assert (0 <= amt * np * dec_one) by (rewrite dec_one_val; nia).
  rewrite Z.quot_div_nonneg by lia. split; [reflexivity|]. apply Z.div_pos; lia.
Qed.

Definition other_ok (o : Z * Z * Z) : Prop :=
  let '(amt, np, na) := o in 0 <= amt /\ 0 <= np /\ 0 < na.

Definition others_sum (l : list (Z * Z * Z)) : Z :=
  fold_right (fun o acc => (let '(amt, np, na) := o in (amt * np * dec_one) / na) + acc) 0 l.

Lemma conv_dec_sum_gen l : Forall other_ok l -> forall acc,
  fold_left (fun acc o => acc + other_dec o) l acc = acc + others_sum l /\ 0 <= others_sum l.
Proof.
  induction 1 as [|o l Ho Hl IH]; intros acc; cbn [fold_left others_sum fold_right].
  - lia.
  - destruct o as [[amt np] na]. destruct Ho as (H1 & H2 & H3).
    destruct (other_dec_floor amt np na H1 H2 H3) as [E Hpos].
    destruct (IH (acc + other_dec (amt, np, na))) as [-> Hs].
    fold (others_sum l). rewrite E in *. lia.
Qed.

Lemma conv_dec_spec i :
  Forall other_ok (ci_others i) ->
  conv_dec i = ci_conv i * dec_one + others_sum (ci_others i).
Proof. intros H. unfold conv_dec, dec_of_int. apply (conv_dec_sum_gen _ H). Qed.

(** [conv_amt] is the ceiling of the 18-decimal running total. *)
Lemma conv_amt_ceiling i :
  0 <= ci_conv i -> Forall other_ok (ci_others i) ->
  let d := conv_dec i in
  dec_one * (conv_amt i - 1) < d <= dec_one * conv_amt i /\ 0 <= conv_amt i.
Proof.
  intros Hc Ho. cbn zeta. unfold conv_amt.
  assert (Hd : 0 <= conv_dec i).
  { rewrite conv_dec_spec by assumption.
    pose proof (conv_dec_sum_gen _ Ho 0) as [_ ?]. rewrite dec_one_val. lia. }
  set (d := conv_dec i) in *. clearbody d.
  unfold dec_is_integer, dec_truncate_int.
  destruct (quot_rem_nonneg d dec_one Hd ltac:(rewrite dec_one_val; lia)) as [-> ->].
  rewrite dec_one_val.
  destruct (Z.eqb_spec (d mod 1000000000000000000) 0); lia.
Qed.

Lemma commitment_fee_spec i :
  0 <= ci_fee i -> 0 <= ci_conv i -> Forall other_ok (ci_others i) ->
  0 <= ci_tfp i -> 0 < ci_tfa i -> 0 <= ci_bips i ->
  let c := conv_amt i in
  let asfee := quo_round_up (c * ci_tfp i) (ci_tfa i) in
  let tot := ci_fee i + asfee in
  let x := commitment_fee i in
  ci_tfa i * (asfee - 1) < c * ci_tfp i <= ci_tfa i * asfee /\
  20000 * (x - 1) < tot * ci_bips i <= 20000 * x /\ 0 <= x.
Proof.
  intros Hf Hc Ho Hp Ha Hb. cbn zeta.
  destruct (conv_amt_ceiling i Hc Ho) as [_ Hca].
  assert (Hm : 0 <= conv_amt i * ci_tfp i) by nia.
  pose proof (quo_round_up_ceiling _ _ Hm Ha) as [H1 H1p]; cbn zeta in *.
  unfold commitment_fee, fee_denom_total, twenty_k.
  assert (Hm2 : 0 <= (ci_fee i + quo_round_up (conv_amt i * ci_tfp i) (ci_tfa i)) * ci_bips i) by nia.
  pose proof (quo_round_up_ceiling _ 20000 Hm2 ltac:(lia)) as [H2 H2p]; cbn zeta in *.
  repeat split; lia.
Qed.

(** ** Totality: inside the stated ranges none of the Go computations panics. *)
Lemma chk_some x : Z.abs x < int_max -> chk x = Some x.
Proof. intros H. unfold chk, int_ok. replace (Z.abs x <? int_max) with true by lia. reflexivity. Qed.

Lemma apply_loosely_total rp rf p :
  0 < rp -> 0 <= rf -> 0 <= p -> p * rf < int_max - 1 ->
  apply_loosely_chk rp rf p = Some (apply_loosely rp rf p).
Proof.
  intros Hrp Hrf Hp Hm. unfold apply_loosely_chk, apply_loosely.
  replace (rp =? 0) with false by lia.
  assert (H0 : 0 <= p * rf) by nia.
  rewrite chk_some by lia. cbn [obind]. unfold quo_rem.
  destruct (quot_rem_nonneg (p * rf) rp H0 Hrp) as [-> ->].
  assert (0 <= p * rf / rp <= p * rf).
  { split; [apply Z.div_pos; lia|]. apply Z.div_le_upper_bound; nia. }
  rewrite chk_some; [reflexivity|].
  destruct (negb ((p * rf) mod rp =? 0)); lia.
Qed.

Lemma exchange_split_total amt split :
  0 <= amt -> 0 <= split <= 10000 -> amt * 10000 < int_max ->
  exchange_split_chk amt split = Some (exchange_split amt split).
Proof.
  intros Ha Hs Hm. unfold exchange_split_chk, exchange_split.
  destruct (amt =? 0); [reflexivity|]. destruct (Z.eqb_spec split 0); [reflexivity|].
  assert (0 <= amt * split < int_max) by nia.
  rewrite chk_some by lia. cbn [obind].
  pose proof (exchange_split_ceiling amt split Ha Hs) as Hc. cbn zeta in Hc.
  unfold exchange_split in Hc. replace (split =? 0) with false in Hc by lia.
  destruct (Z.eqb_spec amt 0).
  - subst. reflexivity.
  - apply chk_some. unfold int_max in *. lia.
Qed.

Lemma split_by_bips_total amt bips :
  0 <= amt < int_max -> 0 <= bips ->
  split_by_bips_chk amt bips = Some (split_by_bips amt bips).
Proof.
  intros Ha Hb. unfold split_by_bips_chk, split_by_bips.
  destruct (Z.ltb_spec ten_k bips); [reflexivity|].
  destruct (Z.eqb_spec bips ten_k); [reflexivity|].
  unfold ten_k in *.
  rewrite bips_percentage by lia. unfold dec_mul, dec_of_int.
  replace (amt * dec_one * (bips * 10 ^ 14)) with ((amt * bips * 10 ^ 14) * dec_one) by ring.
  rewrite chop_round_exact by (change (10 ^ 14) with 100000000000000; nia).
  assert (Hr : dec_okb (amt * bips * 10 ^ 14) = true).
  { unfold dec_okb, dec_max. rewrite dec_one_val. change (10 ^ 14) with 100000000000000.
    unfold int_max in *. apply Z.ltb_lt. rewrite Z.abs_eq by nia. nia. }
  rewrite Hr.
  assert (Hq : dec_truncate_int (amt * bips * 10 ^ 14) = amt * bips / 10000).
  { unfold dec_truncate_int. rewrite dec_one_val. change (10 ^ 14) with 100000000000000.
    rewrite Z.quot_div_nonneg by nia.
    replace 1000000000000000000 with (100000000000000 * 10000) by reflexivity.
    rewrite (Z.mul_comm 100000000000000 10000).
    rewrite Z.div_mul_cancel_r by lia. reflexivity. }
  rewrite Hq.
  assert (0 <= amt * bips / 10000 <= amt).
  { split; [apply Z.div_pos; nia|]. apply Z.div_le_upper_bound; nia. }
  rewrite chk_some by lia. cbn [obind]. rewrite chk_some by lia. reflexivity.
Qed.

Lemma fold_chk_others l : Forall other_ok l -> forall acc,
  0 <= acc -> acc + others_sum l < dec_max ->
  Forall (fun o => let '(amt, np, _) := o in amt * np < int_max) l ->
  fold_left (fun acc o =>
     obind acc (fun a =>
       let '(amt, np, na) := o in
       if Z.eqb na 0 then None else
       obind (chk (amt * np)) (fun m =>
         let s := a + dec_quo_int (dec_of_int m) na in
         if dec_okb s then Some s else None))) l (Some acc) = Some (acc + others_sum l).
Proof.
  induction 1 as [|o l Ho Hl IH]; intros acc Ha Hb Hm; cbn [fold_left others_sum fold_right].
  - f_equal; lia.
  - destruct o as [[amt np] na]. destruct Ho as (H1 & H2 & H3). inversion Hm as [|? ? Hm1 Hm2]; subst.
    cbn [obind]. replace (na =? 0) with false by lia. assert (0 <= amt * np) by nia. rewrite chk_some by lia. cbn [obind]. cbn zeta.
    destruct (other_dec_floor amt np na H1 H2 H3) as [E Hpos]. unfold other_dec in E, Hpos.
    rewrite E.
    pose proof (conv_dec_sum_gen _ Hl 0) as [_ Hs].
    cbn [others_sum fold_right] in Hb. fold (others_sum l) in Hb.
    rewrite E in Hpos.
    set (q := amt * np * dec_one / na) in *. clearbody q.
    assert (Hok : dec_okb (acc + q) = true).
    { unfold dec_okb. apply Z.ltb_lt. rewrite Z.abs_eq by lia. clear E IH Hm Hm1 Hm2. lia. }
    rewrite Hok. rewrite IH; try assumption; clear E IH Hm Hm1 Hm2; try lia.
    f_equal. fold (others_sum l). lia.
Qed.

Lemma commitment_fee_total i :
  0 <= ci_fee i -> 0 <= ci_conv i -> Forall other_ok (ci_others i) ->
  0 <= ci_tfp i -> 0 < ci_tfa i -> 0 <= ci_bips i <= 10000 ->
  Forall (fun o => let '(amt, np, _) := o in amt * np < int_max) (ci_others i) ->
  conv_dec i < dec_max - dec_one ->
  (conv_amt i) * ci_tfp i < int_max - ci_tfa i ->
  (ci_fee i + quo_round_up (conv_amt i * ci_tfp i) (ci_tfa i)) * 10000 < int_max ->
  commitment_fee_chk i = Some (commitment_fee i).
Proof.
  intros Hf Hc Ho Hp Ha Hb Hm Hd Hx Hy.
  unfold commitment_fee_chk, conv_dec_chk.
  assert (Hd0 : conv_dec i = ci_conv i * dec_one + others_sum (ci_others i)) by (apply conv_dec_spec; assumption).
  pose proof (conv_dec_sum_gen _ Ho 0) as [_ Hs].
  assert (Hok : dec_okb (0 + dec_of_int (ci_conv i)) = true).
  { unfold dec_okb, dec_of_int. apply Z.ltb_lt. rewrite dec_one_val in *. rewrite Z.abs_eq by lia. lia. }
  rewrite Hok.
  rewrite fold_chk_others; try assumption; unfold dec_of_int; try (rewrite dec_one_val in *; lia).
  replace (0 + ci_conv i * dec_one + others_sum (ci_others i)) with (conv_dec i) by lia.
  cbn [obind].
  destruct (conv_amt_ceiling i Hc Ho) as [Hca Hca0]. cbn zeta in Hca.
  assert (Hdpos : 0 <= conv_dec i) by (rewrite Hd0, dec_one_val; lia).
  assert (Ht : dec_truncate_int (conv_dec i) = conv_dec i / dec_one).
  { unfold dec_truncate_int. apply Z.quot_div_nonneg; rewrite ?dec_one_val; lia. }
  assert (Hdm : dec_max = int_max * dec_one) by reflexivity.
  assert (Htb : 0 <= conv_dec i / dec_one < int_max - 1).
  { rewrite dec_one_val in *. split; [apply Z.div_pos; lia|]. apply Z.div_lt_upper_bound; lia. }
  rewrite Ht. rewrite chk_some by lia. cbn [obind].
  assert (Hcaeq : (if dec_is_integer (conv_dec i) then conv_dec i / dec_one else conv_dec i / dec_one + 1) = conv_amt i).
  { unfold conv_amt. rewrite Ht. reflexivity. }
  rewrite Hcaeq.
  assert (conv_amt i <= conv_dec i / dec_one + 1).
  { unfold conv_amt. rewrite Ht. destruct (dec_is_integer _); lia. }
  rewrite chk_some by lia. cbn [obind].
  assert (Hm1 : 0 <= conv_amt i * ci_tfp i) by nia.
  rewrite chk_some by lia. cbn [obind].
  pose proof (quo_round_up_ceiling _ _ Hm1 Ha) as [Hq Hq0]. cbn zeta in Hq.
  set (asfee := quo_round_up (conv_amt i * ci_tfp i) (ci_tfa i)) in *.
  assert (asfee <= conv_amt i * ci_tfp i + ci_tfa i) by nia.
  rewrite chk_some by lia. cbn [obind].
  rewrite chk_some by lia. cbn [obind].
  assert (Hm2 : 0 <= (ci_fee i + asfee) * ci_bips i) by nia.
  rewrite chk_some by nia. cbn [obind].
  pose proof (quo_round_up_ceiling _ 20000 Hm2 ltac:(lia)) as [Hr Hr0]. cbn zeta in Hr.
  unfold commitment_fee, fee_denom_total. fold asfee. unfold twenty_k in *.
  apply chk_some. nia.
Qed.

(** ** The message-fee distribution: parts always add up to the whole. *)
Lemma recips_sum_add l r a : recips_sum (recip_add l r a) = recips_sum l + a.
Proof.
  induction l as [|[r' v] t IH]; cbn [recip_add recips_sum fold_right snd]; [lia|].
  destruct (N.eqb r r'); cbn [recips_sum fold_right snd]; [lia|].
  fold (recips_sum (recip_add t r a)). fold (recips_sum t). rewrite IH. lia.
Qed.

Definition dist_ok (d : dist) : Prop :=
  d_total d = d_module d + recips_sum (d_recips d) /\ 0 <= d_module d /\
  Forall (fun p => 0 <= snd p) (d_recips d).

Lemma recip_add_nonneg l r a : 0 <= a -> Forall (fun p => 0 <= snd p) l ->
  Forall (fun p : N * Z => 0 <= snd p) (recip_add l r a).
Proof.
  intros Ha. induction 1 as [|[r' v] t Hv Ht IH]; cbn [recip_add].
  - constructor; [cbn; lia|constructor].
  - destruct (N.eqb r r'); constructor; cbn in *; try lia; assumption.
Qed.

Lemma dist_increase_ok d amt bips r :
  dist_ok d -> 0 <= bips <= 10000 -> snd (dist_increase d amt bips r) = true /\ dist_ok (fst (dist_increase d amt bips r)).
Proof.
  intros (Ht & Hm & Hr) Hb. unfold dist_increase.
  destruct (Z.leb_spec amt 0) as [Hle|Hpos]; [split; [reflexivity|repeat split; assumption]|].
  destruct r as [r|].
  - destruct (split_by_bips_spec amt bips ltac:(lia) Hb) as (rc & rest & -> & Hrc & Hsum & Hrc0 & Hrest0).
    cbn [fst snd]. split; [reflexivity|]. unfold dist_ok; cbn [d_total d_module d_recips].
    rewrite recips_sum_add.
    destruct (Z.eqb_spec rest 0); repeat split; try lia; apply recip_add_nonneg; assumption.
  - cbn [fst snd]. split; [reflexivity|]. unfold dist_ok; cbn [d_total d_module d_recips]. repeat split; try lia; assumption.
Qed.

Lemma dist_run_ok ops : forall d,
  dist_ok d -> Forall (fun o => let '(_, bips, _) := o in 0 <= bips <= 10000) ops -> dist_ok (dist_run d ops).
Proof.
  unfold dist_run. induction ops as [|[[amt bips] r] ops IH]; intros d Hd Hf; cbn [fold_left]; [assumption|].
  inversion Hf as [|? ? Hb Hf']; subst. apply IH; [|assumption].
  apply (dist_increase_ok d amt bips r Hd Hb).
Qed.

Lemma dist_empty_ok : dist_ok dist_empty.
Proof. unfold dist_ok, dist_empty; cbn. repeat split; try lia. constructor. Qed.
