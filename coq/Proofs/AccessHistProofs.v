(** Proofs about [PV.Marker.AccessHist]: histories of administration calls on two markers whose
    access lists change (property C12). *)
From Coq Require Import ZArith NArith List Bool Lia.
From PV Require Import Marker.Access Marker.Authz Marker.AccessHist Proofs.MarkerAccessProofs.
Import ListNotations.
Open Scope N_scope.

(** * Access lists *)

Lemma rights_of_revoke_same a l : rights_of a (revoke a l) = 0.
Proof.
  induction l as [|[b rs] l IH]; cbn [revoke filter fst]; [reflexivity|].
  destruct (N.eqb a b) eqn:E; cbn [negb]; [exact IH|].
  cbn [rights_of]. rewrite E. exact IH.
Qed.

Lemma rights_of_revoke_other a b l : N.eqb b a = false -> rights_of b (revoke a l) = rights_of b l.
Proof.
  intros Hne. induction l as [|[c rs] l IH]; cbn [revoke filter fst]; [reflexivity|].
  destruct (N.eqb_spec a c) as [->|Hac]; cbn [negb].
  - cbn [rights_of]. rewrite Hne. exact IH.
  - cbn [rights_of]. destruct (N.eqb b c); [reflexivity|exact IH].
Qed.

Lemma rights_of_app_absent a l l' : rights_of a l = 0 -> (forall rs, ~ In (a, rs) l) -> rights_of a (l ++ l') = rights_of a l'.
Proof.
  induction l as [|[b rs] l IH]; intros H0 Hn; cbn [app rights_of]; [reflexivity|].
  destruct (N.eqb_spec a b) as [->|Hab].
  - exfalso. apply (Hn rs). left. reflexivity.
  - apply IH.
    + cbn [rights_of] in H0. apply N.eqb_neq in Hab. rewrite Hab in H0. exact H0.
    + intros rs' Hin. apply (Hn rs'). right. exact Hin.
Qed.

Lemma revoke_absent a l rs : ~ In (a, rs) (revoke a l).
Proof.
  unfold revoke. intros Hin. apply filter_In in Hin. destruct Hin as [_ H].
  cbn [fst] in H. rewrite N.eqb_refl in H. discriminate.
Qed.

Lemma rights_of_app_other a b rs l : N.eqb b a = false -> rights_of b (l ++ [(a, rs)]) = rights_of b l.
Proof.
  intros Hne. induction l as [|[c rs'] l IH]; cbn [app rights_of].
  - rewrite Hne. reflexivity.
  - destruct (N.eqb b c); [reflexivity|exact IH].
Qed.

(** GrantAccess: the address' rights become the union of what it had and what is granted;
    nobody else's change. *)
Lemma rights_of_grant_same a mask l :
  rights_of a (grant_access a mask l) = N.lor (rights_of a l) mask.
Proof.
  unfold grant_access. rewrite rights_of_app_absent.
  - cbn [rights_of]. rewrite N.eqb_refl. reflexivity.
  - apply rights_of_revoke_same.
  - intros rs. apply revoke_absent.
Qed.

Lemma rights_of_grant_other a b mask l :
  N.eqb b a = false -> rights_of b (grant_access a mask l) = rights_of b l.
Proof.
  intros Hne. unfold grant_access. rewrite rights_of_app_other by exact Hne.
  apply rights_of_revoke_other; exact Hne.
Qed.

(** * One call *)

Lemma get_set_same w m s : get w (set w m s) = m.
Proof. destruct w; reflexivity. Qed.
Lemma get_set_other w m s : get (other w) (set w m s) = get (other w) s.
Proof. destruct w; reflexivity. Qed.

Lemma cfg_of_wf m a e : mk_wfb m = true -> cfg_wfb (cfg_of m a e) = true.
Proof.
  unfold mk_wfb, cfg_wfb, cfg_of; cbn [c_activated c_manager c_status].
  intros H. apply andb_true_iff in H. destruct H as [H1 H2].
  apply andb_true_iff. split.
  - destruct (mk_activated m); [|reflexivity]. cbn [implb] in H1 |- *.
    destruct (mk_manager m); [discriminate|]. reflexivity.
  - destruct (mk_status m); cbn [is_active] in H2; cbn; auto.
Qed.

(** A call that is let through is justified on the marker it names. *)
Lemma hstep_justified s o s' :
  hwfb s = true -> hstep s o = (s', Done) ->
  let m := get (ho_on o) s in
  req_met (cfg_of m (ho_caller o) (ho_env o)) (documented (ho_op o) (mk_status m) (mk_type m)) = true.
Proof.
  intros Hwf H. cbv zeta. unfold hstep in H.
  destruct (decide (cfg_of (get (ho_on o) s) (ho_caller o) (ho_env o)) (ho_op o)) eqn:Ed;
    try (inversion H; fail).
  apply (decide_documented _ _) in Ed; [exact Ed|].
  apply cfg_of_wf. unfold hwfb in Hwf. apply andb_true_iff in Hwf.
  destruct (ho_on o); cbn [get]; tauto.
Qed.

Lemma with_status_wf m st : mk_wfb m = true -> mk_wfb (with_status m st) = true.
Proof.
  unfold mk_wfb, with_status; cbn [mk_activated mk_manager mk_status].
  intros H. apply andb_true_iff in H. destruct H as [H1 H2].
  destruct st; cbn [is_active]; rewrite ?orb_false_r, ?orb_true_r; cbn [implb andb];
    destruct (mk_activated m), (mk_manager m); cbn in *; auto.
Qed.

Lemma apply_op_wf m o : mk_wfb m = true -> mk_wfb (apply_op m o) = true.
Proof.
  intros H. unfold apply_op. destruct (ho_op o); auto using with_status_wf.
Qed.

Lemma hstep_wf s o : hwfb s = true -> hwfb (fst (hstep s o)) = true.
Proof.
  intros H. unfold hstep.
  destruct (decide _ _); cbn [fst]; auto.
  destruct (request_ok _ _); cbn [fst]; auto.
  unfold hwfb in *. apply andb_true_iff in H. destruct H as [Ha Hb].
  destruct (ho_on o); cbn [set get h_a h_b]; apply andb_true_iff; split; auto using apply_op_wf.
Qed.

(** The other marker is neither read nor written. *)
Lemma hstep_frame s o m' :
  get (other (ho_on o)) (fst (hstep s o)) = get (other (ho_on o)) s /\
  hstep (set (other (ho_on o)) m' s) o =
    (set (other (ho_on o)) m' (fst (hstep s o)), snd (hstep s o)).
Proof.
  unfold hstep. destruct (ho_on o) eqn:Ew; cbn [other get set h_a h_b];
    destruct (decide _ _); cbn [fst snd]; try (split; reflexivity);
    destruct (request_ok _ _); cbn [fst snd h_a h_b]; split; reflexivity.
Qed.

(** * Histories *)

Lemma hrun_wf ops : forall s, hwfb s = true -> hwfb (snd (hrun s ops)) = true.
Proof.
  induction ops as [|o ops IH]; intros s H; cbn [hrun]; [exact H|].
  destruct (hstep s o) as [s' out] eqn:Es. destruct (hrun s' ops) as [tr sf] eqn:Er. cbn [snd].
  specialize (IH s'). rewrite Er in IH. apply IH.
  pose proof (hstep_wf s o H) as Hw. rewrite Es in Hw. exact Hw.
Qed.

(** Every call that is let through, anywhere in a history, is justified by the rights the caller
    holds ON THE MARKER THE CALL NAMES at that moment (or by a documented alternative). *)
Lemma hrun_justified ops : forall s, hwfb s = true -> forallb justified (fst (hrun s ops)) = true.
Proof.
  induction ops as [|o ops IH]; intros s H; cbn [hrun]; [reflexivity|].
  destruct (hstep s o) as [s' out] eqn:Es. destruct (hrun s' ops) as [tr sf] eqn:Er.
  cbn [fst forallb]. apply andb_true_iff. split.
  - unfold justified. cbn [he_out he_op he_before].
    destruct out; try reflexivity.
    apply (hstep_justified s o s' H Es).
  - specialize (IH s'). rewrite Er in IH. apply IH.
    pose proof (hstep_wf s o H) as Hw. rewrite Es in Hw. exact Hw.
Qed.

(** Non-interference: marker A after a history is marker A after the calls naming A alone, with the
    same outcomes: no right granted or revoked on B, and no status change of B, matters to A. *)
Lemma hrun_projection w ops : forall s,
  get w (snd (hrun s ops)) = get w (snd (hrun s (filter (on_marker w) ops))) /\
  map he_out (filter (fun e => on_marker w (he_op e)) (fst (hrun s ops))) =
  map he_out (fst (hrun s (filter (on_marker w) ops))).
Proof.
  assert (Hgen : forall ops s t, get w s = get w t ->
            get w (snd (hrun s ops)) = get w (snd (hrun t (filter (on_marker w) ops))) /\
            map he_out (filter (fun e => on_marker w (he_op e)) (fst (hrun s ops))) =
            map he_out (fst (hrun t (filter (on_marker w) ops)))).
  { clear ops. induction ops as [|o ops IH]; intros s t Hst; cbn [hrun filter]; [split; [exact Hst|reflexivity]|].
    destruct (hstep s o) as [s' out] eqn:Es. destruct (hrun s' ops) as [tr sf] eqn:Er.
    cbn [fst snd filter he_op].
    destruct (on_marker w o) eqn:Eon.
    - (* a call on w: same decision in s and t *)
      assert (Hw : ho_on o = w) by (unfold on_marker in Eon; destruct w, (ho_on o); congruence).
      cbn [hrun].
      destruct (hstep t o) as [t' out'] eqn:Et. destruct (hrun t' (filter (on_marker w) ops)) as [tr' tf] eqn:Er'.
      cbn [fst snd map he_out].
      assert (Hsame : out = out' /\ get w s' = get w t').
      { unfold hstep in Es, Et. rewrite Hw in Es, Et. rewrite <- Hst in Et.
        destruct (decide _ _).
        - inversion Es; inversion Et; subst. auto.
        - inversion Es; inversion Et; subst. auto.
        - destruct (request_ok _ _).
          + inversion Es; inversion Et; subst. rewrite !get_set_same. auto.
          + inversion Es; inversion Et; subst. auto. }
      destruct Hsame as [<- Hst'].
      specialize (IH s' t' Hst'). rewrite Er, Er' in IH. cbn [fst snd] in IH.
      destruct IH as [IH1 IH2]. split; [exact IH1|]. f_equal. exact IH2.
    - (* a call on the other marker: w is untouched *)
      assert (Hw : other (ho_on o) = w) by (unfold on_marker in Eon; destruct w, (ho_on o); cbn [other]; congruence).
      pose proof (hstep_frame s o (get (other (ho_on o)) s)) as [Hfr _].
      rewrite Es in Hfr. cbn [fst] in Hfr. rewrite Hw in Hfr.
      assert (Hst' : get w s' = get w t) by congruence.
      specialize (IH s' t Hst'). rewrite Er in IH. cbn [fst snd] in IH. exact IH. }
  intros s. apply Hgen. reflexivity.
Qed.

(** * Changes of the access list take effect at once *)

Definition is_add (o : op) : bool := match o with OAddAccess | OSetAdministrator => true | _ => false end.
Definition is_del (o : op) : bool := match o with ODeleteAccess | ORemoveAdministrator => true | _ => false end.

Lemma hstep_done s o s' :
  hstep s o = (s', Done) -> s' = set (ho_on o) (apply_op (get (ho_on o) s) o) s.
Proof.
  unfold hstep. destruct (decide _ _); try (intros H; inversion H; fail).
  destruct (request_ok _ _); intros H; inversion H. reflexivity.
Qed.

Lemma added_rights_hold_at_once s o s' a e :
  hstep s o = (s', Done) -> is_add (ho_op o) = true ->
  c_rights (cfg_of (get (ho_on o) s') a e) =
  if N.eqb a (ho_target o)
  then N.lor (c_rights (cfg_of (get (ho_on o) s) a e)) (ho_mask o)
  else c_rights (cfg_of (get (ho_on o) s) a e).
Proof.
  intros H Hadd. rewrite (hstep_done s o s' H), get_set_same.
  unfold apply_op. destruct (ho_op o); try discriminate; cbn [cfg_of c_rights with_access mk_access];
    (destruct (N.eqb_spec a (ho_target o)) as [->|Hne];
     [apply rights_of_grant_same | apply rights_of_grant_other; apply N.eqb_neq; exact Hne]).
Qed.

Lemma revoked_rights_gone_at_once s o s' e :
  hstep s o = (s', Done) -> is_del (ho_op o) = true ->
  c_rights (cfg_of (get (ho_on o) s') (ho_target o) e) = 0.
Proof.
  intros H Hdel. rewrite (hstep_done s o s' H), get_set_same.
  unfold apply_op. destruct (ho_op o); try discriminate; cbn [cfg_of c_rights with_access mk_access];
    apply rights_of_revoke_same.
Qed.

Lemma req_met_without_rights c r :
  c_rights c = 0 -> req_met c r = true -> via_alternative c r = true.
Proof.
  intros H0. unfold req_met, via_alternative. destruct r as [|rs alts]; [auto|].
  rewrite H0. intros H. apply orb_true_iff in H. destruct H as [H|H]; [|exact H].
  exfalso. induction rs as [|x rs IH]; cbn [existsb] in H; [discriminate|].
  apply orb_true_iff in H. destruct H as [H|H]; [|auto].
  unfold has in H. rewrite N.bits_0 in H. discriminate.
Qed.

(** After an accepted DeleteAccess (or RemoveAdministrator proposal) the very next call of the
    revoked address on that marker -- whatever it is -- is let through only by a documented
    alternative (manager of a never activated marker, governance, whole supply), never by a right. *)
Lemma revoked_rights_stop_at_once s o s' o2 s2 :
  hwfb s = true -> hstep s o = (s', Done) -> is_del (ho_op o) = true ->
  ho_on o2 = ho_on o -> ho_caller o2 = ho_target o -> hstep s' o2 = (s2, Done) ->
  let m := get (ho_on o2) s' in
  via_alternative (cfg_of m (ho_caller o2) (ho_env o2)) (documented (ho_op o2) (mk_status m) (mk_type m)) = true.
Proof.
  intros Hwf H Hdel Hon Hc H2. cbv zeta.
  assert (Hwf' : hwfb s' = true) by (pose proof (hstep_wf s o Hwf) as X; rewrite H in X; exact X).
  pose proof (hstep_justified s' o2 s2 Hwf' H2) as Hj. cbv zeta in Hj.
  apply req_met_without_rights; [|exact Hj].
  rewrite Hon, Hc. apply (revoked_rights_gone_at_once s o s' _ H Hdel).
Qed.

(** Rights on marker B do not help on marker A: whatever B's access list says, a call on A is
    decided by A alone. *)
Lemma rights_on_other_marker_useless s o mb :
  snd (hstep (set (other (ho_on o)) mb s) o) = snd (hstep s o).
Proof.
  pose proof (hstep_frame s o mb) as [_ H]. rewrite H. reflexivity.
Qed.

Lemma revoked_rights_summary s o s' o2 s2 :
  hwfb s = true -> hstep s o = (s', Done) -> is_del (ho_op o) = true ->
  ho_on o2 = ho_on o -> ho_caller o2 = ho_target o -> hstep s' o2 = (s2, Done) ->
  c_rights (cfg_of (get (ho_on o2) s') (ho_caller o2) (ho_env o2)) = 0%N /\
  let m := get (ho_on o2) s' in
  via_alternative (cfg_of m (ho_caller o2) (ho_env o2)) (documented (ho_op o2) (mk_status m) (mk_type m)) = true.
Proof.
  intros Hwf H Hdel Hon Hc H2. split.
  - rewrite Hon, Hc. exact (revoked_rights_gone_at_once s o s' _ H Hdel).
  - exact (revoked_rights_stop_at_once s o s' o2 s2 Hwf H Hdel Hon Hc H2).
Qed.

(** Along every history: once a marker has been active, nobody is its manager any more -- no call on
    it is decided with the manager flag set (manager semantics end at activation). *)
Lemma wf_no_manager_after_activation m a e :
  mk_wfb m = true -> mk_activated m = true -> c_manager (cfg_of m a e) = false.
Proof.
  unfold mk_wfb, cfg_of; cbn [c_manager]. intros H Ha. rewrite Ha in H.
  destruct (mk_manager m); cbn in H |- *; [discriminate|reflexivity].
Qed.

Definition no_manager_once_activated (ev : hevent) : bool :=
  let m := get (ho_on (he_op ev)) (he_before ev) in
  implb (mk_activated m) (negb (c_manager (cfg_of m (ho_caller (he_op ev)) (ho_env (he_op ev))))).

Lemma hrun_no_manager_after_activation ops : forall s,
  hwfb s = true -> forallb no_manager_once_activated (fst (hrun s ops)) = true.
Proof.
  induction ops as [|o ops IH]; intros s H; cbn [hrun]; [reflexivity|].
  destruct (hstep s o) as [s' out] eqn:Es. destruct (hrun s' ops) as [tr sf] eqn:Er.
  cbn [fst forallb]. apply andb_true_iff. split.
  - unfold no_manager_once_activated. cbn [he_op he_before].
    destruct (mk_activated (get (ho_on o) s)) eqn:Ea; [|reflexivity]. cbn [implb].
    rewrite wf_no_manager_after_activation; [reflexivity| |exact Ea].
    unfold hwfb in H. apply andb_true_iff in H. destruct (ho_on o); cbn [get]; tauto.
  - specialize (IH s'). rewrite Er in IH. apply IH.
    pose proof (hstep_wf s o H) as Hw. rewrite Es in Hw. exact Hw.
Qed.
