(** The C15 statements over histories in which the parameters change (MsgUpdateParams) and
    records are imported (InitGenesis): Name/NameMsgs.v.  Everything is a corollary of the
    invariant [pinv] (Proofs/NameMsgsProofs.v) and of the any-state lemmas of Proofs/NameProofs.v. *)
From Coq Require Import Arith NArith List String Ascii Bool Lia.
From PV Require Import Name.Name Name.NameMsgs Proofs.NameProofs Proofs.NameMsgsProofs.
Import ListNotations.
Open Scope string_scope.
Open Scope list_scope.

Section History.
  Variable hash : string -> string.

  (** ownership of the four name messages, judged under the parameters IN FORCE, after any
      history of name messages, parameter updates and genesis imports *)
  Lemma ownership_params : forall p0 allow0 (ms : list msg) (o : op),
    let ps := prun hash p0 allow0 ms in
    let p := ps_p ps in
    let s := ps_s ps in
    let ps' := fst (pstep hash ps (MOp o)) in
    let s' := ps_s ps' in
    ps_p ps' = p /\ ps_allow ps' = ps_allow ps /\
    (snd (pstep hash ps (MOp o)) = Err -> s' = s) /\
    (snd (pstep hash ps (MOp o)) = Ok ->
     match o with
     | OpCreateRoot signer name owner restr =>
         signer = gov_authority /\ get_record hash s name = None /\
         (forall k r, rget s k = Some r -> rget s' k = Some r) /\
         (forall k r, rget s' k = Some r ->
            rget s k = Some r \/ (rget s k = None /\ r_addr r = owner /\ r_restricted r = restr))
     | OpBind parent signer child owner restr =>
         exists prec name k,
           get_record hash s parent = Some prec /\
           (r_restricted prec = true -> r_addr prec = signer) /\
           normalize p (child ++ "." ++ parent) = Some name /\
           name_key hash name = Some k /\ rget s k = None /\
           rget s' k = Some {| r_name := name; r_addr := owner; r_restricted := restr |} /\
           (forall k', k' <> k -> rget s' k' = rget s k')
     | OpModify signer name owner restr =>
         exists ex n k,
           get_record hash s name = Some ex /\ (signer = gov_authority \/ signer = r_addr ex) /\
           normalize p name = Some n /\ name_key hash n = Some k /\
           rget s' k = Some {| r_name := n; r_addr := owner; r_restricted := restr |} /\
           (forall k', k' <> k -> rget s' k' = rget s k')
     | OpDelete name signer =>
         exists ex n k,
           normalize p name = Some n /\ name_key hash n = Some k /\
           rget s k = Some ex /\ r_addr ex = signer /\
           rget s' k = None /\ (forall k', k' <> k -> rget s' k' = rget s k')
     end).
  Proof.
    intros p0 allow0 ms o ps p s ps' s'.
    destruct (pstep_op hash ps o) as [Hfst Hsnd].
    subst ps' s'. rewrite Hfst, Hsnd. cbn [ps_p ps_allow ps_s].
    split; [reflexivity|]. split; [reflexivity|].
    exact (ownership_step hash p s o).
  Qed.

  Lemma index_agrees_params : forall p0 allow0 (ms : list msg) (a : addr),
    let s := ps_s (prun hash p0 allow0 ms) in
    (forall k, iget s (a, k) =
               match rget s k with
               | Some r => if N.eqb (r_addr r) a then Some r else None
               | None => None
               end) /\
    (forall n, In n (reverse_lookup s a) <->
               exists k r, rget s k = Some r /\ r_addr r = a /\ r_name r = n).
  Proof. intros p0 allow0 ms a. exact (index_agrees_inv hash stored_any _ a (prun_inv hash p0 allow0 ms)). Qed.

  Lemma lookups_agree_params : forall p0 allow0 (ms : list msg) (a : addr) (n : string),
    let s := ps_s (prun hash p0 allow0 ms) in
    (In n (reverse_lookup s a) -> resolves_to hash s n a = true) /\
    (resolves_to hash s n a = true ->
       In n (reverse_lookup s a) \/
       exists n', n' <> n /\ In n' (reverse_lookup s a) /\ name_key hash n' = name_key hash n).
  Proof. intros p0 allow0 ms a n. exact (lookups_agree_up_to_key_inv hash stored_any _ a n (prun_inv hash p0 allow0 ms)). Qed.

  (** what a lookup returns: a record whose stored name has the queried name's key and was valid
      under the parameters in force WHEN IT WAS WRITTEN (not necessarily now) *)
  Lemma lookup_params : forall p0 allow0 (ms : list msg) (n : string) (r : record),
    get_record hash (ps_s (prun hash p0 allow0 ms)) n = Some r ->
    name_key hash (r_name r) = name_key hash n /\ (exists p', valid p' (r_name r)) /\
    (r_name r = n \/ (r_name r <> n /\ name_key hash (r_name r) = name_key hash n)).
  Proof.
    intros p0 allow0 ms n r H.
    destruct (lookup_up_to_key_inv hash stored_any _ _ _ (prun_inv hash p0 allow0 ms) H) as [H1 [[p' [raw Hraw]] H3]].
    split; [exact H1|]. split; [|exact H3].
    exists p'. exact (normalize_idem _ _ _ Hraw).
  Qed.
End History.
