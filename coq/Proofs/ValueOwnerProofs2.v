(** Proofs about [PV.Metadata.ValueOwner] (property C09), part 2: mint / burn, SetScopeValueOwner,
    the grouped sends of the bulk endpoints, multi-send delivery, the release of quarantined funds. *)
From Coq Require Import ZArith NArith List Bool Lia.
From PV Require Import Metadata.ValueOwner Proofs.ValueOwnerProofs.
Import ListNotations.
Open Scope Z_scope.

Lemma bankinv_wk s : BankInv s -> Wk s.
Proof. intros HB d. destruct (HB d) as [(_ & Ht)|(_ & h & Ht)]; [left; exact Ht|right; exists h; exact Ht]. Qed.

(** What the transfers of one operation leave untouched besides balances, supplies and records. *)
Definition env_eq (s s' : state) : Prop :=
  scopes s' = scopes s /\ markers s' = markers s /\ sanctioned s' = sanctioned s /\
  qopt s' = qopt s /\ qauto s' = qauto s.

Lemma env_eq_refl s : env_eq s s.
Proof. repeat split. Qed.
Lemma env_eq_trans a b c : env_eq a b -> env_eq b c -> env_eq a c.
Proof. intros (H1 & H2 & H3 & H4 & H5) (G1 & G2 & G3 & G4 & G5). repeat split; congruence. Qed.
Lemma frame_env s s' : frame s s' -> env_eq s s'.
Proof. intros (H1 & _ & _ & H4 & _ & _ & _ & H8 & H9 & H10 & _). repeat split; assumption. Qed.
Lemma env_qdest s s' f t : env_eq s s' -> qdest s' f t = qdest s f t.
Proof. intros (_ & _ & _ & Ho & Ha). unfold qdest, quarantines, is_auto. rewrite Ho, Ha. reflexivity. Qed.

(** ** Holders *)
Lemma holder_single s d h : tok s d = [(h, 1)] -> holder s d = Some h.
Proof. intros H. unfold holder, value_owner. rewrite H. reflexivity. Qed.

Lemma holder_inv s d h : BankInv s -> holder s d = Some h -> tok s d = [(h, 1)].
Proof.
  intros HB. unfold holder, value_owner.
  destruct (HB d) as [(_ & Ht)|(_ & x & Ht)]; rewrite Ht; cbn; [discriminate|]. intros [= ->]. reflexivity.
Qed.

Lemma holder_nil s d : tok s d = [] -> holder s d = None.
Proof. intros H. unfold holder, value_owner. rewrite H. reflexivity. Qed.

Lemma holder_same s s' d : tok s' d = tok s d -> holder s' d = holder s d.
Proof. intros H. unfold holder, value_owner. rewrite H. reflexivity. Qed.

(** ** Mint and burn *)
Lemma mint_spec s d :
  BankInv s -> tok s d = [] ->
  let s1 := bank_mint s d 1 in
  Wk s1 /\ tok s1 d = [(MODULE, 1)] /\ (forall d', d' <> d -> tok s1 d' = tok s d') /\
  sup s1 d = 1 /\ (forall d', d' <> d -> sup s1 d' = sup s d') /\ env_eq s s1 /\ qrecs s1 = qrecs s.
Proof.
  intros HB Ht. cbn zeta.
  assert (Hs : sup s d = 0) by (destruct (HB d) as [(Hs & _)|(_ & h & Hh)]; [exact Hs|congruence]).
  assert (Htok : forall d', tok (bank_mint s d 1) d' = if N.eqb d' d then [(MODULE, 1)] else tok s d').
  { intros d'. unfold bank_mint, bank_add. unfold tok at 1. cbn [toks with_sups with_toks].
    rewrite get_put. destruct (N.eqb d' d); [|reflexivity].
    rewrite Ht. cbn [bal_of find]. rewrite set_bal_nil by discriminate. reflexivity. }
  assert (Hsup : forall d', sup (bank_mint s d 1) d' = if N.eqb d' d then 1 else sup s d').
  { intros d'. unfold bank_mint. rewrite sup_put. destruct (N.eqb d' d); [|reflexivity].
    unfold bank_add. rewrite (sup_same s (with_toks s _) d) by reflexivity. rewrite Hs. reflexivity. }
  split; [|split; [|split; [|split; [|split; [|split; [repeat split|reflexivity]]]]]].
  - intros d'. rewrite Htok. destruct (N.eqb d' d); [right; exists MODULE; reflexivity|].
    apply bankinv_wk. exact HB.
  - rewrite Htok, N.eqb_refl. reflexivity.
  - intros d' Hne. rewrite Htok. apply N.eqb_neq in Hne. rewrite Hne. reflexivity.
  - rewrite Hsup, N.eqb_refl. reflexivity.
  - intros d' Hne. rewrite Hsup. apply N.eqb_neq in Hne. rewrite Hne. reflexivity.
Qed.

Lemma burn_spec s d s' :
  bank_burn s d 1 = Some s' -> (exists x, tok s d = [(x, 1)]) -> sup s d = 1 ->
  tok s d = [(MODULE, 1)] /\ tok s' d = [] /\ sup s' d = 0 /\
  (forall d', d' <> d -> tok s' d' = tok s d' /\ sup s' d' = sup s d') /\ env_eq s s' /\ qrecs s' = qrecs s.
Proof.
  unfold bank_burn, bank_sub. intros H (x & Ht) Hs. rewrite Ht, bal_of_single in H.
  destruct (N.eqb_spec x MODULE) as [Heq|Hne]; [subst x|cbn in H; discriminate].
  cbn [Z.ltb Z.compare Pos.compare Pos.compare_cont] in H. replace (1 - 1) with 0 in H by reflexivity.
  rewrite set_bal_single_zero in H. injection H as <-.
  assert (Htok : forall d', tok (with_sups (with_toks s (put (toks s) d []))
                                  (put (sups (with_toks s (put (toks s) d []))) d
                                       (sup (with_toks s (put (toks s) d [])) d - 1))) d' =
                            if N.eqb d' d then [] else tok s d').
  { intros d'. unfold tok at 1. cbn [toks with_sups with_toks]. rewrite get_put.
    destruct (N.eqb d' d); reflexivity. }
  assert (Hsup : forall d', sup (with_sups (with_toks s (put (toks s) d []))
                                  (put (sups (with_toks s (put (toks s) d []))) d
                                       (sup (with_toks s (put (toks s) d [])) d - 1))) d' =
                            if N.eqb d' d then 0 else sup s d').
  { intros d'. rewrite sup_put. destruct (N.eqb d' d); [|reflexivity].
    rewrite (sup_same s (with_toks s _) d) by reflexivity. rewrite Hs. reflexivity. }
  split; [exact Ht|]. split; [rewrite Htok, N.eqb_refl; reflexivity|].
  split; [rewrite Hsup, N.eqb_refl; reflexivity|]. split; [|split; [repeat split|reflexivity]].
  intros d' Hne. rewrite Htok, Hsup. apply N.eqb_neq in Hne. rewrite Hne. split; reflexivity.
Qed.

Lemma wk_after s s' (l : list sid) x :
  Wk s -> (forall d, tok s' d = if mem d l then [(x, 1)] else tok s d) -> Wk s'.
Proof. intros HW H d. rewrite H. destruct (mem d l); [right; exists x; reflexivity|apply HW]. Qed.

(** One unit of one denom sent. *)
Lemma send_one_spec s from to d agents s' :
  Wk s -> send s from to [(d, 1)] agents false = Some s' ->
  restrict (markers s) from to agents = true /\ mem from (sanctioned s) = false /\ frame s s' /\
  tok s d = [(from, 1)] /\ tok s' d = [(qdest s from to, 1)] /\ (forall d', d' <> d -> tok s' d' = tok s d') /\
  Wk s'.
Proof.
  intros HW H. destruct (send_spec _ _ _ _ _ _ _ HW H) as (Hr & Hs & F & Hall & Ht & _).
  split; [exact Hr|]. split; [exact Hs|]. split; [exact F|].
  split; [apply (Hall (d, 1)); left; reflexivity|].
  cbn [denoms map fst] in Ht. split; [|split].
  - rewrite Ht, mem_cons, N.eqb_refl. reflexivity.
  - intros d' Hne. rewrite Ht, mem_cons. apply N.eqb_neq in Hne. rewrite Hne. reflexivity.
  - eapply wk_after; [exact HW|exact Ht].
Qed.

(** ** SetScopeValueOwner *)
Lemma set_vo_spec s d newvo agents s' :
  BankInv s -> set_vo s d newvo agents = Some s' ->
  env_eq s s' /\
  (forall d', d' <> d -> tok s' d' = tok s d' /\ sup s' d' = sup s d') /\
  ((value_owner s d = newvo /\ tok s' d = tok s d /\ sup s' d = sup s d) \/
   (exists p, newvo = Some p /\ tok s d = [] /\ tok s' d = [(qdest s MODULE p, 1)] /\ sup s' d = 1 /\
              restrict (markers s) MODULE p agents = true) \/
   (exists h p, newvo = Some p /\ h <> p /\ tok s d = [(h, 1)] /\ tok s' d = [(qdest s h p, 1)] /\
                sup s' d = sup s d /\ restrict (markers s) h p agents = true /\ mem h (sanctioned s) = false) \/
   (exists h, newvo = None /\ tok s d = [(h, 1)] /\ tok s' d = [] /\ sup s' d = 0 /\ qdest s h MODULE = MODULE /\
              restrict (markers s) h MODULE agents = true /\ mem h (sanctioned s) = false)).
Proof.
  intros HB. unfold set_vo.
  destruct (match newvo with Some p => mem p (blocked s) | None => false end); [discriminate|].
  unfold value_owner.
  destruct (HB d) as [(Hs & Ht)|(Hs & h & Ht)]; rewrite Ht; cbn [denom_owner].
  - (* no token yet *)
    destruct newvo as [p|]; cbn [opt_addr_eqb].
    + destruct (mint_spec s d HB Ht) as (HW1 & Ht1 & Ho1 & Hs1 & Hso1 & E1 & _).
      destruct (send (bank_mint s d 1) MODULE p [(d, 1)] agents false) as [s2|] eqn:E; [|discriminate].
      intros [= <-]. destruct (send_one_spec _ _ _ _ _ _ HW1 E) as (Hr & _ & F & _ & Ht2 & Ho2 & _).
      split; [eapply env_eq_trans; [exact E1|apply frame_env; exact F]|]. split.
      * intros d' Hne. rewrite (Ho2 d' Hne), (Ho1 d' Hne), (sup_same _ _ d' (frame_sups _ _ F)), (Hso1 d' Hne).
        split; reflexivity.
      * right. left. exists p. split; [reflexivity|]. split; [first [exact Ht|reflexivity]|].
        split; [rewrite Ht2; rewrite (env_qdest _ _ _ _ E1); reflexivity|].
        split; [rewrite (sup_same _ _ d (frame_sups _ _ F)); exact Hs1|].
        destruct E1 as (_ & Hm & _). rewrite <- Hm. exact Hr.
    + intros [= <-]. split; [apply env_eq_refl|]. split; [intros; split; reflexivity|].
      left. split; [reflexivity|]. split; [rewrite Ht; reflexivity|reflexivity].
  - (* held by h *)
    destruct newvo as [p|]; cbn [opt_addr_eqb].
    + destruct (N.eqb_spec h p) as [->|Hne].
      * intros [= <-]. split; [apply env_eq_refl|]. split; [intros; split; reflexivity|].
        left. split; [reflexivity|]. split; [rewrite Ht; reflexivity|reflexivity].
      * destruct (send s h p [(d, 1)] agents false) as [s2|] eqn:E; [|discriminate]. intros [= <-].
        destruct (send_one_spec _ _ _ _ _ _ (bankinv_wk _ HB) E) as (Hr & Hsa & F & _ & Ht2 & Ho2 & _).
        split; [apply frame_env; exact F|]. split.
        -- intros d' Hd. rewrite (Ho2 d' Hd), (sup_same _ _ d' (frame_sups _ _ F)). split; reflexivity.
        -- right. right. left. exists h, p. split; [reflexivity|]. split; [exact Hne|]. split; [first [exact Ht|reflexivity]|].
           split; [exact Ht2|]. split; [apply sup_same; apply frame_sups; exact F|]. split; assumption.
    + destruct (send s h MODULE [(d, 1)] agents false) as [s2|] eqn:E; [|discriminate]. intros Hb.
      destruct (send_one_spec _ _ _ _ _ _ (bankinv_wk _ HB) E) as (Hr & Hsa & F & _ & Ht2 & Ho2 & _).
      assert (Hs2 : sup s2 d = 1) by (rewrite (sup_same _ _ d (frame_sups _ _ F)); exact Hs).
      destruct (burn_spec _ _ _ Hb (ex_intro _ _ Ht2) Hs2) as (Hm & Ht3 & Hs3 & Ho3 & E3 & _).
      split; [eapply env_eq_trans; [apply frame_env; exact F|exact E3]|]. split.
      * intros d' Hd. destruct (Ho3 d' Hd) as (A & B). rewrite A, B, (Ho2 d' Hd), (sup_same _ _ d' (frame_sups _ _ F)).
        split; reflexivity.
      * right. right. right. exists h. split; [reflexivity|]. split; [first [exact Ht|reflexivity]|]. split; [exact Ht3|].
        split; [exact Hs3|]. split; [|split; assumption]. rewrite Ht2 in Hm. congruence.
Qed.

(** ** Grouped sends of the bulk endpoints *)
Lemma group_In links f d : In d (group links f) <-> In (f, d) links.
Proof.
  unfold group. rewrite in_map_iff. split.
  - intros ([f' d'] & Hd & Hin). cbn in Hd. subst d'. apply filter_In in Hin. destruct Hin as (Hin & He).
    cbn in He. apply N.eqb_eq in He. subst f'. exact Hin.
  - intros H. exists (f, d). split; [reflexivity|]. apply filter_In. split; [exact H|]. cbn. apply N.eqb_refl.
Qed.

(** [moved_from s0 links p agents done s d]: scope [d] is listed under a holder [f] already processed
    and went from [f] to where a transfer from [f] to [p] ends up. *)
Definition grp_moved (s0 : state) (links : list (addr * sid)) (p : addr) (agents : list addr) (done : list addr)
  (s : state) (d : sid) : Prop :=
  exists f, In (f, d) links /\ In f done /\ f <> p /\ tok s0 d = [(f, 1)] /\ tok s d = [(qdest s0 f p, 1)] /\
            restrict (markers s0) f p agents = true /\ mem f (sanctioned s0) = false.
Definition grp_kept (s0 : state) (links : list (addr * sid)) (p : addr) (done : list addr) (s : state) (d : sid) : Prop :=
  (forall f, In (f, d) links -> ~ In f done \/ f = p) /\ tok s d = tok s0 d.

Lemma send_groups_spec s0 links p agents :
  (forall f d, In (f, d) links -> tok s0 d = [(f, 1)]) ->
  forall froms done s s',
  NoDup (done ++ froms) -> Wk s -> frame s0 s ->
  (forall d, grp_moved s0 links p agents done s d \/ grp_kept s0 links p done s d) ->
  send_groups s froms links p agents = Some s' ->
  frame s0 s' /\ Wk s' /\
  (forall d, grp_moved s0 links p agents (done ++ froms) s' d \/ grp_kept s0 links p (done ++ froms) s' d).
Proof.
  intros Hlinks. induction froms as [|f r IH]; intros done s s' ND HW F HR; cbn [send_groups].
  - intros [= <-]. rewrite app_nil_r. auto.
  - assert (ND' : NoDup ((done ++ [f]) ++ r)) by (rewrite <- app_assoc; exact ND).
    assert (Hf : ~ In f done).
    { intros Hin. apply NoDup_remove_2 in ND. apply ND. apply in_or_app. left. exact Hin. }
    replace (done ++ f :: r) with ((done ++ [f]) ++ r) by (rewrite <- app_assoc; reflexivity).
    destruct (N.eqb_spec f p) as [->|Hfp].
    + (* the proposed owner itself: skipped *)
      apply IH; [exact ND'|exact HW|exact F|].
      intros d. destruct (HR d) as [(f0 & A & B & C)|(A & B)].
      * left. exists f0. split; [exact A|]. split; [apply in_or_app; left; exact B|exact C].
      * right. split; [|exact B]. intros f0 Hin. destruct (A f0 Hin) as [Hn| ->]; [|right; reflexivity].
        destruct (N.eq_dec f0 p) as [->|Hne]; [right; reflexivity|]. left. intros Hx.
        apply in_app_or in Hx. destruct Hx as [Hx|[Hx|[]]]; [contradiction|congruence].
    + destruct (send s f p (ones (group links f)) agents false) as [s1|] eqn:E; [|discriminate]. intros H.
      destruct (send_spec _ _ _ _ _ _ _ HW E) as (Hr & Hs & F1 & Hall & Ht & _).
      rewrite denoms_ones in Ht. cbn [dest] in Ht.
      assert (HW1 : Wk s1) by (eapply wk_after; [exact HW|exact Ht]).
      apply (IH (done ++ [f]) s1 s' ND' HW1 (frame_trans _ _ _ F F1)); [|exact H].
      intros d. specialize (Ht d). destruct (mem d (group links f)) eqn:Em.
      * apply mem_In in Em. apply group_In in Em. left. exists f. split; [exact Em|].
        split; [apply in_or_app; right; left; reflexivity|]. split; [exact Hfp|].
        split; [apply Hlinks; exact Em|]. split; [rewrite Ht, (frame_qdest _ _ _ _ F); reflexivity|].
        split; [rewrite <- (frame_markers _ _ F); exact Hr|rewrite <- (frame_sanctioned _ _ F); exact Hs].
      * destruct (HR d) as [(f0 & A & B & C & D & G & I)|(A & B)].
        -- left. exists f0. split; [exact A|]. split; [apply in_or_app; left; exact B|].
           split; [exact C|]. split; [exact D|]. split; [rewrite Ht; exact G|exact I].
        -- right. split; [|rewrite Ht; exact B]. intros f0 Hin. destruct (A f0 Hin) as [Hn| ->]; [|right; reflexivity].
           left. intros Hx. apply in_app_or in Hx. destruct Hx as [Hx|[Hx|[]]]; [contradiction|]. subst f0.
           apply group_In in Hin. apply mem_In in Hin. congruence.
Qed.

(** ** Multi-send delivery *)
Lemma denoms_flat outs : denoms (flat_map (fun o : addr * list sid => ones (snd o)) outs) = flat_map snd outs.
Proof.
  induction outs as [|[to ds] r IH]; [reflexivity|]. cbn [flat_map snd]. unfold denoms in *.
  rewrite map_app, IH. f_equal. apply denoms_ones.
Qed.

Definition dlv_moved (sx : state) (from : addr) (outs : list (addr * list sid)) (s : state) (d : sid) : Prop :=
  exists to ds, In (to, ds) outs /\ In d ds /\ tok s d = [(qdest sx from to, 1)] /\
                restrict (markers sx) from to [] = true /\ mem from (sanctioned sx) = false.

Lemma deliver_spec from : forall outs sx s',
  NoDup (flat_map snd outs) -> (forall d, In d (flat_map snd outs) -> tok sx d = []) ->
  deliver sx from outs = Some s' ->
  frame sx s' /\
  forall d, (In d (flat_map snd outs) /\ dlv_moved sx from outs s' d) \/
            (~ In d (flat_map snd outs) /\ tok s' d = tok sx d).
Proof.
  induction outs as [|[to ds] r IH]; intros sx s' ND Hnil; cbn [deliver].
  - intros [= <-]. split; [apply frame_refl|]. intros d. right. split; [intros []|reflexivity].
  - destruct (apply_restrictions sx from to (ones ds) [] false) as [[s1 to']|] eqn:Ea; [|discriminate]. intros H.
    destruct (apply_restrictions_spec _ _ _ _ _ _ _ _ Ea) as (Hr & Hs & Hto & F1 & T1 & _). cbn [dest] in Hto. subst to'.
    cbn [flat_map snd] in ND, Hnil.
    destruct (NoDup_app_inv _ _ ND) as (ND1 & ND2 & Hdisj).
    destruct (add_coins_spec (qdest sx from to) (ones ds) s1) as (F2 & _ & Ht2).
    { rewrite denoms_ones. exact ND1. }
    { intros e He. apply (in_ones _ _ He). }
    { intros e He. rewrite (tok_toks _ _ _ T1). apply Hnil. apply in_or_app. left. apply (in_ones _ _ He). }
    rewrite denoms_ones in Ht2.
    set (s2 := add_coins s1 (qdest sx from to) (ones ds)) in *.
    assert (F02 : frame sx s2) by (eapply frame_trans; eassumption).
    destruct (IH s2 s' ND2) as (F3 & HR); [|exact H|].
    { intros d Hd. rewrite Ht2. destruct (mem d ds) eqn:Em.
      - apply mem_In in Em. exfalso. apply (Hdisj d Em Hd).
      - rewrite (tok_toks _ _ _ T1). apply Hnil. apply in_or_app. right. exact Hd. }
    split; [eapply frame_trans; eassumption|]. cbn [flat_map snd].
    intros d. destruct (HR d) as [(Hin & (to2 & ds2 & A & B & C & D & E))|(Hnin & Hsame)].
    + left. split; [apply in_or_app; right; exact Hin|]. exists to2, ds2. split; [right; exact A|].
      split; [exact B|]. split; [rewrite C; rewrite (frame_qdest _ _ _ _ F02); reflexivity|].
      split; [rewrite <- (frame_markers _ _ F02); exact D|rewrite <- (frame_sanctioned _ _ F02); exact E].
    + rewrite Ht2 in Hsame. destruct (mem d ds) eqn:Em.
      * apply mem_In in Em. left. split; [apply in_or_app; left; exact Em|].
        exists to, ds. split; [left; reflexivity|]. split; [exact Em|]. split; [exact Hsame|]. split; assumption.
      * right. split.
        -- intros Hx. apply in_app_or in Hx. destruct Hx as [Hx|Hx]; [|contradiction].
           apply mem_In in Hx. congruence.
        -- rewrite Hsame. apply tok_toks. exact T1.
Qed.

(** ** Release of quarantined funds *)
Lemma release_all_spec to : forall rs sx s',
  Wk sx -> release_all sx to rs = Some s' ->
  frame sx s' /\ Wk s' /\
  forall d, tok s' d = tok sx d \/
            (exists r, In r rs /\ In d (denoms (q_coins r)) /\ tok sx d = [(QHOLD, 1)] /\ tok s' d = [(to, 1)] /\
                       restrict (markers sx) QHOLD to [] = true /\ mem QHOLD (sanctioned sx) = false).
Proof.
  induction rs as [|r rest IH]; intros sx s' HW; cbn [release_all].
  - intros [= <-]. split; [apply frame_refl|]. split; [exact HW|]. intros d. left. reflexivity.
  - destruct (send sx QHOLD to (q_coins r) [] true) as [s1|] eqn:E; [|discriminate]. intros H.
    destruct (send_spec _ _ _ _ _ _ _ HW E) as (Hr & Hs & F1 & Hall & Ht & _). cbn [dest] in Ht.
    assert (HW1 : Wk s1) by (eapply wk_after; [exact HW|exact Ht]).
    destruct (IH s1 s' HW1 H) as (F2 & HW' & HR).
    split; [eapply frame_trans; eassumption|]. split; [exact HW'|].
    intros d. specialize (Ht d). destruct (mem d (denoms (q_coins r))) eqn:Em.
    + apply mem_In in Em. right. exists r. split; [left; reflexivity|]. split; [exact Em|].
      assert (Hx : tok sx d = [(QHOLD, 1)]).
      { unfold denoms in Em. apply in_map_iff in Em. destruct Em as (e & <- & He). apply Hall. exact He. }
      split; [exact Hx|]. split; [|split; assumption].
      destruct (HR d) as [Hsame|(r' & _ & _ & A & B & _)]; [congruence|]. rewrite Ht in A.
      injection A as ->. exact B.
    + destruct (HR d) as [Hsame|(r' & A & B & C & D & G & I)]; [left; rewrite Hsame; exact Ht|].
      right. exists r'. split; [right; exact A|]. split; [exact B|]. split; [rewrite <- Ht; exact C|]. split; [exact D|].
      split; [rewrite <- (frame_markers _ _ F1); exact G|rewrite <- (frame_sanctioned _ _ F1); exact I].
Qed.
